(* BclFmtIdemProofs.v — C09 idempotence: formatting the formatter's output changes nothing.
   The fragments read back have the same documents (BclFmtRoundProofs), the text of a line is a
   function of the document, the description re-flow is a fixed point (BclReflowProofs), and the
   fragments read back start exactly one line (two when Fmt printed an empty line) after the
   previous one ended (BclWalkPosProofs), so the second run takes the same blank-line decisions. *)
From Coq Require Import String List NArith ZArith Bool Lia ZifyN ZifyNat ZifyBool.
From J5V.lib Require Import Text Outcome.
From J5V.model Require Import BclLexer BclParser BclFmt.
From J5V.proofs Require Import BclPosProofs BclLexerProofs BclLexerCoverProofs BclParserProofs BclWalkCoverProofs
                               BclFmtLitProofs BclLexLitProofs BclFmtSeqProofs BclFragWfProofs BclFmtLineProofs
                               BclWalkBackProofs BclReflowProofs BclFmtFileProofs BclDescGapProofs BclFmtRoundProofs
                               BclLineNoProofs BclWalkPosProofs.
Import ListNotations.
Local Open Scope Z_scope.
Arguments Nat.sub : simpl never.

(* ---- the text of a line is a function of the document ------------------------------------------ *)
Lemma token_source_etok t t' : etok t = etok t' -> token_source t = token_source t'.
Proof. unfold etok, token_source. intros [= -> ->]. reflexivity. Qed.

Lemma ref_text_doc r : Forall id_ok r -> forall r', Forall id_ok r' -> ref_doc r = ref_doc r' ->
  reference_text r = reference_text r'.
Proof.
  intros H r' H' E. unfold reference_text. f_equal. unfold ref_doc in E.
  revert r' H' E. induction H as [|i r [Hty _] _ IH]; intros r' H' E; destruct r' as [|i' r'']; try discriminate; [reflexivity|].
  inversion H' as [|x y [Hty' _] Hr']; subst. cbn [map] in *. injection E as E1 E2. f_equal; [|apply IH; assumption].
  unfold token_source. rewrite Hty, Hty'. exact E1.
Qed.

Lemma value_doc_head v : vlx v -> exists p q, value_doc v = p :: q /\ fst p <> RBRACK.
Proof.
  intros H. inversion H as [t s e _ Hv|vs s e _]; subst; cbn [value_doc]; eexists _, _; (split; [reflexivity|]).
  - cbn. intros E. rewrite E in Hv. discriminate.
  - cbn. discriminate.
Qed.

Definition vdoc_inj (v : value) : Prop := vlx v -> forall v' rest rest', vlx v' ->
  value_doc v ++ rest = value_doc v' ++ rest' -> value_text v = value_text v' /\ rest = rest'.

Lemma elems_text_doc : forall vs, Forall vdoc_inj vs -> Forall (fun v => vlx v /\ v_ends_line v = false) vs ->
  forall vs' rest rest' b, Forall (fun v => vlx v /\ v_ends_line v = false) vs' ->
  (flat_map value_doc vs ++ [(RBRACK, [])]) ++ rest = (flat_map value_doc vs' ++ [(RBRACK, [])]) ++ rest' ->
  sep_concat [44%N; 32%N] (map value_text vs) b = sep_concat [44%N; 32%N] (map value_text vs') b /\ rest = rest'.
Proof.
  induction vs as [|x r IH]; intros Hinj Hlx vs' rest rest' b Hlx' E.
  - destruct vs' as [|x' r'].
    + cbn in E. injection E as E. split; [reflexivity|exact E].
    + exfalso. inversion Hlx' as [|a l [Hx' _] _]; subst. destruct (value_doc_head x' Hx') as (p & q & Hh & Hne).
      cbn [flat_map app] in E. rewrite Hh in E. cbn in E. injection E as E _. apply Hne. rewrite <- E. reflexivity.
  - inversion Hinj as [|a l Hix Hir]; subst. inversion Hlx as [|a l [Hx _] Hlr]; subst.
    destruct vs' as [|x' r'].
    + exfalso. destruct (value_doc_head x Hx) as (p & q & Hh & Hne).
      cbn [flat_map app] in E. rewrite Hh in E. cbn in E. injection E as E _. apply Hne. rewrite E. reflexivity.
    + inversion Hlx' as [|a l [Hx' _] Hlr']; subst. cbn [flat_map] in E. rewrite <- !app_assoc in E.
      destruct (Hix Hx x' _ _ Hx' E) as [Et E2]. rewrite !app_assoc in E2.
      destruct (IH Hir Hlr r' rest rest' false Hlr' E2) as [Er Erest].
      split; [|exact Erest]. cbn [map sep_concat]. rewrite Et, Er. reflexivity.
Qed.

Lemma value_text_doc : forall v, vdoc_inj v.
Proof.
  apply (value_ind' vdoc_inj); unfold vdoc_inj.
  - intros t s e H v' rest rest' H' E. inversion H as [t0 s0 e0 _ Hv|]; subst.
    inversion H' as [t' s' e' _ Hv'|vs' s' e' _]; subst; cbn [value_doc app] in E.
    + injection E as E1 E2 E3. split; [|exact E3]. cbn [value_text]. unfold token_source. rewrite E1, E2. reflexivity.
    + exfalso. injection E as E1 _. rewrite E1 in Hv. discriminate.
  - intros vs s e IH H v' rest rest' H' E. inversion H as [|vs0 s0 e0 Hvs]; subst.
    inversion H' as [t' s' e' _ Hv'|vs' s' e' Hvs']; subst; cbn [value_doc app] in E.
    + exfalso. injection E as E1 _. rewrite <- E1 in Hv'. discriminate.
    + injection E as E. rewrite !value_text_arr.
      destruct (elems_text_doc vs IH Hvs vs' rest rest' true Hvs' E) as [Et Er]. rewrite Et. auto.
Qed.

Lemma value_text_of_doc v v' : vlx v -> vlx v' -> value_doc v = value_doc v' -> value_text v = value_text v'.
Proof.
  intros H H' E. apply (value_text_doc v H v' [] [] H'). rewrite !app_nil_r. exact E.
Qed.

Lemma tag_text_doc t t' : tlx t -> tlx t' -> tag_doc t = tag_doc t' -> tag_text t = tag_text t'.
Proof.
  intros [Hm Hb] [Hm' Hb'] E. unfold tag_doc in E. injection E as Em Ebody. unfold tag_text. f_equal.
  - unfold mark_ok in *. rewrite <- Em in *. destruct (tmark t), (tmark_tok t) as [mt|], (tmark_tok t') as [mt'|]; try contradiction; try reflexivity.
    + destruct Hm as [A B], Hm' as [A' B']. unfold token_source. rewrite A, A', B, B'. reflexivity.
    + destruct Hm as [A B], Hm' as [A' B']. unfold token_source. rewrite A, A', B, B'. reflexivity.
  - destruct (tbody t) as [r|[tk s e|vs s e]], (tbody t') as [r'|[tk' s' e'|vs' s' e']]; try discriminate; try contradiction.
    + injection Ebody as E. apply ref_text_doc; [apply Hb|apply Hb'|exact E].
    + cbn [value_doc] in Ebody. injection Ebody as E1 E2. unfold token_source. rewrite Hb, Hb'. rewrite E2. reflexivity.
Qed.

Lemma cons_inj {A} (a b : A) l l' : a :: l = b :: l' -> a = b /\ l = l'.
Proof. intros H. injection H as -> ->. auto. Qed.

Lemma flat_map_text_doc (f : tag -> list N) (g : tag -> list N) l l' :
  (forall t t', tlx t -> tlx t' -> tag_doc t = tag_doc t' -> f t = f t') ->
  Forall tlx l -> Forall tlx l' -> map tag_doc l = map tag_doc l' -> flat_map f l = flat_map f l'.
Proof.
  intros Hf H. revert l'. induction H as [|t r Ht _ IH]; intros l' H' E; destruct l' as [|t' r']; try discriminate; [reflexivity|].
  inversion H' as [|x y Ht' Hr']; subst. cbn [map] in E. apply cons_inj in E. destruct E as [E1 E2]. cbn [flat_map].
  rewrite (Hf t t' Ht Ht' E1), (IH r' Hr' E2). reflexivity.
Qed.

Lemma inline_comment_doc c c' : comment_doc c = comment_doc c' -> inline_comment c = inline_comment c'.
Proof. destruct c, c'; cbn; try discriminate; [intros [= ->]|]; reflexivity. Qed.

Theorem frag_text_doc f f' : frag_lx f -> frag_lx f' -> fdoc_of f = fdoc_of f' ->
  frag_line_text f = frag_line_text f' /\
  match f, f' with
  | FHeader h, FHeader h' => hopen h = hopen h'
  | FAssign _, FAssign _ | FComment _, FComment _ | FClose _, FClose _ | FDesc _, FDesc _ => True
  | _, _ => False
  end.
Proof.
  destruct f as [h|a|d|t|t], f' as [h'|a'|d'|t'|t']; cbn [fdoc_of frag_lx]; intros Hlx Hlx' E; try discriminate.
  - injection E as E1 E2 E3 E4 E5 E6. split; [|exact E5]. cbn [frag_line_text]. unfold header_text.
    destruct Hlx as (Hr & Ht & Hq & Hc & Hd). destruct Hlx' as (Hr' & Ht' & Hq' & Hc' & Hd').
    rewrite (ref_text_doc _ (proj2 Hr) _ (proj2 Hr') E1).
    rewrite (flat_map_text_doc (fun t => sp ++ tag_text t) (fun t => sp ++ tag_text t) (htags h) (htags h')); auto.
    2:{ intros x y Hx Hy Exy. rewrite (tag_text_doc x y Hx Hy Exy). reflexivity. }
    rewrite (flat_map_text_doc (fun t => 58%N :: tag_text t) (fun t => 58%N :: tag_text t) (hquals h) (hquals h')); auto.
    2:{ intros x y Hx Hy Exy. rewrite (tag_text_doc x y Hx Hy Exy). reflexivity. }
    rewrite E5, (inline_comment_doc _ _ E6). rewrite <- !app_assoc. do 4 f_equal.
    destruct (hdesc h) as [d|], (hdesc h') as [d'|]; try discriminate; [|reflexivity].
    cbn [option_map] in E4. injection E4 as E4.
    destruct Hd as ((t & Hdt & Hty & _) & _ & _ & Hdv). destruct Hd' as ((t' & Hdt' & Hty' & _) & _ & _ & Hdv').
    rewrite Hdt in *. rewrite Hdt' in *. cbn [map join_with flat_map] in *. rewrite !app_nil_r.
    unfold token_source. rewrite Hty, Hty'. rewrite <- Hdv, <- Hdv', E4. reflexivity.
  - injection E as E1 E2 E3 E4. split; [|exact I]. cbn [frag_line_text]. unfold assign_text.
    destruct Hlx as (Hr & Hv & _). destruct Hlx' as (Hr' & Hv' & _).
    rewrite (ref_text_doc _ (proj2 Hr) _ (proj2 Hr') E1), E2, (value_text_of_doc _ _ Hv Hv' E3), (inline_comment_doc _ _ E4).
    reflexivity.
  - split; [reflexivity|exact I].
  - injection E as E1 E2. split; [|exact I]. cbn [frag_line_text]. unfold token_source. rewrite E1, E2. reflexivity.
  - split; [|exact I]. cbn [frag_line_text]. unfold token_source.
    destruct Hlx as [-> ->], Hlx' as [-> ->]. reflexivity.
Qed.

(* ---- the second run ----------------------------------------------------------------------------- *)
Lemma reformat_nil w : reformat_description [] w = [].
Proof. reflexivity. Qed.

Lemma desc_lines_again n d d' : dvalue d' = join_with 10 (desc_lines n d) -> desc_lines n d' = desc_lines n d.
Proof.
  unfold desc_lines. intros E. rewrite E. clear E.
  destruct (reformat_description (dvalue d) (80 - Z.of_nat n * 4)) as [|l r] eqn:Er.
  - cbn [join_with]. rewrite reformat_nil. reflexivity.
  - rewrite <- Er. rewrite (reflow_fixed_point (80 - Z.of_nat n * 4) (dvalue d)). rewrite Er. reflexivity.
Qed.

Lemma flag_eq (first : bool) last last' V from from' : (first = false -> V = last') ->
  from' = V + (if (negb first && (last <? from))%bool then 1 else 0) ->
  (negb first && (last' <? from'))%bool = (negb first && (last <? from))%bool.
Proof.
  intros HV Hf. destruct first; [reflexivity|]. cbn [negb andb] in *. rewrite (HV eq_refl) in Hf. subst from'.
  destruct (last <? from); [apply Z.ltb_lt|apply Z.ltb_ge]; lia.
Qed.

Lemma single_text n ps pe ps' pe' c parts c' parts' :
  parts ++ inline_comment c = parts' ++ inline_comment c' ->
  fd_text (single_line n ps pe c parts) = fd_text (single_line n ps' pe' c' parts').
Proof. intros E. cbn [single_line fd_text]. f_equal. rewrite !app_assoc. f_equal. exact E. Qed.

Lemma fmt_join_again : forall fs fs' n first last V last',
  Forall frag_lx fs -> Forall frag_lx fs' ->
  map fdoc_of fs' = map (fun be => entry_doc (snd be)) (entries fs n first last) ->
  lines_rel V fs' (entries fs n first last) ->
  (first = false -> V = last') ->
  fmt_join (diff_file fs' n) first last' = fmt_join (diff_file fs n) first last.
Proof.
  induction fs as [|f r IH]; intros fs' n first last V last' Hlx Hlx' Hdocs Hlines HV.
  - destruct fs'; [reflexivity|discriminate].
  - inversion Hlx as [|x y Hf Hr]; subst. destruct fs' as [|f' r']; [destruct f; discriminate|].
    inversion Hlx' as [|x y Hf' Hr']; subst.
    destruct f as [h|a|d|t|t]; cbn [entries map snd entry_doc] in Hdocs; apply cons_inj in Hdocs; destruct Hdocs as [Hd Hdr];
      cbn [entries lines_rel] in Hlines; destruct Hlines as [Hstart Hrest].
    + destruct (frag_text_doc f' (FHeader h) Hf' Hf Hd) as [Ht Hk]. destruct f' as [h'|a'|d'|t'|t']; try contradiction.
      cbn [diff_file fmt_join]. cbn [frag_line_text] in Ht. cbn [frag_start frag_end] in *.
      rewrite Hk. cbn [single_line fd_from fd_to].
      rewrite (flag_eq first last last' V (fst (hstart h)) (fst (hstart h')) HV Hstart).
      rewrite (single_text n (hstart h') (hend h') (hstart h) (hend h) _ _ _ _ Ht).
      cbn [single_line fd_text]. f_equal. f_equal.
      apply (IH r' _ false _ (fst (hend h') + 1)); auto.
    + destruct (frag_text_doc f' (FAssign a) Hf' Hf Hd) as [Ht Hk]. destruct f' as [h'|a'|d'|t'|t']; try contradiction.
      cbn [diff_file fmt_join]. cbn [frag_line_text] in Ht. cbn [frag_start frag_end] in *. cbn [single_line fd_from fd_to].
      rewrite (flag_eq first last last' V (fst (astart a)) (fst (astart a')) HV Hstart).
      rewrite (single_text n (astart a') (aend a') (astart a) (aend a) _ _ _ _ Ht).
      cbn [single_line fd_text]. f_equal. f_equal.
      apply (IH r' _ false _ (fst (aend a') + 1)); auto.
    + destruct f' as [h'|a'|d'|t'|t']; try discriminate. cbn [fdoc_of] in Hd. injection Hd as Hd.
      cbn [diff_file fmt_join]. cbn [frag_start frag_end] in *.
      assert (Etext : fd_text (description_diff n d') = fd_text (description_diff n d)).
      { pose proof (desc_lines_again n d d' Hd) as Hdl. unfold desc_lines in Hdl. unfold description_diff, multi_line. cbn [fd_text].
        destruct (reformat_description (dvalue d') (80 - Z.of_nat n * 4)), (reformat_description (dvalue d) (80 - Z.of_nat n * 4));
          rewrite ?Hdl; try reflexivity; rewrite <- ?Hdl; reflexivity. }
      rewrite Etext. cbn [description_diff multi_line fd_from fd_to].
      rewrite (flag_eq first last last' V (fst (dsstart d)) (fst (dsstart d')) HV Hstart).
      f_equal. f_equal. apply (IH r' _ false _ (fst (dsend d') + 1)); auto.
    + destruct (frag_text_doc f' (FComment t) Hf' Hf Hd) as [Ht Hk]. destruct f' as [h'|a'|d'|t'|t']; try contradiction.
      cbn [diff_file fmt_join]. cbn [frag_line_text] in Ht. cbn [frag_start frag_end] in *. cbn [single_line fd_from fd_to].
      rewrite (flag_eq first last last' V (fst (tstart t)) (fst (tstart t')) HV Hstart).
      rewrite Ht. f_equal. f_equal. apply (IH r' _ false _ (fst (tend t') + 1)); auto.
    + destruct (frag_text_doc f' (FClose t) Hf' Hf Hd) as [Ht Hk]. destruct f' as [h'|a'|d'|t'|t']; try contradiction.
      cbn [diff_file fmt_join]. cbn [frag_line_text] in Ht. cbn [frag_start frag_end] in *. cbn [single_line fd_from fd_to].
      rewrite (flag_eq first last last' V (fst (tstart t)) (fst (tstart t')) HV Hstart).
      rewrite Ht. f_equal. f_equal. apply (IH r' _ false _ (fst (tend t') + 1)); auto.
Qed.

(* ---- formatting twice changes nothing -------------------------------------------------------------- *)
Theorem fmt_output_fixed data fs : collect_fragments data = Ok fs ->
  fmt_runes (fmt_join (diff_file fs 0) true (-1)) = Ok (fmt_join (diff_file fs 0) true (-1)).
Proof.
  intros Hc. set (out := fmt_join (diff_file fs 0) true (-1)).
  pose proof (collect_fragments_lx data fs Hc) as Hlx. pose proof (collect_fragments_gap data fs Hc) as Hgap.
  destruct (fmt_output_tokens fs Hlx) as (ts & Hlex & Hts). fold out in Hlex.
  pose proof (entries_stream_ok fs 0 true (-1) Hlx Hgap) as Hok.
  pose proof (all_tokens_ok true out) as Hch. rewrite Hlex in Hch.
  destruct (all_tokens_cover true out ts Hlex) as [Hlc _].
  pose proof (all_tokens_vchain true out ts Hlex) as Hvc.
  assert (Hwok : wst_ok out (mkW ts None)).
  { split; [apply valid_pos0|]. split; [apply schain_chain, Hch|]. intros p Hp. discriminate. }
  destruct (walk_stream_pos out (entries fs 0 true (-1)) (S (length ts)) (mkW ts None) Hok) as (fs' & Hw & Hdocs & Hlines);
    [rewrite pt_mk; exact Hts|exact Hwok|exact Hlc|exact Hvc|cbn; lia|].
  assert (Hc' : collect_fragments out = Ok fs').
  { unfold collect_fragments. rewrite Hlex. unfold walk_fragments. rewrite Hw. reflexivity. }
  pose proof (collect_fragments_lx out fs' Hc') as Hlx'.
  unfold fmt_runes, collect_fmt. rewrite Hc'. unfold omap, obind. f_equal. unfold out.
  apply (fmt_join_again fs fs' 0 true (-1) 0 (-1) Hlx Hlx' Hdocs Hlines). intros H. discriminate.
Qed.

Theorem fmt_idempotent data out : fmt_runes data = Ok out -> fmt_runes out = Ok out.
Proof.
  unfold fmt_runes at 1, collect_fmt. destruct (collect_fragments data) as [fs|e|p|] eqn:Hc; try discriminate.
  cbn [omap]. intros [= <-]. apply (fmt_output_fixed data fs Hc).
Qed.

(* CodecEncRep.v — the precondition of the C01 round-trip theorem, decided.

   rep_root (CodecEncDecProofs.v) is an inductive predicate; here is a boolean function rep_root_b
   that implies it (rep_root_b_sound) under the static conditions of the environment, which are
   themselves decided by env_static_b.  The correspondence evaluates both on every CRound case of a
   run, so "the generated messages are representable" is a computed fact and not a reading of the
   generator.  Nothing about an enum's name <-> number inverse is assumed per value: the decider
   asks only that the number is declared; the inverse follows from "option names are distinct"
   (enums_ok, part of env_static_b; option_by_name_inverse). *)
From Coq Require Import String List Arith NArith ZArith Bool Lia ZifyN ZifyNat ZifyBool.
From J5V.lib Require Import Outcome Json JsonPrint Base64 Civil Decimal.
From J5V.model Require Import CodecTypes CodecEnc CodecEncSpec CodecEncDec.
From J5V.proofs Require Import CodecEncProofs CodecEncDecProofs CodecEncTotal CodecEncInner.
Import ListNotations.
Local Open Scope N_scope.
Local Open Scope bool_scope.

(* ================================================================ static conditions of an environment *)
Definition oneofs_flat_b (e : env) : bool :=
  forallb (fun ns => match snd ns with
                     | SOneof ps => forallb (fun p => match p_path p with [] => false | _ => true end) ps
                     | _ => true
                     end) e.

(* enums: option names distinct and valid UTF-8 *)
Definition enums_ok (e : env) : Prop :=
  forall r pre opts, lookup e r = Some (SEnum pre opts) ->
    NoDup (map fst opts) /\ Forall (fun o => valid_utf8 (fst o) = true) opts.
Definition enums_ok_b (e : env) : bool :=
  forallb (fun ns => match snd ns with
                     | SEnum _ opts => nodup_b bytes_eqb (map fst opts) && forallb (fun o => valid_utf8 (fst o)) opts
                     | _ => true
                     end) e.
Lemma enums_ok_b_sound e : enums_ok_b e = true -> enums_ok e.
Proof.
  intros H r pre opts Hlk. unfold enums_ok_b in H. rewrite forallb_forall in H.
  destruct (lookup_in _ _ _ Hlk) as (n' & Hin). specialize (H _ Hin). cbn [snd] in H.
  apply andb_true_iff in H as [H1 H2]. split.
  - apply (nodup_b_sound bytes_eqb); [intros a b ->; apply bytes_eqb_refl|exact H1].
  - apply Forall_forall. intros o Ho. rewrite forallb_forall in H2. apply H2. exact Ho.
Qed.

(* every property list of the environment satisfies props_ok *)
Definition env_props_ok (e : env) : Prop :=
  forall r ps, lookup e r = Some (SObject ps) \/ lookup e r = Some (SOneof ps) -> props_ok e ps.
Definition env_props_ok_b (e : env) : bool :=
  forallb (fun ns => match snd ns with
                     | SObject ps | SOneof ps => props_ok_b e ps
                     | SEnum _ _ => true
                     end) e.
Lemma env_props_ok_b_sound e : env_props_ok_b e = true -> env_props_ok e.
Proof.
  intros H r ps Hlk. unfold env_props_ok_b in H. rewrite forallb_forall in H.
  destruct Hlk as [Hlk|Hlk]; destruct (lookup_in _ _ _ Hlk) as (n' & Hin); specialize (H _ Hin); cbn [snd] in H;
    apply props_ok_b_sound; exact H.
Qed.

(* all static hypotheses of the C01 theorems, one boolean per environment *)
Definition env_static_b (e : env) : bool :=
  oneofs_flat_b e && oneof_names_ok_b e && env_items_ok_b e && enums_ok_b e && env_props_ok_b e.

Lemma env_static_b_sound e : env_static_b e = true ->
  oneofs_flat e /\ oneof_names_ok e /\ env_items_ok e /\ enums_ok e /\ env_props_ok e.
Proof.
  unfold env_static_b. intros H.
  apply andb_true_iff in H as [H H5]. apply andb_true_iff in H as [H H4].
  apply andb_true_iff in H as [H H3]. apply andb_true_iff in H as [H1 H2].
  split; [apply oneofs_flat_b_sound; exact H1|]. split; [apply oneof_names_ok_b_sound; exact H2|].
  split; [apply env_items_ok_b_sound; exact H3|]. split; [apply enums_ok_b_sound; exact H4|].
  apply env_props_ok_b_sound; exact H5.
Qed.

(* ================================================================ scalars *)
Definition zin (lo hi z : Z) : bool := ((lo <=? z) && (z <=? hi))%Z.

(* the populated fields of a google.protobuf.Timestamp value: seconds, nanos (zero = unpopulated) *)
Definition ts_of (m : msg) : option (Z * Z) :=
  match m with
  | [] => Some (0, 0)%Z
  | [(k, VInt a)] =>
      if Z.eqb a 0 then None
      else if k =? 1 then Some (a, 0%Z) else if k =? 2 then Some (0%Z, a) else None
  | [(k1, VInt a); (k2, VInt b)] =>
      if (k1 =? 1) && (k2 =? 2) && negb (Z.eqb a 0) && negb (Z.eqb b 0) then Some (a, b) else None
  | _ => None
  end.

Lemma ts_of_sound m s ns : ts_of m = Some (s, ns) -> VMsg m = mk_timestamp s ns.
Proof.
  unfold ts_of, mk_timestamp, wkt_fields.
  destruct m as [|[k1 v1] [|[k2 v2] [|? ?]]]; try discriminate.
  - intros [= <- <-]. reflexivity.
  - destruct v1; try discriminate. destruct (Z.eqb z 0) eqn:Ez; [discriminate|].
    destruct (k1 =? 1) eqn:E1.
    + intros [= <- <-]. apply N.eqb_eq in E1. subst. cbn [filter snd is_zero negb]. rewrite Ez. reflexivity.
    + destruct (k1 =? 2) eqn:E2; [|discriminate]. intros [= <- <-]. apply N.eqb_eq in E2. subst.
      cbn [filter snd is_zero negb]. rewrite Ez. reflexivity.
  - destruct v1; try discriminate. destruct v2; try discriminate.
    destruct ((k1 =? 1) && (k2 =? 2) && negb (Z.eqb z 0) && negb (Z.eqb z0 0)) eqn:E; [|discriminate].
    intros [= <- <-]. apply andb_true_iff in E as [E E4]. apply andb_true_iff in E as [E E3].
    apply andb_true_iff in E as [E1 E2]. apply N.eqb_eq in E1. apply N.eqb_eq in E2. subst.
    apply negb_true_iff in E3. apply negb_true_iff in E4.
    cbn [filter snd is_zero negb]. rewrite E3, E4. reflexivity.
  - destruct v1; try discriminate. destruct v2; discriminate.
Qed.

Definition rep_scalar_b (k : scalar_kind) (v : pval) : bool :=
  match k, v with
  | KInt32, VInt z => zin (-2147483648) 2147483647 z
  | KInt64, VInt z => zin (-9223372036854775808) 9223372036854775807 z
  | KUint32, VInt z => zin 0 4294967295 z
  | KUint64, VInt z => zin 0 18446744073709551615 z
  | KFloat32, VFloat b => (b <? 4294967296) && float_finite true b
  | KFloat64, VFloat b => (b <? 18446744073709551616) && float_finite false b
  | KBool, VBool _ => true
  | KString, VStr s | KKey, VStr s => valid_utf8 s
  | KBytes, VBytes s => forallb (fun b => b <? 256) s
  | KDate, VMsg [(k1, VInt y); (k2, VInt mo); (k3, VInt d)] =>
      (k1 =? 1) && (k2 =? 2) && (k3 =? 3) && zin 1 9999 y && zin 1 12 mo && zin 1 (days_in mo y) d
  | KDecimal, VMsg [(k1, VStr s)] =>
      (k1 =? 1) && match dec_normalise s with Some _ => true | None => false end && valid_utf8 s
  | KTimestamp, VMsg m =>
      match ts_of m with
      | Some (s, ns) => zin (-62135596800) 253402300799 s && zin 0 999999999 ns
      | None => false
      end
  | _, _ => false
  end.

Lemma zin_sound lo hi z : zin lo hi z = true -> (lo <= z <= hi)%Z.
Proof. unfold zin. lia. Qed.

Lemma rep_scalar_b_sound k v : rep_scalar_b k v = true -> rep_scalar k v.
Proof.
  destruct k, v; cbn [rep_scalar_b rep_scalar]; try discriminate; intros H;
    try (apply zin_sound in H; exact H); try exact I; try exact H.
  - apply andb_true_iff in H as [H1 H2]. split; [lia|exact H2].
  - apply andb_true_iff in H as [H1 H2]. split; [lia|exact H2].
  - apply Forall_forall. intros b Hb. rewrite forallb_forall in H. specialize (H b Hb). unfold is_byte. lia.
  - destruct fields as [|[k1 v1] [|[k2 v2] [|[k3 v3] [|? ?]]]]; try discriminate;
      try (destruct v1; discriminate); try (destruct v1; try discriminate; destruct v2; discriminate);
      try (destruct v1; try discriminate; destruct v2; try discriminate; destruct v3; discriminate).
    destruct v1; try discriminate. destruct v2; try discriminate. destruct v3; try discriminate.
    repeat (apply andb_true_iff in H as [H ?]).
    repeat match goal with E : (_ =? _) = true |- _ => apply N.eqb_eq in E; subst end.
    repeat match goal with E : zin _ _ _ = true |- _ => apply zin_sound in E end.
    exists z, z0, z1. split; [reflexivity|]. lia.
  - destruct fields as [|[k1 v1] [|? ?]]; try discriminate; try (destruct v1; discriminate).
    destruct v1; try discriminate.
    apply andb_true_iff in H as [H Hu]. apply andb_true_iff in H as [Hk Hn]. apply N.eqb_eq in Hk. subst.
    destruct (dec_normalise s) as [s'|] eqn:En; [|discriminate].
    exists s, s'. repeat split; assumption.
  - destruct (ts_of fields) as [[s ns]|] eqn:Et; [|discriminate].
    apply andb_true_iff in H as [H1 H2]. apply zin_sound in H1. apply zin_sound in H2.
    exists s, ns. split; [apply ts_of_sound; exact Et|]. unfold ts_range. lia.
Qed.

(* ================================================================ messages *)
Lemma strip_prefix_app p : forall s r, strip_prefix p s = Some r -> s = p ++ r.
Proof.
  induction p as [|x p IH]; intros s r H; cbn [strip_prefix] in H.
  - injection H as <-. reflexivity.
  - destruct s as [|y s]; [discriminate|]. destruct (x =? y) eqn:E; [|discriminate].
    apply N.eqb_eq in E. subst y. cbn [app]. f_equal. apply IH. exact H.
Qed.

Lemma msg_get_in n : forall (m : msg) v, msg_get n m = Some v -> In (n, v) m.
Proof.
  induction m as [|[k w] r IH]; intros v H; cbn [msg_get] in H; [discriminate|].
  destruct (k =? n) eqn:E.
  - injection H as <-. apply N.eqb_eq in E. subst. left. reflexivity.
  - right. apply IH. exact H.
Qed.

Definition is_ok {A} (o : outcome A) : bool := match o with Ok _ => true | _ => false end.
Definition has_val {A} (o : option A) : bool := match o with Some _ => true | None => false end.

Section RepB.
  Variable any_inner : bytes -> bytes -> outcome bytes.
  Variable raw : jvalue -> bytes.
  Variable any_back : option (bytes -> bytes -> outcome bytes).
  Variable env : env.

  Notation rep_value := (rep_value any_inner raw any_back env).
  Notation rep_props := (rep_props any_inner raw any_back env).
  Notation rep_root := (rep_root any_inner raw any_back env).

  (* text that is the compact canonical print of a JSON tree *)
  Definition compact_json_b (s : bytes) : bool :=
    match strict_parse s with
    | Some j => wfb j && bytes_eqb (print j) s
    | None => false
    end.
  Lemma compact_json_b_sound s : compact_json_b s = true -> compact_json s.
  Proof.
    unfold compact_json_b. destruct (strict_parse s) as [j|]; [|discriminate]. intros H.
    apply andb_true_iff in H as [Hw He]. apply bytes_eqb_eq in He. exists j. split; [exact Hw|symmetry; exact He].
  Qed.

  (* the reverse conversion (WithProtoToAny) of the payload text [t] of type [tn] succeeds *)
  Definition back_ok_b (tn t : bytes) : bool :=
    match any_back with
    | None => true
    | Some back =>
        match strict_parse t with
        | Some Jd => if wfb Jd && bytes_eqb (print Jd) t then is_ok (back tn (raw Jd)) else true
        | None => true
        end
    end.
  Lemma back_ok_b_sound tn t back Jd : back_ok_b tn t = true -> any_back = Some back -> wfb Jd = true ->
    t = print Jd -> exists pb', back tn (raw Jd) = Ok pb'.
  Proof.
    unfold back_ok_b. intros H Hb Hw ->. rewrite Hb in H. rewrite (parse_print Jd Hw) in H.
    rewrite Hw, bytes_eqb_refl in H. cbn [andb] in H. destruct (back tn (raw Jd)) as [pb'| | |]; try discriminate.
    exists pb'. reflexivity.
  Qed.

  Definition any_shape_b (pb : bool) (m : msg) : bool :=
    forallb (fun kv => match snd kv with
                       | VStr _ => fst kv =? 1
                       | VBytes _ => (fst kv =? 2) || (negb pb && (fst kv =? 3))
                       | _ => false
                       end) m.

  Definition rep_any_b (m : msg) : bool :=
    valid_utf8 (sfield 1 m) && any_shape_b false m &&
    match msg_get 3 m with Some (VBytes s) => compact_json_b s | _ => true end &&
    match any_text any_inner m with
    | Ok t => back_ok_b (sfield 1 m) t
    | _ => false
    end.

  Lemma rep_any_b_sound m : rep_any_b m = true -> rep_value (FAny false) (VMsg m).
  Proof.
    unfold rep_any_b. intros H. apply andb_true_iff in H as [H Ht]. apply andb_true_iff in H as [H Hc].
    apply andb_true_iff in H as [Hu Hs].
    apply RV_any.
    - exact Hu.
    - intros n v Hg. apply msg_get_in in Hg. unfold any_shape_b in Hs. rewrite forallb_forall in Hs.
      specialize (Hs _ Hg). cbn [fst snd] in Hs. destruct v; try discriminate.
      + left. split; [lia|eexists; reflexivity].
      + cbn [negb andb] in Hs. apply orb_true_iff in Hs as [Hs|Hs].
        * right. left. split; [lia|eexists; reflexivity].
        * right. right. split; [lia|eexists; reflexivity].
    - intros s Hg. rewrite Hg in Hc. apply compact_json_b_sound. exact Hc.
    - destruct (any_text any_inner m) as [t| | |]; try discriminate. exists t. reflexivity.
    - intros back Jd Hb Hw Hat. rewrite Hat in Ht. eapply back_ok_b_sound; try eassumption. reflexivity.
  Qed.

  Definition rep_pbany_b (m : msg) : bool :=
    match strip_prefix any_prefix (sfield 1 m), any_back with
    | Some tn, Some _ =>
        valid_utf8 tn && any_shape_b true m &&
        match any_inner tn (sfield 2 m) with
        | Ok t => back_ok_b tn t
        | _ => false
        end
    | _, _ => false
    end.

  Lemma rep_pbany_b_sound m : rep_pbany_b m = true -> rep_value (FAny true) (VMsg m).
  Proof.
    unfold rep_pbany_b. destruct (strip_prefix any_prefix (sfield 1 m)) as [tn|] eqn:Es; [|discriminate].
    destruct any_back as [back|] eqn:Eb; [|discriminate]. intros H.
    apply andb_true_iff in H as [H Ht]. apply andb_true_iff in H as [Hu Hs].
    apply RV_pbany with (tn := tn).
    - apply strip_prefix_app. exact Es.
    - exact Hu.
    - intros n v Hg. apply msg_get_in in Hg. unfold any_shape_b in Hs. rewrite forallb_forall in Hs.
      specialize (Hs _ Hg). cbn [fst snd] in Hs. destruct v; try discriminate.
      + left. split; [lia|eexists; reflexivity].
      + cbn [negb andb] in Hs. rewrite orb_false_r in Hs. right. split; [lia|eexists; reflexivity].
    - destruct (any_inner tn (sfield 2 m)) as [t| | |]; try discriminate. exists t. reflexivity.
    - exists back. split; [reflexivity|]. intros Jd Hw Hi. rewrite Hi in Ht.
      unfold back_ok_b in Ht. try rewrite Eb in Ht. rewrite (parse_print Jd Hw) in Ht.
      rewrite Hw, bytes_eqb_refl in Ht. cbn [andb] in Ht.
      destruct (back tn (raw Jd)) as [pb'| | |]; try discriminate. exists pb'. reflexivity.
  Qed.

  (* at most one of the properties qs is populated in m *)
  Definition amo_b (qs : list property) (m : msg) : bool :=
    forallb (fun q1 => forallb (fun q2 =>
      negb (has_val (present (p_path q1) m)) || negb (has_val (present (p_path q2) m)) || prop_eqb q1 q2) qs) qs.
  Lemma amo_b_sound qs m : amo_b qs m = true ->
    forall q1 q2, In q1 qs -> In q2 qs -> present (p_path q1) m <> None -> present (p_path q2) m <> None -> q1 = q2.
  Proof.
    intros H q1 q2 H1 H2 Hp1 Hp2. unfold amo_b in H. rewrite forallb_forall in H. specialize (H q1 H1).
    rewrite forallb_forall in H. specialize (H q2 H2).
    destruct (present (p_path q1) m); [|congruence]. destruct (present (p_path q2) m); [|congruence].
    cbn [has_val negb orb] in H. unfold prop_eqb in H. destruct (property_eq_dec q1 q2); [assumption|discriminate].
  Qed.

  (* the clauses of rep_props other than props_ok (which is a static condition of the environment) *)
  Definition rep_props_with (rv : field_ty -> pval -> bool) (ps : list property) (m : msg) : bool :=
    forallb (fun l => match present (p_path l) m with
                      | None => true
                      | Some v => rv (p_ty l) v && kept (p_explicit l) v &&
                                  forallb (fun s => negb (has_val (msg_get s (hole (removelast (p_path l)) m)))) (p_siblings l)
                      end) (leaves env ps) &&
    forallb (fun p => amo_b (exposed_members env p) m) ps.

  Fixpoint rep_value_b (fuel : nat) (t : field_ty) (v : pval) {struct fuel} : bool :=
    match fuel with
    | O => false
    | S f =>
      match t, v with
      | FScalar k, _ => rep_scalar_b k v
      | FEnum r, VEnum n =>
          match lookup env r with
          | Some (SEnum _ opts) => has_val (option_by_number opts n)
          | _ => false
          end
      | FObject r, VMsg m =>
          match lookup env r with
          | Some (SObject ps) => rep_props_with (rep_value_b f) ps m
          | _ => false
          end
      | FOneof r, VMsg m =>
          match lookup env r with
          | Some (SOneof ps) => rep_props_with (rep_value_b f) ps m && amo_b ps m
          | _ => false
          end
      | FArray it, VList l =>
          match l with [] => false | _ => item_ok it && forallb (rep_value_b f it) l end
      | FMap it, VMap es =>
          match es with
          | [] => false
          | _ => item_ok it && nodup_b bytes_eqb (map fst es) &&
                 forallb (fun kv => rep_value_b f it (snd kv)) es && forallb (fun kv => valid_utf8 (fst kv)) es
          end
      | FAny false, VMsg m => rep_any_b m
      | FAny true, VMsg m => rep_pbany_b m
      | _, _ => false
      end
    end.

  Definition rep_root_b (fuel : nat) (root : bytes) (m : msg) : bool :=
    match lookup env root with
    | Some (SObject ps) => rep_props_with (rep_value_b fuel) ps m
    | Some (SOneof ps) => rep_props_with (rep_value_b fuel) ps m && amo_b ps m
    | _ => false
    end.

  Hypothesis Henums : enums_ok env.
  Hypothesis Hprops : env_props_ok env.

  Lemma rep_props_with_sound (rv : field_ty -> pval -> bool) ps m :
    (forall t v, rv t v = true -> rep_value t v) -> props_ok env ps ->
    rep_props_with rv ps m = true -> rep_props ps m.
  Proof.
    intros Hrv Hok H. unfold rep_props_with in H. apply andb_true_iff in H as [Hl He].
    rewrite forallb_forall in Hl. rewrite forallb_forall in He.
    apply RP.
    - exact Hok.
    - intros l v Hin Hp. specialize (Hl l Hin). rewrite Hp in Hl.
      apply andb_true_iff in Hl as [Hl _]. apply andb_true_iff in Hl as [H1 H2]. split; [apply Hrv; exact H1|exact H2].
    - intros l a n s v Hin Hpath Hp Hs. specialize (Hl l Hin). rewrite Hp in Hl.
      apply andb_true_iff in Hl as [_ Hl]. rewrite forallb_forall in Hl. specialize (Hl s Hs).
      rewrite Hpath, removelast_last in Hl. destruct (msg_get s (hole a m)); [discriminate|reflexivity].
    - intros p q1 q2 Hp. apply amo_b_sound. apply He. exact Hp.
  Qed.

  Lemma rep_value_b_sound fuel : forall t v, rep_value_b fuel t v = true -> rep_value t v.
  Proof.
    induction fuel as [|f IH]; intros t v H; [discriminate|]. cbn [rep_value_b] in H.
    destruct t as [k|r|r|r|it|it|pb].
    - apply RV_scalar. apply rep_scalar_b_sound. exact H.
    - destruct v; try discriminate. destruct (lookup env r) as [[| |pre opts]|] eqn:El; try discriminate.
      destruct (option_by_number opts n) as [name|] eqn:En; [|discriminate].
      destruct (Henums _ _ _ El) as [Hnd Hu].
      apply RV_enum with (pre := pre) (opts := opts) (name := name); try assumption.
      rewrite Forall_forall in Hu. apply (Hu (name, n)). eapply option_by_number_in. exact En.
    - destruct v; try discriminate. destruct (lookup env r) as [[ps| |]|] eqn:El; try discriminate.
      apply RV_object with (ps := ps); [exact El|].
      apply (rep_props_with_sound (rep_value_b f)); [exact IH|apply (Hprops r); left; exact El|exact H].
    - destruct v; try discriminate. destruct (lookup env r) as [[|ps|]|] eqn:El; try discriminate.
      apply andb_true_iff in H as [H1 H2].
      apply RV_oneof with (ps := ps); [exact El| |apply amo_b_sound; exact H2].
      apply (rep_props_with_sound (rep_value_b f)); [exact IH|apply (Hprops r); right; exact El|exact H1].
    - destruct v; try discriminate. destruct items as [|x l]; [discriminate|].
      apply andb_true_iff in H as [H1 H2]. apply RV_array; [discriminate|exact H1|].
      apply Forall_forall. intros y Hy. rewrite forallb_forall in H2. apply IH, H2, Hy.
    - destruct v; try discriminate. destruct entries as [|x l]; [discriminate|].
      apply andb_true_iff in H as [H H4]. apply andb_true_iff in H as [H H3]. apply andb_true_iff in H as [H1 H2].
      apply RV_map; [discriminate|exact H1| | |].
      + apply (nodup_b_sound bytes_eqb); [intros a b ->; apply bytes_eqb_refl|exact H2].
      + apply Forall_forall. intros y Hy. rewrite forallb_forall in H3. apply IH, H3, Hy.
      + apply Forall_forall. intros y Hy. rewrite forallb_forall in H4. apply H4, Hy.
    - destruct pb; destruct v; try discriminate.
      + apply rep_pbany_b_sound. exact H.
      + apply rep_any_b_sound. exact H.
  Qed.

  Theorem rep_root_b_sound fuel root m : rep_root_b fuel root m = true -> rep_root root m.
  Proof.
    unfold rep_root_b, CodecEncDecProofs.rep_root. destruct (lookup env root) as [[ps|ps|]|] eqn:El; try discriminate.
    - intros H. apply (rep_props_with_sound (rep_value_b fuel)); [apply rep_value_b_sound|apply (Hprops root); left; exact El|exact H].
    - intros H. apply andb_true_iff in H as [H1 H2]. split; [|apply amo_b_sound; exact H2].
      apply (rep_props_with_sound (rep_value_b fuel)); [apply rep_value_b_sound|apply (Hprops root); right; exact El|exact H1].
  Qed.
End RepB.

(* ================================================================ the C01 statement with decided preconditions *)
Section Decided.
  Variable fmt_float : bool -> N -> bytes.
  Variable parse_float : bool -> bytes -> option N.
  Variable parse_time : bytes -> option (Z * Z).
  Variable any_inner : bytes -> bytes -> outcome bytes.
  Variable any_back : option (bytes -> bytes -> outcome bytes).
  Variable env : env.
  Hypothesis Hfloat_ok : float_text_ok fmt_float.
  Hypothesis Hfloat_rt : float_roundtrip fmt_float parse_float.
  Hypothesis Htime : time_parse_extends parse_time.
  Hypothesis Hinner : inner_ok any_inner.
  Hypothesis Hstatic : env_static_b env = true.

  Theorem codec_full_decided fuel root m :
    rep_root_b any_inner print any_back env fuel root m = true ->
    exists txt J, encode fmt_float any_inner env root m = Ok txt /\ strict_parse txt = Some J /\
      (N.of_nat (jnest J) <= max_nesting ->
       exists m', decode_tree (dec_scalar parse_float parse_time) print false any_back env root J = Ok m' /\
                  equiv_root any_inner print any_back env root m m').
  Proof.
    intros Hb. destruct (env_static_b_sound _ Hstatic) as (Hflat & Hnames & _ & Henums & Hprops).
    apply (codec_full fmt_float any_inner (dec_scalar parse_float parse_time) print any_back env Hflat
             (scalar_rt_own fmt_float parse_float parse_time Hfloat_ok Hfloat_rt Htime) Hnames Hinner print_nonempty false).
    apply (rep_root_b_sound any_inner print any_back env Henums Hprops fuel). exact Hb.
  Qed.
End Decided.

(* ================================================================ the Any clause composed with the encoder itself *)
(* The inner encoding of an Any payload IS the codec run on the payload message (resolver reg +
   proto.Unmarshal abstract): any_inner := CodecEncInner.inner_n.  Then inner_ok is a theorem
   (inner_n_ok) and no longer a premise, and the success of the inner encoding that rep_value asks
   of a proto-stored payload follows from the representability of the payload message. *)
Section InnerComposed.
  Variable fmt_float : bool -> N -> bytes.
  Variable parse_float : bool -> bytes -> option N.
  Variable parse_time : bytes -> option (Z * Z).
  Variable reg : bytes -> option (env * bytes).
  Variable unmarshal : bytes -> bytes -> option msg.
  Hypothesis Hfloat_ok : float_text_ok fmt_float.
  Hypothesis Hfloat_rt : float_roundtrip fmt_float parse_float.
  Hypothesis Htime : time_parse_extends parse_time.
  Hypothesis Hreg_flat : forall tn e root, reg tn = Some (e, root) -> oneofs_flat e.
  Hypothesis Hpayload_raw : forall tn pb e root m, reg tn = Some (e, root) -> unmarshal tn pb = Some m ->
    raw_root_gen e compact_json root m.

  Notation inner := (inner_n fmt_float reg unmarshal).

  Theorem codec_full_inner n any_back env fuel root m :
    env_static_b env = true ->
    rep_root_b (inner n) print any_back env fuel root m = true ->
    exists txt J, encode fmt_float (inner n) env root m = Ok txt /\ strict_parse txt = Some J /\
      (N.of_nat (jnest J) <= max_nesting ->
       exists m', decode_tree (dec_scalar parse_float parse_time) print false any_back env root J = Ok m' /\
                  equiv_root (inner n) print any_back env root m m').
  Proof.
    intros Hstatic Hb.
    exact (codec_full_decided fmt_float parse_float parse_time (inner n) any_back env Hfloat_ok Hfloat_rt Htime
             (inner_n_ok fmt_float Hfloat_ok reg unmarshal Hreg_flat Hpayload_raw n) Hstatic fuel root m Hb).
  Qed.

  (* the payload of an Any is encoded successfully whenever the payload message is itself representable
     in its own (registered) environment — by the totality theorem, one nesting level down *)
  Theorem inner_payload_encodes k raw any_back tn pb e root pm :
    reg tn = Some (e, root) -> unmarshal tn pb = Some pm ->
    rep_root (inner k) raw any_back e root pm ->
    exists t, inner (S k) tn pb = Ok t.
  Proof.
    intros Er Eu Hrep. cbn [inner_n]. rewrite Er, Eu.
    exact (encode_total fmt_float (inner k) (dec_scalar parse_float parse_time) raw any_back e (Hreg_flat _ _ _ Er)
             (scalar_rt_own fmt_float parse_float parse_time Hfloat_ok Hfloat_rt Htime) root pm Hrep).
  Qed.
End InnerComposed.

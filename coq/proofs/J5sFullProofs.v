(* J5sFullProofs.v — the single statements of C02 and C13: everything the separate theorems say
   about a compiled package of a valid bundle, as ONE conclusion, and C13_full without the
   "files lie in package directories" premise (it is part of validity: a file outside every
   package directory belongs to the package "", which the compiler cannot load). *)
From Coq Require Import String List NArith Bool.
From J5V.lib Require Import Outcome Strcase.
From J5V.model Require Import J5sAst Desc J5sWalk J5sLink J5sConvert J5sContract J5sSymbols J5sTypeNames J5sValid J5sEdit J5sCorr.
From J5V.proofs Require Import J5sProofs J5sContractProofs J5sLinkProofs J5sCompileProofs J5sSubPkgProofs J5sDepsProofs
  J5sNameProofs J5sTypeNameProofs StrcaseProofs J5sStrcaseProofs J5sInfraDepsProofs J5sExtProofs J5sPkgExtProofs J5sC13Proofs.
Import ListNotations.
Local Open Scope N_scope.

(* every file of a valid bundle lies in a package directory *)
Lemma valid_pkgs_nonempty snake camel screaming bd :
  valid_bundle snake camel screaming bd = true -> forall x, In x bd -> bfile_pkg x <> [].
Proof.
  unfold valid_bundle. intros H x Hx.
  apply andb_true_iff in H. destruct H as [H _]. apply andb_true_iff in H. destruct H as [_ H].
  rewrite forallb_forall in H. specialize (H (bfile_pkg x) (in_map bfile_pkg _ _ Hx)).
  apply andb_true_iff in H. destruct H as [_ H]. unfold subpackages_free in H.
  apply andb_true_iff in H. destruct H as [H _]. apply andb_true_iff in H. destruct H as [H _].
  intros E. rewrite E in H. discriminate H.
Qed.

(* ---- C02: one statement.  What a package of a valid bundle compiles to:
   (1) the structural contract of the property text (package_contract_full: exactly the main /
       .service / .topic files, messages, enums, fields with name / JSON name / number / type /
       label / optionality / oneof membership, enum values, services, methods, HTTP rules, roles);
   (2) per source file, the (field, type name) list of the linked main / .service / .topic
       file - every field at every depth - is the declared one;
   (3) every reference of every declaration resolves and the file defining its target is the
       generated file or one of its dependencies;
   (4) every dependency of a generated file is an infrastructure file or the defining file of
       a reference of the declarations in it;
   (5) the infrastructure files the declarations need are the file itself or dependencies. *)
Definition package_complete (bd : bundle) (pkg : str) (D : list dfile) : Prop :=
  package_contract_full to_snake to_camel to_screaming_snake bd pkg D /\
  (forall f im, In (BJ f) bd -> j5s_pkg f = pkg -> import_map (jf_imports f) [] = Ok im ->
     let ev := mkEnv (j5s_pkg f) im (pkg_exports to_camel bd) in
     (exists df, In df D /\ main_types_ok to_snake to_camel ev f df) /\
     (file_services f <> [] -> exists df, In df D /\ service_types_ok to_snake to_camel ev f df) /\
     (file_topics f <> [] -> exists df, In df D /\ topic_types_ok to_snake to_camel ev f df) /\
     file_refs_ok ev f D) /\
  (forall df, In df D -> exists f im k,
     In (BJ f) bd /\ j5s_pkg f = pkg /\ import_map (jf_imports f) [] = Ok im /\
     fl_path df = kind_path f k /\
     only_refs (mkEnv (j5s_pkg f) im (pkg_exports to_camel bd)) (kind_refs f k) (fl_deps df)) /\
  (forall f, In (BJ f) bd -> j5s_pkg f = pkg -> file_needs_ok f D).

Theorem compile_complete : forall bd pkg,
  valid bd = true -> (exists f, In f bd /\ bfile_pkg f = pkg) ->
  exists D, compile bd pkg = Ok D /\ package_complete bd pkg D.
Proof.
  intros bd pkg Hv Hex.
  destruct (compile_correct_full to_snake to_camel to_screaming_snake bd pkg Hv Hex) as (D & Hc & Hok).
  exists D. split; [exact Hc|].
  pose proof (valid_pkgs_nonempty _ _ _ bd Hv) as Hne.
  split; [exact Hok|]. split; [|split].
  - intros f im Hin Hp Him. cbv zeta.
    destruct (compile_sub_tnames to_snake to_camel to_screaming_snake to_camel_nodot to_snake_nodot
                bd pkg D Hv Hne Hc f im Hin Hp Him) as [Hs Ht].
    split; [exact (compile_tnames to_snake to_camel to_screaming_snake to_camel_nodot to_snake_nodot
                     bd pkg D Hv Hne Hc f im Hin Hp Him)|].
    split; [exact Hs|]. split; [exact Ht|].
    exact (compile_refs_imported to_snake to_camel to_screaming_snake bd pkg D Hc f im Hin Hp Him).
  - exact (compile_deps_only to_snake to_camel to_screaming_snake bd pkg D Hc).
  - exact (compile_needs_imported to_snake to_camel to_screaming_snake bd pkg D Hc).
Qed.

(* ---- C13: the package-directory premise is part of validity *)
Theorem c13_full_valid : forall es bd pkg,
  valid bd = true -> seq_ok bd es -> (exists x, In x bd /\ bfile_pkg x = pkg) ->
  exists D D', compile bd pkg = Ok D /\ compile (apply_edits bd es) pkg = Ok D' /\ files_ext D D'.
Proof.
  intros es bd pkg Hv Hseq Hex.
  destruct (compile_correct_full to_snake to_camel to_screaming_snake bd pkg Hv Hex) as (D & Hc & _).
  destruct (c13_full es bd pkg D Hv (valid_pkgs_nonempty _ _ _ bd Hv) Hseq Hex Hc) as (D' & Hc' & He).
  exists D, D'. auto.
Qed.

(* the type-name theorems without the package-directory premise *)
Theorem compile_tnames_valid bd pkg D :
  valid bd = true -> compile bd pkg = Ok D ->
  forall f im, In (BJ f) bd -> j5s_pkg f = pkg -> import_map (jf_imports f) [] = Ok im ->
  exists df, In df D /\
    main_types_ok to_snake to_camel (mkEnv (j5s_pkg f) im (pkg_exports to_camel bd)) f df.
Proof.
  intros Hv Hc. exact (compile_tnames to_snake to_camel to_screaming_snake to_camel_nodot to_snake_nodot
                         bd pkg D Hv (valid_pkgs_nonempty _ _ _ bd Hv) Hc).
Qed.

Theorem compile_sub_tnames_valid bd pkg D :
  valid bd = true -> compile bd pkg = Ok D ->
  forall f im, In (BJ f) bd -> j5s_pkg f = pkg -> import_map (jf_imports f) [] = Ok im ->
  (file_services f <> [] ->
     exists df, In df D /\ service_types_ok to_snake to_camel (mkEnv (j5s_pkg f) im (pkg_exports to_camel bd)) f df) /\
  (file_topics f <> [] ->
     exists df, In df D /\ topic_types_ok to_snake to_camel (mkEnv (j5s_pkg f) im (pkg_exports to_camel bd)) f df).
Proof.
  intros Hv Hc. exact (compile_sub_tnames to_snake to_camel to_screaming_snake to_camel_nodot to_snake_nodot
                         bd pkg D Hv (valid_pkgs_nonempty _ _ _ bd Hv) Hc).
Qed.

(* ---- C13 for histories of ONE source file: only the first and the last version need to be
   valid (the intermediate versions need not even compile - e.g. a field referring to a type
   that a later edit of the sequence declares).  The general theorem (c13_full_valid) walks
   through the intermediate bundles because its single step replaces one file; when every edit
   addresses the same file the whole sequence is one step. *)
Lemma nth_error_update_same {A} (g : A -> A) l : forall k x, nth_error l k = Some x -> nth_error (update_nth k g l) k = Some (g x).
Proof.
  induction l as [|y r IH]; intros k x Hk; destruct k; cbn in Hk; try discriminate; cbn [update_nth nth_error].
  - inversion Hk. reflexivity.
  - apply IH. exact Hk.
Qed.

Lemma update_nth_twice_const {A} (a c : A) l : forall k,
  update_nth k (fun _ => c) (update_nth k (fun _ => a) l) = update_nth k (fun _ => c) l.
Proof. induction l as [|y r IH]; intros k; destruct k; cbn [update_nth]; try reflexivity. f_equal. apply IH. Qed.

Lemma apply_edits_same_file es : forall bd k f,
  nth_error bd k = Some (BJ f) -> (forall e, In e es -> edit_target e = k) ->
  apply_edits bd es = update_nth k (fun _ => BJ (fold_left (fun g e => edit_file e g) es f)) bd.
Proof.
  induction es as [|e r IH]; intros bd k f Hk Ht; cbn [apply_edits fold_left].
  - clear Ht. revert k Hk. induction bd as [|x t IHb]; intros k Hk; destruct k; cbn in Hk; try discriminate; cbn [update_nth].
    + inversion Hk. reflexivity.
    + f_equal. apply IHb. exact Hk.
  - change (fold_left apply_edit r (apply_edit bd e)) with (apply_edits (apply_edit bd e) r).
    assert (He : apply_edit bd e = update_nth k (fun _ => BJ (edit_file e f)) bd).
    { unfold apply_edit. rewrite (Ht e (or_introl eq_refl)). rewrite (update_nth_const _ _ _ _ Hk). reflexivity. }
    rewrite He.
    rewrite (IH _ k (edit_file e f)).
    + apply update_nth_twice_const.
    + exact (nth_error_update_same _ bd k (BJ f) Hk).
    + intros e' He'. apply Ht. right. exact He'.
Qed.

Theorem c13_single_file : forall es bd pkg k f,
  valid bd = true -> nth_error bd k = Some (BJ f) -> (forall e, In e es -> edit_target e = k) ->
  valid (apply_edits bd es) = true ->
  (exists x, In x bd /\ bfile_pkg x = pkg) ->
  exists D D', compile bd pkg = Ok D /\ compile (apply_edits bd es) pkg = Ok D' /\ files_ext D D'.
Proof.
  intros es bd pkg k f Hv Hk Ht Hv' Hex.
  destruct (compile_correct_full to_snake to_camel to_screaming_snake bd pkg Hv Hex) as (D & Hc & _).
  set (f' := fold_left (fun g e => edit_file e g) es f) in *.
  pose proof (edit_sequence_ext es f) as Hext. fold f' in Hext.
  assert (Hn : NoDup (map bfile_path bd)).
  { unfold valid, valid_bundle in Hv. apply andb_true_iff in Hv. destruct Hv as [_ Hd]. apply distinct_nodup. exact Hd. }
  assert (Heq : apply_edits bd es = map (replace_file f') bd).
  { rewrite (apply_edits_same_file es bd k f Hk Ht). fold f'.
    apply update_nth_replace with (j := f); [exact Hn|exact Hk|]. apply (src_ext_path _ _ Hext). }
  assert (Honly : forall x, In x bd -> bfile_path x = j5s_path f -> x = BJ f).
  { intros x Hx Hp. eapply (nodup_map_inj bfile_path); [exact Hn|exact Hx|eapply nth_error_In; exact Hk|exact Hp]. }
  rewrite Heq in Hv' |- *.
  destruct (compile_ext_strcase bd f f' pkg D Hext Honly (valid_pkgs_nonempty _ _ _ bd Hv) Hv Hv' Hex Hc) as (D' & Hc' & He).
  exists D, D'. auto.
Qed.

(* ================================================================== histories over several files *)
(* the single step of c13_full for ANY map [g] of the bundle that keeps path and package of
   every file and extends every source file: only the two ends need to be valid *)
Section FullG.
Variables snake camel screaming : str -> str.
Hypothesis Hcamel : forall s, nodot_b (camel s) = true.
Hypothesis Hsnake : forall s, nodot_b (snake s) = true.

Theorem compile_package_ext_g bd (g : bfile -> bfile) pkg D :
  (forall x, In x bd -> bfile_path (g x) = bfile_path x /\ bfile_pkg (g x) = bfile_pkg x) ->
  (forall x, In x bd ->
     (exists j j', x = BJ j /\ g x = BJ j' /\ file_src_ext j j') \/ (exists p, x = BP p /\ g x = BP p)) ->
  (forall x, In x bd -> bfile_pkg x <> []) ->
  valid_bundle snake camel screaming bd = true ->
  valid_bundle snake camel screaming (map g bd) = true ->
  (exists x, In x bd /\ bfile_pkg x = pkg) ->
  compile_package snake camel screaming bd pkg = Ok D ->
  exists D', compile_package snake camel screaming (map g bd) pkg = Ok D' /\ files_ext D D'.
Proof.
  intros Hgp Hgr Hne Hv Hv' (x0 & Hx0 & Hp0) H.
  set (bd' := map g bd) in *.
  assert (Hne' : forall x, In x bd' -> bfile_pkg x <> []).
  { intros x Hx. apply in_map_iff in Hx. destruct Hx as (y & <- & Hy).
    rewrite (proj2 (Hgp y Hy)). apply Hne. exact Hy. }
  assert (Hex' : exists x, In x bd' /\ bfile_pkg x = pkg).
  { exists (g x0). split; [apply in_map; exact Hx0|]. rewrite (proj2 (Hgp x0 Hx0)). exact Hp0. }
  destruct (compile_total snake camel screaming bd' pkg Hv' Hex') as [D' HD']. exists D'. split; [exact HD'|].
  apply (compile_package_inv snake camel screaming) in H. destruct H as (fs & Efs & _ & El & _).
  apply (compile_package_inv snake camel screaming) in HD'. destruct HD' as (fs' & Efs' & _ & El' & _).
  assert (Hdist : forall p l, pkg_exports camel bd' p = Some l -> J5sValid.distinct (map tr_name l) = true).
  { intros p l Hl. unfold valid_bundle in Hv'. apply andb_true_iff in Hv'. destruct Hv' as [Hv' _].
    apply andb_true_iff in Hv'. destruct Hv' as [Hv' _].
    apply andb_true_iff in Hv'. destruct Hv' as [_ Hv']. rewrite forallb_forall in Hv'.
    unfold pkg_exports in Hl. destruct (pkg_files bd' p) as [|y r] eqn:E; [discriminate|].
    assert (Hy : In y bd') by (assert (In y (pkg_files bd' p)) by (rewrite E; left; reflexivity); apply in_pkg_files_iff in H; destruct H; assumption).
    assert (Hpy : bfile_pkg y = p) by (assert (In y (pkg_files bd' p)) by (rewrite E; left; reflexivity); apply in_pkg_files_iff in H; destruct H; assumption).
    specialize (Hv' (bfile_pkg y) (in_map bfile_pkg _ _ Hy)). rewrite Hpy in Hv'. unfold pkg_exports in Hv'. rewrite E in Hv'.
    inversion Hl. subst l. exact Hv'. }
  pose proof (convert_package_ext_g snake camel screaming bd g Hgp Hgr pkg fs fs' Hdist Efs Efs') as Hfe.
  eapply link_files_ext; [| |exact Hfe|exact El|exact El'].
  - exact (convert_package_inv snake camel screaming Hcamel Hsnake bd pkg fs Hne Hv Efs).
  - exact (convert_package_inv snake camel screaming Hcamel Hsnake bd' pkg fs' Hne' Hv' Efs').
Qed.

End FullG.

(* what a sequence of append edits does to a bundle, file by file: source files are extended
   (file_src_ext: no validity involved), hand-written .proto files stay *)
Definition bfile_ext (x y : bfile) : Prop :=
  match x, y with
  | BJ j, BJ j' => file_src_ext j j'
  | BP p, BP q => p = q
  | _, _ => False
  end.

Lemma bfile_ext_refl x : bfile_ext x x.
Proof. destruct x; cbn; [apply file_src_ext_refl|reflexivity]. Qed.

Lemma bfile_ext_trans x y z : bfile_ext x y -> bfile_ext y z -> bfile_ext x z.
Proof.
  destruct x, y, z; cbn; try contradiction; intros H1 H2.
  - eapply file_src_ext_trans; eassumption.
  - congruence.
Qed.

Lemma forall2_refl_b (l : bundle) : Forall2 bfile_ext l l.
Proof. induction l; constructor; [apply bfile_ext_refl|assumption]. Qed.

Lemma apply_edit_bext bd e : Forall2 bfile_ext bd (apply_edit bd e).
Proof.
  unfold apply_edit. generalize (edit_target e) as k. induction bd as [|x r IH]; intros k; destruct k; cbn [update_nth]; constructor.
  - destruct x as [j|p]; cbn; [apply edit_file_ext|reflexivity].
  - apply forall2_refl_b.
  - apply bfile_ext_refl.
  - apply IH.
Qed.

Lemma forall2_bext_trans : forall a c d : bundle, Forall2 bfile_ext a c -> Forall2 bfile_ext c d -> Forall2 bfile_ext a d.
Proof.
  intros a c d H. revert d. induction H as [|x y l l' Hxy H IH]; intros d H'; inversion H'; subst; constructor.
  - eapply bfile_ext_trans; eassumption.
  - apply IH. assumption.
Qed.

Lemma apply_edits_bext es : forall bd, Forall2 bfile_ext bd (apply_edits bd es).
Proof.
  induction es as [|e r IH]; intros bd; cbn [apply_edits fold_left]; [apply forall2_refl_b|].
  eapply forall2_bext_trans; [apply apply_edit_bext|apply IH].
Qed.

Lemma bfile_ext_path x y : bfile_ext x y -> bfile_path y = bfile_path x /\ bfile_pkg y = bfile_pkg x.
Proof.
  destruct x as [j|p], y as [j'|q]; cbn; try contradiction; intros H.
  - exact (src_ext_path _ _ H).
  - subst. auto.
Qed.

Lemma find_app_none {A} (f : A -> bool) pre l : (forall z, In z pre -> f z = false) -> find f (pre ++ l) = find f l.
Proof.
  induction pre as [|a r IH]; intros H; cbn [app find]; [reflexivity|].
  rewrite (H a (or_introl eq_refl)). apply IH. intros z Hz. apply H. right. exact Hz.
Qed.

(* the map: every file goes to the file of the same path in the new bundle *)
Definition by_path (bd' : bundle) (x : bfile) : bfile :=
  match find (fun y => str_eqb (bfile_path y) (bfile_path x)) bd' with Some y => y | None => x end.

Lemma by_path_map : forall bd bd', Forall2 bfile_ext bd bd' -> NoDup (map bfile_path bd) ->
  forall pre, (forall y, In y pre -> ~ In (bfile_path y) (map bfile_path bd)) ->
  map (by_path (pre ++ bd')) bd = bd'.
Proof.
  intros bd bd' H. induction H as [|x y l l' Hxy H IH]; intros Hn pre Hpre; [reflexivity|].
  cbn [map]. inversion Hn as [|? ? Hnx Hnl]. subst.
  destruct (bfile_ext_path _ _ Hxy) as [Hp _].
  f_equal.
  - unfold by_path. rewrite find_app_none.
    + cbn [find]. rewrite Hp, str_eqb_refl. reflexivity.
    + intros z Hz. destruct (str_eqb (bfile_path z) (bfile_path x)) eqn:E; [|reflexivity].
      apply str_eqb_eq in E. exfalso. apply (Hpre z Hz). left. symmetry. exact E.
  - replace (pre ++ y :: l') with ((pre ++ [y]) ++ l') by (rewrite <- app_assoc; reflexivity).
    apply IH; [exact Hnl|].
    intros z Hz. apply in_app_or in Hz. destruct Hz as [Hz|[<-|[]]].
    + intros Hi. apply (Hpre z Hz). right. exact Hi.
    + rewrite Hp. exact Hnx.
Qed.

Lemma forall2_map_in {A} (R : A -> A -> Prop) (g : A -> A) l : Forall2 R l (map g l) -> forall x, In x l -> R x (g x).
Proof.
  induction l as [|a r IH]; intros H x Hx; [destruct Hx|]. cbn [map] in H. inversion H; subst.
  destruct Hx as [<-|Hx]; [assumption|apply IH; assumption].
Qed.

(* C13 for ANY history of append edits, over any number of files: only the first and the last
   version of the bundle must be valid.  (Edits that address no source file - an index out of
   range, a hand-written .proto file - change nothing.) *)
Theorem c13_histories : forall es bd pkg,
  valid bd = true -> valid (apply_edits bd es) = true ->
  (exists x, In x bd /\ bfile_pkg x = pkg) ->
  exists D D', compile bd pkg = Ok D /\ compile (apply_edits bd es) pkg = Ok D' /\ files_ext D D'.
Proof.
  intros es bd pkg Hv Hv' Hex.
  destruct (compile_correct_full to_snake to_camel to_screaming_snake bd pkg Hv Hex) as (D & Hc & _).
  set (bd' := apply_edits bd es) in *.
  pose proof (apply_edits_bext es bd) as Hb. fold bd' in Hb.
  assert (Hn : NoDup (map bfile_path bd)).
  { unfold valid, valid_bundle in Hv. apply andb_true_iff in Hv. destruct Hv as [_ Hd]. apply distinct_nodup. exact Hd. }
  assert (Hmap : map (by_path bd') bd = bd').
  { apply (by_path_map bd bd' Hb Hn []). intros y []. }
  assert (Hrel : forall x, In x bd -> bfile_ext x (by_path bd' x)).
  { apply forall2_map_in. rewrite Hmap. exact Hb. }
  rewrite <- Hmap in Hv' |- *.
  destruct (compile_package_ext_g to_snake to_camel to_screaming_snake to_camel_nodot to_snake_nodot
              bd (by_path bd') pkg D) as (D' & Hc' & He); try assumption.
  - intros x Hx. exact (bfile_ext_path _ _ (Hrel x Hx)).
  - intros x Hx. pose proof (Hrel x Hx) as Hr. destruct x as [j|p].
    + destruct (by_path bd' (BJ j)) as [j'|q] eqn:E; cbn in Hr; [|contradiction]. left. exists j, j'. auto.
    + destruct (by_path bd' (BP p)) as [j'|q] eqn:E; cbn in Hr; [contradiction|]. right. exists p. subst q. auto.
  - exact (valid_pkgs_nonempty _ _ _ bd Hv).
  - exists D, D'. auto.
Qed.

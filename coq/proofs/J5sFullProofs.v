(* J5sFullProofs.v — the single statements of C02 and C13: everything the separate theorems say
   about a compiled package of a valid bundle, as ONE conclusion, and C13_full without the
   "files lie in package directories" premise (it is part of validity: a file outside every
   package directory belongs to the package "", which the compiler cannot load). *)
From Coq Require Import String List NArith Bool.
From J5V.lib Require Import Outcome Strcase.
From J5V.model Require Import J5sAst Desc J5sWalk J5sLink J5sConvert J5sContract J5sSymbols J5sTypeNames J5sValid J5sEdit J5sCorr.
From J5V.proofs Require Import J5sProofs J5sContractProofs J5sLinkProofs J5sCompileProofs J5sSubPkgProofs J5sDepsProofs
  J5sNameProofs J5sTypeNameProofs StrcaseProofs J5sStrcaseProofs J5sInfraDepsProofs J5sExtProofs J5sC13Proofs.
Import ListNotations.
Local Open Scope N_scope.

(* every file of a valid bundle lies in a package directory *)
Lemma valid_pkgs_nonempty snake camel screaming bd :
  valid_bundle snake camel screaming bd = true -> forall x, In x bd -> bfile_pkg x <> [].
Proof.
  unfold valid_bundle. intros H x Hx.
  apply andb_true_iff in H. destruct H as [H _]. apply andb_true_iff in H. destruct H as [_ H].
  rewrite forallb_forall in H. specialize (H (bfile_pkg x) (in_map bfile_pkg _ _ Hx)).
  apply andb_true_iff in H. destruct H as [_ H]. unfold subpackages_free in H.
  apply andb_true_iff in H. destruct H as [H _]. apply andb_true_iff in H. destruct H as [H _].
  intros E. rewrite E in H. discriminate H.
Qed.

(* ---- C02: one statement.  What a package of a valid bundle compiles to:
   (1) the structural contract of the property text (package_contract_full: exactly the main /
       .service / .topic files, messages, enums, fields with name / JSON name / number / type /
       label / optionality / oneof membership, enum values, services, methods, HTTP rules, roles);
   (2) per source file, the (field, type name) list of the linked main / .service / .topic
       file - every field at every depth - is the declared one;
   (3) every reference of every declaration resolves and the file defining its target is the
       generated file or one of its dependencies;
   (4) every dependency of a generated file is an infrastructure file or the defining file of
       a reference of the declarations in it;
   (5) the infrastructure files the declarations need are the file itself or dependencies. *)
Definition package_complete (bd : bundle) (pkg : str) (D : list dfile) : Prop :=
  package_contract_full to_snake to_camel to_screaming_snake bd pkg D /\
  (forall f im, In (BJ f) bd -> j5s_pkg f = pkg -> import_map (jf_imports f) [] = Ok im ->
     let ev := mkEnv (j5s_pkg f) im (pkg_exports to_camel bd) in
     (exists df, In df D /\ main_types_ok to_snake to_camel ev f df) /\
     (file_services f <> [] -> exists df, In df D /\ service_types_ok to_snake to_camel ev f df) /\
     (file_topics f <> [] -> exists df, In df D /\ topic_types_ok to_snake to_camel ev f df) /\
     file_refs_ok ev f D) /\
  (forall df, In df D -> exists f im k,
     In (BJ f) bd /\ j5s_pkg f = pkg /\ import_map (jf_imports f) [] = Ok im /\
     fl_path df = kind_path f k /\
     only_refs (mkEnv (j5s_pkg f) im (pkg_exports to_camel bd)) (kind_refs f k) (fl_deps df)) /\
  (forall f, In (BJ f) bd -> j5s_pkg f = pkg -> file_needs_ok f D).

Theorem compile_complete : forall bd pkg,
  valid bd = true -> (exists f, In f bd /\ bfile_pkg f = pkg) ->
  exists D, compile bd pkg = Ok D /\ package_complete bd pkg D.
Proof.
  intros bd pkg Hv Hex.
  destruct (compile_correct_full to_snake to_camel to_screaming_snake bd pkg Hv Hex) as (D & Hc & Hok).
  exists D. split; [exact Hc|].
  pose proof (valid_pkgs_nonempty _ _ _ bd Hv) as Hne.
  split; [exact Hok|]. split; [|split].
  - intros f im Hin Hp Him. cbv zeta.
    destruct (compile_sub_tnames to_snake to_camel to_screaming_snake to_camel_nodot to_snake_nodot
                bd pkg D Hv Hne Hc f im Hin Hp Him) as [Hs Ht].
    split; [exact (compile_tnames to_snake to_camel to_screaming_snake to_camel_nodot to_snake_nodot
                     bd pkg D Hv Hne Hc f im Hin Hp Him)|].
    split; [exact Hs|]. split; [exact Ht|].
    exact (compile_refs_imported to_snake to_camel to_screaming_snake bd pkg D Hc f im Hin Hp Him).
  - exact (compile_deps_only to_snake to_camel to_screaming_snake bd pkg D Hc).
  - exact (compile_needs_imported to_snake to_camel to_screaming_snake bd pkg D Hc).
Qed.

(* ---- C13: the package-directory premise is part of validity *)
Theorem c13_full_valid : forall es bd pkg,
  valid bd = true -> seq_ok bd es -> (exists x, In x bd /\ bfile_pkg x = pkg) ->
  exists D D', compile bd pkg = Ok D /\ compile (apply_edits bd es) pkg = Ok D' /\ files_ext D D'.
Proof.
  intros es bd pkg Hv Hseq Hex.
  destruct (compile_correct_full to_snake to_camel to_screaming_snake bd pkg Hv Hex) as (D & Hc & _).
  destruct (c13_full es bd pkg D Hv (valid_pkgs_nonempty _ _ _ bd Hv) Hseq Hex Hc) as (D' & Hc' & He).
  exists D, D'. auto.
Qed.

(* the type-name theorems without the package-directory premise *)
Theorem compile_tnames_valid bd pkg D :
  valid bd = true -> compile bd pkg = Ok D ->
  forall f im, In (BJ f) bd -> j5s_pkg f = pkg -> import_map (jf_imports f) [] = Ok im ->
  exists df, In df D /\
    main_types_ok to_snake to_camel (mkEnv (j5s_pkg f) im (pkg_exports to_camel bd)) f df.
Proof.
  intros Hv Hc. exact (compile_tnames to_snake to_camel to_screaming_snake to_camel_nodot to_snake_nodot
                         bd pkg D Hv (valid_pkgs_nonempty _ _ _ bd Hv) Hc).
Qed.

Theorem compile_sub_tnames_valid bd pkg D :
  valid bd = true -> compile bd pkg = Ok D ->
  forall f im, In (BJ f) bd -> j5s_pkg f = pkg -> import_map (jf_imports f) [] = Ok im ->
  (file_services f <> [] ->
     exists df, In df D /\ service_types_ok to_snake to_camel (mkEnv (j5s_pkg f) im (pkg_exports to_camel bd)) f df) /\
  (file_topics f <> [] ->
     exists df, In df D /\ topic_types_ok to_snake to_camel (mkEnv (j5s_pkg f) im (pkg_exports to_camel bd)) f df).
Proof.
  intros Hv Hc. exact (compile_sub_tnames to_snake to_camel to_screaming_snake to_camel_nodot to_snake_nodot
                         bd pkg D Hv (valid_pkgs_nonempty _ _ _ bd Hv) Hc).
Qed.

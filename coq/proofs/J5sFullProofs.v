(* J5sFullProofs.v — the single statements of C02 and C13: everything the separate theorems say
   about a compiled package of a valid bundle, as ONE conclusion, and C13_full without the
   "files lie in package directories" premise (it is part of validity: a file outside every
   package directory belongs to the package "", which the compiler cannot load). *)
From Coq Require Import String List NArith Bool.
From J5V.lib Require Import Outcome Strcase.
From J5V.model Require Import J5sAst Desc J5sWalk J5sLink J5sConvert J5sContract J5sSymbols J5sTypeNames J5sValid J5sEdit J5sCorr.
From J5V.proofs Require Import J5sProofs J5sContractProofs J5sLinkProofs J5sCompileProofs J5sSubPkgProofs J5sDepsProofs
  J5sNameProofs J5sTypeNameProofs StrcaseProofs J5sStrcaseProofs J5sInfraDepsProofs J5sExtProofs J5sPkgExtProofs J5sC13Proofs.
Import ListNotations.
Local Open Scope N_scope.

(* every file of a valid bundle lies in a package directory *)
Lemma valid_pkgs_nonempty snake camel screaming bd :
  valid_bundle snake camel screaming bd = true -> forall x, In x bd -> bfile_pkg x <> [].
Proof.
  unfold valid_bundle. intros H x Hx.
  apply andb_true_iff in H. destruct H as [H _]. apply andb_true_iff in H. destruct H as [_ H].
  rewrite forallb_forall in H. specialize (H (bfile_pkg x) (in_map bfile_pkg _ _ Hx)).
  apply andb_true_iff in H. destruct H as [_ H]. unfold subpackages_free in H.
  apply andb_true_iff in H. destruct H as [H _]. apply andb_true_iff in H. destruct H as [H _].
  intros E. rewrite E in H. discriminate H.
Qed.

(* ---- C02: one statement.  What a package of a valid bundle compiles to:
   (1) the structural contract of the property text (package_contract_full: exactly the main /
       .service / .topic files, messages, enums, fields with name / JSON name / number / type /
       label / optionality / oneof membership, enum values, services, methods, HTTP rules, roles);
   (2) per source file, the (field, type name) list of the linked main / .service / .topic
       file - every field at every depth - is the declared one;
   (3) every reference of every declaration resolves and the file defining its target is the
       generated file or one of its dependencies;
   (4) every dependency of a generated file is an infrastructure file or the defining file of
       a reference of the declarations in it;
   (5) the infrastructure files the declarations need are the file itself or dependencies. *)
Definition package_complete (bd : bundle) (pkg : str) (D : list dfile) : Prop :=
  package_contract_full to_snake to_camel to_screaming_snake bd pkg D /\
  (forall f im, In (BJ f) bd -> j5s_pkg f = pkg -> import_map (jf_imports f) [] = Ok im ->
     let ev := mkEnv (j5s_pkg f) im (pkg_exports to_camel bd) in
     (exists df, In df D /\ main_types_ok to_snake to_camel ev f df) /\
     (file_services f <> [] -> exists df, In df D /\ service_types_ok to_snake to_camel ev f df) /\
     (file_topics f <> [] -> exists df, In df D /\ topic_types_ok to_snake to_camel ev f df) /\
     file_refs_ok ev f D) /\
  (forall df, In df D -> exists f im k,
     In (BJ f) bd /\ j5s_pkg f = pkg /\ import_map (jf_imports f) [] = Ok im /\
     fl_path df = kind_path f k /\
     only_refs (mkEnv (j5s_pkg f) im (pkg_exports to_camel bd)) (kind_refs f k) (fl_deps df)) /\
  (forall f, In (BJ f) bd -> j5s_pkg f = pkg -> file_needs_ok f D).

Theorem compile_complete : forall bd pkg,
  valid bd = true -> (exists f, In f bd /\ bfile_pkg f = pkg) ->
  exists D, compile bd pkg = Ok D /\ package_complete bd pkg D.
Proof.
  intros bd pkg Hv Hex.
  destruct (compile_correct_full to_snake to_camel to_screaming_snake bd pkg Hv Hex) as (D & Hc & Hok).
  exists D. split; [exact Hc|].
  pose proof (valid_pkgs_nonempty _ _ _ bd Hv) as Hne.
  split; [exact Hok|]. split; [|split].
  - intros f im Hin Hp Him. cbv zeta.
    destruct (compile_sub_tnames to_snake to_camel to_screaming_snake to_camel_nodot to_snake_nodot
                bd pkg D Hv Hne Hc f im Hin Hp Him) as [Hs Ht].
    split; [exact (compile_tnames to_snake to_camel to_screaming_snake to_camel_nodot to_snake_nodot
                     bd pkg D Hv Hne Hc f im Hin Hp Him)|].
    split; [exact Hs|]. split; [exact Ht|].
    exact (compile_refs_imported to_snake to_camel to_screaming_snake bd pkg D Hc f im Hin Hp Him).
  - exact (compile_deps_only to_snake to_camel to_screaming_snake bd pkg D Hc).
  - exact (compile_needs_imported to_snake to_camel to_screaming_snake bd pkg D Hc).
Qed.

(* ---- C13: the package-directory premise is part of validity *)
Theorem c13_full_valid : forall es bd pkg,
  valid bd = true -> seq_ok bd es -> (exists x, In x bd /\ bfile_pkg x = pkg) ->
  exists D D', compile bd pkg = Ok D /\ compile (apply_edits bd es) pkg = Ok D' /\ files_ext D D'.
Proof.
  intros es bd pkg Hv Hseq Hex.
  destruct (compile_correct_full to_snake to_camel to_screaming_snake bd pkg Hv Hex) as (D & Hc & _).
  destruct (c13_full es bd pkg D Hv (valid_pkgs_nonempty _ _ _ bd Hv) Hseq Hex Hc) as (D' & Hc' & He).
  exists D, D'. auto.
Qed.

(* the type-name theorems without the package-directory premise *)
Theorem compile_tnames_valid bd pkg D :
  valid bd = true -> compile bd pkg = Ok D ->
  forall f im, In (BJ f) bd -> j5s_pkg f = pkg -> import_map (jf_imports f) [] = Ok im ->
  exists df, In df D /\
    main_types_ok to_snake to_camel (mkEnv (j5s_pkg f) im (pkg_exports to_camel bd)) f df.
Proof.
  intros Hv Hc. exact (compile_tnames to_snake to_camel to_screaming_snake to_camel_nodot to_snake_nodot
                         bd pkg D Hv (valid_pkgs_nonempty _ _ _ bd Hv) Hc).
Qed.

Theorem compile_sub_tnames_valid bd pkg D :
  valid bd = true -> compile bd pkg = Ok D ->
  forall f im, In (BJ f) bd -> j5s_pkg f = pkg -> import_map (jf_imports f) [] = Ok im ->
  (file_services f <> [] ->
     exists df, In df D /\ service_types_ok to_snake to_camel (mkEnv (j5s_pkg f) im (pkg_exports to_camel bd)) f df) /\
  (file_topics f <> [] ->
     exists df, In df D /\ topic_types_ok to_snake to_camel (mkEnv (j5s_pkg f) im (pkg_exports to_camel bd)) f df).
Proof.
  intros Hv Hc. exact (compile_sub_tnames to_snake to_camel to_screaming_snake to_camel_nodot to_snake_nodot
                         bd pkg D Hv (valid_pkgs_nonempty _ _ _ bd Hv) Hc).
Qed.

(* ---- C13 for histories of ONE source file: only the first and the last version need to be
   valid (the intermediate versions need not even compile - e.g. a field referring to a type
   that a later edit of the sequence declares).  The general theorem (c13_full_valid) walks
   through the intermediate bundles because its single step replaces one file; when every edit
   addresses the same file the whole sequence is one step. *)
Lemma nth_error_update_same {A} (g : A -> A) l : forall k x, nth_error l k = Some x -> nth_error (update_nth k g l) k = Some (g x).
Proof.
  induction l as [|y r IH]; intros k x Hk; destruct k; cbn in Hk; try discriminate; cbn [update_nth nth_error].
  - inversion Hk. reflexivity.
  - apply IH. exact Hk.
Qed.

Lemma update_nth_twice_const {A} (a c : A) l : forall k,
  update_nth k (fun _ => c) (update_nth k (fun _ => a) l) = update_nth k (fun _ => c) l.
Proof. induction l as [|y r IH]; intros k; destruct k; cbn [update_nth]; try reflexivity. f_equal. apply IH. Qed.

Lemma apply_edits_same_file es : forall bd k f,
  nth_error bd k = Some (BJ f) -> (forall e, In e es -> edit_target e = k) ->
  apply_edits bd es = update_nth k (fun _ => BJ (fold_left (fun g e => edit_file e g) es f)) bd.
Proof.
  induction es as [|e r IH]; intros bd k f Hk Ht; cbn [apply_edits fold_left].
  - clear Ht. revert k Hk. induction bd as [|x t IHb]; intros k Hk; destruct k; cbn in Hk; try discriminate; cbn [update_nth].
    + inversion Hk. reflexivity.
    + f_equal. apply IHb. exact Hk.
  - change (fold_left apply_edit r (apply_edit bd e)) with (apply_edits (apply_edit bd e) r).
    assert (He : apply_edit bd e = update_nth k (fun _ => BJ (edit_file e f)) bd).
    { unfold apply_edit. rewrite (Ht e (or_introl eq_refl)). rewrite (update_nth_const _ _ _ _ Hk). reflexivity. }
    rewrite He.
    rewrite (IH _ k (edit_file e f)).
    + apply update_nth_twice_const.
    + exact (nth_error_update_same _ bd k (BJ f) Hk).
    + intros e' He'. apply Ht. right. exact He'.
Qed.

Theorem c13_single_file : forall es bd pkg k f,
  valid bd = true -> nth_error bd k = Some (BJ f) -> (forall e, In e es -> edit_target e = k) ->
  valid (apply_edits bd es) = true ->
  (exists x, In x bd /\ bfile_pkg x = pkg) ->
  exists D D', compile bd pkg = Ok D /\ compile (apply_edits bd es) pkg = Ok D' /\ files_ext D D'.
Proof.
  intros es bd pkg k f Hv Hk Ht Hv' Hex.
  destruct (compile_correct_full to_snake to_camel to_screaming_snake bd pkg Hv Hex) as (D & Hc & _).
  set (f' := fold_left (fun g e => edit_file e g) es f) in *.
  pose proof (edit_sequence_ext es f) as Hext. fold f' in Hext.
  assert (Hn : NoDup (map bfile_path bd)).
  { unfold valid, valid_bundle in Hv. apply andb_true_iff in Hv. destruct Hv as [_ Hd]. apply distinct_nodup. exact Hd. }
  assert (Heq : apply_edits bd es = map (replace_file f') bd).
  { rewrite (apply_edits_same_file es bd k f Hk Ht). fold f'.
    apply update_nth_replace with (j := f); [exact Hn|exact Hk|]. apply (src_ext_path _ _ Hext). }
  assert (Honly : forall x, In x bd -> bfile_path x = j5s_path f -> x = BJ f).
  { intros x Hx Hp. eapply (nodup_map_inj bfile_path); [exact Hn|exact Hx|eapply nth_error_In; exact Hk|exact Hp]. }
  rewrite Heq in Hv' |- *.
  destruct (compile_ext_strcase bd f f' pkg D Hext Honly (valid_pkgs_nonempty _ _ _ bd Hv) Hv Hv' Hex Hc) as (D' & Hc' & He).
  exists D, D'. auto.
Qed.

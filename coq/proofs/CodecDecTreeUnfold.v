(* CodecDecTreeUnfold.v — one-step unfolding equations (text copied from model/CodecDecTree.v:
   equations of the tree-level functions (the S-fuel branch with the recursive calls folded), each
   proved by reflexivity.  Used instead of cbn, which exposes the mutual fixpoint block. *)
From Coq Require Import String List NArith ZArith Bool.
From J5V.lib Require Import Outcome Json.
From J5V.model Require Import CodecTypes CodecDecScalar CodecDec CodecDecTree.
Import ListNotations.
Local Open Scope N_scope.
Local Open Scope bool_scope.
Local Open Scope string_scope.

Section Unfold.
  Variable orc : oracles.
  Variable e : env.

  Lemma tr_present_S (f : nat) (d : N) (p : property) (j : jvalue) (m : msg) :
    tr_present orc e (S f) d p j m =

      match p_ty p with
      | FScalar k =>
        if is_container j then Err "unexpected token, expected scalar"
        else
          obind (scalar_from_go orc k (goval_of_json j)) (fun v =>
            omap fst (with_holder (p_path p) m (fun n h =>
              match v with
              | None => Ok (msg_del n h, tt)
              | Some x => Ok (msg_set (p_explicit p) (p_siblings p) n x h, tt)
              end)))
      | FEnum ref =>
        match j with
        | JStr s =>
          match lookup e ref with
          | Some (SEnum prefix opts) =>
            match option_by_name prefix opts s with
            | Some z =>
              omap fst (with_holder (p_path p) m (fun n h =>
                Ok (msg_set (p_explicit p) (p_siblings p) n (VEnum z) h, tt)))
            | None => Err "enum value not found"
            end
          | _ => Err "schema"
          end
        | _ => Err "unexpected token, expected string"
        end
      | FObject ref =>
        match j with
        | JObj ms =>
          match lookup e ref with
          | Some (SObject props) =>
            omap fst (with_holder (p_path p) m (fun n h =>
              let '(sub, h1) := msg_mutable (p_siblings p) n h in
              obind (tr_object orc e f d props ms sub []) (fun sub' => Ok (msg_put n (VMsg sub') h1, tt))))
          | _ => Err "schema"
          end
        | _ => Err "unexpected token"
        end
      | FOneof ref =>
        match j with
        | JObj ms =>
          match lookup e ref with
          | Some (SOneof props) =>
            match p_path p with
            | [] => tr_oneof orc e f d props ms m [] [] None
            | path =>
              omap fst (with_holder path m (fun n h =>
                let '(sub, h1) := msg_mutable (p_siblings p) n h in
                obind (tr_oneof orc e f d props ms sub [] [] None) (fun sub' => Ok (msg_put n (VMsg sub') h1, tt))))
            end
          | _ => Err "schema"
          end
        | _ => Err "unexpected token"
        end
      | FArray item =>
        match j with
        | JArr items =>
          match item with
          | FScalar _ | FEnum _ | FObject _ | FOneof _ =>
            omap fst (with_holder (p_path p) m (fun n h =>
              let existing := match msg_get n h with Some (VList l) => l | _ => [] end in
              obind (tr_array orc e f d item items existing) (fun l =>
                Ok (msg_set true (p_siblings p) n (VList l) h, tt))))
          | _ => Err "unsupported array item schema"
          end
        | _ => Err "unexpected token"
        end
      | FMap item =>
        match j with
        | JObj ms =>
          match item with
          | FScalar _ | FEnum _ | FObject _ | FOneof _ =>
            omap fst (with_holder (p_path p) m (fun n h =>
              let existing := match msg_get n h with Some (VMap l) => l | _ => [] end in
              obind (tr_map orc e f d item ms existing) (fun l =>
                Ok (msg_set true (p_siblings p) n (VMap l) h, tt))))
          | _ => Err "unsupported map item schema"
          end
        | _ => Err "unexpected token"
        end
      | FAny pb =>
        match j with
        | JObj ms =>
          omap fst (with_holder (p_path p) m (fun n h =>
            let '(sub, h1) := msg_mutable (p_siblings p) n h in
            obind (tr_any_body ms None None) (fun vr =>
              match snd vr, fst vr with
              | None, _ => Err "no type found in Any"
              | _, None => Err "no value found in Any"
              | Some tn, Some v =>
                if pb then Err "proto is required for PB Any"
                else
                  let sub1 := msg_set false [] 1 (VStr tn) sub in
                  let sub2 := msg_set false [] 3 (VBytes (canon_json (tokens_of v))) sub1 in
                  Ok (msg_put n (VMsg sub2) h1, tt)
              end)))
        | _ => Err "unexpected token"
        end
      end.
  Proof. reflexivity. Qed.

  Lemma tr_object_S (f : nat) (d : N) (props : list property) (ms : list (bytes * jvalue)) (m : msg) (seen : list bytes) :
    tr_object orc e (S f) d props ms m seen =

      match ms with
      | [] => Ok m
      | (key, v) :: r =>
        match find_prop props key with
        | None => Err "no such field"
        | Some p =>
          obind (tr_member d (tr_present orc e f (d + 1) p) p v m seen) (fun ms' =>
            tr_object orc e f d props r (fst ms') (snd ms'))
        end
      end.
  Proof. reflexivity. Qed.

  Lemma tr_oneof_S (f : nat) (d : N) (props : list property) (ms : list (bytes * jvalue)) (m : msg) (seen : list bytes) (found : list bytes) (constrain : option bytes) :
    tr_oneof orc e (S f) d props ms m seen found constrain =

      match ms with
      | [] => oneof_post props m found constrain
      | (key, v) :: r =>
        if bytes_eqb key type_key then
          match v with
          | JStr s => tr_oneof orc e f d props r m seen found (Some s)
          | _ => Err "unexpected token, expected string"
          end
        else
          match find_prop props key with
          | None => Err "no such key"
          | Some p =>
            obind (tr_member d (tr_present orc e f (d + 1) p) p v m seen) (fun ms' =>
              tr_oneof orc e f d props r (fst ms') (snd ms') (found ++ [key]) constrain)
          end
      end.
  Proof. reflexivity. Qed.

  Lemma tr_array_S (f : nat) (d : N) (item : field_ty) (js : list jvalue) (acc : list pval) :
    tr_array orc e (S f) d item js acc =

      match js with
      | [] => Ok acc
      | v :: r =>
        match item with
        | FScalar k =>
          if is_container v then Err "unexpected token, expected scalar"
          else
            obind (scalar_from_go orc k (goval_of_json v)) (fun x =>
              match x with
              | None => Err "cannot append nil value"
              | Some _ => obind (list_append x acc) (fun acc' => tr_array orc e f d item r acc')
              end)
        | FEnum ref =>
          if is_container v then Err "unexpected token, expected scalar"
          else
          match v with
          | JStr s =>
            match lookup e ref with
            | Some (SEnum prefix opts) =>
              match option_by_name prefix opts s with
              | Some z => tr_array orc e f d item r (acc ++ [VEnum z])
              | None => Err "enum value not found"
              end
            | _ => Err "schema"
            end
          | _ => Err "cannot set enum value"
          end
        | FObject ref =>
          match lookup e ref with
          | Some (SObject props) =>
            match v with
            | JObj ms => obind (tr_object orc e f d props ms [] []) (fun sub => tr_array orc e f d item r (acc ++ [VMsg sub]))
            | _ => Err "unexpected token"
            end
          | _ => Err "schema"
          end
        | FOneof ref =>
          match lookup e ref with
          | Some (SOneof props) =>
            match v with
            | JObj ms => obind (tr_oneof orc e f d props ms [] [] [] None) (fun sub => tr_array orc e f d item r (acc ++ [VMsg sub]))
            | _ => Err "unexpected token"
            end
          | _ => Err "schema"
          end
        | _ => Err "unknown array schema type"
        end
      end.
  Proof. reflexivity. Qed.

  Lemma tr_map_S (f : nat) (d : N) (item : field_ty) (ms : list (bytes * jvalue)) (acc : list (bytes * pval)) :
    tr_map orc e (S f) d item ms acc =

      match ms with
      | [] => Ok acc
      | (key, v) :: r =>
        match item with
        | FScalar k =>
          match map_get key acc with
          | Some _ => Err "key already exists in map"
          | None =>
            if is_container v then Err "unexpected token, expected scalar"
            else
              obind (scalar_from_go orc k (goval_of_json v)) (fun x =>
                match x with
                | None => Err "cannot set nil value"
                | Some _ => obind (map_set_value key x acc) (fun acc' => tr_map orc e f d item r acc')
                end)
          end
        | FEnum ref =>
          match map_get key acc with
          | Some _ => Err "key already exists in map"
          | None =>
            match v with
            | JStr s =>
              match lookup e ref with
              | Some (SEnum prefix opts) =>
                match option_by_name prefix opts s with
                | Some z => tr_map orc e f d item r (map_set key (VEnum z) acc)
                | None => Err "enum value not found"
                end
              | _ => Err "schema"
              end
            | _ => Err "unexpected token, expected string"
            end
          end
        | FObject ref =>
          match map_get key acc with
          | Some _ => Err "key already exists in map"
          | None =>
            match lookup e ref with
            | Some (SObject props) =>
              match v with
              | JObj ms' => obind (tr_object orc e f d props ms' [] []) (fun sub => tr_map orc e f d item r (map_set key (VMsg sub) acc))
              | _ => Err "unexpected token"
              end
            | _ => Err "schema"
            end
          end
        | FOneof ref =>
          match map_get key acc with
          | Some _ => Err "key already exists in map"
          | None =>
            match lookup e ref with
            | Some (SOneof props) =>
              match v with
              | JObj ms' => obind (tr_oneof orc e f d props ms' [] [] [] None) (fun sub => tr_map orc e f d item r (map_set key (VMsg sub) acc))
              | _ => Err "unexpected token"
              end
            | _ => Err "schema"
            end
          end
        | _ => Err "unknown map schema type"
        end
      end.
  Proof. reflexivity. Qed.
End Unfold.

(* CodecFloatIntProofs.v — the strconv float laws (premises float_text_ok / float_roundtrip of C01 and
   C08) PROVED on the sub-domain of integer-valued floats of magnitude below 10^5, for the model of
   FormatFloat / ParseFloat of model/CodecFloatInt.v (compared with strconv on that sub-domain on
   every run: stream CFloatInt).  The IEEE encode/decode inverse is checked by evaluation for every
   integer of the sub-domain, both signs, both widths, and lifted to a universally quantified lemma. *)
From Coq Require Import List NArith ZArith Bool Lia ZifyN ZifyBool.
From J5V.lib Require Import Json JsonPrint.
From J5V.model Require Import CodecEnc CodecFloatInt.
Import ListNotations.
Local Open Scope N_scope.
Local Open Scope bool_scope.

(* P holds for 0, 1, ..., n-1: a loop that does not build a list *)
Definition all_below_step (P : N -> bool) (st : N * bool) : N * bool := (N.succ (fst st), snd st && P (fst st)).
Definition all_below (P : N -> bool) (n : N) : bool := snd (N.iter n (all_below_step P) (0, true)).

Lemma all_below_iter P n : fst (N.iter n (all_below_step P) (0, true)) = n /\
  (snd (N.iter n (all_below_step P) (0, true)) = true -> forall x, x < n -> P x = true).
Proof.
  induction n as [|n [IH1 IH2]] using N.peano_ind.
  - split; [reflexivity|]. intros _ x Hx. lia.
  - rewrite N.iter_succ. unfold all_below_step at 1. cbn [fst snd]. rewrite IH1. split; [reflexivity|].
    intros H x Hx. apply andb_true_iff in H as [H1 H2].
    destruct (N.eq_dec x n) as [->|Hne]; [rewrite IH1 in H2; exact H2|]. apply IH2; [exact H1|lia].
Qed.

Lemma all_below_sound P n : all_below P n = true -> forall x, x < n -> P x = true.
Proof. intros H. apply (proj2 (all_below_iter P n)). exact H. Qed.

Definition opt_eqb (a : option (bool * N)) (neg : bool) (n : N) : bool :=
  match a with Some (s, k) => Bool.eqb s neg && (k =? n) | None => false end.

(* decode (encode n) = n and the pattern is finite, for the whole sub-domain *)
Definition rt_check (is32 neg : bool) (n : N) : bool :=
  opt_eqb (int_of_float is32 (float_of_int is32 neg n)) neg n && float_finite is32 (float_of_int is32 neg n) &&
  (float_of_int is32 neg n <? (if is32 then 4294967296 else 18446744073709551616)).

Lemma rt_tt : all_below (rt_check true true) small_bound = true. Proof. vm_compute. reflexivity. Qed.
Lemma rt_tf : all_below (rt_check true false) small_bound = true. Proof. vm_compute. reflexivity. Qed.
Lemma rt_ft : all_below (rt_check false true) small_bound = true. Proof. vm_compute. reflexivity. Qed.
Lemma rt_ff : all_below (rt_check false false) small_bound = true. Proof. vm_compute. reflexivity. Qed.

Lemma int_of_float_of_int is32 neg n : n < small_bound ->
  int_of_float is32 (float_of_int is32 neg n) = Some (neg, n) /\
  float_finite is32 (float_of_int is32 neg n) = true /\
  float_of_int is32 neg n < (if is32 then 4294967296 else 18446744073709551616).
Proof.
  intros Hn.
  assert (Hc : rt_check is32 neg n = true).
  { destruct is32, neg;
      [exact (all_below_sound _ _ rt_tt n Hn)|exact (all_below_sound _ _ rt_tf n Hn)
      |exact (all_below_sound _ _ rt_ft n Hn)|exact (all_below_sound _ _ rt_ff n Hn)]. }
  unfold rt_check in Hc. apply andb_true_iff in Hc as [Hc H3]. apply andb_true_iff in Hc as [H1 H2].
  split; [|split; [exact H2|lia]].
  unfold opt_eqb in H1. destruct (int_of_float is32 (float_of_int is32 neg n)) as [[s k]|]; [|discriminate].
  apply andb_true_iff in H1 as [Hs Hk]. apply eqb_prop in Hs. apply N.eqb_eq in Hk. subst. reflexivity.
Qed.

Lemma digits_of_is_digits n : forallb is_digit (digits_of n) = true /\ digits_of n <> [].
Proof. split; [apply digits_of_digits|apply digits_of_nonempty]. Qed.

Lemma parse_N_digits_of n : parse_N (digits_of n) = Some n.
Proof. apply parse_N_digits. Qed.

(* the float laws on the sub-domain *)
Theorem float_laws_small is32 neg n : n < small_bound ->
  let bits := float_of_int is32 neg n in
  float_finite is32 bits = true /\
  exists txt, fmt_small is32 bits = Some txt /\ valid_number txt = true /\ parse_small is32 txt = Some bits.
Proof.
  intros Hn bits. destruct (int_of_float_of_int is32 neg n Hn) as (Hi & Hf & _). split; [exact Hf|].
  unfold fmt_small. fold bits in Hi. rewrite Hi. replace (n <? small_bound) with true by lia.
  eexists. split; [reflexivity|]. split.
  - destruct neg; cbn [app].
    + change (45 :: digits_of n) with (print_Z (Z.neg 1)) || idtac.
      destruct (N.eq_dec n 0) as [->|Hnz]; [reflexivity|].
      destruct n as [|p]; [congruence|]. apply (print_Z_valid_number (Zneg p)).
    + destruct n as [|p]; [reflexivity|]. apply (print_Z_valid_number (Zpos p)).
  - unfold parse_small. destruct neg; cbn [app].
    + change (strip_minus (45 :: digits_of n)) with (true, digits_of n). cbn [fst snd].
      rewrite parse_N_digits_of. replace (n <? small_bound) with true by lia. reflexivity.
    + assert (Hhd : strip_minus (digits_of n) = (false, digits_of n)).
      { pose proof (digits_of_digits n) as Hd. unfold strip_minus. destruct (digits_of n) as [|c r]; [reflexivity|].
        cbn [forallb] in Hd. apply andb_true_iff in Hd as [Hc _]. unfold is_digit in Hc.
        replace (c =? 45) with false by lia. reflexivity. }
      rewrite Hhd. cbn [fst snd]. rewrite parse_N_digits_of. replace (n <? small_bound) with true by lia. reflexivity.
Qed.

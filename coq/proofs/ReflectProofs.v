(* ReflectProofs.v — lemmas behind props/C18.v (part 1: totality of the reader).
   Main result: for every descriptor set whose enums have a value and whose enum names do not
   collide (after splitDescriptorName) with message / oneof names, the reader neither panics nor
   runs out of fuel [length (d_msgs D) + 1]: recursion is cut by the placeholder; the termination
   measure is the number of message names without an entry in the schema set. *)
From Coq Require Import String List Arith NArith ZArith Bool Lia.
From J5V.lib Require Import Outcome.
From J5V.model Require Import ReflectDesc ReflectSchema Reflect ReflectSpec.
From J5V.gen Require ReflectGen.
Import ListNotations.
Local Open Scope bool_scope.

(* ---------------------------------------------------------------- strings, refs *)
Lemma str_eqb_eq a : forall b, str_eqb a b = true <-> a = b.
Proof.
  induction a as [|x r IH]; intros [|y s]; cbn [str_eqb]; split; intros H; try discriminate; try reflexivity.
  - apply andb_prop in H as [H1 H2]. apply N.eqb_eq in H1. apply IH in H2. congruence.
  - inversion H; subst. rewrite N.eqb_refl. cbn. apply IH. reflexivity.
Qed.
Lemma str_eqb_refl a : str_eqb a a = true.
Proof. apply str_eqb_eq. reflexivity. Qed.
Lemma ref_eqb_eq a b : ref_eqb a b = true <-> a = b.
Proof.
  destruct a as [a1 a2], b as [b1 b2]. unfold ref_eqb. cbn [fst snd]. split; intros H.
  - apply andb_prop in H as [H1 H2]. apply str_eqb_eq in H1. apply str_eqb_eq in H2. congruence.
  - inversion H; subst. rewrite !str_eqb_refl. reflexivity.
Qed.
Lemma ref_eqb_refl a : ref_eqb a a = true.
Proof. apply ref_eqb_eq. reflexivity. Qed.
Lemma ref_eqb_sym a b : ref_eqb a b = ref_eqb b a.
Proof.
  destruct (ref_eqb a b) eqn:E1, (ref_eqb b a) eqn:E2; try reflexivity.
  - apply ref_eqb_eq in E1. subst. rewrite ref_eqb_refl in E2. discriminate.
  - apply ref_eqb_eq in E2. subst. rewrite ref_eqb_refl in E1. discriminate.
Qed.
Lemma ref_eqb_neq a b : ref_eqb a b = false <-> a <> b.
Proof.
  split; intros H.
  - intros ->. rewrite ref_eqb_refl in H. discriminate.
  - destruct (ref_eqb a b) eqn:E; [|reflexivity]. apply ref_eqb_eq in E. contradiction.
Qed.

(* ---------------------------------------------------------------- the schema set *)
Lemma lookup_cons k e st k' :
  lookup ((k, e) :: st) k' = if ref_eqb k k' then Some e else lookup st k'.
Proof. reflexivity. Qed.

Lemma lookup_update st k e k' :
  lookup (update st k e) k' =
  if ref_eqb k k' then match lookup st k with Some _ => Some e | None => None end else lookup st k'.
Proof.
  induction st as [|[k0 e0] r IH]; cbn [update lookup].
  - destruct (ref_eqb k k'); reflexivity.
  - destruct (ref_eqb k0 k) eqn:E0.
    + apply ref_eqb_eq in E0. subst k0. cbn [lookup]. destruct (ref_eqb k k'); reflexivity.
    + cbn [lookup]. rewrite IH. destruct (ref_eqb k0 k') eqn:E1.
      * apply ref_eqb_eq in E1. subst k0. rewrite ref_eqb_sym, E0. reflexivity.
      * reflexivity.
Qed.

Definition has_key (st : sset) (k : ref) : bool :=
  match lookup st k with Some _ => true | None => false end.
(* keys are never removed *)
Definition ext (st st' : sset) : Prop := forall k, has_key st k = true -> has_key st' k = true.
Lemma ext_refl st : ext st st.
Proof. intros k H. exact H. Qed.
Lemma ext_trans a b c : ext a b -> ext b c -> ext a c.
Proof. intros H1 H2 k H. apply H2, H1, H. Qed.
Lemma ext_cons st k e : ext st ((k, e) :: st).
Proof.
  intros k' H. unfold has_key in *. rewrite lookup_cons. destruct (ref_eqb k k'); [reflexivity|exact H].
Qed.
Lemma ext_update st k e : ext st (update st k e).
Proof.
  intros k' H. unfold has_key in *. rewrite lookup_update. destruct (ref_eqb k k') eqn:E; [|exact H].
  apply ref_eqb_eq in E. subst k'. destruct (lookup st k); [reflexivity|discriminate].
Qed.

(* ---------------------------------------------------------------- checkFlattenCycle never runs out of fuel *)
Definition memk (seen : list ref) (k : ref) : bool := existsb (ref_eqb k) seen.
(* entries whose key has not been expanded yet, each with its flattened targets *)
Fixpoint walk_weight (st : sset) (seen : list ref) : nat :=
  match st with
  | [] => 0
  | (k, e) :: r => (if memk seen k then 0 else 1 + length (entry_targets e)) + walk_weight r seen
  end.

Lemma memk_cons seen k k' : memk (k :: seen) k' = ref_eqb k' k || memk seen k'.
Proof. reflexivity. Qed.

Lemma walk_weight_mono st seen k : walk_weight st (k :: seen) <= walk_weight st seen.
Proof.
  induction st as [|[k0 e0] r IH]; cbn [walk_weight]; [lia|]. rewrite memk_cons.
  destruct (ref_eqb k0 k); cbn [orb]; destruct (memk seen k0); lia.
Qed.
Lemma walk_weight_expand st seen k e :
  memk seen k = false -> lookup st k = Some e ->
  walk_weight st (k :: seen) + 1 + length (entry_targets e) <= walk_weight st seen.
Proof.
  intros Hs. induction st as [|[k0 e0] r IH]; cbn [lookup walk_weight]; intros Hl; [discriminate|].
  rewrite memk_cons. destruct (ref_eqb k0 k) eqn:E.
  - apply ref_eqb_eq in E. subst k0. inversion Hl; subst e0. rewrite Hs. cbn [orb].
    pose proof (walk_weight_mono r seen k). lia.
  - cbn [orb]. specialize (IH Hl). destruct (memk seen k0); lia.
Qed.

Lemma flatten_walk_fuel st rootk : forall fuel seen todo,
  length todo + walk_weight st seen < fuel -> flatten_walk fuel st rootk seen todo <> None.
Proof.
  induction fuel as [|fuel IH]; intros seen todo Hf; [lia|]. cbn [flatten_walk].
  destruct todo as [|k rest]; [discriminate|].
  destruct (ref_eqb k rootk); [discriminate|].
  cbn [length] in Hf. fold (memk seen k). destruct (memk seen k) eqn:Es.
  - apply IH. lia.
  - apply IH. rewrite app_length. destruct (lookup st k) as [e|] eqn:El.
    + pose proof (walk_weight_expand st seen k e Es El). lia.
    + pose proof (walk_weight_mono st seen k). cbn [length]. lia.
Qed.

Lemma flat_targets_len ps : length (flat_targets ps) <= length ps.
Proof.
  unfold flat_targets. induction ps as [|p r IH]; cbn [flat_map length]; [lia|]. rewrite app_length.
  destruct (p_schema p) as [| | |rr [|]| | |]; cbn [length]; lia.
Qed.
Lemma walk_weight_nil st : walk_weight st [] <= length st + total_props st.
Proof.
  unfold total_props. induction st as [|[k e] r IH]; cbn [walk_weight length fold_right snd memk existsb]; [lia|].
  destruct e as [|root]; cbn [entry_targets length]; [lia|].
  destruct root as [n d en a ps|n d ps|n d p o i]; cbn [entry_targets root_props length]; try lia.
  pose proof (flat_targets_len ps). lia.
Qed.
Lemma flatten_cycle_fuel st rootk ps : flatten_cycle st rootk ps <> None.
Proof.
  unfold flatten_cycle. apply flatten_walk_fuel.
  pose proof (flat_targets_len ps). pose proof (walk_weight_nil st). lia.
Qed.

(* ---------------------------------------------------------------- the enum ref of a field (with its guard) *)
Lemma enum_ref_inv st e st1 :
  enum_ref st e = Ok st1 ->
  (st1 = st /\ exists a b c d g, lookup st (enum_key e) = Some (Linked (REnum a b c d g))) \/
  (lookup st (enum_key e) = None /\ exists r, build_enum e = Ok r /\ st1 = (enum_key e, Linked r) :: st).
Proof.
  unfold enum_ref. destruct (lookup st (enum_key e)) as [[|[| |a b c d g]]|] eqn:El; try discriminate.
  - intros H; inversion H; subst. left. split; [reflexivity|eauto 10].
  - destruct (build_enum e) as [r| | |]; cbn [obind]; try discriminate.
    intros H; inversion H; subst. right. split; [reflexivity|eauto].
Qed.

(* ---------------------------------------------------------------- well-formedness needed for totality *)
Section Totality.
Variable D : desc.

Definition enum_nonempty (e : enumd) : Prop :=
  match e with Enum _ _ _ values _ _ => values <> [] end.

(* split names of enums are not names of messages or of real (non-synthetic) oneofs *)
Definition enum_keys_apart : Prop :=
  forall e m, In e (d_enums D) -> In m (d_msgs D) ->
    enum_key e <> msg_key m /\
    forall o, In o (m_oneofs m) -> match o with Oneof name _ syn _ _ => syn = false -> enum_key e <> oneof_key m name end.

Definition wf_total : Prop :=
  (forall e, In e (d_enums D) -> enum_nonempty e) /\ enum_keys_apart.

Hypothesis Hwf : wf_total.

(* invariant: an entry under an enum's name is a linked enum schema *)
Definition enum_entry_ok (st : sset) (e : enumd) : Prop :=
  match lookup st (enum_key e) with
  | None => True
  | Some (Linked (REnum _ _ _ _ _)) => True
  | _ => False
  end.
Definition Inv (st : sset) : Prop := forall e, In e (d_enums D) -> enum_entry_ok st e.

Lemma Inv_nil : Inv [].
Proof. intros e _. exact I. Qed.

Lemma Inv_cons_other st k en :
  Inv st -> (forall e, In e (d_enums D) -> enum_key e <> k) -> Inv ((k, en) :: st).
Proof.
  intros HI Hk e He. unfold enum_entry_ok. rewrite lookup_cons.
  destruct (ref_eqb k (enum_key e)) eqn:E.
  - apply ref_eqb_eq in E. exfalso. apply (Hk e He). congruence.
  - apply HI, He.
Qed.
Lemma Inv_update_other st k en :
  Inv st -> (forall e, In e (d_enums D) -> enum_key e <> k) -> Inv (update st k en).
Proof.
  intros HI Hk e He. unfold enum_entry_ok. rewrite lookup_update.
  destruct (ref_eqb k (enum_key e)) eqn:E.
  - apply ref_eqb_eq in E. exfalso. apply (Hk e He). congruence.
  - apply HI, He.
Qed.
Lemma Inv_cons_enum st e r :
  Inv st -> (exists a b c d f, r = REnum a b c d f) -> Inv ((enum_key e, Linked r) :: st).
Proof.
  intros HI (a & b & c & d & f & ->) e' He'. unfold enum_entry_ok. rewrite lookup_cons.
  destruct (ref_eqb (enum_key e) (enum_key e')) eqn:E; [exact I|apply HI, He'].
Qed.

Lemma find_msg_In full m : find_msg D full = Some m -> In m (d_msgs D).
Proof. unfold find_msg. intros H. apply find_some in H. apply H. Qed.
Lemma find_enum_In full e : find_enum D full = Some e -> In e (d_enums D).
Proof. unfold find_enum. intros H. apply find_some in H. apply H. Qed.

Lemma msg_key_apart m : In m (d_msgs D) -> forall e, In e (d_enums D) -> enum_key e <> msg_key m.
Proof. intros Hm e He. destruct Hwf as [_ Ha]. apply (Ha e m He Hm). Qed.
Lemma oneof_key_apart m name j x d :
  In m (d_msgs D) -> In (Oneof name j false x d) (m_oneofs m) ->
  forall e, In e (d_enums D) -> enum_key e <> oneof_key m name.
Proof.
  intros Hm Ho e He. destruct Hwf as [_ Ha]. destruct (Ha e m He Hm) as [_ H]. apply (H _ Ho). reflexivity.
Qed.

(* ---------------------------------------------------------------- the termination measure *)
(* message keys without an entry, counted over the list of messages *)
Definition unvisited (st : sset) : nat :=
  length (filter (fun m => negb (has_key st (msg_key m))) (d_msgs D)).

Lemma filter_length_le {A} (f g : A -> bool) l :
  (forall x, In x l -> g x = true -> f x = true) -> length (filter g l) <= length (filter f l).
Proof.
  induction l as [|x r IH]; intros H; cbn [filter]; [lia|].
  assert (IH' := IH (fun y Hy => H y (or_intror Hy))).
  destruct (g x) eqn:Eg.
  - rewrite (H x (or_introl eq_refl) Eg). cbn [length]. lia.
  - destruct (f x); cbn [length]; lia.
Qed.
Lemma filter_length_lt {A} (f g : A -> bool) l x :
  (forall y, In y l -> g y = true -> f y = true) -> In x l -> f x = true -> g x = false ->
  length (filter g l) < length (filter f l).
Proof.
  induction l as [|y r IH]; intros H Hin Hf Hg; [destruct Hin|].
  cbn [filter]. destruct Hin as [->|Hin].
  - rewrite Hf, Hg. cbn [length].
    assert (length (filter g r) <= length (filter f r)) by (apply filter_length_le; intros z Hz; apply H; right; exact Hz).
    lia.
  - assert (IH' := IH (fun z Hz => H z (or_intror Hz)) Hin Hf Hg).
    destruct (g y) eqn:Eg.
    + rewrite (H y (or_introl eq_refl) Eg). cbn [length]. lia.
    + destruct (f y); cbn [length]; lia.
Qed.

Lemma unvisited_ext st st' : ext st st' -> unvisited st' <= unvisited st.
Proof.
  intros He. unfold unvisited. apply filter_length_le. intros m _ H.
  apply negb_true_iff in H. apply negb_true_iff.
  destruct (has_key st (msg_key m)) eqn:E; [|reflexivity]. apply He in E. congruence.
Qed.
Lemma unvisited_cons st m e :
  In m (d_msgs D) -> has_key st (msg_key m) = false -> unvisited ((msg_key m, e) :: st) < unvisited st.
Proof.
  intros Hm Hk. unfold unvisited. apply filter_length_lt with (x := m).
  - intros y _ H. apply negb_true_iff in H. apply negb_true_iff.
    destruct (has_key st (msg_key y)) eqn:E; [|reflexivity].
    apply (ext_cons st (msg_key m) e) in E. congruence.
  - exact Hm.
  - rewrite Hk. reflexivity.
  - unfold has_key. rewrite lookup_cons, ref_eqb_refl. reflexivity.
Qed.
Lemma filter_len_le {A} (f : A -> bool) l : length (filter f l) <= length l.
Proof. induction l as [|x r IH]; cbn [filter length]; [lia|]. destruct (f x); cbn [length]; lia. Qed.
Lemma unvisited_le_msgs st : unvisited st <= length (d_msgs D).
Proof. unfold unvisited. apply filter_len_le. Qed.

(* ---------------------------------------------------------------- the post-condition *)
(* success keeps the invariant and every key; no panic, no fuel exhaustion.
   [pr] projects the schema set out of the result. *)
Definition Pg {X} (pr : X -> sset) (st : sset) (o : outcome X) : Prop :=
  match o with
  | Ok x => Inv (pr x) /\ ext st (pr x)
  | Err _ => True
  | Panic _ => False
  | OutOfFuel => False
  end.
Definition Pf {A} (st : sset) (o : outcome (sset * A)) : Prop := Pg fst st o.
Definition pr3 {A B} (x : sset * A * B) : sset := fst (fst x).

Lemma Pg_weaken {X} (pr : X -> sset) st0 st (o : outcome X) : ext st0 st -> Pg pr st o -> Pg pr st0 o.
Proof.
  intros He. destruct o as [x| | |]; cbn; auto. intros [H1 H2]. split; [exact H1|eapply ext_trans; eauto].
Qed.

Lemma Pg_bind {X Y} (prx : X -> sset) (pry : Y -> sset) st (o : outcome X) (g : X -> outcome Y) :
  Pg prx st o -> (forall x, Inv (prx x) -> ext st (prx x) -> Pg pry (prx x) (g x)) -> Pg pry st (obind o g).
Proof.
  intros Ho Hg. destruct o as [x| | |]; cbn in *; auto.
  destruct Ho as [H1 H2]. eapply Pg_weaken; [exact H2|]. apply Hg; assumption.
Qed.

Lemma Pf_bind {A B} st (o : outcome (sset * A)) (g : sset * A -> outcome (sset * B)) :
  Pf st o -> (forall st1 a, Inv st1 -> ext st st1 -> Pf st1 (g (st1, a))) -> Pf st (obind o g).
Proof.
  intros Ho Hg. apply (Pg_bind fst fst st o g Ho). intros [st1 a] H1 H2. apply Hg; assumption.
Qed.

Lemma Pf_ok {A} st st1 (a : A) : Inv st1 -> ext st st1 -> Pf st (Ok (st1, a)).
Proof. intros; split; assumption. Qed.

Lemma lift_not_bad {A} (r : res A) : forall s, lift r <> Panic s.
Proof. intros s. destruct r; discriminate. Qed.

(* ---------------------------------------------------------------- enums *)
Lemma build_enum_shape e :
  enum_nonempty e ->
  match build_enum e with
  | Ok r => exists a b c d f, r = REnum a b c d f
  | Err _ => True
  | _ => False
  end.
Proof.
  destruct e as [full pkg path values eo d]. cbn [enum_nonempty build_enum]. intros Hne.
  destruct values as [|[first num info dv] rest]; [contradiction|].
  destruct (negb (has_suffix s_UNSPECIFIED first)); [exact I|]. eauto 10.
Qed.

(* the enum ref of a field: after the guard the entry is a linked enum schema, whatever was there *)
Lemma enum_ref_shape st e :
  enum_nonempty e ->
  match enum_ref st e with
  | Ok st1 => ext st st1 /\ (st1 = st \/ exists r, st1 = (enum_key e, Linked r) :: st /\ lookup st (enum_key e) = None) /\
              exists a b c d g, lookup st1 (enum_key e) = Some (Linked (REnum a b c d g))
  | Err _ => True
  | _ => False
  end.
Proof.
  intros Hne. unfold enum_ref.
  destruct (lookup st (enum_key e)) as [[|[| |a b c d g]]|] eqn:El; try exact I.
  - split; [apply ext_refl|]. split; [left; reflexivity|]. rewrite El. eauto 10.
  - pose proof (build_enum_shape e Hne) as Hs. destruct (build_enum e) as [r| | |]; cbn [obind]; try exact Hs.
    destruct Hs as (a & b & c & d & g & ->). split; [apply ext_cons|]. split; [right; eauto|].
    rewrite lookup_cons, ref_eqb_refl. eauto 10.
Qed.

Lemma build_enum_field_ok st f x :
  Inv st -> Pf st (build_enum_field D st f x).
Proof.
  intros HI. unfold build_enum_field.
  destruct (f_ty f) as [|full|full]; try exact I.
  destruct (find_enum D full) as [e|] eqn:Ef; [|exact I].
  assert (He : In e (d_enums D)) by (eapply find_enum_In; eauto).
  assert (Hne : enum_nonempty e) by (apply Hwf; exact He).
  pose proof (enum_ref_shape st e Hne) as Hst1.
  destruct (enum_ref st e) as [st1| | |]; cbn [obind]; try exact Hst1.
  destruct Hst1 as (He1 & Hor & a & b & c & d & g & Hl).
  assert (HI1 : Inv st1).
  { destruct Hor as [->|(r & -> & Hn)]; [exact HI|].
    rewrite lookup_cons, ref_eqb_refl in Hl. inversion Hl; subst r. apply Inv_cons_enum; eauto 10. }
  rewrite Hl.
  destruct (x_vty x); cbn [obind Pf Pg fst]; try (split; assumption).
  (* VEnum: the type assertion succeeds *)
  match goal with |- context [lift ?r] => destruct r as [v|cls] end; cbn [lift obind Pf Pg fst]; [split; assumption|exact I].
Qed.

(* ---------------------------------------------------------------- one level, given the recursive call *)
Section Level.
Variable n : nat.
Variable rec : sset -> msgd -> outcome (sset * root).
Hypothesis Hrec : forall st m, In m (d_msgs D) -> Inv st -> unvisited st < n -> Pf st (rec st m).

Lemma build_message_field_ok st f x :
  Inv st -> unvisited st <= n -> Pf st (build_message_field D rec st f x).
Proof.
  intros HI HU. unfold build_message_field.
  destruct (f_ty f) as [|full|full]; try exact I.
  destruct (wkt_schema full x) as [[s|]|cls]; cbn [lift obind]; try exact I.
  - split; [exact HI|apply ext_refl].
  - destruct (has_prefix s_google_protobuf full); [exact I|].
    destruct (find_msg D full) as [m|] eqn:Ef; [|exact I].
    assert (Hm : In m (d_msgs D)) by (eapply find_msg_In; eauto).
    destruct (lookup st (msg_key m)) as [en|] eqn:El; [destruct (is_enum_entry en)|]; cbn [obind].
    + exact I.
    + split; [exact HI|apply ext_refl].
    + assert (Hk : has_key st (msg_key m) = false) by (unfold has_key; rewrite El; reflexivity).
      assert (HI' : Inv ((msg_key m, Placeholder) :: st))
        by (apply Inv_cons_other; [exact HI|intros e He; apply msg_key_apart; assumption]).
      assert (HU' : unvisited ((msg_key m, Placeholder) :: st) < n)
        by (pose proof (unvisited_cons st m Placeholder Hm Hk); lia).
      pose proof (Hrec _ m Hm HI' HU') as Hr.
      destruct (rec ((msg_key m, Placeholder) :: st) m) as [[st1 r]| | |]; cbn [obind Pf Pg fst] in *; try exact Hr.
      destruct Hr as [HI1 He1]. split.
      * apply Inv_update_other; [exact HI1|intros e He; apply msg_key_apart; assumption].
      * eapply ext_trans; [apply ext_cons|]. eapply ext_trans; [exact He1|apply ext_update].
Qed.

Lemma build_schema_ok st f x :
  Inv st -> unvisited st <= n -> Pf st (build_schema D rec st f x).
Proof.
  intros HI HU. unfold build_schema.
  destruct (f_kind f);
    try (destruct (build_scalar _ x) as [p|cls]; cbn [lift obind Pf Pg fst]; [split; [exact HI|apply ext_refl]|exact I]).
  - apply build_enum_field_ok; exact HI.
  - apply build_message_field_ok; assumption.
Qed.

Lemma build_field_prop_ok st f :
  Inv st -> unvisited st <= n -> Pf st (build_field_prop D rec st f).
Proof.
  intros HI HU. unfold build_field_prop.
  destruct (f_card f) as [| | |kk].
  - apply Pf_bind; [apply build_schema_ok; assumption|]. intros st1 s HI1 He1. cbn. split; [exact HI1|apply ext_refl].
  - apply Pf_bind; [apply build_schema_ok; assumption|]. intros st1 s HI1 He1. cbn. split; [exact HI1|apply ext_refl].
  - destruct (x_vty (field_exts f)); cbn;
      (apply Pf_bind; [apply build_schema_ok; assumption|]; intros st1 s HI1 He1; cbn; split; [exact HI1|apply ext_refl]).
  - destruct (negb (kind_eqb kk KString)); [exact I|].
    destruct (x_vty (field_exts f)); cbn;
      (apply Pf_bind; [apply build_schema_ok; assumption|]; intros st1 s HI1 He1; cbn; split; [exact HI1|apply ext_refl]).
Qed.

Lemma fields_loop_ok m fs : forall st exs,
  Inv st -> unvisited st <= n -> Pg pr3 st (fields_loop D rec m st exs fs).
Proof.
  induction fs as [|f r IH]; intros st exs HI HU; cbn [fields_loop].
  - split; [exact HI|apply ext_refl].
  - apply (Pg_bind fst pr3); [apply build_field_prop_ok; assumption|].
    intros [st1 p] HI1 He1. cbn [fst] in HI1, He1.
    assert (HU1 : unvisited st1 <= n) by (pose proof (unvisited_ext _ _ He1); lia).
    assert (Hdirect : forall exs', Pg pr3 st1 (obind (fields_loop D rec m st1 exs' r)
                                   (fun '(st2, exs2, ps) => Ok (st2, exs2, p :: ps)))).
    { intros exs'. pose proof (IH st1 exs' HI1 HU1) as H.
      destruct (fields_loop D rec m st1 exs' r) as [[[st2 exs2] ps]| | |]; cbn in *; exact H. }
    cbn [fst].
    destruct (f_card f); try apply Hdirect;
      (destruct (f_oneof f) as [idx|]; [|apply Hdirect];
       destruct (oneof_is_synthetic m idx); [apply Hdirect|];
       destruct (add_to_exposed exs idx p) as [[exs1 pending]|]; [|apply Hdirect];
       pose proof (IH st1 exs1 HI1 HU1) as H;
       destruct (fields_loop D rec m st1 exs1 r) as [[[st2 exs2] ps]| | |]; cbn in *; exact H).
Qed.

Lemma register_oneofs_ok m : In m (d_msgs D) -> forall os idx st,
  (forall o, In o os -> In o (m_oneofs m)) -> Inv st ->
  match register_oneofs m st idx os with
  | ROk (st1, _) => Inv st1 /\ ext st st1
  | RErr _ => True
  end.
Proof.
  intros Hm. induction os as [|[name jname syn ext0 d] r IH]; intros idx st Hsub HI; cbn [register_oneofs].
  - split; [exact HI|apply ext_refl].
  - assert (Hr : forall o, In o r -> In o (m_oneofs m)) by (intros o Ho; apply Hsub; right; exact Ho).
    destruct syn; [apply IH; assumption|].
    destruct ext0 as [[|]|]; try (apply IH; assumption).
    destruct (lookup st (oneof_key m name)) eqn:El; [exact I|].
    set (st1 := (oneof_key m name, Linked (ROneof (snd (oneof_key m name)) d [])) :: st).
    assert (HI1 : Inv st1).
    { apply Inv_cons_other; [exact HI|]. intros e He.
      eapply oneof_key_apart; eauto. apply Hsub. left. reflexivity. }
    pose proof (IH (N.succ idx) st1 Hr HI1) as H.
    destruct (register_oneofs m st1 (N.succ idx) r) as [[st2 exs]|]; cbn [rbind]; [|exact I].
    destruct H as [H1 H2]. split; [exact H1|]. eapply ext_trans; [apply ext_cons|exact H2].
Qed.

Lemma finish_oneofs_ok m : In m (d_msgs D) -> forall exs st,
  (forall e, In e exs -> exists name j x d, In (Oneof name j false x d) (m_oneofs m) /\ ex_key e = oneof_key m name) ->
  Inv st -> Inv (finish_oneofs st exs) /\ ext st (finish_oneofs st exs).
Proof.
  intros Hm. unfold finish_oneofs. induction exs as [|e r IH]; intros st Hk HI; cbn [fold_left].
  - split; [exact HI|apply ext_refl].
  - assert (Hr : forall e', In e' r -> exists name j x d, In (Oneof name j false x d) (m_oneofs m) /\ ex_key e' = oneof_key m name)
      by (intros e' He'; apply Hk; right; exact He').
    destruct (lookup st (ex_key e)) as [[|[| nm dd ps|]]|] eqn:El; try (apply IH; assumption).
    destruct (Hk e (or_introl eq_refl)) as (name & j & x & d & Hin & Hkey).
    assert (HI1 : Inv (update st (ex_key e) (Linked (ROneof nm dd (ex_props e))))).
    { apply Inv_update_other; [exact HI|]. intros en Hen. rewrite Hkey. eapply oneof_key_apart; eauto. }
    destruct (IH _ Hr HI1) as [H1 H2]. split; [exact H1|]. eapply ext_trans; [apply ext_update|exact H2].
Qed.

(* the exposed records produced by register_oneofs name real oneofs of the message; fields_loop keeps their keys *)
Definition exs_named (m : msgd) (exs : list exposed) : Prop :=
  forall e, In e exs -> exists name j x d, In (Oneof name j false x d) (m_oneofs m) /\ ex_key e = oneof_key m name.

Lemma register_oneofs_named m : forall os idx st st1 exs,
  (forall o, In o os -> In o (m_oneofs m)) ->
  register_oneofs m st idx os = ROk (st1, exs) -> exs_named m exs.
Proof.
  induction os as [|[name jname syn ext0 d] r IH]; intros idx st st1 exs Hsub H; cbn [register_oneofs] in H.
  - inversion H; subst. intros e [].
  - assert (Hr : forall o, In o r -> In o (m_oneofs m)) by (intros o Ho; apply Hsub; right; exact Ho).
    destruct syn; [eapply IH; eauto|].
    destruct ext0 as [[|]|]; try (eapply IH; eauto; fail).
    destruct (lookup st (oneof_key m name)); [discriminate|].
    destruct (register_oneofs m _ (N.succ idx) r) as [[st2 exs2]|] eqn:E; cbn [rbind] in H; [|discriminate].
    inversion H; subst. intros e [<-|He].
    + cbn [ex_key]. exists name, jname, (Some true), d. split; [apply Hsub; left; reflexivity|reflexivity].
    + eapply IH; eauto.
Qed.

Lemma add_to_exposed_named m exs idx p exs1 pending :
  exs_named m exs -> add_to_exposed exs idx p = Some (exs1, pending) -> exs_named m exs1.
Proof.
  revert exs1 pending. induction exs as [|e r IH]; intros exs1 pending Hn H; cbn [add_to_exposed] in H; [discriminate|].
  destruct (N.eqb (ex_idx e) idx).
  - inversion H; subst. intros e' [<-|He']; [cbn [ex_key]; apply Hn; left; reflexivity|apply Hn; right; exact He'].
  - destruct (add_to_exposed r idx p) as [[r' o]|] eqn:E; [|discriminate]. inversion H; subst.
    intros e' [<-|He']; [apply Hn; left; reflexivity|].
    eapply IH; eauto. intros e'' He''. apply Hn. right. exact He''.
Qed.

Lemma fields_loop_named m fs : forall st exs st2 exs2 ps,
  exs_named m exs -> fields_loop D rec m st exs fs = Ok (st2, exs2, ps) -> exs_named m exs2.
Proof.
  induction fs as [|f r IH]; intros st exs st2 exs2 ps Hn H; cbn [fields_loop] in H.
  - inversion H; subst. exact Hn.
  - destruct (build_field_prop D rec st f) as [[st1 p]| | |]; cbn [obind] in H; try discriminate.
    assert (Hdirect : forall exs', exs_named m exs' ->
              obind (fields_loop D rec m st1 exs' r) (fun '(st2, exs2, ps) => Ok (st2, exs2, p :: ps)) = Ok (st2, exs2, ps) ->
              exs_named m exs2).
    { intros exs' Hn' H'. destruct (fields_loop D rec m st1 exs' r) as [[[a b] c]| | |] eqn:E; cbn [obind] in H'; try discriminate.
      inversion H'; subst. eapply IH; eauto. }
    destruct (f_card f); try (eapply Hdirect; eauto; fail);
      (destruct (f_oneof f) as [idx|]; [|eapply Hdirect; eauto; fail];
       destruct (oneof_is_synthetic m idx); [eapply Hdirect; eauto; fail|];
       destruct (add_to_exposed exs idx p) as [[exs1 pending]|] eqn:Ea; [|eapply Hdirect; eauto; fail];
       destruct (fields_loop D rec m st1 exs1 r) as [[[a b] c]| | |] eqn:E; cbn [obind] in H; try discriminate;
       inversion H; subst; eapply IH; [eapply add_to_exposed_named; eauto|eauto]).
Qed.

Lemma message_properties_ok st m :
  In m (d_msgs D) -> Inv st -> unvisited st <= n -> Pf st (message_properties D rec st m).
Proof.
  intros Hm HI HU. unfold message_properties.
  pose proof (register_oneofs_ok m Hm (m_oneofs m) 0%N st (fun o H => H) HI) as Hreg.
  destruct (register_oneofs m st 0 (m_oneofs m)) as [[st1 exs]|cls] eqn:Ereg; cbn [lift obind]; [|exact I].
  destruct Hreg as [HI1 He1].
  assert (Hn : exs_named m exs) by (eapply register_oneofs_named; [|exact Ereg]; auto).
  assert (HU1 : unvisited st1 <= n) by (pose proof (unvisited_ext _ _ He1); lia).
  pose proof (fields_loop_ok m (m_fields m) st1 exs HI1 HU1) as Hf.
  destruct (fields_loop D rec m st1 exs (m_fields m)) as [[[st2 exs2] ps]| | |] eqn:Ef; cbn [obind Pf Pg pr3 fst] in *; try exact Hf.
  destruct Hf as [HI2 He2].
  destruct (existsb ex_pending exs2); [exact I|]. destruct (negb (exs_names_ok exs2)); [exact I|].
  assert (Hn2 : exs_named m exs2) by (eapply fields_loop_named; eauto).
  destruct (finish_oneofs_ok m Hm exs2 st2 Hn2 HI2) as [H1 H2].
  cbn. split; [exact H1|]. eapply ext_trans; [exact He1|]. eapply ext_trans; [exact He2|exact H2].
Qed.

Lemma build_root_ok st m :
  In m (d_msgs D) -> Inv st -> unvisited st <= n -> Pf st (build_root D rec st m).
Proof.
  intros Hm HI HU. unfold build_root.
  apply Pf_bind; [apply message_properties_ok; assumption|].
  intros st1 ps HI1 He1. cbn.
  destruct (negb (props_valid ps)); [exact I|].
  destruct (is_oneof_wrapper m); [split; [exact HI1|apply ext_refl]|].
  pose proof (flatten_cycle_fuel st1 (msg_key m) ps) as Hfc.
  destruct (flatten_cycle st1 (msg_key m) ps) as [[|]|]; [exact I| |contradiction].
  destruct (find_psm D m) as [ent|cls]; cbn [lift obind Pf Pg fst]; [split; [exact HI1|apply ext_refl]|exact I].
Qed.
End Level.

(* ---------------------------------------------------------------- induction on the fuel *)
Lemma build_msg_ok : forall fuel st m,
  In m (d_msgs D) -> Inv st -> unvisited st < fuel -> Pf st (build_msg D fuel st m).
Proof.
  induction fuel as [|fuel IH]; intros st m Hm HI HU; [lia|].
  cbn [build_msg]. apply build_root_ok with (n := fuel); [exact IH|assumption|assumption|lia].
Qed.

(* ---------------------------------------------------------------- entry points *)
Lemma message_schema_ok fuel st m :
  In m (d_msgs D) -> Inv st -> unvisited st < fuel -> Pf st (message_schema D fuel st m).
Proof.
  intros Hm HI HU. unfold message_schema.
  destruct (lookup st (msg_key m)) as [[|r]|] eqn:El.
  - exact I.
  - split; [exact HI|apply ext_refl].
  - assert (Hk : has_key st (msg_key m) = false) by (unfold has_key; rewrite El; reflexivity).
    assert (HI' : Inv ((msg_key m, Placeholder) :: st))
      by (apply Inv_cons_other; [exact HI|intros e He; apply msg_key_apart; assumption]).
    assert (HU' : unvisited ((msg_key m, Placeholder) :: st) < fuel)
      by (pose proof (unvisited_cons st m Placeholder Hm Hk); lia).
    pose proof (build_msg_ok fuel _ m Hm HI' HU') as Hr.
    destruct (build_msg D fuel ((msg_key m, Placeholder) :: st) m) as [[st1 r]| | |]; cbn [obind Pf Pg fst] in *; try exact Hr.
    destruct Hr as [HI1 He1]. split.
    + apply Inv_update_other; [exact HI1|intros e He; apply msg_key_apart; assumption].
    + eapply ext_trans; [apply ext_cons|]. eapply ext_trans; [exact He1|apply ext_update].
Qed.

Definition good_set (o : outcome sset) : Prop :=
  match o with Ok st => Inv st | Err _ => True | _ => False end.

Lemma messages_loop_ok fuel : length (d_msgs D) < fuel -> forall ms st, Inv st -> good_set (messages_loop D fuel st ms).
Proof.
  intros Hf. induction ms as [|full r IH]; intros st HI; cbn [messages_loop]; [exact HI|].
  destruct (find_msg D full) as [m|] eqn:Ef; [|exact I].
  assert (Hm : In m (d_msgs D)) by (eapply find_msg_In; eauto).
  assert (HU : unvisited st < fuel) by (pose proof (unvisited_le_msgs st); lia).
  pose proof (message_schema_ok fuel st m Hm HI HU) as H.
  destruct (message_schema D fuel st m) as [[st1 r1]| | |]; cbn [obind Pf Pg fst] in *; try exact H.
  apply IH. apply H.
Qed.

Lemma enums_loop_ok : forall es st, Inv st -> good_set (enums_loop D st es).
Proof.
  induction es as [|full r IH]; intros st HI; cbn [enums_loop]; [exact HI|].
  destruct (find_enum D full) as [e|] eqn:Ef; [|exact I].
  assert (He : In e (d_enums D)) by (eapply find_enum_In; eauto).
  destruct (lookup st (enum_key e)); [apply IH; exact HI|].
  pose proof (build_enum_shape e (proj1 Hwf e He)) as Hs.
  destruct (build_enum e) as [root| | |]; cbn [obind]; try exact Hs.
  apply IH. apply Inv_cons_enum; assumption.
Qed.

Lemma reflect_good fs : good_set (reflect D fs).
Proof.
  unfold reflect, reflect_files. destruct (collect fs) as [ms es].
  assert (Hsz : length (d_msgs D) < size D) by (unfold size; lia).
  pose proof (messages_loop_ok (size D) Hsz ms [] Inv_nil) as H.
  destruct (messages_loop D (size D) [] ms) as [st| | |]; cbn [obind good_set] in *; try exact H.
  apply enums_loop_ok. exact H.
Qed.

Theorem reflect_total fs : (forall s, reflect D fs <> Panic s) /\ reflect D fs <> OutOfFuel.
Proof.
  pose proof (reflect_good fs) as H. destruct (reflect D fs); cbn in H; try contradiction;
    split; try discriminate; intros; discriminate.
Qed.

(* SchemaCache.Schema from any state satisfying the invariant *)
Theorem cache_schema_total st m :
  In m (d_msgs D) -> Inv st ->
  let '(st', o) := cache_schema D (size D) st m in
  Inv st' /\ ext st st' /\ (forall s, o <> Panic s) /\ o <> OutOfFuel.
Proof.
  intros Hm HI. unfold cache_schema.
  assert (HU : unvisited st < size D) by (pose proof (unvisited_le_msgs st); unfold size; lia).
  pose proof (message_schema_ok (size D) st m Hm HI HU) as H.
  destruct (message_schema D (size D) st m) as [[st1 r]| | |]; cbn [Pf] in H; try contradiction.
  - destruct H as [H1 H2]. repeat split; try assumption; intros; discriminate.
  - repeat split; try assumption; try apply ext_refl; intros; discriminate.
Qed.
End Totality.

(* ---------------------------------------------------------------- agreement with the Go switch arms (gen/ReflectGen.v) *)
Lemma scalar_arms_agree : map kind_go_name scalar_kinds_handled = ReflectGen.scalar_kind_arms.
Proof. vm_compute. reflexivity. Qed.
Lemma build_schema_arms_agree : map kind_go_name [KMessage; KEnum] = ReflectGen.build_schema_arms.
Proof. vm_compute. reflexivity. Qed.

(* the model's scalar builder errs exactly on the kinds without an arm, whatever the annotations *)
Definition empty_exts : exts := {| x_validate := None; x_list := None; x_j5 := None; x_key := None |}.
Lemma scalar_unhandled_errs k x :
  existsb (kind_eqb k) scalar_kinds_handled = false -> exists c, build_scalar k x = RErr c.
Proof. destruct k; cbn; intros H; try discriminate; eauto. Qed.
Lemma scalar_handled_plain k :
  existsb (kind_eqb k) scalar_kinds_handled = true -> exists p, build_scalar k empty_exts = ROk p.
Proof. destruct k; cbn; intros H; try discriminate; eauto. Qed.
(* message and enum kinds never reach buildScalarType; every other kind does *)
Lemma kinds_partition :
  forallb (fun k => existsb (kind_eqb k) scalar_kinds_handled
                    || kind_eqb k KMessage || kind_eqb k KEnum
                    || existsb (kind_eqb k) [KSfixed32; KFixed32; KSfixed64; KFixed64; KGroup; KInvalid]) all_kinds = true.
Proof. vm_compute. reflexivity. Qed.

(* ---------------------------------------------------------------- probes of the model functions against the Go arm tables *)
(* wktSchema: the model has an arm (answers with a schema) for every name the Go switch lists, and for
   NO other name (it answers "not a well-known type" whatever the annotations) *)
Definition gen_wkt_names : list str := map bytes ReflectGen.wkt_arms.
Lemma wkt_arms_probe :
  forallb (fun n => match wkt_schema n empty_exts with ROk (Some _) => true | _ => false end) gen_wkt_names = true.
Proof. vm_compute. reflexivity. Qed.
Lemma wkt_only_the_go_arms full x :
  forallb (fun n => negb (str_eqb full n)) gen_wkt_names = true -> wkt_schema full x = ROk None.
Proof.
  unfold gen_wkt_names, ReflectGen.wkt_arms. cbn [map forallb]. intros H.
  repeat (apply andb_prop in H as [?H H]). clear H.
  repeat match goal with Hn : negb _ = true |- _ => apply negb_true_iff in Hn end.
  unfold wkt_schema, s_Timestamp, s_Duration, s_Date, s_Decimal, s_Struct, s_J5Any, s_PbAny.
  repeat match goal with Hn : str_eqb full ?n = false |- _ => rewrite Hn; clear Hn end.
  reflexivity.
Qed.

(* newFieldFactory / newMessageFieldFactory: the Go type name of a schema value *)
Definition schema_go_name (s : fschema) : string :=
  match s with
  | FScalar _ _ => "ScalarSchema" | FAny _ _ _ => "AnyField" | FEnum _ _ _ _ => "EnumField"
  | FObject _ _ _ _ => "ObjectField" | FOneof _ _ _ _ => "OneofField" | FMap _ _ _ => "MapField" | FArray _ _ _ => "ArrayField"
  end.
Definition name_in (x : string) (l : list string) : bool := existsb (String.eqb x) l.
(* a schema type without an arm in the Go type switch reaches the model's default arm (an error since
   c68139b), and a schema type WITH an arm never does *)
Lemma leaf_factory_default_iff st s f :
  name_in (schema_go_name s) ReflectGen.newFieldFactory_arms = false <->
  leaf_factory st s f = Err "newFieldFactory: unsupported schema for leaf field".
Proof.
  split.
  - destruct s; vm_compute; intros H; try discriminate; reflexivity.
  - destruct s as [[[k w]|] p|a b c|k r l e|k fl r e|k r l e|it r e|it r e]; cbn [leaf_factory schema_go_name]; intros H;
      try (vm_compute; reflexivity); exfalso.
    + destruct w; [destruct (kind_eqb (f_kind f) k)|destruct (negb (kind_eqb (f_kind f) KMessage)); [|destruct (str_eqb (value_full f) (n :: w))]]; discriminate.
    + discriminate.
    + destruct (kind_eqb (f_kind f) KEnum); [destruct (lookup st k) as [[|[| |]]|]|]; discriminate.
Qed.
Lemma message_factory_default D st s f :
  name_in (schema_go_name s) ReflectGen.newMessageFieldFactory_arms = false ->
  message_factory D st s f = Err "newMessageFieldFactory: unsupported schema for message field".
Proof. destruct s; vm_compute; intros H; try discriminate; reflexivity. Qed.
(* and a schema type WITH an arm does not take the default arm (probed on the empty schema set, where the
   object / oneof arms fail their type assertion and the any arm looks at the field) *)
Lemma message_factory_arms_probe D s f :
  name_in (schema_go_name s) ReflectGen.newMessageFieldFactory_arms = true ->
  message_factory D [] s f <> Err "newMessageFieldFactory: unsupported schema for message field".
Proof.
  destruct s as [kw p|a b c|k r l e|k fl r e|k r l e|it r e|it r e]; cbn [message_factory schema_go_name lookup]; intros H;
    try (vm_compute in H; discriminate H); try discriminate.
  destruct (str_eqb (value_full f) s_PbAny || str_eqb (value_full f) s_J5Any); discriminate.
Qed.

(* CmpbSchemaProofs.v — "every field type" and "every rule kind" are the CODE's lists, not the model
   author's: the alternatives of j5.schema.v1.Field and what each declares (rules, list_rules, ext,
   format) are regenerated from the schema descriptors (gen/SetExtGen.v field_alternatives), the case
   labels of the converter's type switches from the Go source (field_switch_arms).  The lemmas below
   break when the schema gains a field type or a rule kind, or the converter gains / loses an arm. *)
From Coq Require Import String List Bool.
From J5V.gen Require SetExtGen.
Import ListNotations.
Local Open Scope string_scope.

(* what model/CmpbFields.v distinguishes per field type: rules, list rules, ext (a setJ5Ext call or the
   array ext), format *)
Definition model_capabilities : list (string * (bool * bool * bool * bool)) :=
  [ ("any",       (false, true,  false, false));
    ("oneof",     (true,  true,  true,  false));
    ("object",    (true,  false, true,  false));
    ("enum",      (true,  true,  true,  false));
    ("array",     (true,  false, true,  false));
    ("map",       (true,  false, false, false));
    ("string",    (true,  true,  true,  false));
    ("integer",   (true,  true,  true,  true));
    ("float",     (true,  true,  true,  true));
    ("bool",      (true,  true,  true,  false));
    ("bytes",     (true,  false, true,  false));
    ("decimal",   (true,  true,  false, false));
    ("date",      (true,  true,  false, false));
    ("timestamp", (true,  true,  true,  false));
    ("key",       (false, true,  true,  true)) ].
(* parts of the schema the converter does not look at (so the model has no parameter for them):
   reviewed list; (field type, part) *)
Definition ignored_by_converter : list (string * string) :=
  [ ("map", "ext"); ("string", "format"); ("decimal", "ext"); ("date", "ext"); ("key", "rules") ].

Definition ignored (k part : string) : bool :=
  existsb (fun p => String.eqb (fst p) k && String.eqb (snd p) part) ignored_by_converter.
Definition cap_matches (row : string * string * bool * bool * bool * bool) : bool :=
  match row with
  | (k, _, r, l, e, f) =>
      match find (fun p => String.eqb (fst p) k) model_capabilities with
      | Some (_, (mr, ml, me, mf)) =>
          Bool.eqb r (mr || ignored k "rules") && Bool.eqb l (ml || ignored k "list_rules")
          && Bool.eqb e (me || ignored k "ext") && Bool.eqb f (mf || ignored k "format")
      | None => false
      end
  end.
(* every alternative of the schema's Field oneof is a field type of the model with exactly the parts
   the schema declares (up to the reviewed ignored list), and the model has no other field type *)
Lemma schema_capabilities_agree :
  forallb cap_matches SetExtGen.field_alternatives = true
  /\ length SetExtGen.field_alternatives = length model_capabilities.
Proof. vm_compute. split; reflexivity. Qed.

(* the Go case label of an alternative *)
Definition arm_label (k : string) : string :=
  match k with
  | "any" => "*schema_j5pb.Field_Any" | "oneof" => "*schema_j5pb.Field_Oneof" | "object" => "*schema_j5pb.Field_Object"
  | "enum" => "*schema_j5pb.Field_Enum" | "array" => "*schema_j5pb.Field_Array" | "map" => "*schema_j5pb.Field_Map"
  | "string" => "*schema_j5pb.Field_String_" | "integer" => "*schema_j5pb.Field_Integer" | "float" => "*schema_j5pb.Field_Float"
  | "bool" => "*schema_j5pb.Field_Bool" | "bytes" => "*schema_j5pb.Field_Bytes" | "decimal" => "*schema_j5pb.Field_Decimal"
  | "date" => "*schema_j5pb.Field_Date" | "timestamp" => "*schema_j5pb.Field_Timestamp" | "key" => "*schema_j5pb.Field_Key"
  | _ => "?"
  end.
Definition has_arm (fn label : string) : bool :=
  existsb (fun p => String.eqb (fst p) fn && String.eqb (snd p) label) SetExtGen.field_switch_arms.
(* every field type has an arm: array and map in buildProperty, all the others in buildField; and
   buildField has no arm beyond those and its default *)
Lemma every_field_type_has_an_arm :
  forallb (fun row => match row with (k, _, _, _, _, _) =>
     if String.eqb k "array" || String.eqb k "map" then has_arm "buildProperty" (arm_label k)
     else has_arm "buildField" (arm_label k) end) SetExtGen.field_alternatives = true
  /\ length SetExtGen.field_switch_arms = length SetExtGen.field_alternatives + 2.
Proof. vm_compute. split; reflexivity. Qed.

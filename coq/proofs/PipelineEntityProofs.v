(* PipelineEntityProofs.v — entities in the chain of C16 (model/PipelineEntity.v):
   walkSourceSchemas groups the annotated objects in whatever order they come and does not fail when every
   entity has its keys, state and event object once each; those objects are walk roots; everything
   reachable from their properties is in the client package's schema set; the chain with entities is total
   from the method stage on. *)
From Coq Require Import String Ascii List Arith NArith Bool Lia ZifyN ZifyNat ZifyBool Permutation.
From J5V.lib Require Import Outcome Corr.
From J5V.model Require Import Pipeline PipelineEntity PipelineCorr.
From J5V.gen Require SwaggerGen.
From J5V.proofs Require Import PipelineProofs PipelineChainProofs.
Import ListNotations.
Local Open Scope N_scope.
Local Open Scope bool_scope.

Definition a_key (a : ent_ann) : key := fst a.
Definition a_name (a : ent_ann) : str := fst (snd a).
Definition a_part (a : ent_ann) : N := snd (snd a).

Definition part_of (p : N) (e : ent) : option key :=
  if p =? 1 then en_keys e else if p =? 2 then en_state e else if p =? 3 then en_event e else None.

Definition stored_part (p : N) : Prop := p = 1 \/ p = 2 \/ p = 3.

(* ---------- one step ------------------------------------------------------- *)
Lemma set_part_ok p k e : 1 <= p <= 4 -> exists e', set_part p k e = Ok e' /\ en_name e' = en_name e
  /\ (stored_part p -> part_of p e' = Some k)
  /\ (forall q, q <> p -> part_of q e' = part_of q e).
Proof.
  intro Hp. unfold set_part.
  destruct (p =? 1) eqn:E1; [apply N.eqb_eq in E1; subst p|].
  { eexists. split; [reflexivity|]. split; [reflexivity|]. split; [reflexivity|].
    intros q Hq. unfold part_of. cbn [en_keys en_state en_event]. destruct (q =? 1) eqn:E; [lia|reflexivity]. }
  destruct (p =? 2) eqn:E2; [apply N.eqb_eq in E2; subst p|].
  { eexists. split; [reflexivity|]. split; [reflexivity|]. split; [reflexivity|].
    intros q Hq. unfold part_of. cbn [en_keys en_state en_event]. destruct (q =? 1); [reflexivity|]. destruct (q =? 2) eqn:E; [lia|reflexivity]. }
  destruct (p =? 3) eqn:E3; [apply N.eqb_eq in E3; subst p|].
  { eexists. split; [reflexivity|]. split; [reflexivity|]. split; [reflexivity|].
    intros q Hq. unfold part_of. cbn [en_keys en_state en_event]. destruct (q =? 1); [reflexivity|]. destruct (q =? 2); [reflexivity|].
    destruct (q =? 3) eqn:E; [lia|reflexivity]. }
  destruct (p =? 4) eqn:E4; [|lia].
  exists e. split; [reflexivity|]. split; [reflexivity|]. split; [intros [H|[H|H]]; lia|reflexivity].
Qed.

(* the entity list after one annotation *)
Lemma include_entity_ok name p k : 1 <= p <= 4 -> forall l, NoDup (map en_name l) ->
  exists l', include_entity name p k l = Ok l'
    /\ NoDup (map en_name l')
    /\ (forall n, In n (map en_name l') <-> n = name \/ In n (map en_name l))
    /\ (stored_part p -> exists e, In e l' /\ en_name e = name /\ part_of p e = Some k)
    /\ (forall e q, In e l -> (en_name e <> name \/ q <> p) ->
          exists e', In e' l' /\ en_name e' = en_name e /\ part_of q e' = part_of q e).
Proof.
  intro Hp. induction l as [|e r IH]; intro Hnd.
  - cbn [include_entity]. destruct (set_part_ok p k (new_ent name) Hp) as (e' & E & En & Es & Eo). rewrite E. cbn [omap].
    exists [e']. split; [reflexivity|]. cbn [map]. rewrite En. cbn [new_ent en_name].
    split; [constructor; [intros []|constructor]|]. split; [intro n; cbn; intuition congruence|].
    split; [intro Hs; exists e'; split; [left; reflexivity|split; [exact En|exact (Es Hs)]]|intros e0 q []].
  - cbn [map] in Hnd. inversion Hnd as [|? ? Hnot Hnd']; subst. cbn [include_entity].
    destruct (str_eqb (en_name e) name) eqn:E.
    + apply str_eqb_eq in E. destruct (set_part_ok p k e Hp) as (e' & Es' & En & Est & Eo). rewrite Es'. cbn [omap].
      exists (e' :: r). split; [reflexivity|]. cbn [map]. rewrite En.
      split; [constructor; assumption|]. split; [intro n; cbn; rewrite E; intuition congruence|].
      split; [intro Hs; exists e'; split; [left; reflexivity|split; [rewrite En; exact E|exact (Est Hs)]]|].
      intros e0 q [<-|Hin] Hc.
      * exists e'. split; [left; reflexivity|]. split; [exact En|]. destruct Hc as [Hc|Hc]; [contradiction|exact (Eo q Hc)].
      * exists e0. split; [right; exact Hin|]. split; reflexivity.
    + apply str_eqb_neq in E. destruct (IH Hnd') as (r' & Er & Hnd2 & Hn & Hs & Ho). rewrite Er. cbn [omap].
      exists (e :: r'). split; [reflexivity|]. cbn [map].
      split; [constructor; [|exact Hnd2]; intro Hin; apply Hn in Hin as [Hin|Hin]; [contradiction|contradiction]|].
      split; [intro n; cbn; rewrite Hn; intuition congruence|].
      split; [intro Hsp; destruct (Hs Hsp) as (e0 & Hin & A & B); exists e0; split; [right; exact Hin|split; assumption]|].
      intros e0 q [<-|Hin] Hc.
      * exists e. split; [left; reflexivity|]. split; reflexivity.
      * destruct (Ho e0 q Hin Hc) as (e1 & Hin1 & A & B). exists e1. split; [right; exact Hin1|split; assumption].
Qed.

(* ---------- the fold: every stored annotation is found in the result ------------------ *)
Definition ann_pair (a : ent_ann) : str * N := (a_name a, a_part a).

Lemma include_all_ok : forall anns acc,
  Forall (fun a => 1 <= a_part a <= 4) anns ->
  NoDup (map en_name acc) ->
  exists es, fold_left (fun acc a => obind acc (include_entity (a_name a) (a_part a) (a_key a))) anns (Ok acc) = Ok es
    /\ NoDup (map en_name es)
    /\ (forall n, In n (map en_name es) <-> In n (map en_name acc) \/ In n (map a_name anns))
    /\ (NoDup (map ann_pair anns) ->
        (forall a, In a anns -> stored_part (a_part a) ->
           exists e, In e es /\ en_name e = a_name a /\ part_of (a_part a) e = Some (a_key a))
        /\ (forall e q, In e acc -> ~ In (en_name e, q) (map ann_pair anns) ->
              exists e', In e' es /\ en_name e' = en_name e /\ part_of q e' = part_of q e)).
Proof.
  induction anns as [|a r IH]; intros acc Hp Hnd.
  - exists acc. cbn [fold_left map]. split; [reflexivity|]. split; [exact Hnd|]. split; [intro n; cbn; tauto|].
    intros _. split; [intros a []|]. intros e q He _. exists e. repeat split; assumption.
  - inversion Hp as [|? ? Ha Hr]; subst. cbn [fold_left obind].
    destruct (include_entity_ok (a_name a) (a_part a) (a_key a) Ha acc Hnd) as (acc' & E & Hnd' & Hn & Hs & Ho).
    rewrite E. destruct (IH acc' Hr Hnd') as (es & Ef & Hnd2 & Hn2 & Hrest). exists es.
    split; [exact Ef|]. split; [exact Hnd2|].
    split; [intro n; rewrite Hn2, Hn; cbn [map In]; intuition congruence|].
    intro Hpairs. cbn [map] in Hpairs. inversion Hpairs as [|? ? Hnotin Hpairs']; subst.
    destruct (Hrest Hpairs') as [Hst Hkeep]. split.
    + intros a0 [<-|Hin] Hsp.
      * destruct (Hs Hsp) as (e & He & En & Epart).
        destruct (Hkeep e (a_part a) He) as (e' & He' & En' & Ep'); [rewrite En; exact Hnotin|].
        exists e'. split; [exact He'|]. split; [congruence|congruence].
      * exact (Hst a0 Hin Hsp).
    + intros e q He Hnot. cbn [map In] in Hnot.
      assert (Hc : en_name e <> a_name a \/ q <> a_part a).
      { destruct (str_eqb (en_name e) (a_name a)) eqn:E1; [|left; apply str_eqb_neq; exact E1].
        apply str_eqb_eq in E1. right. intro Eq. apply Hnot. left. unfold ann_pair. congruence. }
      destruct (Ho e q He Hc) as (e1 & He1 & En1 & Ep1).
      destruct (Hkeep e1 q He1) as (e2 & He2 & En2 & Ep2); [rewrite En1; intro Hin; apply Hnot; right; exact Hin|].
      exists e2. split; [exact He2|]. split; congruence.
Qed.

(* annotations as the compiler writes them: parts in 1..4, each (entity, part) once, and every entity
   with its keys, state and event object *)
Definition wf_anns (anns : list ent_ann) : Prop :=
  Forall (fun a => 1 <= a_part a <= 4) anns
  /\ NoDup (map ann_pair anns)
  /\ (forall a, In a anns -> forall p, stored_part p -> exists k, In (k, (a_name a, p)) anns).

Lemma complete_parts e : complete e = true <->
  (exists k, part_of 1 e = Some k) /\ (exists k, part_of 2 e = Some k) /\ (exists k, part_of 3 e = Some k).
Proof.
  unfold complete, part_of. cbn. destruct (en_keys e), (en_state e), (en_event e); split;
    try (intros _; repeat split; eexists; reflexivity); try discriminate;
    intros ((k1 & H1) & (k2 & H2) & (k3 & H3)); try discriminate; reflexivity.
Qed.

Lemma nodup_name_unique : forall es e1 e2, NoDup (map en_name es) -> In e1 es -> In e2 es -> en_name e1 = en_name e2 -> e1 = e2.
Proof.
  induction es as [|x r IH]; intros e1 e2 Hnd H1 H2 En; [destruct H1|].
  cbn [map] in Hnd. inversion Hnd as [|? ? Hnot Hnd']; subst.
  destruct H1 as [<-|H1], H2 as [<-|H2]; try reflexivity.
  - exfalso. apply Hnot. rewrite En. apply in_map. exact H2.
  - exfalso. apply Hnot. rewrite <- En. apply in_map. exact H1.
  - apply IH; assumption.
Qed.

(* walkSourceSchemas does not fail, whatever the order of the objects, and every keys / state / event
   object is a walk root *)
Theorem walk_source_schemas_total anns : wf_anns anns ->
  exists es, walk_source_schemas anns = Ok es
    /\ forall a, In a anns -> stored_part (a_part a) -> In (a_key a) (entity_roots es).
Proof.
  intros (Hp & Hnd & Hc). unfold walk_source_schemas, include_all.
  destruct (include_all_ok anns [] Hp (NoDup_nil _)) as (es & E & Hnd2 & Hn & Hrest).
  destruct (Hrest Hnd) as [Hst _].
  assert (Efold : fold_left (fun acc a => obind acc (include_entity (fst (snd a)) (snd (snd a)) (fst a))) anns (Ok []) = Ok es) by exact E.
  rewrite Efold. cbn [obind].
  assert (Hall : forallb complete es = true).
  { apply forallb_forall. intros e He. apply complete_parts.
    assert (Hin : In (en_name e) (map a_name anns)).
    { destruct (proj1 (Hn (en_name e)) (in_map en_name es e He)) as [[]|H]. exact H. }
    apply in_map_iff in Hin as (a & Ea & Ha).
    assert (G : forall p, stored_part p -> exists k, part_of p e = Some k).
    { intros p Hsp. destruct (Hc a Ha p Hsp) as (k & Hk).
      destruct (Hst (k, (a_name a, p)) Hk Hsp) as (e' & He' & En' & Ep'). cbn in En', Ep'.
      assert (e' = e) by (apply (nodup_name_unique es); [exact Hnd2|exact He'|exact He|congruence]).
      subst e'. exists k. exact Ep'. }
    split; [apply G; left; reflexivity|split; apply G; [right; left; reflexivity|right; right; reflexivity]]. }
  rewrite Hall. exists es. split; [reflexivity|].
  intros a Ha Hsp. destruct (Hst a Ha Hsp) as (e & He & _ & Ep). unfold entity_roots. apply in_flat_map. exists e.
  split; [exact He|]. unfold part_of in Ep. destruct Hsp as [Hp1|[Hp2|Hp3]].
  - rewrite Hp1 in Ep. cbn in Ep. rewrite Ep. left; reflexivity.
  - rewrite Hp2 in Ep. cbn in Ep. rewrite Ep. apply in_or_app. right. apply in_or_app. left. left; reflexivity.
  - rewrite Hp3 in Ep. cbn in Ep. rewrite Ep. apply in_or_app. right. apply in_or_app. right. left; reflexivity.
Qed.

(* ---------- the walk with entity roots ------------------------------------------------ *)
(* everything reachable from a property of an entity's keys / state / event object is in the client
   package's schema set *)
Theorem entity_roots_closed (im : image) (ms : list client_method) ks r s k x :
  collect_refs im ms = Ok ks ->
  In r (im_roots im) -> lookup (im_schemas im) r = Some s -> In k (succs s) ->
  present (cenv (im_schemas im)) k -> reach (cenv (im_schemas im)) k x -> present (cenv (im_schemas im)) x ->
  In x ks.
Proof.
  intros E Hr Hs Hk Hpk Hreach Hpx. unfold collect_refs in E.
  apply (walk_refs_exact _ _ _ _ _ E x). split; [exact Hpx|]. exists k. split; [|split; assumption].
  apply in_or_app. left. unfold root_refs. apply in_flat_map. exists r. split; [exact Hr|]. rewrite Hs. exact Hk.
Qed.

(* ---------- the chain with entities, from the method stage on --------------------------- *)
(* if the source stage and the method stage succeed, the entities are well annotated, their event objects
   have the event oneof, all references are linked and every field type has a swagger arm, then the client
   stage succeeds with exactly the schemas reachable from the methods and the entity roots, and the OpenAPI
   conversion succeeds *)
Theorem chain_with_entities im anns api ms :
  add_structure (im_services im) {| sa_services := []; sa_topics := [] |} = Ok api ->
  wf_anns anns ->
  (forall es, walk_source_schemas anns = Ok es -> exists evs, omapM (entity_events (im_schemas im)) es = Ok evs) ->
  all_refs_link (im_schemas im) = true -> wf_env (im_schemas im) -> client_env (im_schemas im) <> None ->
  (forall es, walk_source_schemas anns = Ok es -> forall k, In k (entity_roots es) -> present (im_schemas im) k) ->
  methods_from_source true (with_roots im []) api = Ok ms ->
  Forall wf_client_method ms ->
  (forall k, In k (flat_map method_roots ms) -> present (im_schemas im) k) ->
  let r := run_chain_ent current_config im anns in
  exists es ks,
    walk_source_schemas anns = Ok es
    /\ cr_source r = Ok api
    /\ cr_client r = Ok (ms, ks)
    /\ (forall x, In x ks <->
          present (cenv (im_schemas im)) x /\
          exists k, In k (root_refs (im_schemas im) (entity_roots es) ++ flat_map method_roots ms)
                    /\ present (cenv (im_schemas im)) k /\ reach (cenv (im_schemas im)) k x)
    /\ cr_swagger r = Ok tt.
Proof.
  intros Hsrc Hwa Hev Hl Hwf Hff Hroots Hms Hwm Hmr. cbv zeta.
  destruct (client_env (im_schemas im)) as [g'|] eqn:Ece; [|contradiction]. clear Hff.
  pose proof (cenv_spec _ g' Ece) as Ec.
  destruct (walk_source_schemas_total anns Hwa) as (es & Ees & _).
  destruct (Hev es Ees) as (evs & Eevs).
  unfold run_chain_ent. rewrite Ees. cbn [obind]. rewrite Eevs. cbn [omap obind].
  unfold run_client. rewrite Hsrc. cbn [obind cr_source cr_client cr_swagger current_config cc_walk_guard cc_arms cc_resp_guard].
  cbn [with_roots im_schemas]. rewrite Ece, Ec.
  assert (Hms' : methods_from_source true (with_roots im (entity_roots es)) api = Ok ms) by exact Hms.
  rewrite Hms'. cbn [obind].
  unfold collect_refs. cbn [with_roots im_schemas im_pkg im_roots]. rewrite Ec.
  assert (Hall : forall k, In k (root_refs (im_schemas im) (entity_roots es) ++ flat_map method_roots ms) -> present g' k).
  { intros k Hk. apply (cenv_present _ g' k Ece). apply in_app_or in Hk as [Hk|Hk]; [|exact (Hmr k Hk)].
    unfold root_refs in Hk. apply in_flat_map in Hk as (r & Hr & Hk).
    destruct (lookup (im_schemas im) r) as [s|] eqn:Es; [|destruct Hk].
    exact (linked_succs (im_schemas im) r s Hl Es k Hk). }
  destruct (walk_refs_ok g' [im_pkg im] _ (cenv_refs_link _ g' Ece Hl) Hall) as [ks Eks].
  rewrite (cenv_length _ g' Ece) in Eks.
  rewrite Eks. cbn [omap obind fst snd]. exists es, ks.
  split; [reflexivity|]. split; [reflexivity|]. split; [reflexivity|]. split.
  - exact (walk_refs_exact g' [im_pkg im] _ _ ks Eks).
  - apply build_swagger_total; [exact (cenv_wf_env _ g' Ece Hwf)|assumption].
Qed.

(* ---------- non-vacuity: two entities, their objects in a shuffled order -------------------------- *)
Definition ent_ex_pkg : str := bytes_of "t.v1".
Definition ent_ex_ann (name ent : string) (part : N) : ent_ann := ((ent_ex_pkg, bytes_of name), (bytes_of ent, part)).
Definition ent_ex_anns : list ent_ann :=
  [ ent_ex_ann "WidgetEvent" "widget" 3; ent_ex_ann "GadgetKeys" "gadget" 1; ent_ex_ann "WidgetData" "widget" 4;
    ent_ex_ann "WidgetKeys" "widget" 1; ent_ex_ann "GadgetEvent" "gadget" 3; ent_ex_ann "WidgetState" "widget" 2;
    ent_ex_ann "GadgetState" "gadget" 2 ].

Lemma ent_ex_anns_wf : wf_anns ent_ex_anns.
Proof.
  split; [repeat constructor; vm_compute; discriminate|]. split.
  - unfold ent_ex_anns. cbn [map]. repeat (constructor; [intro H; vm_compute in H; repeat (destruct H as [H|H]; [discriminate H|]); exact H|]).
    constructor.
  - intros a Ha p Hp. unfold ent_ex_anns in Ha. cbn [In] in Ha.
    repeat (destruct Ha as [<-|Ha]; [destruct Hp as [-> | [-> | ->]]; eexists; vm_compute; tauto|]). destruct Ha.
Qed.

Lemma ent_ex_anns_result :
  omap entity_roots (walk_source_schemas ent_ex_anns)
  = Ok [ (ent_ex_pkg, bytes_of "WidgetKeys"); (ent_ex_pkg, bytes_of "WidgetState"); (ent_ex_pkg, bytes_of "WidgetEvent");
         (ent_ex_pkg, bytes_of "GadgetKeys"); (ent_ex_pkg, bytes_of "GadgetState"); (ent_ex_pkg, bytes_of "GadgetEvent") ].
Proof. vm_compute. reflexivity. Qed.

(* ---------- flattened object fields (ObjectSchema.ClientProperties) ----------------------------- *)
(* the client properties of an object contain its own non-flattened properties and the client properties of
   every object it flattens: what those refer to is walked as if the host referred to it *)
Lemma client_props_keeps g : forall f ps cps p,
  client_props (S f) g ps = Some cps -> In p ps -> is_flat (p_ty p) = None -> In p cps.
Proof.
  intros f. induction ps as [|q r IH]; intros cps p E Hin Hnf; [destruct Hin|].
  cbn [client_props fold_right] in E.
  change (fold_right _ (Some []) r) with (client_props (S f) g r) in E.
  destruct (client_props (S f) g r) as [rest|] eqn:Er; [|discriminate].
  destruct Hin as [<-|Hin].
  - rewrite Hnf in E. injection E as <-. left; reflexivity.
  - specialize (IH rest p eq_refl Hin Hnf).
    destruct (is_flat (p_ty q)) as [k|]; [|injection E as <-; right; exact IH].
    destruct (lookup g k) as [[qs|qs|]|]; try (injection E as <-; right; exact IH).
    destruct (client_props f g qs) as [cs|]; [|discriminate]. cbn [option_map] in E. injection E as <-.
    apply in_or_app. right. exact IH.
Qed.

Lemma client_props_flattens g : forall f ps cps p k qs cqs,
  client_props (S f) g ps = Some cps -> In p ps -> is_flat (p_ty p) = Some k ->
  lookup g k = Some (SObject qs) -> client_props f g qs = Some cqs -> incl cqs cps.
Proof.
  intros f. induction ps as [|q r IH]; intros cps p k qs cqs E Hin Hf Hl Eq; [destruct Hin|].
  cbn [client_props fold_right] in E.
  change (fold_right _ (Some []) r) with (client_props (S f) g r) in E.
  destruct (client_props (S f) g r) as [rest|] eqn:Er; [|discriminate].
  destruct Hin as [<-|Hin].
  - rewrite Hf, Hl, Eq in E. cbn [option_map] in E. injection E as <-. intros x Hx. apply in_or_app. left. exact Hx.
  - specialize (IH rest p k qs cqs eq_refl Hin Hf Hl Eq).
    destruct (is_flat (p_ty q)) as [k'|]; [|injection E as <-; intros x Hx; right; exact (IH x Hx)].
    destruct (lookup g k') as [[qs'|qs'|]|]; try (injection E as <-; intros x Hx; right; exact (IH x Hx)).
    destruct (client_props f g qs') as [cs|]; [|discriminate]. cbn [option_map] in E. injection E as <-.
    intros x Hx. apply in_or_app. right. exact (IH x Hx).
Qed.

(* the schema set is closed under the references of the schemas in it: whatever a collected schema's client
   properties refer to (including through flattened fields) is collected too *)
Theorem collected_closed (im : image) (ms : list client_method) ks h s c :
  collect_refs im ms = Ok ks -> In h ks ->
  lookup (cenv (im_schemas im)) h = Some s -> In c (succs s) -> present (cenv (im_schemas im)) c ->
  In c ks.
Proof.
  intros E Hh Hs Hc Hp. unfold collect_refs in E.
  pose proof (walk_refs_exact _ _ _ _ _ E) as X.
  destruct (proj1 (X h) Hh) as (_ & k & Hk & Hpk & Hreach).
  apply (X c). split; [exact Hp|]. exists k. split; [exact Hk|]. split; [exact Hpk|].
  eapply reach_step; [exact Hreach|]. unfold edge. exists s. split; [exact Hs|exact Hc].
Qed.

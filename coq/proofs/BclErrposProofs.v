(* BclErrposProofs.v — humanString never hits an index / slice-bounds panic,
   whatever the diagnostic positions and the source lines are. *)
From Coq Require Import String List NArith ZArith Bool Lia ZifyN ZifyNat ZifyBool.
From J5V.lib Require Import Text Outcome.
From J5V.model Require Import BclLexer BclErrpos.
Import ListNotations.
Local Open Scope Z_scope.

Lemma go_index_ok {A} (l : list A) i : 0 <= i < Z.of_nat (length l) -> exists x, go_index l i = Ok x.
Proof.
  intros H. unfold go_index. replace (i <? 0) with false by lia.
  destruct (nth_error l (Z.to_nat i)) as [x|] eqn:E; [eauto|].
  apply nth_error_None in E. lia.
Qed.

Lemma go_slice_ok (s : list N) n : 0 <= n <= Z.of_nat (length s) -> exists p, go_slice_to s n = Ok p.
Proof.
  intros H. unfold go_slice_to. replace ((n <? 0) || (Z.of_nat (length s) <? n))%bool with false by lia. eauto.
Qed.

Lemma context_loop_ok lines start_line : start_line <= Z.of_nat (length lines) ->
  forall fuel line_num n, exists m, context_loop fuel lines line_num start_line n = Ok m.
Proof.
  intros Hs. induction fuel as [|f IH]; intros line_num n; cbn [context_loop]; [eauto|].
  destruct (line_num <? start_line) eqn:E1; [|eauto].
  destruct (line_num <? 1) eqn:E2; [apply IH|].
  destruct (go_index_ok lines (line_num - 1)) as [x ->]; [lia|]. cbn [obind]. apply IH.
Qed.

Theorem human_string_no_panic lines context d : is_panic (human_string lines context d) = false.
Proof.
  unfold human_string. destruct (dstart d) as [sl sc].
  destruct ((sl <? 0) && (sc <? 0))%bool; [reflexivity|].
  destruct (Z.of_nat (length lines) <? sl + 1) eqn:E1; [reflexivity|].
  destruct (context_loop_ok lines (sl + 1) ltac:(lia) (Z.to_nat context) (sl + 1 - context) 0%N) as [m ->].
  cbn [obind orb].
  destruct (sl + 1 <? 1) eqn:E2; [reflexivity|].
  destruct (go_index_ok lines (sl + 1 - 1)) as [el ->]; [lia|]. cbn [obind].
  destruct (sc + 1 =? Z.of_nat (length el) + 1) eqn:E3.
  - destruct ((sc + 1 <? 1) || (Z.of_nat (length el) + 1 <? sc + 1))%bool eqn:E4; [reflexivity|].
    destruct (go_slice_ok (el ++ [32%N]) (sc + 1 - 1)) as [p ->]; [rewrite app_length; cbn; lia|]. reflexivity.
  - destruct ((sc + 1 <? 1) || (Z.of_nat (length el) <? sc + 1))%bool eqn:E4; [reflexivity|].
    destruct (go_slice_ok el (sc + 1 - 1)) as [p ->]; [lia|]. reflexivity.
Qed.

Theorem human_all_no_panic lines context ds : is_panic (human_all lines context ds) = false.
Proof.
  induction ds as [|d r IH]; cbn [human_all]; [reflexivity|].
  pose proof (human_string_no_panic lines context d) as H.
  destruct (human_string lines context d); try discriminate; cbn [obind]; try reflexivity.
  destruct (human_all lines context r); try discriminate; reflexivity.
Qed.

Theorem human_all_ok lines context ds : exists hs, human_all lines context ds = Ok hs.
Proof.
  induction ds as [|d r IH]; cbn [human_all]; [eauto|].
  assert (H : exists h, human_string lines context d = Ok h).
  { unfold human_string. destruct (dstart d) as [sl sc].
    destruct ((sl <? 0) && (sc <? 0))%bool; [eauto|].
    destruct (Z.of_nat (length lines) <? sl + 1) eqn:E1; [eauto|].
    destruct (context_loop_ok lines (sl + 1) ltac:(lia) (Z.to_nat context) (sl + 1 - context) 0%N) as [m ->].
    cbn [obind orb].
    destruct (sl + 1 <? 1) eqn:E2; [eauto|].
    destruct (go_index_ok lines (sl + 1 - 1)) as [el ->]; [lia|]. cbn [obind].
    destruct (sc + 1 =? Z.of_nat (length el) + 1) eqn:E3.
    - destruct ((sc + 1 <? 1) || (Z.of_nat (length el) + 1 <? sc + 1))%bool eqn:E4; [eauto|].
      destruct (go_slice_ok (el ++ [32%N]) (sc + 1 - 1)) as [p ->]; [rewrite app_length; cbn; lia|]. cbn. eauto.
    - destruct ((sc + 1 <? 1) || (Z.of_nat (length el) <? sc + 1))%bool eqn:E4; [eauto|].
      destruct (go_slice_ok el (sc + 1 - 1)) as [p ->]; [lia|]. cbn. eauto. }
  destruct H as [h ->]. destruct IH as [hs ->]. cbn. eauto.
Qed.

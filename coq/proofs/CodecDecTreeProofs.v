(* CodecDecTreeProofs.v — the token-level decoder model (CodecDec.v, tied to the Go code)
   computes on [tokens_of j] exactly what the tree-level reading (CodecDecTree.v) says. *)
From Coq Require Import String List NArith ZArith Bool Lia ZifyN ZifyNat ZifyBool.
From J5V.lib Require Import Outcome Json.
From J5V.model Require Import CodecTypes CodecDecScalar CodecDec CodecDecTree.
From J5V.proofs Require Import CodecDecProofs.
Import ListNotations.

Definition members_tokens (ms : list (bytes * jvalue)) : list token :=
  flat_map (fun kv => TStr (fst kv) :: tokens_of (snd kv)) ms.
Definition items_tokens (js : list jvalue) : list token := flat_map tokens_of js.

Definition msize (ms : list (bytes * jvalue)) : nat :=
  fold_right (fun kv a => (S (jsize (snd kv)) + a)%nat) 0%nat ms.
Definition lsize (js : list jvalue) : nat := fold_right (fun v a => (jsize v + a)%nat) 0%nat js.

Lemma tokens_of_obj ms : tokens_of (JObj ms) = TOpenObj :: members_tokens ms ++ [TCloseObj].
Proof. reflexivity. Qed.
Lemma tokens_of_arr js : tokens_of (JArr js) = TOpenArr :: items_tokens js ++ [TCloseArr].
Proof. reflexivity. Qed.
Lemma jsize_obj ms : jsize (JObj ms) = S (msize ms).
Proof. reflexivity. Qed.
Lemma jsize_arr js : jsize (JArr js) = S (lsize js).
Proof. reflexivity. Qed.
Lemma jsize_pos j : (1 <= jsize j)%nat.
Proof. destruct j; cbn; lia. Qed.

(* ---------------------------------------------------------------- first tokens *)
Lemma tokens_of_cons j : exists t r, tokens_of j = t :: r /\ is_close t = false /\
  (t = TNull <-> j = JNull) /\ is_delim t = is_container j /\
  (is_container j = false -> r = [] /\ goval_of_token t = goval_of_json j).
Proof.
  destruct j; cbn; eexists; eexists; (split; [reflexivity|]); repeat split; intros; try congruence; try discriminate.
Qed.

(* ---------------------------------------------------------------- outcome algebra *)
Lemma omap_obind {A B C} (o : outcome A) (k : A -> outcome B) (g : B -> C) :
  omap g (obind o k) = obind o (fun a => omap g (k a)).
Proof. destruct o; reflexivity. Qed.

Lemma obind_omap {A B C} (o : outcome A) (g : A -> B) (k : B -> outcome C) :
  obind (omap g o) k = obind o (fun a => k (g a)).
Proof. destruct o; reflexivity. Qed.

Lemma obind_obind_ok {A B C} (o : outcome A) (k1 : A -> outcome B) (k2 : B -> outcome C) :
  obind (obind o k1) k2 = obind o (fun a => obind (k1 a) k2).
Proof. destruct o; reflexivity. Qed.

Lemma obind_ext {A B} (o : outcome A) (k1 k2 : A -> outcome B) :
  (forall a, k1 a = k2 a) -> obind o k1 = obind o k2.
Proof. intros H. destruct o; cbn; auto. Qed.

(* with_holder with a continuation that also returns a constant *)
Lemma with_holder_tag {A} (c : A) path m (k1 : N -> msg -> outcome (msg * A)) (k2 : N -> msg -> outcome (msg * unit)) :
  (forall n h, k1 n h = obind (k2 n h) (fun x => Ok (fst x, c))) ->
  with_holder path m k1 = obind (with_holder path m k2) (fun x => Ok (fst x, c)).
Proof.
  intros H. revert m. induction path as [|n rest IH]; intros m; [reflexivity|].
  destruct rest as [|n2 rest'].
  - cbn. apply H.
  - change (with_holder (n :: n2 :: rest') m k1) with
      (let '(sub, m1) := msg_mutable [] n m in
       obind (with_holder (n2 :: rest') sub k1) (fun r => Ok (msg_put n (VMsg (fst r)) m1, snd r))).
    change (with_holder (n :: n2 :: rest') m k2) with
      (let '(sub, m1) := msg_mutable [] n m in
       obind (with_holder (n2 :: rest') sub k2) (fun r => Ok (msg_put n (VMsg (fst r)) m1, snd r))).
    destruct (msg_mutable [] n m) as [sub m1]. rewrite IH.
    destruct (with_holder (n2 :: rest') sub k2) as [[m' u]| | |]; reflexivity.
Qed.

(* ---------------------------------------------------------------- split_value on a tree's tokens *)
Definition fold_depth_items (js : list jvalue) : N := fold_right (fun v a => N.max (jdepth v) a) 0%N js.
Definition fold_depth_members (ms : list (bytes * jvalue)) : N := fold_right (fun kv a => N.max (jdepth (snd kv)) a) 0%N ms.

(* inside an enclosing container (depth d >= 1) a whole value is consumed, its tokens are
   pushed on the accumulator and the maximal depth is updated *)
Lemma split_go_inner n : forall j, (jsize j <= n)%nat -> forall rest d mx acc,
  (1 <= d)%N -> (d <= mx)%N ->
  split_go (tokens_of j ++ rest) d mx acc =
  split_go rest d (N.max mx (d + jdepth j)) (rev (tokens_of j) ++ acc).
Proof.
  induction n as [|n IH]; intros j Hn rest d mx acc Hd Hmx; [pose proof (jsize_pos j); lia|].
  assert (Hd0 : (d =? 0)%N = false) by (apply N.eqb_neq; lia).
  destruct j as [|b|l|s|items|ms].
  - cbn. rewrite Hd0. f_equal. lia.
  - cbn. rewrite Hd0. f_equal. lia.
  - cbn. rewrite Hd0. f_equal. lia.
  - cbn. rewrite Hd0. f_equal. lia.
  - (* array *)
    rewrite tokens_of_arr. cbn [app split_go].
    assert (L : forall js, (lsize js <= n)%nat -> forall rest' mx' acc', (d + 1 <= mx')%N ->
              split_go (items_tokens js ++ rest') (d + 1) mx' acc' =
              split_go rest' (d + 1) (N.max mx' (if match js with [] => true | _ => false end then 0 else d + 1 + fold_depth_items js)) (rev (items_tokens js) ++ acc')).
    { induction js as [|v r IHr]; intros Hs rest' mx' acc' Hm.
      - cbn. f_equal. lia.
      - cbn [items_tokens flat_map]. rewrite <- app_assoc.
        assert (Hv : (jsize v <= n)%nat) by (unfold lsize in Hs; cbn [fold_right] in Hs; lia).
        assert (Hr : (lsize r <= n)%nat) by (unfold lsize in *; cbn [fold_right] in Hs; lia).
        rewrite (IH v Hv _ (d + 1)%N mx' acc' ltac:(lia) Hm).
        fold (items_tokens r). rewrite (IHr Hr) by lia.
        rewrite rev_app_distr, <- app_assoc. f_equal.
        cbn [fold_depth_items fold_right]. fold (fold_depth_items r).
        destruct r; cbn [fold_depth_items fold_right]; lia. }
    rewrite <- app_assoc. rewrite jsize_arr in Hn. rewrite L by lia.
    cbn [app split_go].
    replace (d + 1 =? 0)%N with false by (symmetry; apply N.eqb_neq; lia).
    replace (d + 1 =? 1)%N with false by (symmetry; apply N.eqb_neq; lia).
    replace (d + 1 - 1)%N with d by lia.
    f_equal.
    + cbn [jdepth]. fold (fold_depth_items items). destruct items; cbn [fold_depth_items fold_right]; lia.
    + cbn [rev]. rewrite rev_app_distr. cbn [rev app]. rewrite <- app_assoc. reflexivity.
  - (* object *)
    rewrite tokens_of_obj. cbn [app split_go].
    assert (L : forall ms', (msize ms' <= n)%nat -> forall rest' mx' acc', (d + 1 <= mx')%N ->
              split_go (members_tokens ms' ++ rest') (d + 1) mx' acc' =
              split_go rest' (d + 1) (N.max mx' (if match ms' with [] => true | _ => false end then 0 else d + 1 + fold_depth_members ms')) (rev (members_tokens ms') ++ acc')).
    { induction ms' as [|[k v] r IHr]; intros Hs rest' mx' acc' Hm.
      - cbn. f_equal. lia.
      - cbn [members_tokens flat_map fst snd]. cbn [app split_go].
        replace (d + 1 =? 0)%N with false by (symmetry; apply N.eqb_neq; lia).
        rewrite <- app_assoc.
        assert (Hv : (jsize v <= n)%nat) by (unfold msize in Hs; cbn [fold_right snd] in Hs; lia).
        assert (Hr : (msize r <= n)%nat) by (unfold msize in *; cbn [fold_right snd] in Hs; lia).
        rewrite (IH v Hv _ (d + 1)%N mx' (TStr k :: acc') ltac:(lia) Hm).
        fold (members_tokens r). rewrite (IHr Hr) by lia.
        cbn [rev]. rewrite rev_app_distr, <- !app_assoc. cbn [app]. f_equal.
        cbn [fold_depth_members fold_right snd]. fold (fold_depth_members r).
        destruct r; cbn [fold_depth_members fold_right]; lia. }
    rewrite <- app_assoc. rewrite jsize_obj in Hn. rewrite L by lia.
    cbn [app split_go].
    replace (d + 1 =? 0)%N with false by (symmetry; apply N.eqb_neq; lia).
    replace (d + 1 =? 1)%N with false by (symmetry; apply N.eqb_neq; lia).
    replace (d + 1 - 1)%N with d by lia.
    f_equal.
    + cbn [jdepth]. fold (fold_depth_members ms). destruct ms; cbn [fold_depth_members fold_right]; lia.
    + cbn [rev]. rewrite rev_app_distr. cbn [rev app]. rewrite <- app_assoc. reflexivity.
Qed.

Lemma split_go_items js : forall rest d mx acc, (1 <= d)%N -> (d <= mx)%N ->
  split_go (items_tokens js ++ rest) d mx acc =
  split_go rest d (N.max mx (if match js with [] => true | _ => false end then 0 else d + fold_depth_items js))
           (rev (items_tokens js) ++ acc).
Proof.
  induction js as [|v r IH]; intros rest d mx acc Hd Hm.
  - cbn. f_equal. lia.
  - cbn [items_tokens flat_map]. rewrite <- app_assoc.
    rewrite (split_go_inner (jsize v) v (Nat.le_refl _) _ d mx acc Hd Hm).
    fold (items_tokens r). rewrite IH by lia.
    rewrite rev_app_distr, <- app_assoc. f_equal.
    cbn [fold_depth_items fold_right]. fold (fold_depth_items r).
    destruct r; cbn [fold_depth_items fold_right]; lia.
Qed.

Lemma split_go_members ms : forall rest d mx acc, (1 <= d)%N -> (d <= mx)%N ->
  split_go (members_tokens ms ++ rest) d mx acc =
  split_go rest d (N.max mx (if match ms with [] => true | _ => false end then 0 else d + fold_depth_members ms))
           (rev (members_tokens ms) ++ acc).
Proof.
  induction ms as [|[k v] r IH]; intros rest d mx acc Hd Hm.
  - cbn. f_equal. lia.
  - cbn [members_tokens flat_map fst snd]. cbn [app split_go].
    replace (d =? 0)%N with false by (symmetry; apply N.eqb_neq; lia).
    rewrite <- app_assoc.
    rewrite (split_go_inner (jsize v) v (Nat.le_refl _) _ d mx (TStr k :: acc) Hd Hm).
    fold (members_tokens r). rewrite IH by lia.
    cbn [rev]. rewrite rev_app_distr, <- !app_assoc. cbn [app]. f_equal.
    cbn [fold_depth_members fold_right snd]. fold (fold_depth_members r).
    destruct r; cbn [fold_depth_members fold_right]; lia.
Qed.

(* Decode(&RawMessage) on the tokens of a tree followed by anything: exactly that tree *)
Lemma split_value_tokens j rest :
  split_value (tokens_of j ++ rest) = Some (tokens_of j, rest, jdepth j).
Proof.
  unfold split_value. destruct j as [|b|l|s|items|ms]; try reflexivity.
  - rewrite tokens_of_arr. cbn [app split_go]. rewrite <- app_assoc.
    rewrite split_go_items by lia. cbn [app split_go].
    change (0 + 1 =? 0)%N with false. change (0 + 1 =? 1)%N with true. cbn iota.
    f_equal. f_equal; [f_equal|].
    + cbn [rev]. rewrite rev_app_distr, rev_involutive. reflexivity.
    + cbn [jdepth]. fold (fold_depth_items items). destruct items; cbn [fold_depth_items fold_right]; lia.
  - rewrite tokens_of_obj. cbn [app split_go]. rewrite <- app_assoc.
    rewrite split_go_members by lia. cbn [app split_go].
    change (0 + 1 =? 0)%N with false. change (0 + 1 =? 1)%N with true. cbn iota.
    f_equal. f_equal; [f_equal|].
    + cbn [rev]. rewrite rev_app_distr, rev_involutive. reflexivity.
    + cbn [jdepth]. fold (fold_depth_members ms). destruct ms; cbn [fold_depth_members fold_right]; lia.
Qed.

(* ---------------------------------------------------------------- the refinement *)
Definition tag {A} (rest : list token) (o : outcome A) : outcome (A * list token) :=
  omap (fun a => (a, rest)) o.

Lemma tag_obind {A B} rest (o : outcome A) (k : A -> outcome B) :
  tag rest (obind o k) = obind o (fun a => tag rest (k a)).
Proof. destruct o; reflexivity. Qed.

Lemma tag_omap_fst {A} rest (o : outcome (msg * A)) :
  tag rest (omap fst o) = obind o (fun x => Ok (fst x, rest)).
Proof. destruct o as [[? ?]| | |]; reflexivity. Qed.

Lemma app_cons_assoc {A} (l : list A) x r : (l ++ [x]) ++ r = l ++ x :: r.
Proof. rewrite <- app_assoc. reflexivity. Qed.

Lemma members_tokens_cons k v r : members_tokens ((k, v) :: r) = TStr k :: tokens_of v ++ members_tokens r.
Proof. reflexivity. Qed.
Lemma items_tokens_cons v r : items_tokens (v :: r) = tokens_of v ++ items_tokens r.
Proof. reflexivity. Qed.

Section Refine.
  Variable orc : oracles.
  Variable e : env.
  Variable me : bool.

  Lemma has_more_str k r : has_more me (TStr k :: r) = true.
  Proof. reflexivity. Qed.

  (* decodeAny's body *)
  Lemma any_body_refines ms : forall f value ty rest,
    (length (members_tokens ms ++ TCloseObj :: rest) < f)%nat ->
    any_body me f (members_tokens ms ++ TCloseObj :: rest) (option_map tokens_of value) ty =
    omap (fun vt => (option_map tokens_of (fst vt), snd vt, TCloseObj :: rest)) (tr_any_body ms value ty).
  Proof.
    induction ms as [|[key v] r IH]; intros f value ty rest Hlen.
    - destruct f as [|f]; [cbn in Hlen; lia|]. reflexivity.
    - destruct f as [|f]; [cbn in Hlen; lia|].
      rewrite members_tokens_cons in *. cbn [app] in *. rewrite <- app_assoc in *.
      cbn [length] in Hlen. rewrite app_length in Hlen.
      cbn [any_body]. rewrite has_more_str. cbn [obind next_token fst snd].
      cbn [tr_any_body]. destruct (bytes_eqb key type_key).
      + destruct v; cbn [tokens_of app next_token obind fst snd]; try reflexivity.
        apply IH. cbn [tokens_of length] in Hlen. lia.
      + destruct value as [jv|]; [reflexivity|]. cbn [option_map].
        rewrite split_value_tokens.
        destruct (max_scan_depth <? jdepth v)%N; [reflexivity|].
        change (Some (tokens_of v)) with (option_map tokens_of (Some v)).
        apply IH. lia.
  Qed.

  (* CreateField and its guards *)
  Lemma member_refines d dp dpt p v R m seen :
    (forall m0, dp (tokens_of v ++ R) m0 = tag R (dpt v m0)) ->
    member_with d dp p (tokens_of v ++ R) m seen =
    omap (fun ms => (fst ms, R, snd ms)) (tr_member d dpt p v m seen).
  Proof.
    intros H. unfold member_with, tr_member.
    destruct (max_nesting_depth <? d + 1)%N; [reflexivity|].
    destruct (tokens_of_cons v) as (t & r0 & Ht & _ & Hnull & _ & _).
    destruct v; cbn [tokens_of app]; try reflexivity;
      (destruct (mem_bytes (p_json p) seen); [reflexivity|]);
      (destruct (oneof_conflict p m); [reflexivity|]);
      match goal with |- context[dp ?ts m] => specialize (H m); cbn [tokens_of app] in H; rewrite H end;
      match goal with |- context[dpt ?v m] => destruct (dpt v m) end; reflexivity.
  Qed.

  Definition refines (ft : nat) : Prop :=
    (forall d p j m rest f, (jsize j < ft)%nat -> (length (tokens_of j ++ rest) < f)%nat ->
       decode_present orc e me f d p (tokens_of j ++ rest) m = tag rest (tr_present orc e ft d p j m)) /\
    (forall d props ms m seen rest f, (msize ms < ft)%nat ->
       (length (members_tokens ms ++ TCloseObj :: rest) < f)%nat ->
       object_body orc e me f d props (members_tokens ms ++ TCloseObj :: rest) m seen =
       tag (TCloseObj :: rest) (tr_object orc e ft d props ms m seen)) /\
    (forall d props ms m seen found c rest f, (msize ms < ft)%nat ->
       (length (members_tokens ms ++ TCloseObj :: rest) < f)%nat ->
       oneof_body orc e me f d props (members_tokens ms ++ TCloseObj :: rest) m seen found c =
       tag (TCloseObj :: rest) (tr_oneof orc e ft d props ms m seen found c)) /\
    (forall d item js acc rest f, (lsize js < ft)%nat ->
       (length (items_tokens js ++ TCloseArr :: rest) < f)%nat ->
       array_items orc e me f d item (items_tokens js ++ TCloseArr :: rest) acc =
       tag (TCloseArr :: rest) (tr_array orc e ft d item js acc)) /\
    (forall d item ms acc rest f, (msize ms < ft)%nat ->
       (length (members_tokens ms ++ TCloseObj :: rest) < f)%nat ->
       map_items orc e me f d item (members_tokens ms ++ TCloseObj :: rest) acc =
       tag (TCloseObj :: rest) (tr_map orc e ft d item ms acc)).

  Lemma expect_open_obj_other j rest :
    (forall ms, j <> JObj ms) -> expect TOpenObj (tokens_of j ++ rest) = Err "unexpected token"%string.
  Proof. intros H. destruct j; try reflexivity. exfalso. eapply H. reflexivity. Qed.

  Lemma expect_open_arr_other j rest :
    (forall js, j <> JArr js) -> expect TOpenArr (tokens_of j ++ rest) = Err "unexpected token"%string.
  Proof. intros H. destruct j; try reflexivity. exfalso. eapply H. reflexivity. Qed.

  Lemma refines_step ft : refines ft -> refines (S ft).
  Proof.
    intros (Rp & Ro & Rn & Ra & Rm).
    (* ---- decode_present *)
    assert (Rp' : forall d p j m rest f, (jsize j < S ft)%nat -> (length (tokens_of j ++ rest) < f)%nat ->
       decode_present orc e me f d p (tokens_of j ++ rest) m = tag rest (tr_present orc e (S ft) d p j m)).
    { intros d p j m rest f Hs Hl.
      destruct f as [|f]; [lia|].
      cbn [decode_present tr_present].
      destruct (p_ty p) as [k|ref|ref|ref|item|item|pb].
      - (* scalar *)
        destruct (tokens_of_cons j) as (t & r0 & Ht & _ & _ & Hdel & Hleaf).
        rewrite Ht. cbn [app next_token obind fst snd]. rewrite Hdel.
        destruct (is_container j) eqn:Ec; [reflexivity|].
        destruct (Hleaf eq_refl) as [-> Hg]. rewrite Hg. cbn [app].
        rewrite tag_obind. apply obind_ext. intros v. rewrite tag_omap_fst. reflexivity.
      - (* enum *)
        destruct j; cbn [tokens_of app next_token obind fst snd]; try reflexivity.
        destruct (lookup e ref) as [[| |prefix opts]|]; try reflexivity.
        destruct (option_by_name prefix opts s); [|reflexivity].
        rewrite tag_omap_fst. reflexivity.
      - (* object *)
        destruct j as [| | | | |ms]; try reflexivity.
        rewrite tokens_of_obj. cbn [app expect token_eqb obind]. rewrite app_cons_assoc.
        destruct (lookup e ref) as [[props| |]|]; try reflexivity.
        rewrite tag_omap_fst. apply with_holder_tag. intros n h.
        destruct (msg_mutable (p_siblings p) n h) as [sub h1].
        rewrite Ro; [| rewrite jsize_obj in Hs; lia
                     | rewrite tokens_of_obj in Hl; cbn [app length] in Hl; rewrite app_cons_assoc in Hl; lia].
        unfold tag. rewrite obind_omap, obind_obind_ok. apply obind_ext. intros sub'. reflexivity.
      - (* oneof *)
        destruct j as [| | | | |ms]; try reflexivity.
        rewrite tokens_of_obj. cbn [app expect token_eqb obind]. rewrite app_cons_assoc.
        destruct (lookup e ref) as [[|props|]|]; try reflexivity.
        assert (Hsz : (msize ms < ft)%nat) by (rewrite jsize_obj in Hs; lia).
        assert (Hln : (length (members_tokens ms ++ TCloseObj :: rest) < f)%nat)
          by (rewrite tokens_of_obj in Hl; cbn [app length] in Hl; rewrite app_cons_assoc in Hl; lia).
        destruct (p_path p) as [|n0 path0].
        + rewrite Rn by assumption. unfold tag. rewrite obind_omap. unfold omap.
          apply obind_ext. intros a. reflexivity.
        + rewrite tag_omap_fst. apply with_holder_tag. intros n h.
          destruct (msg_mutable (p_siblings p) n h) as [sub h1].
          rewrite Rn by assumption. unfold tag. rewrite obind_omap, obind_obind_ok. apply obind_ext. intros sub'. reflexivity.
      - (* array *)
        destruct j as [| | | |items|]; try reflexivity.
        rewrite tokens_of_arr. cbn [app expect token_eqb obind]. rewrite app_cons_assoc.
        assert (Hsz : (lsize items < ft)%nat) by (rewrite jsize_arr in Hs; lia).
        assert (Hln : (length (items_tokens items ++ TCloseArr :: rest) < f)%nat)
          by (rewrite tokens_of_arr in Hl; cbn [app length] in Hl; rewrite app_cons_assoc in Hl; lia).
        assert (G : with_holder (p_path p) m (fun n h =>
                     let existing := match msg_get n h with Some (VList l) => l | _ => [] end in
                     obind (array_items orc e me f d item (items_tokens items ++ TCloseArr :: rest) existing) (fun lr =>
                       obind (expect TCloseArr (snd lr)) (fun r2 =>
                         Ok (msg_set true (p_siblings p) n (VList (fst lr)) h, r2)))) =
                   tag rest (omap fst (with_holder (p_path p) m (fun n h =>
                     let existing := match msg_get n h with Some (VList l) => l | _ => [] end in
                     obind (tr_array orc e ft d item items existing) (fun l =>
                       Ok (msg_set true (p_siblings p) n (VList l) h, tt)))))).
        { rewrite tag_omap_fst. apply with_holder_tag. intros n h. cbn zeta.
          rewrite Ra by assumption. unfold tag. rewrite obind_omap, obind_obind_ok. apply obind_ext. intros l. reflexivity. }
        destruct item; try reflexivity; exact G.
      - (* map *)
        destruct j as [| | | | |ms]; try reflexivity.
        rewrite tokens_of_obj. cbn [app expect token_eqb obind]. rewrite app_cons_assoc.
        assert (Hsz : (msize ms < ft)%nat) by (rewrite jsize_obj in Hs; lia).
        assert (Hln : (length (members_tokens ms ++ TCloseObj :: rest) < f)%nat)
          by (rewrite tokens_of_obj in Hl; cbn [app length] in Hl; rewrite app_cons_assoc in Hl; lia).
        assert (G : with_holder (p_path p) m (fun n h =>
                     let existing := match msg_get n h with Some (VMap l) => l | _ => [] end in
                     obind (map_items orc e me f d item (members_tokens ms ++ TCloseObj :: rest) existing) (fun lr =>
                       obind (expect TCloseObj (snd lr)) (fun r2 =>
                         Ok (msg_set true (p_siblings p) n (VMap (fst lr)) h, r2)))) =
                   tag rest (omap fst (with_holder (p_path p) m (fun n h =>
                     let existing := match msg_get n h with Some (VMap l) => l | _ => [] end in
                     obind (tr_map orc e ft d item ms existing) (fun l =>
                       Ok (msg_set true (p_siblings p) n (VMap l) h, tt)))))).
        { rewrite tag_omap_fst. apply with_holder_tag. intros n h. cbn zeta.
          rewrite Rm by assumption. unfold tag. rewrite obind_omap, obind_obind_ok. apply obind_ext. intros l. reflexivity. }
        destruct item; try reflexivity; exact G.
      - (* any *)
        destruct j as [| | | | |ms]; try reflexivity.
        rewrite tokens_of_obj. cbn [app expect token_eqb obind]. rewrite app_cons_assoc.
        assert (Hln : (length (members_tokens ms ++ TCloseObj :: rest) < f)%nat)
          by (rewrite tokens_of_obj in Hl; cbn [app length] in Hl; rewrite app_cons_assoc in Hl; lia).
        rewrite tag_omap_fst. apply with_holder_tag. intros n h.
        destruct (msg_mutable (p_siblings p) n h) as [sub h1].
        change (@None (list token)) with (option_map tokens_of (@None jvalue)).
        rewrite any_body_refines by assumption. rewrite obind_omap, obind_obind_ok.
        apply obind_ext. intros [value ty]. cbn [fst snd].
        destruct ty as [tn|]; [|reflexivity]. destruct value as [v|]; [|reflexivity]. cbn [option_map].
        destruct pb; reflexivity. }
    (* ---- object_body *)
    assert (Ro' : forall d props ms m seen rest f, (msize ms < S ft)%nat ->
       (length (members_tokens ms ++ TCloseObj :: rest) < f)%nat ->
       object_body orc e me f d props (members_tokens ms ++ TCloseObj :: rest) m seen =
       tag (TCloseObj :: rest) (tr_object orc e (S ft) d props ms m seen)).
    { intros d props ms m seen rest f Hs Hl. destruct f as [|f]; [lia|].
      destruct ms as [|[key v] r]; [reflexivity|].
      rewrite members_tokens_cons in *. cbn [app] in *. rewrite <- app_assoc in *.
      cbn [length] in Hl. rewrite app_length in Hl.
      unfold msize in Hs. cbn [fold_right snd] in Hs. fold (msize r) in Hs.
      cbn [object_body tr_object]. rewrite has_more_str. cbn [obind next_token fst snd].
      destruct (find_prop props key) as [p|]; [|reflexivity].
      rewrite (member_refines d _ (tr_present orc e ft (d + 1) p));
        [| intros m0; apply Rp; [lia | rewrite app_length; lia]].
      rewrite obind_omap, tag_obind. apply obind_ext. intros [m' seen']. cbn [fst snd].
      apply Ro; lia. }
    (* ---- oneof_body *)
    assert (Rn' : forall d props ms m seen found c rest f, (msize ms < S ft)%nat ->
       (length (members_tokens ms ++ TCloseObj :: rest) < f)%nat ->
       oneof_body orc e me f d props (members_tokens ms ++ TCloseObj :: rest) m seen found c =
       tag (TCloseObj :: rest) (tr_oneof orc e (S ft) d props ms m seen found c)).
    { intros d props ms m seen found c rest f Hs Hl. destruct f as [|f]; [lia|].
      destruct ms as [|[key v] r].
      - cbn [members_tokens flat_map app oneof_body tr_oneof]. change (has_more me (TCloseObj :: rest)) with false. cbn iota.
        unfold tag, omap. reflexivity.
      - rewrite members_tokens_cons in *. cbn [app] in *. rewrite <- app_assoc in *.
        cbn [length] in Hl. rewrite app_length in Hl.
        unfold msize in Hs. cbn [fold_right snd] in Hs. fold (msize r) in Hs.
        cbn [oneof_body tr_oneof]. rewrite has_more_str. cbn [obind next_token fst snd].
        destruct (bytes_eqb key type_key).
        + destruct v; cbn [tokens_of app next_token obind fst snd]; try reflexivity.
          apply Rn; [lia | cbn [tokens_of length] in Hl; lia].
        + destruct (find_prop props key) as [p|]; [|reflexivity].
          rewrite (member_refines d _ (tr_present orc e ft (d + 1) p));
            [| intros m0; apply Rp; [lia | rewrite app_length; lia]].
          rewrite obind_omap, tag_obind. apply obind_ext. intros [m' seen']. cbn [fst snd].
          apply Rn; lia. }
    (* ---- array_items *)
    assert (Ra' : forall d item js acc rest f, (lsize js < S ft)%nat ->
       (length (items_tokens js ++ TCloseArr :: rest) < f)%nat ->
       array_items orc e me f d item (items_tokens js ++ TCloseArr :: rest) acc =
       tag (TCloseArr :: rest) (tr_array orc e (S ft) d item js acc)).
    { intros d item js acc rest f Hs Hl. destruct f as [|f]; [lia|].
      destruct js as [|v r]; [reflexivity|].
      rewrite items_tokens_cons in *. rewrite <- app_assoc in *. rewrite app_length in Hl.
      unfold lsize in Hs. cbn [fold_right] in Hs. fold (lsize r) in Hs.
      pose proof (jsize_pos v) as Hv1.
      destruct (tokens_of_cons v) as (t & r0 & Ht & Hcl & _ & Hdel & Hleaf).
      assert (Hm : has_more me (tokens_of v ++ items_tokens r ++ TCloseArr :: rest) = true).
      { rewrite Ht. cbn [app has_more Json.more]. rewrite Hcl. reflexivity. }
      cbn [array_items tr_array]. rewrite Hm.
      assert (Hpos : (1 <= length (tokens_of v))%nat) by (rewrite Ht; cbn; lia).
      destruct item as [k|ref|ref|ref|it|it|pb]; try reflexivity.
      - rewrite Ht. cbn [app next_token obind fst snd]. rewrite Hdel.
        destruct (is_container v) eqn:Ec; [reflexivity|].
        destruct (Hleaf eq_refl) as [-> Hg]. cbn [app]. unfold append_go_value. rewrite Hg.
        rewrite tag_obind, obind_obind_ok. apply obind_ext. intros x.
        destruct x as [x|]; [|reflexivity]. cbn [list_append obind].
        apply Ra; [lia | rewrite Ht in Hl; cbn [length] in Hl; lia].
      - rewrite Ht. cbn [app next_token obind fst snd]. rewrite Hdel.
        destruct v; cbn [is_container]; try reflexivity;
          inversion Ht; subst; cbn [app]; cbn iota; try reflexivity.
        destruct (lookup e ref) as [[| |prefix opts]|]; try reflexivity.
        destruct (option_by_name prefix opts s); [|reflexivity]. cbn [list_append obind].
        apply Ra; [lia | cbn [tokens_of length] in Hl; lia].
      - destruct (lookup e ref) as [[props| |]|]; try reflexivity.
        destruct v as [| | | | |ms]; try reflexivity.
        rewrite tokens_of_obj. cbn [app expect token_eqb obind]. rewrite app_cons_assoc.
        rewrite tokens_of_obj in Hl. cbn [length] in Hl. rewrite app_length in Hl. cbn [length] in Hl.
        rewrite jsize_obj in Hs.
        rewrite Ro; [| lia | rewrite app_length; cbn [length]; lia].
        unfold tag. rewrite obind_omap, omap_obind. apply obind_ext. intros sub.
        cbn [fst snd expect token_eqb obind]. apply Ra; lia.
      - destruct (lookup e ref) as [[|props|]|]; try reflexivity.
        destruct v as [| | | | |ms]; try reflexivity.
        rewrite tokens_of_obj. cbn [app expect token_eqb obind]. rewrite app_cons_assoc.
        rewrite tokens_of_obj in Hl. cbn [length] in Hl. rewrite app_length in Hl. cbn [length] in Hl.
        rewrite jsize_obj in Hs.
        rewrite Rn; [| lia | rewrite app_length; cbn [length]; lia].
        unfold tag. rewrite obind_omap, omap_obind. apply obind_ext. intros sub.
        cbn [fst snd expect token_eqb obind]. apply Ra; lia. }
    (* ---- map_items *)
    assert (Rm' : forall d item ms acc rest f, (msize ms < S ft)%nat ->
       (length (members_tokens ms ++ TCloseObj :: rest) < f)%nat ->
       map_items orc e me f d item (members_tokens ms ++ TCloseObj :: rest) acc =
       tag (TCloseObj :: rest) (tr_map orc e (S ft) d item ms acc)).
    { intros d item ms acc rest f Hs Hl. destruct f as [|f]; [lia|].
      destruct ms as [|[key v] r]; [reflexivity|].
      rewrite members_tokens_cons in *. cbn [app] in *. rewrite <- app_assoc in *.
      cbn [length] in Hl. rewrite app_length in Hl.
      unfold msize in Hs. cbn [fold_right snd] in Hs. fold (msize r) in Hs.
      pose proof (jsize_pos v) as Hv1.
      destruct (tokens_of_cons v) as (t & r0 & Ht & Hcl & _ & Hdel & Hleaf).
      cbn [map_items tr_map]. rewrite has_more_str. cbn [obind next_token fst snd].
      destruct item as [k|ref|ref|ref|it|it|pb]; try reflexivity.
      - destruct (map_get key acc); [reflexivity|].
        rewrite Ht. cbn [app next_token obind fst snd]. rewrite Hdel.
        destruct (is_container v) eqn:Ec; [reflexivity|].
        destruct (Hleaf eq_refl) as [-> Hg]. cbn [app]. unfold map_set_go_value. rewrite Hg.
        rewrite tag_obind, obind_obind_ok. apply obind_ext. intros x.
        destruct x as [x|]; [|reflexivity]. cbn [map_set_value obind].
        apply Rm; [lia | rewrite Ht in Hl; cbn [length] in Hl; lia].
      - destruct (map_get key acc); [reflexivity|].
        rewrite Ht. cbn [app next_token obind fst snd].
        destruct v; inversion Ht; subst; cbn [app]; try reflexivity.
        destruct (lookup e ref) as [[| |prefix opts]|]; try reflexivity.
        destruct (option_by_name prefix opts s); [|reflexivity]. cbn [map_set_value obind].
        apply Rm; [lia | cbn [tokens_of length] in Hl; lia].
      - destruct (map_get key acc); [reflexivity|].
        destruct (lookup e ref) as [[props| |]|]; try reflexivity.
        destruct v as [| | | | |ms']; try reflexivity.
        rewrite tokens_of_obj. cbn [app expect token_eqb obind]. rewrite app_cons_assoc.
        rewrite tokens_of_obj in Hl. cbn [length] in Hl. rewrite app_length in Hl. cbn [length] in Hl.
        rewrite jsize_obj in Hs.
        rewrite Ro; [| lia | rewrite app_length; cbn [length]; lia].
        unfold tag. rewrite obind_omap, omap_obind. apply obind_ext. intros sub.
        cbn [fst snd expect token_eqb obind]. apply Rm; lia.
      - destruct (map_get key acc); [reflexivity|].
        destruct (lookup e ref) as [[|props|]|]; try reflexivity.
        destruct v as [| | | | |ms']; try reflexivity.
        rewrite tokens_of_obj. cbn [app expect token_eqb obind]. rewrite app_cons_assoc.
        rewrite tokens_of_obj in Hl. cbn [length] in Hl. rewrite app_length in Hl. cbn [length] in Hl.
        rewrite jsize_obj in Hs.
        rewrite Rn; [| lia | rewrite app_length; cbn [length]; lia].
        unfold tag. rewrite obind_omap, omap_obind. apply obind_ext. intros sub.
        cbn [fst snd expect token_eqb obind]. apply Rm; lia. }
    repeat split; assumption.
  Qed.

  Lemma refines_all ft : refines ft.
  Proof.
    induction ft as [|ft IH]; [|apply refines_step; exact IH].
    repeat split; intros; lia.
  Qed.

  (* Codec.decodeRoot on the tokens of a document tree (followed by anything) is the tree reading *)
  Theorem decode_tokens_tree root j rest :
    decode_tokens orc e me (S (length (tokens_of j ++ rest))) root (tokens_of j ++ rest) =
    tr_decode orc e (S (jsize j)) root j.
  Proof.
    unfold decode_tokens, tr_decode.
    destruct (refines_all (S (jsize j))) as (_ & Ro & Rn & _).
    destruct (lookup e root) as [[props|props|]|]; try reflexivity.
    - destruct j as [| | | | |ms]; try reflexivity.
      rewrite tokens_of_obj. cbn [app]. rewrite !app_cons_assoc. cbn [expect token_eqb obind length].
      rewrite Ro; [| rewrite jsize_obj; lia | lia].
      unfold tag. rewrite obind_omap.
      destruct (tr_object orc e (S (jsize (JObj ms))) 0 props ms [] []); reflexivity.
    - destruct j as [| | | | |ms]; try reflexivity.
      rewrite tokens_of_obj. cbn [app]. rewrite !app_cons_assoc. cbn [expect token_eqb obind length].
      rewrite Rn; [| rewrite jsize_obj; lia | lia].
      unfold tag. rewrite obind_omap.
      destruct (tr_oneof orc e (S (jsize (JObj ms))) 0 props ms [] [] [] None); reflexivity.
  Qed.

  (* ... and what it leaves is exactly what followed the document *)
  Theorem decode_tokens_rest_tree root j rest :
    decode_tokens_rest orc e me (S (length (tokens_of j ++ rest))) root (tokens_of j ++ rest) =
    omap (fun m => (m, rest)) (tr_decode orc e (S (jsize j)) root j).
  Proof.
    unfold decode_tokens_rest, tr_decode, omap.
    destruct (refines_all (S (jsize j))) as (_ & Ro & Rn & _).
    destruct (lookup e root) as [[props|props|]|]; try reflexivity.
    - destruct j as [| | | | |ms]; try reflexivity.
      rewrite tokens_of_obj. cbn [app]. rewrite !app_cons_assoc. cbn [expect token_eqb obind length].
      rewrite Ro; [| rewrite jsize_obj; lia | lia].
      unfold tag. rewrite obind_omap.
      destruct (tr_object orc e (S (jsize (JObj ms))) 0 props ms [] []); reflexivity.
    - destruct j as [| | | | |ms]; try reflexivity.
      rewrite tokens_of_obj. cbn [app]. rewrite !app_cons_assoc. cbn [expect token_eqb obind length].
      rewrite Rn; [| rewrite jsize_obj; lia | lia].
      unfold tag. rewrite obind_omap.
      destruct (tr_oneof orc e (S (jsize (JObj ms))) 0 props ms [] [] [] None); reflexivity.
  Qed.
End Refine.

(* the whole call JSONToProto (descent + end-of-input check) on a text that the tokenizer reads as the
   tree j followed by [rest]: the tree reading when nothing follows and the input ends there, an error
   otherwise (never a partial acceptance) *)
Theorem decode_document_tree orc e root bs j rest me :
  lex bs = (tokens_of j ++ rest, me) ->
  decode_document orc e root bs =
  obind (tr_decode orc e (S (jsize j)) root j) (fun m =>
    obind (end_of_input rest (lex_at_eof bs)) (fun _ => Ok m)).
Proof.
  intros H. unfold decode_document. rewrite H. rewrite decode_tokens_rest_tree. unfold omap.
  destruct (tr_decode orc e (S (jsize j)) root j); reflexivity.
Qed.

Corollary decode_document_tree_clean orc e root bs j me :
  lex bs = (tokens_of j, me) -> lex_at_eof bs = true ->
  decode_document orc e root bs = tr_decode orc e (S (jsize j)) root j.
Proof.
  intros H He. rewrite (decode_document_tree orc e root bs j [] me) by (rewrite app_nil_r; exact H).
  rewrite He. destruct (tr_decode orc e (S (jsize j)) root j); reflexivity.
Qed.

Corollary decode_document_tree_trailing orc e root bs j t rest me :
  lex bs = (tokens_of j ++ t :: rest, me) -> is_ok (decode_document orc e root bs) = false.
Proof.
  intros H. rewrite (decode_document_tree orc e root bs j (t :: rest) me H).
  destruct (tr_decode orc e (S (jsize j)) root j); reflexivity.
Qed.

(* byte level: when the tokenizer reads the document as the tree j (whatever follows it), JSONToProto
   computes the tree reading of j *)
Theorem decode_bytes_tree orc e root bs j rest me :
  lex bs = (tokens_of j ++ rest, me) ->
  decode_bytes orc e root bs = tr_decode orc e (S (jsize j)) root j.
Proof.
  intros H. unfold decode_bytes. rewrite H. apply decode_tokens_tree.
Qed.

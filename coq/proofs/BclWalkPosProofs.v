(* BclWalkPosProofs.v — line numbers of the fragments the walker builds from the formatter's own
   output: a fragment starts on the line after the previous one ended, or one line further when
   Fmt printed an empty line in between.  With BclLineNoProofs (exact token lines) this gives the
   blank-line decisions of a second Fmt run (C09 idempotence). *)
From Coq Require Import String List NArith ZArith Bool Lia ZifyN ZifyNat ZifyBool.
From J5V.lib Require Import Text Outcome.
From J5V.model Require Import BclLexer BclParser BclFmt.
From J5V.proofs Require Import BclPosProofs BclLexerProofs BclLexerCoverProofs BclParserProofs BclWalkCoverProofs
                               BclFmtLitProofs BclLexLitProofs BclFmtSeqProofs BclFragWfProofs BclFmtLineProofs
                               BclWalkBackProofs BclLineNoProofs BclDescGapProofs.
Import ListNotations.
Local Open Scope Z_scope.
Arguments Nat.sub : simpl never.

(* ---- no item of a rendered line is an EOL token ---------------------------------------------- *)
Definition item_no_eol (i : sitem) : Prop := match i with Tok typ _ => typ <> EOL | Sp => True end.
Definition no_eol (is : list sitem) : Prop := Forall item_no_eol is.

Lemma item_toks_no_eol : forall is, no_eol is -> Forall (fun p => fst p <> EOL) (item_toks is).
Proof.
  induction is as [|i r IH]; intros H; [constructor|]. inversion H as [|x y Hi Hr]; subst.
  destruct i as [typ l|]; cbn [item_toks]; [constructor; [exact Hi|apply IH; exact Hr]|apply IH; exact Hr].
Qed.

Lemma ctyp_not_eol t : ty t <> EOL -> ctyp t <> EOL.
Proof. unfold ctyp. destruct (ty t); try congruence. destruct (is_tf (lit t)); discriminate. Qed.

Lemma ref_items_no_eol r : Forall id_ok r -> no_eol (ref_items r).
Proof.
  induction r as [|i r IH]; intros H; [constructor|]. inversion H as [|x y [Hty _] Hr]; subst.
  assert (Hi : item_no_eol (id_item i)) by (cbn; apply ctyp_not_eol; rewrite Hty; discriminate).
  destruct r as [|i2 r2]; cbn [ref_items]; [repeat constructor; exact Hi|].
  constructor; [exact Hi|]. constructor; [cbn; discriminate|]. apply IH. exact Hr.
Qed.

Lemma sep_concat_no_eol (ls : list (list sitem)) : Forall no_eol ls -> forall b,
  no_eol (sep_concat [Tok COMMA [44%N]; Sp] ls b).
Proof.
  induction 1 as [|x r Hx Hr IH]; intros b; [constructor|]. cbn [sep_concat].
  apply Forall_app. split; [destruct b; repeat constructor; cbn; discriminate|].
  apply Forall_app. split; [exact Hx|apply IH].
Qed.

Lemma value_items_no_eol : forall v, vlx v -> no_eol (value_items v).
Proof.
  apply (value_ind' (fun v => vlx v -> no_eol (value_items v))).
  - intros t s e H. inversion H as [t0 s0 e0 _ Hv|]; subst. cbn [value_items]. repeat constructor. cbn.
    apply ctyp_not_eol. intros E. rewrite E in Hv. discriminate.
  - intros vs s e IH H. inversion H as [|vs0 s0 e0 Hvs]; subst. cbn [value_items].
    constructor; [cbn; discriminate|]. apply Forall_app. split; [|repeat constructor; cbn; discriminate].
    apply sep_concat_no_eol. apply Forall_forall. intros x Hx. apply in_map_iff in Hx. destruct Hx as (v & <- & Hin).
    rewrite Forall_forall in IH, Hvs. apply IH; [exact Hin|]. apply (Hvs v Hin).
Qed.

Lemma tag_items_no_eol t : tlx t -> no_eol (tag_items t).
Proof.
  intros [Hm Hb]. unfold tag_items. apply Forall_app. split.
  - unfold mark_items, mark_ok in *. destruct (tmark t), (tmark_tok t) as [mt|]; try contradiction; try constructor.
    + cbn. destruct Hm as [-> _]. discriminate.
    + repeat constructor.
    + cbn. destruct Hm as [-> _]. discriminate.
    + repeat constructor.
  - destruct (tbody t) as [r|[tk s e|vs s e]]; [apply ref_items_no_eol; apply Hb| |constructor].
    repeat constructor. cbn. discriminate.
Qed.

Lemma comment_items_no_eol c : no_eol (comment_items c).
Proof. destruct c; cbn; repeat constructor. cbn. discriminate. Qed.

Lemma flat_map_no_eol (f : tag -> list sitem) l : (forall t, In t l -> no_eol (f t)) -> no_eol (flat_map f l).
Proof.
  induction l as [|t r IH]; intros H; [constructor|]. cbn [flat_map]. apply Forall_app. split.
  - apply H. left. reflexivity.
  - apply IH. intros t0 Ht. apply H. right. exact Ht.
Qed.

Lemma frag_items_no_eol f : frag_lx f -> no_eol (frag_items f).
Proof.
  destruct f as [h|a|d|t|t]; cbn [frag_lx frag_items].
  - intros (Hr & Ht & Hq & Hc & Hd). unfold header_items.
    apply Forall_app. split; [apply ref_items_no_eol; apply Hr|].
    apply Forall_app. split.
    { apply flat_map_no_eol. intros t Hin. constructor; [exact I|]. apply tag_items_no_eol. rewrite Forall_forall in Ht. auto. }
    apply Forall_app. split.
    { apply flat_map_no_eol. intros t Hin. constructor; [cbn; discriminate|]. apply tag_items_no_eol. rewrite Forall_forall in Hq. auto. }
    apply Forall_app. split; [destruct (hopen h); repeat constructor; cbn; discriminate|].
    apply Forall_app. split; [|apply comment_items_no_eol].
    destruct (hdesc h) as [d|]; [|constructor]. destruct (dtoks d) as [|t [|t2 r]]; repeat constructor. cbn. discriminate.
  - intros (Hr & Hv & Hc & _). unfold assign_items.
    apply Forall_app. split; [apply ref_items_no_eol; apply Hr|].
    apply Forall_app. split; [destruct (aappend a); repeat constructor; cbn; discriminate|].
    apply Forall_app. split; [apply value_items_no_eol; exact Hv|apply comment_items_no_eol].
  - intros _. constructor.
  - intros [[Hty|Hty] _]; repeat constructor; cbn; rewrite Hty; discriminate.
  - intros _. repeat constructor. cbn. discriminate.
Qed.

Lemma desc_ptoks_lines_no_eol_last : forall ls, ls <> [] -> exists q l, desc_ptoks_lines ls = q ++ [(DESCRIPTION, l)].
Proof.
  induction ls as [|l r IH]; intros Hne; [congruence|]. destruct r as [|l2 r2].
  - exists [], l. reflexivity.
  - destruct (IH ltac:(discriminate)) as (q & l' & E). exists ((DESCRIPTION, l) :: eol_tok :: q), l'.
    change (desc_ptoks_lines (l :: l2 :: r2)) with ((DESCRIPTION, l) :: eol_tok :: desc_ptoks_lines (l2 :: r2)).
    rewrite E. reflexivity.
Qed.

(* the last token of an entry is not an EOL *)
Lemma entry_toks_last e : entry_ok e -> exists q p, entry_toks e = q ++ [p] /\ fst p <> EOL.
Proof.
  destruct e as [f|ls]; cbn [entry_ok entry_toks].
  - intros [Hlx Hnd]. destruct (frag_items_head f Hlx Hnd) as (p0 & r0 & Hh & _).
    pose proof (item_toks_no_eol _ (frag_items_no_eol f Hlx)) as Hno. rewrite Hh in *.
    destruct (exists_last (l := p0 :: r0) ltac:(discriminate)) as (q & p & E). rewrite E in *.
    exists q, p. split; [reflexivity|]. apply Forall_app in Hno. destruct Hno as [_ Hp]. inversion Hp; assumption.
  - intros Hne. destruct (desc_ptoks_lines_no_eol_last ls Hne) as (q & l & E). exists q, (DESCRIPTION, l).
    split; [exact E|discriminate].
Qed.

(* ---- a fragment starts where its first token starts ------------------------------------------- *)
Lemma pop_reference_loop_start : forall fuel acc s r s', pop_reference_loop fuel acc s = WOk r s' ->
  ref_start r = match acc with
                | [] => match wrest s with t :: _ => tstart t | [] => ref_start r end
                | a :: _ => tstart a
                end.
Proof.
  induction fuel as [|f IH]; intros acc s r s'; cbn [pop_reference_loop]; [discriminate|].
  unfold pop_ident, pop_token. destruct (wrest s) as [|t rs] eqn:Hr.
  - destruct (wprev s) as [p|]; cbn [wbind]; [|discriminate].
    destruct (tt_eqb (ty p) EOF) eqn:Ep; cbn [wbind as_ident ty].
    + apply tt_eqb_true in Ep. unfold as_ident. rewrite Ep. destruct acc; discriminate.
    + destruct acc; discriminate.
  - cbn [wbind]. destruct (as_ident t) as [i|] eqn:Ei; [|destruct acc; discriminate].
    assert (Hst : tstart i = tstart t).
    { unfold as_ident in Ei. destruct (ty t); try discriminate; injection Ei as <-; reflexivity. }
    destruct (tt_eqb (next_type (mkW rs (Some t))) DOT).
    + destruct rs as [|t2 rs2]; cbn [pop_token wrest wbind].
      * cbn [wprev]. destruct (tt_eqb (ty t) EOF); cbn [wbind]; intros H; rewrite (IH _ _ _ _ H); destruct acc; cbn; auto.
      * intros H. rewrite (IH _ _ _ _ H). destruct acc; cbn; auto.
    + intros [= <- _]. destruct acc; cbn; auto.
Qed.

Lemma walk_value_assign_start r app s f s' : walk_value_assign r app s = WOk f s' -> frag_start f = ref_start r.
Proof.
  unfold walk_value_assign. destruct (pop_token s) as [t s1|t wet s1|p|]; try discriminate. cbn [wbind].
  destruct (negb (tt_eqb (ty t) ASSIGN)); [discriminate|].
  destruct (pop_value_top s1) as [v s2|t2 wet2 s2|p|]; try discriminate. cbn [wbind].
  destruct (end_statement s2) as [c s3|t3 wet3 s3|p|]; try discriminate. cbn [wbind].
  intros [= <- _]. reflexivity.
Qed.

Lemma walk_statement_start s f s' t rs : wrest s = t :: rs -> walk_statement s = WOk f s' -> frag_start f = tstart t.
Proof.
  intros Hr. unfold walk_statement, pop_reference.
  destruct (pop_reference_loop (S (length (wrest s))) [] s) as [r s1|t1 wet1 s1|p|] eqn:Ep; try discriminate. cbn [wbind].
  pose proof (pop_reference_loop_start _ _ _ _ _ Ep) as Hs. cbn in Hs. rewrite Hr in Hs. rewrite <- Hs.
  destruct (tt_eqb (next_type s1) ASSIGN); [apply walk_value_assign_start|].
  destruct (tt_eqb (next_type s1) PLUS).
  - destruct (pop_token s1) as [t2 s2|t2 wet2 s2|p|]; try discriminate. cbn [wbind].
    destruct (negb (tt_eqb (next_type s2) ASSIGN)); [|apply walk_value_assign_start].
    destruct (pop_token s2) as [t3 s3|t3 wet3 s3|p|]; discriminate.
  - destruct (tags_loop _ [] s1) as [tags s2|t2 wet2 s2|p|]; try discriminate. cbn [wbind].
    destruct (quals_loop _ [] s2) as [quals s3|t3 wet3 s3|p|]; try discriminate. cbn [wbind].
    destruct (next_type s3);
      try (destruct (pop_token s3) as [t4 s4|t4 wet4 s4|p|]; try discriminate; cbn [wbind];
           try (destruct (end_statement s4) as [c s5|t5 wet5 s5|p|]; try discriminate; cbn [wbind]);
           intros [= <- _]; reflexivity);
      try (destruct (end_statement s3) as [c s4|t4 wet4 s4|p|]; try discriminate; cbn [wbind]; intros [= <- _]; reflexivity);
      try (intros [= <- _]; reflexivity).
Qed.

Lemma next_fragment_start s f s' t rs : wrest s = t :: rs -> next_fragment s = WOk (Some f) s' -> frag_start f = tstart t.
Proof.
  intros Hr. unfold next_fragment, next_type. rewrite Hr.
  assert (Epop : pop_token s = WOk t (mkW rs (Some t))) by (unfold pop_token; rewrite Hr; reflexivity).
  destruct (ty t) eqn:Et; try (rewrite Epop; cbn [wbind]; discriminate).
  - destruct (walk_statement s) as [f0 s0|t1 wet1 s0|p|] eqn:Es; try discriminate. cbn [wbind]. intros [= <- _].
    eapply walk_statement_start; eauto.
  - destruct (walk_statement s) as [f0 s0|t1 wet1 s0|p|] eqn:Es; try discriminate. cbn [wbind]. intros [= <- _].
    eapply walk_statement_start; eauto.
  - rewrite Epop. cbn [wbind]. intros [= <- _]. reflexivity.
  - rewrite Epop. cbn [wbind]. intros [= <- _]. reflexivity.
  - unfold pop_description.
    destruct (pop_description_loop (S (length (wrest s))) [] s) as [d s0|t1 wet1 s0|p|] eqn:Ed; try discriminate.
    cbn [wbind]. intros [= <- _]. cbn [frag_start].
    destruct (pop_description_loop_stop _ _ _ _ _ ltac:(unfold next_type; rewrite Hr; exact Et) Ed) as (_ & _ & Hs).
    rewrite Hr in Hs. exact Hs.
  - rewrite Epop. cbn [wbind]. intros [= <- _]. reflexivity.
Qed.

(* ---- the walker on the formatter's output, with line numbers ----------------------------------- *)
Section Pos.
Variable inp : list N.

Definition vst_ok (s : wstate) : Prop := vchain (wprev s) (wrest s).

Lemma wstep_vst s s' : wstep inp s s' -> vst_ok s -> vst_ok s'.
Proof.
  intros H Hl. destruct (ws_cons _ _ _ H) as (c & Hc & Hp). unfold vst_ok in *.
  rewrite Hp. apply vchain_app. rewrite <- Hc. exact Hl.
Qed.

Lemma lchain_eol_same : forall ts prev t, lchain prev ts -> In t ts -> ty t = EOL -> fst (tend t) = fst (tstart t).
Proof.
  induction ts as [|x r IH]; intros prev t H Hin Hty; [contradiction|].
  cbn [lchain] in H. destruct H as (_ & Hx & Hr). destruct Hin as [<-|Hin]; [apply Hx; right; exact Hty|].
  eapply IH; eauto.
Qed.

Lemma last_map_some {A} (c : list A) (x : A) d : last (map Some (c ++ [x])) d = Some x.
Proof. rewrite map_app. cbn [map]. apply last_last. Qed.

Lemma map_etok_snoc (c : list token) q p : map etok c = q ++ [p] -> exists c' t, c = c' ++ [t] /\ etok t = p.
Proof.
  intros H. destruct (exists_last (l := c)) as (c' & t & ->).
  { intros ->. destruct q; discriminate. }
  rewrite map_app in H. cbn [map] in H. apply app_inj_tail in H. destruct H as [_ H]. eauto.
Qed.

(* after the production of an entry: the line on which the next token starts *)
Lemma after_production s1 s2 e r : lst_ok s1 -> wstep inp s1 s2 -> entry_ok e ->
  pt s1 = entry_toks e ++ eol_tok :: r ->
  (pt s2 = r -> vl (wprev s2) = fst (hw s2) + 1) /\ (pt s2 = eol_tok :: r -> vl (wprev s2) = fst (hw s2)).
Proof.
  intros Hls H12 He Hp1. destruct (ws_cons _ _ _ H12) as (c & Hc & Hprev).
  assert (Hpt : pt s1 = map etok c ++ pt s2) by (unfold pt; rewrite Hc, map_app; reflexivity).
  split; intros Hp2.
  - rewrite Hp2, Hp1 in Hpt.
    assert (Hm : map etok c = entry_toks e ++ [eol_tok]).
    { apply (app_inv_tail r). rewrite <- Hpt, <- app_assoc. reflexivity. }
    destruct (map_etok_snoc c _ _ Hm) as (c' & u & -> & Hu).
    rewrite Hprev, last_map_some. unfold hw, current_pos. rewrite Hprev, last_map_some.
    assert (Hty : ty u = EOL) by (unfold etok, eol_tok in Hu; congruence).
    cbn [vl]. rewrite Hty. cbn.
    rewrite (lchain_eol_same (wrest s1) (wprev s1) u Hls); [reflexivity| |exact Hty].
    rewrite Hc. apply in_or_app. left. apply in_or_app. right. left. reflexivity.
  - rewrite Hp2, Hp1 in Hpt.
    assert (Hm : map etok c = entry_toks e).
    { apply (app_inv_tail (eol_tok :: r)). rewrite <- Hpt. reflexivity. }
    destruct (entry_toks_last e He) as (q & p & Eq & Hne). rewrite Eq in Hm.
    destruct (map_etok_snoc c _ _ Hm) as (c' & u & -> & Hu).
    rewrite Hprev, last_map_some. unfold hw, current_pos. rewrite Hprev, last_map_some.
    assert (Hty : ty u <> EOL) by (intros E; apply Hne; rewrite <- Hu; exact E).
    cbn [vl]. apply tt_eqb_false in Hty. rewrite Hty. reflexivity.
Qed.

(* fragment i starts on line V_i + b_i, where V_1 is the line of the first token and
   V_{i+1} = last line of fragment i + 1 *)
Fixpoint lines_rel (V : Z) (fs : list fragment) (es : list (bool * entry)) : Prop :=
  match fs, es with
  | [], [] => True
  | f :: fr, (b, _) :: er => fst (frag_start f) = V + (if b then 1 else 0) /\ lines_rel (fst (frag_end f) + 1) fr er
  | _, _ => False
  end.

(* popping an EOL token *)
Lemma skip_eol_pos f ff s r : pt s = eol_tok :: r -> wst_ok inp s -> lst_ok s -> vst_ok s ->
  exists s1, pt s1 = r /\ walk_fragments_loop (S f) ff s = walk_fragments_loop f ff s1 /\
             wst_ok inp s1 /\ lst_ok s1 /\ vst_ok s1 /\ vl (wprev s1) = vl (wprev s) + 1.
Proof.
  intros Hp Hok Hls Hvs. destruct (skip_eol_loop f ff s r Hp) as (s1 & Hp1 & E).
  destruct (pt_cons s _ _ Hp) as (t & rs & Hrs0 & Et & Hrs & Epop & Hn).
  assert (Hl : wlive s) by (left; rewrite Hrs0; discriminate).
  destruct (pop_token_spec inp s Hok Hl) as (t' & s' & E' & Hst & _).
  rewrite Epop in E'. injection E' as <- <-.
  exists (mkW rs (Some t)). split; [rewrite pt_mk; exact Hrs|]. split.
  - cbn [walk_fragments_loop]. rewrite Hn. replace (tt_eqb (fst eol_tok) EOF) with false by reflexivity.
    unfold next_fragment. rewrite Hn. cbn [fst eol_tok]. rewrite Epop. cbn [wbind].
    destruct (walk_fragments_loop f ff (mkW rs (Some t))); reflexivity.
  - split; [apply Hst|]. split; [eapply wstep_lst; eauto|]. split; [eapply wstep_vst; eauto|].
    assert (Hty : ty t = EOL) by (unfold etok, eol_tok in Et; congruence).
    unfold vst_ok in Hvs. rewrite Hrs0 in Hvs. cbn [vchain] in Hvs. destruct Hvs as [Hv _].
    cbn [wprev]. change (vl (Some t)) with (if tt_eqb (ty t) EOL then fst (tstart t) + 1 else fst (tend t)).
    rewrite Hty. change (tt_eqb EOL EOL) with true. cbn iota. rewrite Hv. reflexivity.
Qed.

Theorem walk_stream_pos : forall es fuel s, stream_ok es -> pt s = stream es ->
  wst_ok inp s -> lst_ok s -> vst_ok s -> (length (wrest s) < fuel)%nat ->
  exists fs, walk_fragments_loop fuel true s = WalkOk fs [] /\
             map fdoc_of fs = map (fun be => entry_doc (snd be)) es /\
             lines_rel (vl (wprev s)) fs es.
Proof.
  induction es as [|[b e] r IH]; intros fuel s Hok Hp Hwok Hls Hvs Hf.
  - destruct fuel as [|f]; [lia|]. cbn [walk_fragments_loop]. cbn in Hp.
    assert (Hn : next_type s = EOF) by (rewrite next_type_pt, Hp; reflexivity).
    rewrite Hn. exists []. split; [reflexivity|]. split; [reflexivity|exact I].
  - cbn [stream_ok] in Hok. destruct Hok as (He & Hnext & Hr). cbn [stream] in Hp.
    assert (Hskip : exists fuel1 s1, pt s1 = entry_toks e ++ eol_tok :: stream r /\ (length (wrest s1) < fuel1)%nat /\
                       walk_fragments_loop fuel true s = walk_fragments_loop fuel1 true s1 /\
                       wst_ok inp s1 /\ lst_ok s1 /\ vst_ok s1 /\
                       vl (wprev s1) = vl (wprev s) + (if b then 1 else 0)).
    { destruct b; cbn [app] in Hp.
      - destruct fuel as [|f]; [lia|]. destruct (skip_eol_pos f true s _ Hp Hwok Hls Hvs) as (s1 & Hp1 & E & A & B & C & D).
        exists f, s1. split; [exact Hp1|]. split; [|auto].
        rewrite <- pt_length in *. rewrite Hp in Hf. rewrite Hp1. cbn [length] in Hf. lia.
      - exists fuel, s. split; [exact Hp|]. split; [exact Hf|]. split; [reflexivity|]. split; [exact Hwok|].
        split; [exact Hls|]. split; [exact Hvs|]. rewrite Z.add_0_r. reflexivity. }
    destruct Hskip as (fuel1 & s1 & Hp1 & Hf1 & -> & Hwok1 & Hls1 & Hvs1 & HV1).
    destruct fuel1 as [|f1]; [lia|]. cbn [walk_fragments_loop].
    destruct (entry_toks_first e He) as (p & q & Hh & Hne & Hnd).
    assert (Hn : next_type s1 = fst p) by (rewrite next_type_pt, Hp1, Hh; reflexivity).
    rewrite Hn. replace (tt_eqb (fst p) EOF) with false by (symmetry; apply tt_eqb_false; exact Hne).
    assert (Hfrag : exists f s2, next_fragment s1 = WOk (Some f) s2 /\ fdoc_of f = entry_doc e /\
                      (pt s2 = stream r \/ pt s2 = eol_tok :: stream r)).
    { destruct e as [f0|ls]; cbn [entry_toks entry_ok entry_doc] in *.
      - destruct He as [Hlx Hnd0]. destruct (next_fragment_back f0 s1 (stream r) Hlx Hnd0 Hp1) as (f & s2 & E & Hd & Hp2).
        exists f, s2. auto.
      - destruct (next_fragment_desc_back ls s1 (stream r) He Hp1) as (d & s2 & E & Hdv & Hp2).
        { destruct r as [|[b2 e2] r2]; [exact I|]. cbn [stream]. cbn [stream_ok] in Hr. destruct Hr as (He2 & _ & _).
          destruct b2; [cbn; discriminate|]. cbn [app].
          destruct (entry_toks_first e2 He2) as (p2 & q2 & Hh2 & _ & Hnd2). rewrite Hh2. cbn.
          apply Hnd2. destruct (is_desc e2) eqn:Ed; [|reflexivity]. specialize (Hnext eq_refl eq_refl). discriminate. }
        exists (FDesc d), s2. split; [exact E|]. split; [cbn [fdoc_of]; rewrite Hdv; reflexivity|right; exact Hp2]. }
    destruct Hfrag as (f & s2 & E & Hd & Hp2). rewrite E.
    (* the generic facts about this step *)
    assert (Hr1 : wrest s1 <> []).
    { intros H0. unfold pt in Hp1. rewrite H0, Hh in Hp1. discriminate. }
    assert (Hl1 : wlive s1) by (left; exact Hr1).
    pose proof (next_fragment_spec inp s1 Hwok1 Hl1) as Hspec. rewrite E in Hspec. cbn in Hspec.
    destruct Hspec as (H12 & _ & Hlen12). specialize (Hlen12 Hr1).
    pose proof (next_fragment_line inp s1 f s2 Hwok1 Hl1 Hls1 E) as Hline.
    assert (Hstart : fst (frag_start f) = vl (wprev s) + (if b then 1 else 0)).
    { destruct (wrest s1) as [|t0 rs0] eqn:Hrs1; [congruence|].
      rewrite (next_fragment_start s1 f s2 t0 rs0 Hrs1 E). unfold vst_ok in Hvs1. rewrite Hrs1 in Hvs1.
      cbn [vchain] in Hvs1. destruct Hvs1 as [Hv _]. rewrite Hv. exact HV1. }
    destruct (after_production s1 s2 e (stream r) Hls1 H12 He Hp1) as [HA HB].
    assert (Hlen2 : (length (wrest s2) < f1)%nat) by lia.
    assert (Hrest : exists f2 s3, pt s3 = stream r /\ (length (wrest s3) < f2)%nat /\
                       walk_fragments_loop f1 true s2 = walk_fragments_loop f2 true s3 /\
                       wst_ok inp s3 /\ lst_ok s3 /\ vst_ok s3 /\ vl (wprev s3) = fst (frag_end f) + 1).
    { destruct Hp2 as [Hp2|Hp2].
      - exists f1, s2. split; [exact Hp2|]. split; [exact Hlen2|]. split; [reflexivity|].
        split; [apply H12|]. split; [eapply wstep_lst; eauto|]. split; [eapply wstep_vst; eauto|].
        rewrite (HA Hp2), Hline. reflexivity.
      - destruct f1 as [|f2]; [lia|].
        destruct (skip_eol_pos f2 true s2 _ Hp2 (ws_ok _ _ _ H12) (wstep_lst _ _ _ H12 Hls1) (wstep_vst _ _ H12 Hvs1))
          as (s3 & Hp3 & E3 & A & B & C & D).
        exists f2, s3. split; [exact Hp3|]. split; [|split; [exact E3|]].
        + rewrite <- pt_length in *. rewrite Hp2 in Hlen2. rewrite Hp3. cbn [length] in Hlen2. lia.
        + split; [exact A|]. split; [exact B|]. split; [exact C|]. rewrite D, (HB Hp2), Hline. reflexivity. }
    destruct Hrest as (f2 & s3 & Hp3 & Hl3 & -> & Hwok3 & Hls3 & Hvs3 & HV3).
    destruct (IH f2 s3 Hr Hp3 Hwok3 Hls3 Hvs3 Hl3) as (fs & Ew & Hdocs & Hlines). rewrite Ew.
    exists (f :: fs). split; [reflexivity|]. split; [cbn [map snd]; rewrite Hd, Hdocs; reflexivity|].
    cbn [lines_rel]. split; [exact Hstart|]. rewrite <- HV3. exact Hlines.
Qed.
End Pos.

(* BclLspProofs.v — C19 at the LSP level: genlsp's TextEdits are FmtDiffs' edits with positions
   (line, 0) and no uint32 wrap-around, and an editor that applies them by character offset gets
   the text the line-replacement model (apply_edits) describes, up to a trailing empty line. *)
From Coq Require Import String List NArith ZArith Bool Lia ZifyN ZifyNat ZifyBool.
From J5V.lib Require Import Text Outcome.
From J5V.model Require Import BclLexer BclParser BclFmt.
From J5V.proofs Require Import BclPosProofs BclLexerProofs BclParserProofs BclTextProofs BclFmtProofs BclFmtFullProofs.
Import ListNotations.
Local Open Scope Z_scope.
Arguments Nat.sub : simpl never.

(* ---- shape of the edits FmtDiffs returns ------------------------------------------------------- *)
Definition edit_ok (n : Z) (e : edit) : Prop := e_from e < n /\ (e_text e = [] \/ wf_text (e_text e)).

Lemma diffs_loop_shape lines : forall ds first last_end es,
  fd_sep (Z.of_nat (length lines)) ds ->
  Forall (fun m => wf_text (utf8_encode (fd_text m))) ds ->
  (first = true \/ (0 <= last_end /\ match ds with [] => True | d :: _ => last_end <= fd_from d end)) ->
  diffs_loop lines ds first last_end = Ok es -> Forall (edit_ok (Z.of_nat (length lines))) es.
Proof.
  induction ds as [|d r IH]; intros first last_end es Hs Hw Hf; cbn [diffs_loop]; [intros [= <-]; constructor|].
  cbn [fd_sep] in Hs. destruct Hs as (D0 & D1 & D2 & Dn & Ds). inversion Hw as [|x y Hwd Hwr]; subst.
  assert (Hrest : forall rest, diffs_loop lines r false (fd_to d) = Ok rest -> Forall (edit_ok (Z.of_nat (length lines))) rest).
  { intros rest Er. apply (IH false (fd_to d) rest Ds Hwr); [|exact Er]. right. split; [lia|]. destruct r; [exact I|lia]. }
  assert (Hpre_ok : forall pre, (pre = [] \/ (exists a, pre = [mkEdit a (fd_from d) []] /\ a < fd_from d) \/
                                 (exists a, pre = [mkEdit a (fd_from d) [10%N]] /\ a < fd_from d)) ->
             Forall (edit_ok (Z.of_nat (length lines))) pre).
  { intros pre [->|[(a & -> & Ha)|(a & -> & Ha)]]; [constructor| |].
    - constructor; [|constructor]. split; cbn [e_from e_text]; [lia|left; reflexivity].
    - constructor; [|constructor]. split; cbn [e_from e_text]; [lia|right; exists []; reflexivity]. }
  intros H. unfold obind in H.
  destruct (if first then _ else _) as [pre| | |] eqn:Epre; try discriminate.
  destruct (range_lines lines (fd_from d) (fd_to d)) as [ex| | |]; try discriminate.
  destruct (diffs_loop lines r false (fd_to d)) as [rest| | |] eqn:Er; try discriminate.
  injection H as <-. apply Forall_app. split; [|apply Forall_app; split; [|apply Hrest; reflexivity]].
  - apply Hpre_ok. destruct first.
    + injection Epre as <-. destruct (0 <? fd_from d) eqn:E0; [right; left; exists 0; split; [reflexivity|lia]|left; reflexivity].
    + destruct Hf as [Hf|[L0 L1]]; [discriminate|]. destruct (last_end <? fd_from d) eqn:El.
      * destruct (range_lines lines last_end (fd_from d)) as [gap| | |]; try discriminate. cbn in Epre. injection Epre as <-.
        destruct (list_N_eqb gap [10%N]); [left; reflexivity|right; right; exists last_end; split; [reflexivity|lia]].
      * injection Epre as <-. left. reflexivity.
  - destruct (list_N_eqb ex (utf8_encode (fd_text d))); constructor; [|constructor]. split; cbn; [lia|right; exact Hwd].
Qed.

Theorem fmt_diffs_shape input es : fmt_diffs input = Ok es ->
  Forall (edit_ok (Z.of_nat (length (split_on 10 input)))) es.
Proof.
  unfold fmt_diffs. destruct (collect_fmt (utf8_decode input)) as [ds| | |] eqn:E; try discriminate. cbn [obind].
  unfold fmt_diffs_of. intros Ee.
  pose proof (collect_fmt_chain _ _ E) as Hc. unfold rlines in Hc. rewrite decode_line_count in Hc.
  apply merge_diffs_sep in Hc.
  apply (diffs_loop_shape (split_on 10 input) (merge_diffs ds) true (-1) es Hc); [|left; reflexivity|exact Ee].
  unfold merge_diffs. apply merge_loop_wf_text; [|exact I].
  unfold collect_fmt, omap, obind in E. destruct (collect_fragments (utf8_decode input)); try discriminate.
  injection E as <-. apply diff_file_wf_text.
Qed.

(* ---- genlsp's mapping: no wrap-around ------------------------------------------------------------ *)
Definition plain_text_edit (e : edit) : text_edit := mkTE (mkLP (e_from e) 0) (mkLP (e_to e) 0) (e_text e).

Lemma to_text_edit_plain n : forall es lo, 0 <= lo -> edits_wf n lo es -> n < 4294967296 ->
  map to_text_edit es = map plain_text_edit es.
Proof.
  induction es as [|e r IH]; intros lo Hlo Hw Hn; [reflexivity|]. cbn [edits_wf] in Hw. destruct Hw as (A & B & C & D).
  cbn [map]. rewrite (IH (e_to e)) by (auto; lia). f_equal. unfold to_text_edit, plain_text_edit, uint32.
  rewrite !Z.mod_small by lia. reflexivity.
Qed.

(* ---- applying by character offset ---------------------------------------------------------------- *)
Definition NL (ls : list (list N)) : list N := flat_map (fun l => l ++ [10%N]) ls.

Lemma NL_app a b : NL (a ++ b) = NL a ++ NL b.
Proof. unfold NL. apply flat_map_app. Qed.

Lemma join_cons x l : l <> [] -> join_with 10 (x :: l) = x ++ 10%N :: join_with 10 l.
Proof. destruct l; [congruence|reflexivity]. Qed.

Lemma join_NL : forall a b, b <> [] -> join_with 10 (a ++ b) = NL a ++ join_with 10 b.
Proof.
  induction a as [|x r IH]; intros b Hb; [reflexivity|]. cbn [app NL flat_map].
  rewrite join_cons by (intros H; apply app_eq_nil in H; destruct H; contradiction).
  rewrite IH by exact Hb. unfold NL. rewrite <- !app_assoc. reflexivity.
Qed.

Lemma NL_join ls : ls <> [] -> NL ls = join_with 10 ls ++ [10%N].
Proof.
  induction ls as [|x r IH]; intros H; [congruence|]. destruct r as [|y z]; [cbn [NL flat_map join_with]; rewrite app_nil_r; reflexivity|].
  change (NL (x :: y :: z)) with ((x ++ [10%N]) ++ NL (y :: z)). rewrite IH by discriminate.
  rewrite (join_cons x (y :: z)) by discriminate. rewrite <- !app_assoc. reflexivity.
Qed.

Lemma text_NL t : t = [] \/ wf_text t -> t = NL (text_lines t).
Proof.
  intros [->|[x ->]]; [reflexivity|]. rewrite text_lines_snoc.
  rewrite NL_join by (apply split_on_nonempty). rewrite join_split. reflexivity.
Qed.

Section Apply.
Variable lines : list (list N).
Let n := Z.of_nat (length lines).

Lemma seg_inner a b : 0 <= a -> a <= b -> b < n ->
  seg lines a b = NL (firstn (Z.to_nat (b - a)) (skipn (Z.to_nat a) lines)).
Proof. intros. unfold seg. fold n. replace (b <? n) with true by lia. reflexivity. Qed.

Lemma seg_tail a : seg lines a n = join_with 10 (skipn (Z.to_nat a) lines).
Proof. unfold seg. fold n. replace (n <? n) with false by lia. reflexivity. Qed.

(* the editor's text is the lines of the line model, joined; with a final newline when the last edit
   reaches the end of the document *)
Lemma lsp_apply_text : forall es cur, 0 <= cur <= n -> edits_wf n cur es -> Forall (edit_ok n) es ->
  let R := apply_edits lines cur es in
  lsp_apply lines cur (map plain_text_edit es) = NL R \/
  (R <> [] /\ lsp_apply lines cur (map plain_text_edit es) = join_with 10 R).
Proof.
  induction es as [|e r IH]; intros cur Hc Hw Hok; cbn zeta.
  - cbn [map lsp_apply apply_edits]. rewrite seg_tail.
    destruct (skipn (Z.to_nat cur) lines) as [|x y] eqn:E; [left; reflexivity|right; split; [discriminate|reflexivity]].
  - cbn [edits_wf] in Hw. destruct Hw as (A & B & C & D). inversion Hok as [|x y [Hlt Ht] Hr]; subst.
    cbn [map lsp_apply apply_edits plain_text_edit te_start te_end te_text lp_line].
    rewrite seg_inner by lia. pose proof (text_NL (e_text e) Ht) as Htx.
    destruct (IH (e_to e) ltac:(lia) D Hr) as [E|[Hne E]]; rewrite E.
    + left. rewrite !NL_app. rewrite <- Htx. reflexivity.
    + right. split; [intros H0; apply app_eq_nil in H0; destruct H0 as [_ H0]; apply app_eq_nil in H0; destruct H0; contradiction|].
      rewrite join_NL by (intros H0; apply app_eq_nil in H0; destruct H0; contradiction).
      rewrite join_NL by exact Hne. rewrite <- Htx. reflexivity.
Qed.
End Apply.

Lemma apply_edits_no_nl lines : Forall no_nl lines -> forall es cur, Forall no_nl (apply_edits lines cur es).
Proof.
  intros Hl. induction es as [|e r IH]; intros cur; cbn [apply_edits]; [apply Forall_skipn; exact Hl|].
  apply Forall_app. split; [apply Forall_firstn, Forall_skipn; exact Hl|]. apply Forall_app. split; [|apply IH].
  unfold text_lines. pose proof (split_on_no_nl (e_text e)) as H.
  clear -H. induction (split_on 10 (e_text e)) as [|x y IHl]; [constructor|]. inversion H; subst.
  destruct y; [constructor|]. cbn [removelast]. constructor; [assumption|]. apply IHl. assumption.
Qed.

Lemma split_NL ls : Forall no_nl ls -> split_on 10 (NL ls) = ls ++ [[]].
Proof.
  induction ls as [|x r IH]; intros H; [reflexivity|]. inversion H; subst. cbn [NL flat_map].
  rewrite <- app_assoc. cbn [app]. rewrite split_on_app_nl by assumption. fold (NL r). rewrite IH by assumption. reflexivity.
Qed.

(* the statement used in C19: the document the editor ends up with, as lines, up to trailing blank lines *)
Theorem lsp_apply_lines input es :
  edits_wf (Z.of_nat (length (split_on 10 input))) 0 es ->
  Forall (edit_ok (Z.of_nat (length (split_on 10 input)))) es ->
  strip_trailing_blank (split_on 10 (lsp_apply (split_on 10 input) 0 (map plain_text_edit es))) =
  strip_trailing_blank (apply_edits (split_on 10 input) 0 es).
Proof.
  intros Hw Hok. set (lines := split_on 10 input) in *.
  pose proof (apply_edits_no_nl lines (split_on_no_nl input) es 0) as Hnl.
  destruct (lsp_apply_text lines es 0 ltac:(lia) Hw Hok) as [E|[Hne E]]; rewrite E.
  - rewrite split_NL by exact Hnl. apply strip_app_blank. reflexivity.
  - rewrite split_join by assumption. reflexivity.
Qed.

(* ---- C19 over the TextEdits the editor receives ------------------------------------------------- *)
Theorem lsp_format_full input out : fmt_bytes input = Ok out ->
  Z.of_nat (length (split_on 10 input)) < 4294967296 ->
  exists es, fmt_diffs input = Ok es /\ lsp_format input = Ok (map plain_text_edit es) /\
             edits_wf (Z.of_nat (length (split_on 10 input))) 0 es /\
             strip_trailing_blank (split_on 10 (lsp_apply (split_on 10 input) 0 (map plain_text_edit es))) =
             strip_trailing_blank (split_on 10 out).
Proof.
  intros Eo Hn. destruct (fmt_diffs_full input out Eo) as (es & Ee & Hw & Happ).
  exists es. split; [exact Ee|]. split; [|split; [exact Hw|]].
  - unfold lsp_format. rewrite Ee. cbn [omap obind]. unfold omap, obind. f_equal.
    apply (to_text_edit_plain (Z.of_nat (length (split_on 10 input))) es 0); [lia|exact Hw|exact Hn].
  - rewrite (lsp_apply_lines input es Hw (fmt_diffs_shape input es Ee)). exact Happ.
Qed.

Theorem lsp_format_total input : match lsp_format input with Ok _ => True | Err _ => True | _ => False end.
Proof.
  unfold lsp_format. pose proof (fmt_diffs_total input) as H. destruct (fmt_diffs input); cbn; auto.
Qed.

(* well-formed TextEdits: character 0, ascending, non-overlapping, start <= end <= number of lines *)
Fixpoint tes_wf (n lo : Z) (tes : list text_edit) : Prop :=
  match tes with
  | [] => True
  | te :: r => lp_char (te_start te) = 0 /\ lp_char (te_end te) = 0 /\
               lo <= lp_line (te_start te) /\ lp_line (te_start te) <= lp_line (te_end te) /\ lp_line (te_end te) <= n /\
               tes_wf n (lp_line (te_end te)) r
  end.

Lemma plain_tes_wf n : forall es lo, edits_wf n lo es -> tes_wf n lo (map plain_text_edit es).
Proof.
  induction es as [|e r IH]; intros lo H; [exact I|]. cbn [edits_wf] in H. destruct H as (A & B & C & D).
  cbn [map tes_wf plain_text_edit te_start te_end lp_line lp_char]. repeat split; auto.
Qed.

Theorem lsp_format_statement input out : fmt_bytes input = Ok out ->
  Z.of_nat (length (split_on 10 input)) < 4294967296 ->
  exists tes, lsp_format input = Ok tes /\ tes_wf (Z.of_nat (length (split_on 10 input))) 0 tes /\
              strip_trailing_blank (split_on 10 (lsp_apply (split_on 10 input) 0 tes)) =
              strip_trailing_blank (split_on 10 out).
Proof.
  intros Eo Hn. destruct (lsp_format_full input out Eo Hn) as (es & _ & El & Hw & Happ).
  exists (map plain_text_edit es). split; [exact El|]. split; [apply plain_tes_wf; exact Hw|exact Happ].
Qed.

(* ProtoPrintTokenProofs.v — the option-value token layer of C05: the parser for the emitted token
   subset reads back what the printer wrote, for every option tree; printing that again gives the
   same tokens. Leaves are covered by the literal layer (ProtoPrintLitProofs.v). *)
From Coq Require Import String List Arith NArith ZArith Bool Lia ZifyN ZifyNat ZifyBool.
From J5V.lib Require Import Outcome Corr.
From J5V.model Require Import ProtoPrintLit ProtoPrint.
From J5V.proofs Require Import ProtoPrintLitProofs.
Import ListNotations.

(* ---------- the inner loops are the named functions ------------------------------ *)
Lemma print_val_msg fs : print_val (OMsg fs) = TLBrace :: print_fields fs ++ [TRBrace].
Proof. reflexivity. Qed.
Lemma print_val_list l : print_val (OList l) = TLBrack :: print_elems l ++ [TRBrack].
Proof. reflexivity. Qed.
Lemma raw_of_msg fs : raw_of (OMsg fs) = RMsg (raw_fields fs).
Proof. reflexivity. Qed.
Lemma raw_of_list l : raw_of (OList l) = RList (raw_elems l).
Proof. reflexivity. Qed.
Lemma size_msg fs : size (OMsg fs) = S (S (size_fields fs)).
Proof. reflexivity. Qed.
Lemma size_list l : size (OList l) = S (S (size_elems l)).
Proof. reflexivity. Qed.

(* what follows the first element of a list *)
Fixpoint print_more (l : list optval) : list token :=
  match l with [] => [] | x :: r => TComma :: print_val x ++ print_more r end.

Lemma print_elems_cons x r : print_elems (x :: r) = print_val x ++ print_more r.
Proof.
  revert x. induction r as [|y r IH]; intro x.
  - cbn [print_elems print_more]. rewrite app_nil_r. reflexivity.
  - change (print_elems (x :: y :: r)) with (print_val x ++ TComma :: print_elems (y :: r)).
    rewrite IH. reflexivity.
Qed.

Definition starts_value (t : token) : bool :=
  match t with TIdent _ | TLit _ | TLBrace | TLBrack => true | _ => false end.

Lemma print_val_head v : exists t tl, print_val v = t :: tl /\ starts_value t = true.
Proof.
  destruct v as [s|fs|l].
  - destruct s; eexists; eexists; split; reflexivity.
  - rewrite print_val_msg. eexists; eexists; split; reflexivity.
  - rewrite print_val_list. eexists; eexists; split; reflexivity.
Qed.

(* ---------- parse (print v) = v, with fuel = size of the tree ----------------------- *)
Lemma parse_all : forall fuel,
  (forall v rest, (size v <= fuel)%nat -> parse_raw fuel (print_val v ++ rest) = Some (raw_of v, rest)) /\
  (forall fs rest, (size_fields fs < fuel)%nat ->
     parse_fields fuel (print_fields fs ++ TRBrace :: rest) = Some (raw_fields fs, rest)) /\
  (forall l rest, (size_elems l < fuel)%nat ->
     parse_more fuel (print_more l ++ TRBrack :: rest) = Some (raw_elems l, rest)).
Proof.
  induction fuel as [|f (IHv & IHf & IHm)].
  - split; [|split].
    + intros v rest H. destruct v; cbn in H; lia.
    + intros fs rest H. lia.
    + intros l rest H. lia.
  - split; [|split].
    + intros v rest Hs. destruct v as [s|fs|l].
      * destruct s; reflexivity.
      * rewrite print_val_msg, raw_of_msg. rewrite size_msg in Hs.
        cbn [app]. rewrite <- app_assoc. cbn [app parse_raw].
        rewrite IHf by lia. reflexivity.
      * rewrite print_val_list, raw_of_list. rewrite size_list in Hs.
        destruct l as [|x r].
        -- reflexivity.
        -- rewrite print_elems_cons. cbn [size_elems] in Hs.
           destruct (print_val_head x) as (t & tl & Ex & Ht).
           cbn [app]. rewrite <- !app_assoc. cbn [app].
           assert (Hp : parse_raw f (print_val x ++ print_more r ++ TRBrack :: rest)
                        = Some (raw_of x, print_more r ++ TRBrack :: rest)) by (apply IHv; lia).
           assert (Hm : parse_more f (print_more r ++ TRBrack :: rest) = Some (raw_elems r, rest)) by (apply IHm; lia).
           rewrite Ex in Hp |- *. cbn [app] in Hp |- *.
           destruct t; try discriminate Ht; cbn [parse_raw]; rewrite Hp, Hm; reflexivity.
    + intros fs rest Hs. destruct fs as [|[k x] r].
      * reflexivity.
      * cbn [print_fields raw_fields size_fields] in *. cbn [app]. rewrite <- app_assoc. cbn [parse_fields].
        rewrite IHv by lia. rewrite IHf by lia. reflexivity.
    + intros l rest Hs. destruct l as [|x r].
      * reflexivity.
      * cbn [print_more raw_elems size_elems] in *. cbn [app]. rewrite <- app_assoc. cbn [parse_more].
        rewrite IHv by lia. rewrite IHm by lia. reflexivity.
Qed.

Theorem parse_print_val v rest : parse_raw (size v) (print_val v ++ rest) = Some (raw_of v, rest).
Proof. apply (proj1 (parse_all (size v))). lia. Qed.

(* more fuel does not change the answer *)
Theorem parse_print_val_fuel v rest fuel : (size v <= fuel)%nat ->
  parse_raw fuel (print_val v ++ rest) = Some (raw_of v, rest).
Proof. intro H. apply (proj1 (parse_all fuel)). exact H. Qed.

(* ---------- printing the parsed tree gives the same tokens (idempotence at token level) ---- *)
Lemma print_raw_of : forall n v, (size v <= n)%nat -> print_raw (raw_of v) = print_val v.
Proof.
  induction n as [|n IH]; intros v Hs; [destruct v; cbn in Hs; lia|].
  destruct v as [s|fs|l].
  - reflexivity.
  - rewrite raw_of_msg, print_val_msg. rewrite size_msg in Hs. cbn [print_raw]. f_equal. f_equal.
    assert (Hf : (size_fields fs <= n)%nat) by lia. clear Hs.
    induction fs as [|[k x] r IHr]; [reflexivity|].
    cbn [raw_fields print_fields size_fields] in *. rewrite IH by lia. f_equal. f_equal. f_equal.
    apply IHr. lia.
  - rewrite raw_of_list, print_val_list. rewrite size_list in Hs. cbn [print_raw]. f_equal. f_equal.
    assert (Hf : (size_elems l <= n)%nat) by lia. clear Hs.
    induction l as [|x r IHr]; [reflexivity|].
    cbn [size_elems] in Hf. destruct r as [|y r'].
    + cbn [raw_elems print_elems]. apply IH. lia.
    + change (raw_elems (x :: y :: r')) with (raw_of x :: raw_elems (y :: r')).
      change (print_elems (x :: y :: r')) with (print_val x ++ TComma :: print_elems (y :: r')).
      change (raw_elems (y :: r')) with (raw_of y :: raw_elems r') in *.
      cbn [size_elems] in *. rewrite <- IHr by lia. rewrite <- (IH x) by lia. reflexivity.
Qed.

Theorem print_parse_print_val v :
  match parse_raw (size v) (print_val v) with
  | Some (r, []) => print_raw r = print_val v
  | _ => False
  end.
Proof.
  pose proof (parse_print_val v []) as H. rewrite app_nil_r in H. rewrite H.
  apply (print_raw_of (size v)). lia.
Qed.

(* ---------- leaves: the scalar a token denotes, given the field's kind --------------------- *)
Inductive skind := KBool | KInt | KUint | KStr | KEnum.

Definition kind_of (s : scalar) : skind :=
  match s with VBool _ => KBool | VInt _ => KInt | VUint _ => KUint | VStr _ => KStr | VEnum _ => KEnum end.

Definition read_scalar (k : skind) (t : token) : option scalar :=
  match k, t with
  | KBool, TIdent s => option_map VBool (parse_bool s)
  | KInt, TLit s => option_map VInt (parse_int s)
  | KUint, TLit s => option_map VUint (parse_uint s)
  | KStr, TLit s => option_map VStr (parse_string_lit s)
  | KEnum, TIdent s => Some (VEnum s)
  | _, _ => None
  end.

Definition wf_scalar (s : scalar) : Prop :=
  match s with VStr b => Forall (fun x => (x < 256)%N) b | _ => True end.

Theorem read_print_scalar s : wf_scalar s -> read_scalar (kind_of s) (print_scalar s) = Some s.
Proof.
  destruct s as [b|z|n|bs|e]; intro Hw; cbn [kind_of print_scalar read_scalar].
  - rewrite parse_print_bool. reflexivity.
  - rewrite parse_print_int. reflexivity.
  - rewrite parse_print_uint. reflexivity.
  - rewrite (parse_print_string bs Hw). reflexivity.
  - reflexivity.
Qed.

(* J5sSubPkgProofs.v — the .service / .topic sub-package files of a compiled package satisfy the
   declared contract after the link step, and the output of a package consists of exactly the
   main, service and topic files of its source files: package_contract_full for every valid
   bundle. *)
From Coq Require Import String List NArith Bool Lia.
From J5V.lib Require Import Outcome Corr.
From J5V.model Require Import J5sAst Desc J5sWalk J5sLink J5sConvert J5sContract J5sValid.
From J5V.proofs Require Import J5sProofs J5sContractProofs J5sLinkProofs J5sServiceProofs J5sTotalProofs J5sCompileProofs.
Import ListNotations.
Local Open Scope N_scope.

(* ------------------------------------------------------------------ the link step on method types, as a function *)
Definition linked_tn (fpkg tn : str) : str :=
  match tn with
  | [] => []
  | c :: _ =>
      if c =? 46 then tn
      else if str_eqb tn (b "google.api.HttpBody") then dot ++ tn
      else in_pkg fpkg tn
  end.

Definition link_m (fpkg : str) (m : dmethod) : dmethod :=
  mkDmethod (me_name m) (linked_tn fpkg (me_in m)) (linked_tn fpkg (me_out m)) (me_http m).
Definition link_s (fpkg : str) (s : dservice) : dservice :=
  mkDservice (ds_name s) (map (link_m fpkg) (ds_methods s)) (ds_topic s).

Lemma nodot_not_httpbody tn : nodot_b tn = true -> str_eqb tn (b "google.api.HttpBody") = false.
Proof.
  intros H. destruct (str_eqb tn (b "google.api.HttpBody")) eqn:E; [|reflexivity].
  apply str_eqb_eq in E. subst tn. vm_compute in H. discriminate.
Qed.

Lemma link_method_name_val msgs fpkg tn :
  (forall n, In n (map dm_name msgs) -> starts_upper n = true) ->
  tn_ok (map dm_name msgs) tn -> link_method_name (file_syms msgs []) fpkg tn = Ok (linked_tn fpkg tn).
Proof.
  intros Hup Hok. destruct Hok as [E|[E|[E|E]]]; [subst tn|destruct E as [r E]; subst tn|destruct E as [Hnd Hin]|subst tn].
  - reflexivity.
  - reflexivity.
  - unfold link_method_name, linked_tn. destruct tn as [|c r]; [reflexivity|].
    assert (Hc : (c =? 46) = false).
    { cbn in Hnd. apply andb_true_iff in Hnd. destruct Hnd as [Hnd _]. apply negb_true_iff in Hnd. exact Hnd. }
    rewrite Hc, (split_nodot _ Hnd), (top_sym_in _ _ Hin), (nodot_not_httpbody _ Hnd). reflexivity.
  - unfold link_method_name. cbn -[sym_mem file_syms].
    match goal with |- context [if sym_mem ?p ?s then _ else _] => destruct (sym_mem p s) eqn:E end.
    + apply top_sym_only in E. apply Hup in E. vm_compute in E. discriminate.
    + reflexivity.
Qed.

Lemma link_methods_val msgs fpkg l :
  (forall n, In n (map dm_name msgs) -> starts_upper n = true) ->
  (forall m, In m l -> tn_ok (map dm_name msgs) (me_in m) /\ tn_ok (map dm_name msgs) (me_out m)) ->
  link_methods (file_syms msgs []) fpkg l = Ok (map (link_m fpkg) l).
Proof.
  intros Hup. induction l as [|m r IH]; intros H; cbn [link_methods map]; [reflexivity|].
  destruct (H m (or_introl eq_refl)) as [Hi Ho].
  rewrite (link_method_name_val _ fpkg _ Hup Hi), (link_method_name_val _ fpkg _ Hup Ho). cbn [obind].
  rewrite IH by (intros x Hx; apply H; right; exact Hx). reflexivity.
Qed.

Lemma link_services_val msgs fpkg svcs :
  (forall n, In n (map dm_name msgs) -> starts_upper n = true) ->
  methods_ok (map dm_name msgs) svcs ->
  link_services (file_syms msgs []) fpkg svcs = Ok (map (link_s fpkg) svcs).
Proof.
  intros Hup. induction svcs as [|s r IH]; intros H; cbn [link_services map]; [reflexivity|].
  rewrite (link_methods_val msgs fpkg (ds_methods s) Hup) by (intros m Hm; apply (H s m (or_introl eq_refl) Hm)).
  cbn [obind]. rewrite IH by (intros s' m Hs Hm; apply (H s' m (or_intror Hs) Hm)). reflexivity.
Qed.

Lemma link_file_val path pkg a df' :
  linkable a -> link_file (mk_file path pkg a) = Ok df' ->
  fl_path df' = path /\ fl_pkg df' = pkg /\ fl_enums df' = [] /\
  fl_msgs df' = link_msgs pkg (fa_msgs a) /\ fl_svcs df' = map (link_s pkg) (fa_svcs a).
Proof.
  intros (U & M & E). unfold link_file, mk_file. cbn [fl_msgs fl_enums fl_pkg fl_svcs fl_path fl_deps]. rewrite E.
  rewrite (link_services_val (fa_msgs a) pkg (fa_svcs a) U M). cbn [obind]. intros H. inversion H. subst df'.
  cbn. auto.
Qed.

Lemma linked_tn_good fpkg n : good_name n -> linked_tn fpkg n = in_pkg fpkg n.
Proof.
  intros [Hu Hn]. unfold linked_tn. destruct n as [|c r]; [discriminate|].
  assert (Hc : (c =? 46) = false).
  { cbn in Hn. apply andb_true_iff in Hn. destruct Hn as [Hn _]. apply negb_true_iff in Hn. exact Hn. }
  rewrite Hc, (nodot_not_httpbody _ Hn). reflexivity.
Qed.

(* ------------------------------------------------------------------ what a source file's services and topics convert to *)
Section Parts.
Variables snake camel screaming : str -> str.
Variable ev : env.
Notation cv_service := (cv_service snake camel screaming).
Notation cv_topic := (cv_topic snake camel screaming).
Notation cv_elements := (cv_elements snake camel screaming).

Definition svc_pre (sv : service) (ms : list dmsg) (ds : dservice) : Prop :=
  exists is, cv_service ev sv = Ok (ms, [ds], is).
Definition top_pre (tp : topic) (ms : list dmsg) (dss : list dservice) : Prop :=
  exists is, cv_topic ev tp = Ok (ms, dss, is).

Definition nonempty {A} (l : list A) : bool := match l with [] => false | _ => true end.

Lemma cv_elements_parts pkg els : forall m s t m' s' t',
  cv_elements ev pkg els m s t = Ok (m', s', t') ->
  (exists mss dss, fa_msgs s' = fa_msgs s ++ concat mss /\ fa_svcs s' = fa_svcs s ++ dss /\
      fa_enums s' = fa_enums s /\ zip3 svc_pre (flat_map elem_services els) mss dss /\
      fa_used s' = (fa_used s || nonempty (flat_map elem_services els))) /\
  (exists mss dsss, fa_msgs t' = fa_msgs t ++ concat mss /\ fa_svcs t' = fa_svcs t ++ concat dsss /\
      fa_enums t' = fa_enums t /\ zip3 top_pre (flat_map elem_topics els) mss dsss /\
      fa_used t' = (fa_used t || nonempty (flat_map elem_topics els))).
Proof.
  induction els as [|e r IH]; intros m s t m' s' t' H; cbn [J5sConvert.cv_elements] in H.
  - inversion H. subst. cbn [flat_map nonempty]. split.
    + exists [], []. cbn [concat]. rewrite !app_nil_r, orb_false_r. repeat split; constructor.
    + exists [], []. cbn [concat]. rewrite !app_nil_r, orb_false_r. repeat split; constructor.
  - destruct e as [nm ps subs|nm ps subs|en|sv|tp]; cbn [flat_map elem_services elem_topics app].
    + apply obind_ok in H. destruct H as ([[ms es] is] & _ & H). exact (IH _ _ _ _ _ _ H).
    + apply obind_ok in H. destruct H as ([[ms es] is] & _ & H). exact (IH _ _ _ _ _ _ H).
    + exact (IH _ _ _ _ _ _ H).
    + apply obind_ok in H. destruct H as ([[ms ss] is] & E & H).
      destruct (IH _ _ _ _ _ _ H) as [(mss & dss & A1 & A2 & A3 & A4 & A5) Ht]. split; [|exact Ht].
      destruct (cv_service_ok snake camel screaming _ _ _ _ _ E) as (ds & -> & _).
      cbn [facc_add fa_msgs fa_svcs fa_enums fa_used] in A1, A2, A3, A5.
      exists (ms :: mss), (ds :: dss). cbn [concat nonempty].
      rewrite A1, A2, A3, A5, <- !app_assoc, app_nil_r, orb_true_r. cbn [app].
      repeat split. constructor; [exists is; exact E|exact A4].
    + apply obind_ok in H. destruct H as ([[ms ss] is] & E & H).
      destruct (IH _ _ _ _ _ _ H) as [Hs (mss & dsss & A1 & A2 & A3 & A4 & A5)]. split; [exact Hs|].
      cbn [facc_add fa_msgs fa_svcs fa_enums fa_used] in A1, A2, A3, A5.
      exists (ms :: mss), (ss :: dsss). cbn [concat nonempty].
      rewrite A1, A2, A3, A5, <- !app_assoc, app_nil_r, orb_true_r.
      repeat split. constructor; [exists is; exact E|exact A4].
Qed.

End Parts.

(* ------------------------------------------------------------------ the element contracts after the link step *)
Lemma forall2_map_r_in {A B C} (R : A -> B -> Prop) (R' : A -> C -> Prop) (g : B -> C) l l' :
  Forall2 R l l' -> (forall a c, In a l -> R a c -> R' a (g c)) -> Forall2 R' l (map g l').
Proof.
  intros H. induction H as [|x y r s Hxy Hrs IH]; intros Hg; cbn [map]; constructor.
  - apply Hg; [left; reflexivity|exact Hxy].
  - apply IH. intros a c Ha. apply Hg. right. exact Ha.
Qed.

Lemma zip3_map {A B C B' C'} (R : A -> B -> C -> Prop) (R' : A -> B' -> C' -> Prop) (g : B -> B') (h : C -> C') la lb lc :
  zip3 R la lb lc -> (forall a c d, In a la -> R a c d -> R' a (g c) (h d)) -> zip3 R' la (map g lb) (map h lc).
Proof.
  intros H. induction H as [|a c d la lc ld Hr Hz IH]; intros Hg; cbn [map]; constructor.
  - apply Hg; [left; reflexivity|exact Hr].
  - apply IH. intros x y z Hx. apply Hg. right. exact Hx.
Qed.

Section Linked.
Variables snake camel screaming : str -> str.
Variable ev : env.
Notation virtual_ok := (virtual_ok snake camel screaming).
Notation method_msgs_ok := (method_msgs_ok snake camel screaming).

Lemma virtual_ok_shape name virt decl m m' :
  shape_eq m m' -> virtual_ok name virt decl m -> virtual_ok name virt decl m'.
Proof.
  intros Hs (H1 & H2 & H3 & H4 & H5 & H6). inversion Hs as [n k fs fs' ms ms' es HF HM]. subst m m'.
  cbn [dm_name dm_kind dm_fields dm_msgs dm_enums] in *.
  split; [exact H1|]. split; [exact H2|]. split; [eapply fields_ok_shape; eassumption|].
  split; [eapply (proj1 (proj2 (inline_shape snake camel screaming))); eassumption|].
  split; [|exact H6]. rewrite <- H5. symmetry. eapply forall2_map_eq; [exact shape_name|exact HM].
Qed.

Lemma method_msgs_linked spkg m ms : method_msgs_ok m ms -> method_msgs_ok m (link_msgs spkg ms).
Proof.
  unfold J5sContract.method_msgs_ok, link_msgs. destruct (m_response m) as [rs|].
  - destruct ms as [|rq [|rp [|? ?]]]; try contradiction. intros [Hq Hp]. cbn [map].
    split; eapply virtual_ok_shape; try eassumption; apply link_msg_shape.
  - destruct ms as [|rq [|? ?]]; try contradiction. intros Hq. cbn [map].
    eapply virtual_ok_shape; [apply link_msg_shape|exact Hq].
Qed.

Lemma link_msgs_concat spkg mss : link_msgs spkg (concat mss) = concat (map (link_msgs spkg) mss).
Proof. unfold link_msgs. apply concat_map. Qed.

Lemma method_linked spkg base m dm :
  good_name (m_name m) -> method_ok snake base m dm -> method_linked_ok snake spkg base m (link_m spkg dm).
Proof.
  intros Hg (Hn & Hi & Ho & Hh). unfold method_linked_ok, link_m. cbn [me_name me_in me_out me_http].
  split; [exact Hn|]. split; [rewrite Hi; apply linked_tn_good; apply good_suffix; [exact Hg|reflexivity]|].
  split; [|exact Hh]. rewrite Ho. destruct (m_response m).
  - apply linked_tn_good. apply good_suffix; [exact Hg|reflexivity].
  - vm_compute. reflexivity.
Qed.

Lemma service_linked spkg sv ms ds :
  wf_service snake camel ev sv = true -> svc_pre snake camel screaming ev sv ms ds ->
  service_linked_ok snake camel screaming spkg sv (link_msgs spkg ms) (link_s spkg ds).
Proof.
  intros Hw [is E]. destruct (cv_service_ok snake camel screaming _ _ _ _ _ E) as (ds0 & Heq & Hn & Ht & HF & mss & Hms & HFm).
  inversion Heq. subst ds0. clear Heq.
  unfold wf_service in Hw. apply andb_true_iff in Hw. destruct Hw as [Hw _]. apply andb_true_iff in Hw. destruct Hw as [_ Hw].
  rewrite forallb_forall in Hw.
  unfold service_linked_ok, link_s. cbn [ds_name ds_topic ds_methods].
  split; [exact Hn|]. split; [exact Ht|]. split.
  - eapply forall2_map_r_in; [exact HF|]. intros m dm Hm Hok. apply method_linked; [|exact Hok].
    specialize (Hw m Hm). unfold wf_method in Hw. apply and4 in Hw. destruct Hw as (Hnm & _).
    apply type_ident_facts in Hnm. exact Hnm.
  - exists (map (link_msgs spkg) mss). split; [rewrite Hms; apply link_msgs_concat|].
    eapply forall2_map_r_in; [exact HFm|]. intros m x _ Hx. apply method_msgs_linked. exact Hx.
Qed.

Lemma topic_service_linked spkg tname topic_name rl virt l ms ds :
  (forall t, In t l -> good_name (tmsg_name tname t)) ->
  topic_service_ok snake camel screaming tname topic_name rl virt l ms ds ->
  topic_service_linked_ok snake camel screaming spkg tname topic_name rl virt l (link_msgs spkg ms) (link_s spkg ds).
Proof.
  intros Hg (Hn & Ht & HF & HM). unfold topic_service_linked_ok, link_s. cbn [ds_name ds_topic ds_methods].
  split; [exact Hn|]. split; [exact Ht|]. split.
  - eapply forall2_map_r_in; [exact HF|]. intros t dm Hin (A1 & A2 & A3 & A4).
    unfold topic_method_linked_ok, link_m. cbn [me_name me_in me_out me_http].
    split; [exact A1|]. split; [rewrite A2; apply linked_tn_good; apply good_suffix; [apply Hg; exact Hin|reflexivity]|].
    split; [rewrite A3; reflexivity|exact A4].
  - unfold link_msgs. eapply forall2_map_r_in; [exact HM|]. intros t m _ Hv.
    eapply virtual_ok_shape; [apply link_msg_shape|exact Hv].
Qed.

Lemma topic_linked spkg tp ms ss :
  wf_topic snake camel ev tp = true -> top_pre snake camel screaming ev tp ms ss ->
  topic_linked_ok snake camel screaming spkg tp (link_msgs spkg ms) (map (link_s spkg) ss).
Proof.
  intros Hw [is E]. pose proof (cv_topic_ok snake camel screaming _ _ _ _ _ E) as Hok.
  destruct tp as [name msgs|name req reply|name entity msg|name entity msg]; cbn [wf_topic topic_linked_ok] in *.
  - destruct Hok as (ds & -> & Hok). exists (link_s spkg ds). split; [reflexivity|].
    apply andb_true_iff in Hw. destruct Hw as [Hn Hw]. apply type_ident_facts in Hn.
    apply topic_service_linked; [|exact Hok]. eapply tmsgs_good; eassumption.
  - destruct Hok as (ds1 & ds2 & ms1 & ms2 & -> & -> & Hok1 & Hok2).
    apply andb_true_iff in Hw. destruct Hw as [Hw Hr]. apply andb_true_iff in Hw. destruct Hw as [Hn Hq].
    apply type_ident_facts in Hn.
    exists (link_s spkg ds1), (link_s spkg ds2), (link_msgs spkg ms1), (link_msgs spkg ms2).
    split; [reflexivity|]. split; [unfold link_msgs; apply map_app|]. split.
    + apply topic_service_linked; [|exact Hok1]. eapply tmsgs_good; [apply good_suffix; [exact Hn|reflexivity]|exact Hq].
    + apply topic_service_linked; [|exact Hok2]. eapply tmsgs_good; [apply good_suffix; [exact Hn|reflexivity]|exact Hr].
  - destruct Hok as (ds & -> & Hok). exists (link_s spkg ds). split; [reflexivity|].
    apply andb_true_iff in Hw. destruct Hw as [Hn Hw]. apply type_ident_facts in Hn.
    apply topic_service_linked; [|exact Hok]. intros t [<-|[]]. unfold tmsg_name, default_tm_name.
    unfold wf_tmsg in Hw. apply andb_true_iff in Hw. destruct Hw as [_ Hw].
    destruct (tm_name msg) as [n|] eqn:En; cbn [tm_name]; [rewrite En; apply type_ident_facts; exact Hw|exact Hn].
  - destruct Hok as (ds & -> & Hok). exists (link_s spkg ds). split; [reflexivity|].
    apply andb_true_iff in Hw. destruct Hw as [Hn Hw]. apply type_ident_facts in Hn.
    apply topic_service_linked; [|exact Hok]. eapply (tmsgs_good snake camel ev true PNil); [exact Hn|]. cbn [forallb]. rewrite Hw. reflexivity.
Qed.

End Linked.

(* ------------------------------------------------------------------ files and packages *)
Section Files.
Variables snake camel screaming : str -> str.

Lemma in_elem_services sv els : In sv (flat_map elem_services els) -> In (EService sv) els.
Proof.
  intros H. apply in_flat_map in H. destruct H as (e & He & Hin). destruct e; cbn in Hin; try contradiction.
  destruct Hin as [<-|[]]. exact He.
Qed.
Lemma in_elem_topics tp els : In tp (flat_map elem_topics els) -> In (ETopic tp) els.
Proof.
  intros H. apply in_flat_map in H. destruct H as (e & He & Hin). destruct e; cbn in Hin; try contradiction.
  destruct Hin as [<-|[]]. exact He.
Qed.

Lemma nonempty_ne {A} (l : list A) : l <> [] -> nonempty l = true.
Proof. destruct l; [contradiction|reflexivity]. Qed.
Lemma nonempty_true {A} (l : list A) : nonempty l = true -> l <> [].
Proof. destruct l; [discriminate|discriminate]. Qed.

(* one source file: its .service / .topic files after the link step, and nothing but main,
   service and topic file *)
Lemma cv_file_subs bd f D :
  valid_file snake camel bd f = true ->
  cv_file snake camel screaming (pkg_exports camel bd) f = Ok D ->
  (file_services f <> [] ->
     exists df, In df D /\ forall df', link_file df = Ok df' -> service_file_ok snake camel screaming f df') /\
  (file_topics f <> [] ->
     exists df, In df D /\ forall df', link_file df = Ok df' -> topic_file_ok snake camel screaming f df') /\
  (forall df, In df D -> output_of f df).
Proof.
  unfold valid_file, cv_file. intros Hv H. apply andb_true_iff in Hv. destruct Hv as [_ Hv].
  destruct (import_map (jf_imports f) []) as [im| | |]; try discriminate. cbn [obind] in H.
  apply obind_ok in H. destruct H as ([[m s] t] & E & H). inversion H. subst D. clear H.
  set (ev := mkEnv (j5s_pkg f) im (pkg_exports camel bd)) in *.
  destruct (cv_elements_linkable snake camel screaming _ _ _ facc_nil facc_nil facc_nil _ _ _ Hv (linkable_nil) (linkable_nil) eq_refl E) as (Ls & Lt & Hm).
  destruct (cv_elements_parts snake camel screaming ev _ _ _ _ _ _ _ _ E)
    as [(mss & dss & S1 & S2 & S3 & S4 & S5) (tmss & tdsss & T1 & T2 & T3 & T4 & T5)].
  cbn [facc_nil fa_msgs fa_svcs fa_enums fa_used app orb] in S1, S2, S3, S5, T1, T2, T3, T5.
  rewrite forallb_forall in Hv.
  split; [|split].
  - intros Hne. assert (Hu : fa_used s = true) by (rewrite S5; apply nonempty_ne; exact Hne).
    exists (mk_file (sub_proto_path f (b "service")) (sub_pkg (j5s_pkg f) (b "service")) s).
    split; [right; apply in_or_app; left; rewrite Hu; left; reflexivity|].
    intros df' Hl. destruct (link_file_val _ _ _ _ Ls Hl) as (P1 & P2 & P3 & P4 & P5).
    unfold service_file_ok. split; [exact P1|]. split; [exact P2|]. split; [exact P3|].
    exists (map (link_msgs (sub_pkg (j5s_pkg f) (b "service"))) mss).
    split; [rewrite P4, S1; apply link_msgs_concat|]. rewrite P5, S2.
    eapply zip3_map; [exact S4|]. intros sv ms ds Hin Hpre.
    apply (service_linked snake camel screaming ev); [|exact Hpre].
    apply in_elem_services in Hin. exact (Hv _ Hin).
  - intros Hne. assert (Hu : fa_used t = true) by (rewrite T5; apply nonempty_ne; exact Hne).
    exists (mk_file (sub_proto_path f (b "topic")) (sub_pkg (j5s_pkg f) (b "topic")) t).
    split; [right; apply in_or_app; right; rewrite Hu; left; reflexivity|].
    intros df' Hl. destruct (link_file_val _ _ _ _ Lt Hl) as (P1 & P2 & P3 & P4 & P5).
    unfold topic_file_ok. split; [exact P1|]. split; [exact P2|]. split; [exact P3|].
    exists (map (link_msgs (sub_pkg (j5s_pkg f) (b "topic"))) tmss), (map (map (link_s (sub_pkg (j5s_pkg f) (b "topic")))) tdsss).
    split; [rewrite P4, T1; apply link_msgs_concat|]. split; [rewrite P5, T2; apply concat_map|].
    eapply zip3_map; [exact T4|]. intros tp ms ss Hin Hpre.
    apply (topic_linked snake camel screaming ev); [|exact Hpre].
    apply in_elem_topics in Hin. exact (Hv _ Hin).
  - intros df [<-|Hin]; [left; reflexivity|]. apply in_app_or in Hin. destruct Hin as [Hin|Hin].
    + destruct (fa_used s) eqn:Eu; [|destruct Hin]. destruct Hin as [<-|[]]. right. left.
      split; [reflexivity|]. apply nonempty_true. unfold file_services. rewrite <- S5. reflexivity.
    + destruct (fa_used t) eqn:Eu; [|destruct Hin]. destruct Hin as [<-|[]]. right. right.
      split; [reflexivity|]. apply nonempty_true. unfold file_topics. rewrite <- T5. reflexivity.
Qed.

Lemma cv_files_split exports fs : forall D,
  cv_files snake camel screaming exports fs = Ok D ->
  (forall f, In (BJ f) fs -> exists Df, cv_file snake camel screaming exports f = Ok Df /\ incl Df D) /\
  (forall df, In df D -> exists f Df, In (BJ f) fs /\ cv_file snake camel screaming exports f = Ok Df /\ In df Df).
Proof.
  induction fs as [|x r IH]; intros D H; cbn [J5sConvert.cv_files] in H.
  - inversion H. subst. split; [intros f []|intros df []].
  - destruct x as [j|p].
    + destruct (file_lists_ok j) eqn:Elists; [|discriminate]. apply obind_ok in H. destruct H as (a & Ea & H). apply obind_ok in H. destruct H as (c & Ec & H).
      inversion H. subst D. clear H. destruct (IH _ Ec) as [I1 I2]. split.
      * intros f [Heq|Hin].
        -- inversion Heq. subst j. exists a. split; [exact Ea|apply incl_appl; apply incl_refl].
        -- destruct (I1 f Hin) as (Df & Hc & Hi). exists Df. split; [exact Hc|apply incl_appr; exact Hi].
      * intros df Hin. apply in_app_or in Hin. destruct Hin as [Hin|Hin].
        -- exists j, a. split; [left; reflexivity|]. split; assumption.
        -- destruct (I2 df Hin) as (f & Df & Hf & Hc & Hd). exists f, Df. split; [right; exact Hf|]. split; assumption.
    + destruct (IH _ H) as [I1 I2]. split.
      * intros f [Heq|Hin]; [discriminate|]. apply I1. exact Hin.
      * intros df Hin. destruct (I2 df Hin) as (f & Df & Hf & Hc & Hd). exists f, Df. split; [right; exact Hf|]. split; assumption.
Qed.

Lemma link_file_path df df' : link_file df = Ok df' -> fl_path df' = fl_path df.
Proof. unfold link_file. intros H. apply obind_ok in H. destruct H as (ss & _ & H). inversion H. reflexivity. Qed.

(* C02 for whole packages, sub-package files and exactness of the file set included *)
Theorem compile_correct_full bd pkg :
  valid_bundle snake camel screaming bd = true -> (exists f, In f bd /\ bfile_pkg f = pkg) ->
  exists D, compile_package snake camel screaming bd pkg = Ok D /\
            package_contract_full snake camel screaming bd pkg D.
Proof.
  intros Hv Hex. destruct (compile_correct snake camel screaming bd pkg Hv Hex) as (D & HD & Hmain).
  exists D. split; [exact HD|].
  destruct (compile_package_inv snake camel screaming _ _ _ HD) as (fs & Efs & _ & El & _).
  unfold convert_package in Efs. destruct (pkg_files bd pkg) as [|x0 r0] eqn:Epf; [discriminate|].
  rewrite <- Epf in Efs. destruct (cv_files_split _ _ _ Efs) as [I1 I2].
  split.
  - intros f Hin Hp. split; [apply Hmain; assumption|].
    pose proof (in_pkg_files _ _ _ Hin Hp) as Hpf. destruct (I1 f Hpf) as (Df & Hc & Hi).
    destruct (cv_file_subs bd f Df (valid_files snake camel screaming bd Hv f Hin) Hc) as (Hs & Ht & _).
    split.
    + intros Hne. destruct (Hs Hne) as (df & Hd & Hl).
      destruct (link_files_of _ _ _ El (Hi _ Hd)) as (df' & Hd' & Hl'). exists df'. split; [exact Hd'|apply Hl; exact Hl'].
    + intros Hne. destruct (Ht Hne) as (df & Hd & Hl).
      destruct (link_files_of _ _ _ El (Hi _ Hd)) as (df' & Hd' & Hl'). exists df'. split; [exact Hd'|apply Hl; exact Hl'].
  - intros df' Hd'. destruct (link_files_in _ _ _ El Hd') as (df & Hd & Hl).
    destruct (I2 df Hd) as (f & Df & Hf & Hc & Hin).
    assert (Hb : In (BJ f) bd /\ j5s_pkg f = pkg).
    { unfold pkg_files in Hf. apply in_sort_by in Hf. apply filter_In in Hf. destruct Hf as [Hb Hp]. split; [exact Hb|].
      cbn in Hp. apply str_eqb_eq in Hp. exact Hp. }
    destruct Hb as [Hb Hp]. exists f. split; [exact Hb|]. split; [exact Hp|].
    destruct (cv_file_subs bd f Df (valid_files snake camel screaming bd Hv f Hb) Hc) as (_ & _ & Ho).
    specialize (Ho df Hin). unfold output_of in *. rewrite (link_file_path _ _ Hl). exact Ho.
Qed.

End Files.

(* ProtoPrintFileTextProofs.v — C05 over the TEXT, up to comments: every text that is a layout
   (model/ProtoLayout.v) of the comment-free tokens the printer model writes for a well-formed descriptor D
   is read by the lexer model (model/ProtoLex.v) and the parser model back as canon_file D without its
   comments — a descriptor equivalent to D up to comments. *)
From Coq Require Import String List Arith NArith ZArith Bool Lia Permutation.
From J5V.lib Require Import Outcome Corr.
From J5V.model Require Import ProtoPrintLit ProtoPrint ProtoLex ProtoLayout ProtoPrintFile ProtoParseFile ProtoPrintFileErase.
From J5V.proofs Require Import ProtoPrintLitProofs ProtoPrintProofs ProtoLexProofs ProtoPrintFileSyntaxProofs ProtoPrintFileSortProofs
  ProtoPrintFileSemProofs ProtoPrintFileFullProofs.
Import ListNotations.
Local Open Scope N_scope.
Local Open Scope bool_scope.

Lemma erase_selem_msg c n o body : erase_selem (SMsg c n o body) = SMsg no_cmt n o (map erase_selem body).
Proof. reflexivity. Qed.

Lemma erase_delem_msg k c n o body : erase_delem (DMsg k c n o body) = DMsg k no_cmt n o (map erase_delem body).
Proof. reflexivity. Qed.

Lemma wf_elem_msg c n o body : wf_elem (SMsg c n o body) <-> Forall wf_sopt o /\ wf_elems body.
Proof.
  cbn [wf_elem]. assert (H : forall l, (fix go (l : list selem) : Prop := match l with [] => True | x :: r => wf_elem x /\ go r end) l <-> wf_elems l).
  { induction l as [|x r IH]; [reflexivity|]. cbn [wf_elems]. rewrite IH. reflexivity. }
  rewrite H. reflexivity.
Qed.

Lemma depth_msg c n o body : depth (SMsg c n o body) = S (depths body).
Proof. reflexivity. Qed.

(* ---------- well-formedness does not look at comments ------------------------------------------------ *)
Lemma Forall_map_same {A} (P : A -> Prop) (f : A -> A) l : (forall a, P a -> P (f a)) -> Forall P l -> Forall P (map f l).
Proof. intros Hf H. induction H as [|a r Ha _ IH]; [constructor|]. cbn [map]. constructor; [exact (Hf a Ha)|exact IH]. Qed.

Lemma wf_elem_erase : forall n e, (depth e <= n)%nat -> wf_elem e -> wf_elem (erase_selem e).
Proof.
  induction n as [|n IH]; intros e Hn Hw; [pose proof (depth_pos e); lia|].
  destruct e as [f|c nm o fs|c nm o body|c nm o vs|c nm o ms].
  - exact Hw.
  - destruct Hw as [Ho Hf]. split; [exact Ho|]. apply Forall_map_same; [intros a Ha; exact Ha|exact Hf].
  - rewrite erase_selem_msg. apply wf_elem_msg in Hw as [Ho Hb]. apply wf_elem_msg. split; [exact Ho|].
    rewrite depth_msg in Hn. assert (Hd : (depths body <= n)%nat) by lia. clear Hn.
    induction body as [|x r IHr]; [exact I|]. cbn [depths] in Hd. destruct Hb as [Hx Hr]. cbn [map wf_elems].
    split; [apply IH; [lia|exact Hx]|apply IHr; [exact Hr|lia]].
  - destruct Hw as [Ho Hv]. split; [exact Ho|]. apply Forall_map_same; [intros a Ha; exact Ha|exact Hv].
  - destruct Hw as [Ho Hm]. split; [exact Ho|]. apply Forall_map_same; [intros a Ha; exact Ha|exact Hm].
Qed.

Lemma wf_elems_erase l : wf_elems l -> wf_elems (map erase_selem l).
Proof.
  induction l as [|x r IH]; intro H; [exact I|]. destruct H as [Hx Hr]. cbn [map wf_elems].
  split; [apply (wf_elem_erase (depth x)); [lia|exact Hx]|exact (IH Hr)].
Qed.

Lemma is_top_erase e : is_top e -> is_top (erase_selem e).
Proof. destruct e; cbn; auto. Qed.

Theorem wf_file_erase s : wf_file s -> wf_file (erase_sfile s).
Proof.
  intros (Hp & Hfo & Hx & Hb & Ht). unfold wf_file, erase_sfile. cbn [s_pkg s_fopts s_exts s_body].
  split; [exact Hp|]. split; [exact Hfo|]. split; [|split].
  - rewrite Forall_forall in Hx |- *. intros b Hb'. apply in_map_iff in Hb' as (a & <- & Ha). destruct (Hx a Ha) as [H1 H2].
    split; [exact H1|]. cbn [erase_sext sx_fields]. apply Forall_map_same; [intros f Hf; exact Hf|exact H2].
  - exact (wf_elems_erase _ Hb).
  - rewrite Forall_forall in Ht |- *. intros e He. apply in_map_iff in He as (a & <- & Ha). apply is_top_erase. exact (Ht a Ha).
Qed.

(* ---------- the declared types do not look at comments ---------------------------------------------------- *)
Lemma selem_types_erase : forall n e prefix, (depth e <= n)%nat -> selem_types prefix (erase_selem e) = selem_types prefix e.
Proof.
  induction n as [|n IH]; intros e prefix Hn; [pose proof (depth_pos e); lia|].
  destruct e as [f|c nm o fs|c nm o body|c nm o vs|c nm o ms]; try reflexivity.
  rewrite erase_selem_msg, !selem_types_msg. f_equal. rewrite depth_msg in Hn.
  assert (Hd : (depths body <= n)%nat) by lia. clear Hn.
  induction body as [|x r IHr]; [reflexivity|]. cbn [depths] in Hd. cbn [map selems_types].
  rewrite IH by lia. rewrite IHr by lia. reflexivity.
Qed.

Lemma selems_types_erase prefix l : selems_types prefix (map erase_selem l) = selems_types prefix l.
Proof.
  induction l as [|x r IH]; [reflexivity|]. cbn [map selems_types]. rewrite (selem_types_erase (depth x)) by lia. rewrite IH. reflexivity.
Qed.

Lemma sfile_symtab_erase imp s : sfile_symtab imp (erase_sfile s) = sfile_symtab imp s.
Proof. unfold sfile_symtab, erase_sfile. cbn [s_pkg s_body]. rewrite selems_types_erase. reflexivity. Qed.

(* ---------- the interpretation copies comments ------------------------------------------------------------- *)
Lemma interp_field_erase x pkg ctx i f :
  interp_field x pkg ctx i (erase_sfield f) = option_map erase_dfield (interp_field x pkg ctx i f).
Proof.
  unfold interp_field, erase_sfield. cbn [sf_name sf_type sf_opts sf_cm sf_label sf_num].
  destruct (interp_type x pkg ctx (sf_name f) (sf_type f)); [|reflexivity].
  destruct (field_json (sf_name f) (sf_opts f)); [|reflexivity].
  destruct (interp_opts 1 (filter (fun o => negb (is_json_opt o)) (sf_opts f))); reflexivity.
Qed.

Lemma interp_fields_erase x pkg ctx : forall l i,
  interp_fields x pkg ctx i (map erase_sfield l) = option_map (map erase_dfield) (interp_fields x pkg ctx i l).
Proof.
  induction l as [|f r IH]; intro i; [reflexivity|]. cbn [map interp_fields]. rewrite interp_field_erase, IH.
  destruct (interp_field x pkg ctx i f); [|reflexivity]. destruct (interp_fields x pkg ctx (i + 1) r); reflexivity.
Qed.

Lemma interp_values_erase : forall l i,
  interp_values i (map erase_svalue l) = option_map (map erase_dvalue) (interp_values i l).
Proof.
  induction l as [|v r IH]; intro i; [reflexivity|]. cbn [map interp_values]. rewrite IH.
  unfold interp_value, erase_svalue. cbn [sv_opts sv_cm sv_name sv_num].
  destruct (interp_opts 1 (sv_opts v)); [|reflexivity]. destruct (interp_values (i + 1) r); reflexivity.
Qed.

Lemma interp_methods_erase x pkg svc : forall l i,
  interp_methods x pkg svc i (map erase_smethod l) = option_map (map erase_dmethod) (interp_methods x pkg svc i l).
Proof.
  induction l as [|m r IH]; intro i; [reflexivity|]. cbn [map interp_methods]. rewrite IH.
  unfold interp_method, erase_smethod. cbn [sm_in sm_out sm_opts sm_cm sm_name].
  destruct (interp_ref x pkg [svc] (sm_in m)); [|reflexivity]. destruct (interp_ref x pkg [svc] (sm_out m)); [|reflexivity].
  destruct (interp_opts 1 (sm_opts m)); [|reflexivity]. destruct (interp_methods x pkg svc (i + 1) r); reflexivity.
Qed.

Lemma interp_elem_erase x pkg : forall n e ctx i, (depth e <= n)%nat ->
  interp_elem x pkg ctx i (erase_selem e) = option_map erase_delem (interp_elem x pkg ctx i e).
Proof.
  induction n as [|n IH]; intros e ctx i Hn; [pose proof (depth_pos e); lia|].
  destruct e as [f|c nm o fs|c nm o body|c nm o vs|c nm o ms].
  - cbn [erase_selem interp_elem]. rewrite interp_field_erase. destruct (interp_field x pkg ctx i f); reflexivity.
  - cbn [erase_selem interp_elem]. rewrite interp_fields_erase.
    destruct (interp_opts 1 o); [|reflexivity]. destruct (interp_fields x pkg ctx 1 fs); reflexivity.
  - rewrite erase_selem_msg, !interp_elem_msg. rewrite depth_msg in Hn.
    assert (Hb : forall j, interp_elems x pkg (ctx ++ [nm]) j (map erase_selem body)
                           = option_map (map erase_delem) (interp_elems x pkg (ctx ++ [nm]) j body)).
    { assert (Hd : (depths body <= n)%nat) by lia. clear Hn.
      induction body as [|y r IHr]; intro j; [reflexivity|]. cbn [depths] in Hd. cbn [map interp_elems].
      rewrite IH by lia. rewrite IHr by lia.
      destruct (interp_elem x pkg (ctx ++ [nm]) j y); [|reflexivity]. destruct (interp_elems x pkg (ctx ++ [nm]) (j + 1) r); reflexivity. }
    rewrite Hb. destruct (interp_opts 1 o); [|reflexivity].
    destruct (interp_elems x pkg (ctx ++ [nm]) 1 body); [|reflexivity]. cbn [option_map]. rewrite erase_delem_msg. reflexivity.
  - cbn [erase_selem interp_elem]. rewrite interp_values_erase.
    destruct (interp_opts 1 o); [|reflexivity]. destruct (interp_values 1 vs); reflexivity.
  - cbn [erase_selem interp_elem]. rewrite interp_methods_erase.
    destruct (interp_opts 1 o); [|reflexivity]. destruct (interp_methods x pkg nm 1 ms); reflexivity.
Qed.

Lemma interp_elems_erase x pkg ctx : forall l i,
  interp_elems x pkg ctx i (map erase_selem l) = option_map (map erase_delem) (interp_elems x pkg ctx i l).
Proof.
  induction l as [|y r IH]; intro i; [reflexivity|]. cbn [map interp_elems]. rewrite (interp_elem_erase x pkg (depth y)) by lia.
  rewrite IH. destruct (interp_elem x pkg ctx i y); [|reflexivity]. destruct (interp_elems x pkg ctx (i + 1) r); reflexivity.
Qed.

Lemma interp_exts_erase x pkg : forall l,
  interp_exts x pkg (map erase_sext l)
  = option_map (map (fun xf : qname * dfield => (fst xf, erase_dfield (snd xf)))) (interp_exts x pkg l).
Proof.
  induction l as [|b r IH]; [reflexivity|]. cbn [map interp_exts]. rewrite IH. cbn [erase_sext sx_fields sx_extendee].
  rewrite interp_fields_erase. destruct (interp_fields x pkg [] 1 (sx_fields b)) as [fs|]; [|reflexivity].
  destruct (interp_exts x pkg r) as [rest|]; [|reflexivity]. cbn [option_map]. rewrite map_app, !map_map. reflexivity.
Qed.

Theorem interp_file_erase imp s : interp_file imp (erase_sfile s) = option_map erase_dfile (interp_file imp s).
Proof.
  unfold interp_file. rewrite sfile_symtab_erase. cbn [erase_sfile s_pkg s_exts s_body s_imports s_fopts].
  rewrite interp_exts_erase, interp_elems_erase.
  destruct (interp_exts (sfile_symtab imp s) (s_pkg s) (s_exts s)); [|reflexivity].
  destruct (interp_elems (sfile_symtab imp s) (s_pkg s) [] 1 (s_body s)); reflexivity.
Qed.

(* ---------- the text ---------------------------------------------------------------------------------------- *)
(* equivalent up to comments: the descriptor read back is an equivalent descriptor without its comments *)
Definition desc_equiv_nc (D D' : dfile) : Prop := exists D0, desc_equiv D D0 /\ D' = erase_dfile D0.

Definition read_text (imp : xsymtab) (text : list N) : option dfile :=
  match scan_text text with Some ts => parse_file_tokens imp ts | None => None end.

Theorem text_roundtrip imp D text : wf_dfile imp D ->
  is_layout (print_file_tokens_nc (to_symtab (dfile_symtab imp D)) D) text = true ->
  read_text imp text = Some (erase_dfile (canon_file D)).
Proof.
  intros Hw Hl. unfold read_text. rewrite (scan_layout _ _ Hl). unfold print_file_tokens_nc, parse_file_tokens.
  rewrite (parse_file_emit _ (wf_file_erase _ (lay_file_wf imp D Hw))).
  rewrite interp_file_erase, (interp_lay_file imp D Hw). reflexivity.
Qed.

Theorem text_roundtrip_equiv imp D text : wf_dfile imp D ->
  is_layout (print_file_tokens_nc (to_symtab (dfile_symtab imp D)) D) text = true ->
  exists D', read_text imp text = Some D' /\ desc_equiv_nc D D'.
Proof.
  intros Hw Hl. exists (erase_dfile (canon_file D)). split; [exact (text_roundtrip imp D text Hw Hl)|].
  exists (canon_file D). split; [apply canon_file_equiv|reflexivity].
Qed.

(* there is such a text whenever the printed tokens are lexable: one space after every token *)
Theorem text_exists imp D :
  forallb tok_ok (print_file_tokens_nc (to_symtab (dfile_symtab imp D)) D) = true ->
  is_layout (print_file_tokens_nc (to_symtab (dfile_symtab imp D)) D)
            (spaced (print_file_tokens_nc (to_symtab (dfile_symtab imp D)) D)) = true.
Proof. apply spaced_is_layout. Qed.

(* BclFmtSeqProofs.v — sequence level of C09: the text the formatter writes for
   a line is a sequence of rendered tokens and single spaces in which no two
   adjacent tokens can fuse; lexing it gives back exactly those tokens. *)
From Coq Require Import String List NArith ZArith Bool Lia ZifyN ZifyNat ZifyBool.
From J5V.lib Require Import Text Outcome.
From J5V.model Require Import BclLexer BclParser BclFmt.
From J5V.proofs Require Import BclPosProofs BclLexerProofs BclLexerCoverProofs BclFmtLitProofs BclLexLitProofs.
Import ListNotations.
Local Open Scope N_scope.
Arguments Nat.sub : simpl never.

(* a position-free token *)
Definition ptok : Type := (ttype * list N)%type.
Definition etok (t : token) : ptok := (ty t, lit t).

(* what a line is made of *)
Inductive sitem := Tok (typ : ttype) (l : list N) | Sp.
Definition render_item (i : sitem) : list N :=
  match i with Tok typ l => token_source (mkTok typ l pos0 pos0) | Sp => [32] end.
Definition render_items (is : list sitem) : list N := flat_map render_item is.
Fixpoint item_toks (is : list sitem) : list ptok :=
  match is with [] => [] | Tok typ l :: r => (typ, l) :: item_toks r | Sp :: r => item_toks r end.

(* every token has a literal of its kind and cannot be extended by what follows it *)
Fixpoint items_ok (is : list sitem) (tail : list N) : Prop :=
  match is with
  | [] => True
  | Tok typ l :: r => lit_ok typ l /\ sep_ok typ (render_items r ++ tail) /\ items_ok r tail
  | Sp :: r => items_ok r tail
  end.

(* successive NextToken calls *)
Inductive lex_run : lstate -> list ptok -> lstate -> Prop :=
| lex_nil s : lex_run s [] s
| lex_cons s t s1 ts s' : next_token s = (LTok t, s1) -> lex_run s1 ts s' -> lex_run s (etok t :: ts) s'.

(* a skipped white-space rune in front changes nothing *)
Lemma is_space_not_special c : is_space c = true -> c <> 10 ->
  op_of c = None /\ c <> 47 /\ c <> 34 /\ c <> 124.
Proof.
  intros Hs Hn. split.
  - unfold op_of, model_operators. cbn [assoc_N].
    repeat (match goal with |- context [N.eqb ?k c] => destruct (N.eqb k c) eqn:? end;
            [match goal with H : N.eqb _ c = true |- _ => apply N.eqb_eq in H; subst c end; revert Hs; vm_compute; discriminate|]).
    reflexivity.
  - repeat split; intros ->; revert Hs; vm_compute; discriminate.
Qed.

Lemma next_token_skip s c r : rest s = c :: r -> is_space c = true -> c <> 10 ->
  next_token s = next_token (next s).
Proof.
  intros Hr Hs Hn. unfold next_token at 1. rewrite Hr. cbn [length next_token_fuel].
  destruct (next_cons s _ _ Hr) as [Hc Ht]. rewrite Hc.
  destruct (is_space_not_special c Hs Hn) as (Hop & H47 & H34 & H124). rewrite Hop.
  replace (N.eqb c 47) with false by lia. replace (N.eqb c 34) with false by lia.
  replace (N.eqb c 124) with false by lia. replace (N.eqb c 10) with false by lia. rewrite Hs.
  unfold next_token. rewrite Ht. reflexivity.
Qed.

Lemma lex_run_skip s c r ts s' : rest s = c :: r -> is_space c = true -> c <> 10 -> ts <> [] ->
  lex_run (next s) ts s' -> lex_run s ts s'.
Proof.
  intros Hr Hs Hn Hne H. inversion H as [|s0 t s1 ts0 s0' E Hrun]; subst; [congruence|].
  econstructor; [|exact Hrun]. rewrite (next_token_skip s c r Hr Hs Hn). exact E.
Qed.

Lemma lex_run_app s a s1 b s2 : lex_run s a s1 -> lex_run s1 b s2 -> lex_run s (a ++ b) s2.
Proof. induction 1; intros H2; [exact H2|]. cbn. econstructor; eauto. Qed.

(* the sequence theorem; the line must not end in a space item *)
Fixpoint ends_with_tok (is : list sitem) : Prop :=
  match is with
  | [] => True
  | [Sp] => False
  | _ :: r => ends_with_tok r
  end.

Lemma item_toks_nil_sp is : ends_with_tok is -> item_toks is = [] -> is = [].
Proof.
  induction is as [|i r IH]; [reflexivity|]. destruct i; cbn [item_toks]; [discriminate|].
  intros He Ht. destruct r as [|j r']; [contradiction|]. specialize (IH He Ht). discriminate.
Qed.

Theorem items_relex : forall is tail s, items_ok is tail -> ends_with_tok is ->
  rest s = render_items is ++ tail ->
  exists s', lex_run s (item_toks is) s' /\ rest s' = tail.
Proof.
  induction is as [|i r IH]; intros tail s Hok He Hr.
  - exists s. split; [constructor|exact Hr].
  - destruct i as [typ l|].
    + cbn [items_ok] in Hok. destruct Hok as (Hl & Hs & Hok).
      change (render_items (Tok typ l :: r)) with (token_source (mkTok typ l pos0 pos0) ++ render_items r) in Hr.
      rewrite <- app_assoc in Hr.
      destruct (relex_token typ l (render_items r ++ tail) s Hl Hs Hr) as (st & en & s1 & E & Hs1).
      assert (Her : ends_with_tok r) by (destruct r as [|j r']; [exact I|exact He]).
      destruct (IH tail s1 Hok Her Hs1) as (s' & Hrun & Hs').
      exists s'. split; [|exact Hs']. cbn [item_toks].
      change (typ, l) with (etok (mkTok typ l st en)). econstructor; eauto.
    + cbn [items_ok] in Hok. change (render_items (Sp :: r)) with (32 :: render_items r) in Hr. cbn [app] in Hr.
      assert (Her : ends_with_tok r) by (destruct r as [|j r']; [contradiction|exact He]).
      destruct (next_cons s _ _ Hr) as [_ Hn].
      destruct (IH tail (next s) Hok Her Hn) as (s' & Hrun & Hs').
      exists s'. split; [|exact Hs']. cbn [item_toks].
      destruct (item_toks r) as [|p ps] eqn:Et.
      * rewrite (item_toks_nil_sp r Her Et) in He. contradiction.
      * apply (lex_run_skip s 32 (render_items r ++ tail)); [exact Hr|vm_compute; reflexivity|lia|discriminate|exact Hrun].
Qed.

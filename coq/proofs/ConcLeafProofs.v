(* ConcLeafProofs.v — where the read that /repo 32db692 added to buildEnumFieldSchema sits in the
   machine of Conc.v, and why it adds no behaviour there (conc3).

   Go:   ref, didExist := newRefPlaceholder(...)          // refTo: hooks refto.lookup (, refto.insert)
         if !didExist { built := buildEnum; ref.To = built; hook ref.linked }
         else if _, ok := ref.To.( *EnumSchema ); !ok { return error }      // the new read + type check

   Machine: the `else` branch is the HIT branch of the [PRefLookup] step (lookup (cmap sh) m = Some c)
   for a name m without references (an enum is a node without references); no hook point stands
   between refto.lookup and the read, so the read belongs to that very step.  Under [Guarded] the
   step is taken by the lock holder: inside the critical section.

   Proved here, for BOTH disciplines, all universes, call lists and schedules: at every point of
   every run, a name without references that is bound in the map is bound to a LINKED cell named
   after it (a node without references is registered and linked within one step: alloc, then
   advance on a frame with nothing to do).  So the read finds To != nil in every state of the
   machine: it never takes a new branch there.  What the type assertion then distinguishes (an
   *EnumSchema from an object/oneof schema registered under the same flattened name) is a name
   collision inside the universe, which the machine does not model (its universes have one node per
   name; see `assumptions` in pylib/propcfg/C10.py).

   Limit, as everywhere in this model: one step = the code between two hook points.  In the
   lock-free code the insert of the enum's placeholder and `ref.To = built` are two statements of
   one hook-free region; another goroutine can see the gap there (and since 32db692 gets this
   error instead of a later nil dereference) — no forced schedule can exhibit that, the race
   detector rounds do.  Under the lock the gap is invisible to everybody else. *)
From Coq Require Import List NArith Bool Arith Lia.
From J5V.model Require Import Conc.
From J5V.proofs Require Import ConcInvProofs.
Import ListNotations.

Section Leaf.
Variable g : graph.

(* every cell named after a node without references is linked; every binding of the map leads to
   a cell of that name *)
Definition leaf_linked (sh : shared) : Prop :=
  forall c cl, nth_error (heap sh) c = Some cl -> refs g (c_name cl) = [] -> c_to cl <> None.

Definition named (sh : shared) : Prop :=
  forall n c, lookup (cmap sh) n = Some c -> exists cl, nth_error (heap sh) c = Some cl /\ c_name cl = n.

Definition linv (sh : shared) : Prop := leaf_linked sh /\ named sh.

Lemma linv_empty : linv empty_shared.
Proof.
  split.
  - intros c cl H. destruct c; discriminate H.
  - intros n c H. discriminate H.
Qed.

Lemma linv_same sh sh' : heap sh' = heap sh -> cmap sh' = cmap sh -> linv sh -> linv sh'.
Proof.
  intros Hh Hm [L N]. split.
  - intros c cl. rewrite Hh. apply L.
  - intros n c. rewrite Hm, Hh. apply N.
Qed.

Lemma linv_set_to sh c fs : linv sh -> linv (set_to sh c fs).
Proof.
  intros [L N]. unfold set_to. destruct (nth_error (heap sh) c) as [cl0|] eqn:E; [|split; assumption].
  assert (Hlt : c < length (heap sh)) by (apply nth_error_Some; congruence).
  split.
  - intros i cl. cbn [heap]. destruct (Nat.eq_dec c i) as [<-|Hne].
    + rewrite nth_error_set_nth_eq by exact Hlt. intros [= <-] _. cbn. discriminate.
    + rewrite nth_error_set_nth_neq by exact Hne. apply L.
  - intros n i Hb. cbn [cmap heap] in *. destruct (N _ _ Hb) as (cl & Hc & Hn).
    destruct (Nat.eq_dec c i) as [<-|Hne].
    + exists (mkCell (c_name cl0) (Some fs)). split; [apply nth_error_set_nth_eq; exact Hlt|].
      cbn. congruence.
    + exists cl. split; [rewrite nth_error_set_nth_neq by exact Hne; exact Hc | exact Hn].
Qed.

Lemma linv_fail_to sh c : linv sh -> linv (fail_to sh c).
Proof. apply linv_same; reflexivity. Qed.

Lemma linv_reset_reg sh : linv sh -> linv (reset_reg sh).
Proof. apply linv_same; reflexivity. Qed.

Lemma lookup_remove_key m k n c : lookup (remove_key m k) n = Some c -> lookup m n = Some c.
Proof.
  unfold remove_key. induction m as [|[k' c'] r IH]; cbn; [discriminate|].
  destruct (N.eqb k' k) eqn:Ek; cbn.
  - intros H. specialize (IH H). destruct (N.eqb k' n) eqn:En; [|exact IH].
    (* k' = k = n would have been filtered out of r as well: the filtered map has no binding of n *)
    exfalso. apply N.eqb_eq in Ek, En. subst k' n.
    clear IH. induction r as [|[k2 c2] r IH2]; cbn in H; [discriminate|].
    destruct (N.eqb k2 k) eqn:E2; cbn in H; [exact (IH2 H)|].
    rewrite E2 in H. exact (IH2 H).
  - destruct (N.eqb k' n); [exact (fun H => H) | exact IH].
Qed.

Lemma lookup_fold_remove ks : forall m n c,
  lookup (fold_left remove_key ks m) n = Some c -> lookup m n = Some c.
Proof.
  induction ks as [|k ks IH]; cbn; intros m n c H; [exact H|].
  apply IH in H. eapply lookup_remove_key. exact H.
Qed.

Lemma linv_rollback sh : linv sh -> linv (rollback sh).
Proof.
  intros [L N]. split.
  - exact L.
  - intros n c H. cbn [rollback cmap heap] in *. apply lookup_fold_remove in H. exact (N _ _ H).
Qed.

Lemma linv_finish res sh : linv sh -> linv (finish_shared res sh).
Proof. destruct res; cbn [finish_shared]; auto using linv_rollback, linv_reset_reg. Qed.

(* the builder run up to its next hook point *)
Lemma linv_advance sh stk : linv sh -> linv (fst (advance sh stk)).
Proof.
  intros H. destruct stk as [|f rest]; cbn [advance]; [exact H|].
  destruct (f_todo f) as [|m todo].
  - destruct rest; cbn [fst]; apply linv_set_to; exact H.
  - destruct (N.eqb m unsupported); cbn [fst]; [apply linv_fail_to|]; exact H.
Qed.

(* registering a name and running its (new) frame up to the next hook point: a node without
   references is linked before the step ends *)
Lemma linv_alloc_advance sh n rest :
  linv sh ->
  linv (fst (advance (fst (alloc sh n)) (mkFrame (snd (alloc sh n)) (refs g n) [] :: rest))).
Proof.
  intros [L N]. unfold alloc. cbn [fst snd].
  set (c := length (heap sh)).
  set (sh1 := mkShared (heap sh ++ [mkCell n None]) ((n, c) :: cmap sh) (reg sh ++ [n]) (failed sh)).
  assert (Hnew : nth_error (heap sh1) c = Some (mkCell n None)) by (apply nth_error_snoc).
  assert (Hold : forall i cl, nth_error (heap sh1) i = Some cl -> i <> c -> nth_error (heap sh) i = Some cl).
  { intros i cl Hi Hne. cbn [sh1 heap] in Hi.
    assert (i < length (heap sh ++ [mkCell n None])) by (apply nth_error_Some; congruence).
    rewrite app_length in H. cbn in H. rewrite nth_error_app1 in Hi by (unfold c in Hne; lia). exact Hi. }
  assert (N1 : named sh1).
  { intros m i Hb. cbn [sh1 cmap lookup] in Hb. destruct (N.eqb n m) eqn:E.
    - injection Hb as <-. apply N.eqb_eq in E. exists (mkCell n None). split; [exact Hnew | exact E].
    - destruct (N _ _ Hb) as (cl & Hc & Hn). exists cl. split; [|exact Hn].
      cbn [sh1 heap]. apply nth_error_app_l. exact Hc. }
  cbn [advance f_todo f_cell f_done].
  destruct (refs g n) as [|m todo] eqn:Er.
  - (* a node without references: linked at once *)
    assert (J : linv (set_to sh1 c (rev []))).
    { unfold set_to. rewrite Hnew. cbn [c_name].
      assert (Hlt : c < length (heap sh1)) by (apply nth_error_Some; congruence).
      split.
      - intros i cl. cbn [heap]. destruct (Nat.eq_dec c i) as [<-|Hne].
        + rewrite nth_error_set_nth_eq by exact Hlt. intros [= <-] _. cbn. discriminate.
        + rewrite nth_error_set_nth_neq by exact Hne. intros Hi. apply L with (c := i).
          apply Hold; [exact Hi | congruence].
      - intros m i Hb. cbn [cmap heap] in *. destruct (N1 _ _ Hb) as (cl & Hc & Hn).
        destruct (Nat.eq_dec c i) as [<-|Hne].
        + exists (mkCell n (Some (rev []))). split; [apply nth_error_set_nth_eq; exact Hlt|].
          rewrite Hnew in Hc. injection Hc as <-. exact Hn.
        + exists cl. split; [rewrite nth_error_set_nth_neq by exact Hne; exact Hc | exact Hn]. }
    destruct rest; cbn [fst]; exact J.
  - (* it has references: the new cell is no leaf *)
    assert (J : linv sh1).
    { split; [|exact N1]. intros i cl Hi Hleaf. destruct (Nat.eq_dec i c) as [->|Hne].
      - rewrite Hnew in Hi. injection Hi as <-. cbn in Hleaf. congruence.
      - apply L with (c := i); [apply Hold; assumption | exact Hleaf]. }
    destruct (N.eqb m unsupported); cbn [fst]; [apply linv_fail_to|]; exact J.
Qed.

Lemma linv_lstep k n sh p : linv sh -> linv (fst (lstep k g n sh p)).
Proof.
  intros H. destruct p as [| | | |stk|stk|stk|c|stk|]; cbn [lstep]; try exact H.
  - (* PLookup *)
    destruct (lookup (cmap sh) n) as [c|]; [|exact H].
    destruct (cell_to sh c); exact H.
  - (* PInsert *)
    pose proof (linv_alloc_advance sh n [] H) as J. unfold alloc in *. cbn [fst snd] in J.
    destruct (advance _ _) as [sh2 p']. exact J.
  - (* PRefLookup *)
    destruct stk as [|f rest]; [exact H|].
    destruct (f_todo f) as [|m todo]; [exact H|].
    destruct (lookup (cmap sh) m) as [c|]; [|exact H].
    pose proof (linv_advance sh (mkFrame (f_cell f) todo (c :: f_done f) :: rest) H) as J.
    destruct (advance _ _) as [sh2 p']. exact J.
  - (* PRefInsert *)
    destruct stk as [|f rest]; [exact H|].
    destruct (f_todo f) as [|m todo]; [exact H|].
    pose proof (linv_alloc_advance sh m (mkFrame (f_cell f) todo (length (heap sh) :: f_done f) :: rest) H) as J.
    unfold alloc in *. cbn [fst snd] in J.
    destruct (advance _ _) as [sh2 p']. exact J.
  - (* PLinked *)
    pose proof (linv_advance sh stk H) as J. destruct (advance _ _) as [sh2 p']. exact J.
  - (* PFail *)
    destruct stk as [|f rest]; [exact H|]. cbn [fst]. apply linv_fail_to. exact H.
Qed.

Lemma linv_gstep d k t st : linv (s_sh st) -> linv (s_sh (gstep d k g t st)).
Proof.
  intros H. unfold gstep.
  destruct (nth_error (s_thr st) t) as [th|]; [|exact H].
  destruct (t_calls th) as [|n rest]; [exact H|].
  destruct (t_pc th) eqn:Ep;
    try (pose proof (linv_lstep k n (s_sh st) (t_pc th) H) as J; rewrite Ep in J;
         destruct (lstep _ _ _ _ _) as [sh' o]; cbn [fst] in J;
         destruct o as [p'|res]; [exact J|];
         destruct d; cbn [release s_sh]; apply linv_finish; exact J).
  - (* PEnter *)
    destruct d; [apply linv_reset_reg; exact H|].
    destruct (s_lock st); [exact H | apply linv_reset_reg; exact H].
  - (* PWait *)
    destruct d; [exact H|]. destruct (s_lock st); [exact H | apply linv_reset_reg; exact H].
Qed.

Lemma linv_run_from d k sched : forall st, linv (s_sh st) -> linv (s_sh (run_from d k g sched st)).
Proof.
  unfold run_from. induction sched as [|t r IH]; cbn; intros st H; [exact H|].
  apply IH. apply linv_gstep. exact H.
Qed.

(* the statement: whenever, at any point of any run under either discipline, a lookup of a name
   without references hits, the cell found is named after it and linked *)
Theorem leaf_hit_is_linked d k calls sched m c :
  refs g m = [] ->
  lookup (cmap (s_sh (run d k g calls sched))) m = Some c ->
  exists fs, cell_to (s_sh (run d k g calls sched)) c = Some fs.
Proof.
  intros Hleaf Hb.
  assert (J : linv (s_sh (run d k g calls sched))) by (apply linv_run_from; exact linv_empty).
  destruct J as [L N]. destruct (N _ _ Hb) as (cl & Hc & Hn).
  unfold cell_to. rewrite Hc. subst m. specialize (L _ _ Hc Hleaf).
  destruct (c_to cl) as [fs|]; [exists fs; reflexivity | congruence].
Qed.

End Leaf.

(* JsonLexProofs.v — the tokenizer model consumes input: every token takes at least one byte, so a
   document of n bytes has at most n tokens and [lex]'s fuel of n + 1 iterations is never exhausted. *)
From Coq Require Import List NArith Arith Bool Lia ZifyN ZifyNat ZifyBool.
From J5V.lib Require Import Json.
Import ListNotations.

Lemma skip_ws_le s : (length (skip_ws s) <= length s)%nat.
Proof. induction s as [|c r IH]; cbn; [lia|]. destruct (is_space c); cbn; lia. Qed.

Lemma take_digits_le s : forall d rest, take_digits s = (d, rest) -> (length rest + length d = length s)%nat.
Proof.
  induction s as [|c r IH]; intros d rest H; cbn in H.
  - inversion H; subst. reflexivity.
  - destruct (is_digit c).
    + destruct (take_digits r) as [d' rest'] eqn:E. inversion H; subst. specialize (IH d' rest eq_refl). cbn. lia.
    + inversion H; subst. cbn. lia.
Qed.

Lemma strip_prefix_len p : forall s r, strip_prefix p s = Some r -> (length r + length p = length s)%nat.
Proof.
  induction p as [|x p' IH]; intros s r H; cbn in H.
  - inversion H; subst. cbn. lia.
  - destruct s as [|y s']; [discriminate|]. destruct (x =? y)%N; [|discriminate].
    specialize (IH s' r H). cbn. lia.
Qed.

(* string literals: strong induction on the length; every branch of the scanner recurses on a proper
   suffix and the closing quote is consumed *)
Lemma scan_string_lt n : forall s, (length s <= n)%nat ->
  forall o rest, scan_string s = Some (o, rest) -> (length rest < length s)%nat.
Proof.
  induction n as [|n IH]; intros s Hn o rest H.
  - destruct s; [discriminate|cbn in Hn; lia].
  - destruct s as [|c r]; [discriminate|]. cbn [scan_string] in H. cbv beta zeta in H. cbn [length] in *.
    repeat match type of H with
           | context[if ?b then _ else _] => destruct b
           | context[match scan_string ?x with _ => _ end] =>
               let E := fresh "E" in destruct (scan_string x) as [[? ?]|] eqn:E;
               [apply IH in E; [|cbn [length] in *; lia] | ]
           | context[match hex4 ?a ?b ?c ?d with _ => _ end] => destruct (hex4 a b c d)
           | context[match ?x with [] => _ | _ :: _ => _ end] => destruct x
           | Some _ = Some _ => inversion H; subst; clear H
           | None = Some _ => discriminate
           end; try discriminate; cbn [length] in *; try lia.
Qed.

Lemma scan_number_lt s l rest : scan_number s = Some (l, rest) -> (length rest < length s)%nat.
Proof.
  unfold scan_number. intros H.
  destruct (match s with c :: r => if (c =? 45)%N then ([c], r) else ([], s) | [] => ([], s) end) as [sign s1] eqn:Es.
  assert (H1 : (length s1 <= length s)%nat).
  { destruct s as [|c r]; [inversion Es; subst; lia|]. destruct (c =? 45)%N; inversion Es; subst; cbn; lia. }
  destruct (scan_int s1) as [[i s2]|] eqn:Ei; [|discriminate].
  assert (H2 : (length s2 < length s1)%nat).
  { unfold scan_int in Ei. destruct s1 as [|c r]; [discriminate|].
    destruct (c =? 48)%N; [inversion Ei; subst; cbn; lia|].
    destruct (is_digit19 c); [|discriminate].
    destruct (take_digits r) as [d rest'] eqn:Et. inversion Ei; subst. apply take_digits_le in Et. cbn. lia. }
  destruct (scan_frac s2) as [[f s3]|] eqn:Ef; [|discriminate].
  assert (H3 : (length s3 <= length s2)%nat).
  { unfold scan_frac in Ef. destruct s2 as [|c r]; [inversion Ef; subst; lia|].
    destruct (c =? 46)%N; [|inversion Ef; subst; lia].
    destruct (take_digits r) as [d rest'] eqn:Et. destruct d; [discriminate|].
    inversion Ef; subst. apply take_digits_le in Et. cbn in *. lia. }
  destruct (scan_exp s3) as [[ex s4]|] eqn:Ee; [|discriminate].
  assert (H4 : (length s4 <= length s3)%nat).
  { unfold scan_exp in Ee. destruct s3 as [|c r]; [inversion Ee; subst; lia|].
    destruct ((c =? 101)%N || (c =? 69)%N); [|inversion Ee; subst; lia].
    destruct (match r with g :: r' => if (g =? 43)%N || (g =? 45)%N then ([g], r') else ([], r) | [] => ([], r) end) as [sg r1] eqn:Er.
    assert (Hr : (length r1 <= length r)%nat).
    { destruct r as [|g r']; [inversion Er; subst; lia|]. destruct ((g =? 43)%N || (g =? 45)%N); inversion Er; subst; cbn; lia. }
    destruct (take_digits r1) as [d rest'] eqn:Et. destruct d; [discriminate|].
    inversion Ee; subst. apply take_digits_le in Et. cbn in *. lia. }
  inversion H; subst. lia.
Qed.

Lemma scan_literal_lt s t rest : scan_literal s = Some (t, rest) -> (length rest < length s)%nat.
Proof.
  unfold scan_literal. destruct s as [|c r]; [discriminate|]. intros H.
  destruct (c =? 34)%N.
  { destruct (scan_string r) as [[o rest']|] eqn:E; [|discriminate]. inversion H; subst.
    apply (scan_string_lt (length r)) in E; [cbn; lia|lia]. }
  destruct (c =? 116)%N.
  { destruct (strip_prefix [114; 117; 101]%N r) eqn:E; [|discriminate]. inversion H; subst.
    apply strip_prefix_len in E. cbn in *. lia. }
  destruct (c =? 102)%N.
  { destruct (strip_prefix [97; 108; 115; 101]%N r) eqn:E; [|discriminate]. inversion H; subst.
    apply strip_prefix_len in E. cbn in *. lia. }
  destruct (c =? 110)%N.
  { destruct (strip_prefix [117; 108; 108]%N r) eqn:E; [|discriminate]. inversion H; subst.
    apply strip_prefix_len in E. cbn in *. lia. }
  destruct ((c =? 45)%N || is_digit c); [|discriminate].
  destruct (scan_number (c :: r)) as [[l rest']|] eqn:E; [|discriminate]. inversion H; subst.
  apply scan_number_lt in E. exact E.
Qed.

Lemma token_at_lt more st stack s t st' stack' rest :
  token_at more st stack s = TokOk t st' stack' rest -> (length rest < length s)%nat.
Proof.
  unfold token_at. destruct s as [|c r]; [discriminate|]. intros H.
  repeat match type of H with
         | context[if ?b then _ else _] => destruct b
         | context[match scan_string ?x with _ => _ end] =>
             let E := fresh "E" in destruct (scan_string x) as [[? ?]|] eqn:E;
             [apply (scan_string_lt (length x)) in E; [|lia] | ]
         | context[match scan_literal ?x with _ => _ end] =>
             let E := fresh "E" in destruct (scan_literal x) as [[? ?]|] eqn:E; [apply scan_literal_lt in E | ]
         | context[match ?x with StTop => _ | _ => _ end] => destruct x
         | context[match ?x with [] => _ | _ :: _ => _ end] => destruct x
         | TokOk _ _ _ _ = TokOk _ _ _ _ => inversion H; subst; clear H
         | TokFail _ = TokOk _ _ _ _ => discriminate
         end; try discriminate; cbn [length] in *; try lia.
Qed.

Lemma token_call_lt st stack s t st' stack' rest :
  token_call st stack s = TokOk t st' stack' rest -> (length rest < length s)%nat.
Proof.
  unfold token_call. pose proof (skip_ws_le s) as Hs.
  destruct (skip_ws s) as [|c r] eqn:E; [discriminate|]. cbn [length] in Hs. intros H.
  destruct (c =? 58)%N.
  { destruct st; try discriminate. apply token_at_lt in H. pose proof (skip_ws_le r). lia. }
  destruct (c =? 44)%N.
  { destruct st; try discriminate; apply token_at_lt in H; pose proof (skip_ws_le r); lia. }
  apply token_at_lt in H. cbn [length] in H. lia.
Qed.

(* at most one token per byte *)
Theorem lex_go_length fuel : forall st stack s, (length (fst (lex_go fuel st stack s)) <= length s)%nat.
Proof.
  induction fuel as [|f IH]; intros st stack s; cbn [lex_go]; [cbn; lia|].
  destruct (token_call st stack s) as [mr|t st' stack' rest] eqn:E; [cbn; lia|].
  apply token_call_lt in E. specialize (IH st' stack' rest).
  destruct (lex_go f st' stack' rest) as [ts mr]. cbn [fst length] in *. lia.
Qed.

Theorem lex_length bs : (length (fst (lex bs)) <= length bs)%nat.
Proof. apply lex_go_length. Qed.

(* the fuel of [lex] is never the reason it stops: one more iteration changes nothing *)
Lemma lex_go_S f st stack s :
  lex_go (S f) st stack s =
  match token_call st stack s with
  | TokFail more => ([], more)
  | TokOk t st' stack' rest => let '(ts, more) := lex_go f st' stack' rest in (t :: ts, more)
  end.
Proof. reflexivity. Qed.

Theorem lex_go_fuel_enough fuel : forall st stack s, (length s < fuel)%nat ->
  lex_go (S fuel) st stack s = lex_go fuel st stack s.
Proof.
  induction fuel as [|f IH]; intros st stack s Hl; [lia|].
  rewrite (lex_go_S (S f)), (lex_go_S f).
  destruct (token_call st stack s) as [mr|t st' stack' rest] eqn:E; [reflexivity|].
  apply token_call_lt in E. rewrite (IH st' stack' rest) by lia. reflexivity.
Qed.

Corollary lex_fuel_stable bs k : lex_go (S (length bs) + k) StTop [] bs = lex bs.
Proof.
  unfold lex. induction k as [|k IH]; [rewrite Nat.add_0_r; reflexivity|].
  rewrite Nat.add_succ_r. rewrite lex_go_fuel_enough by lia. exact IH.
Qed.

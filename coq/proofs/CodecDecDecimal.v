(* CodecDecDecimal.v — the decimal field kind with decimal.NewFromString / Decimal.String() modelled
   (lib/Decimal.v, enc's model of github.com/shopspring/decimal, compared with the library on every
   run: CDecimal cases and the decimal table of every CDec / CQuery case).

   A decimal is (mantissa, exponent), value = mantissa * 10^exponent.  The decoder stores
   Decimal.String() of what NewFromString returns, provided the exponent is within +-1000:
   * accepted texts are exactly those [dec_parse] reads with such an exponent, bare or quoted;
   * the stored text is [dec_print m e], and reading it back gives a numerically equal decimal:
     the stored value is exactly the number the member denotes;
   * every other text is rejected. *)
From Coq Require Import String List NArith ZArith Bool Lia.
From J5V.lib Require Import Outcome Json.
From J5V.lib Require Decimal.
From J5V.model Require Import CodecTypes CodecDecScalar.
Import ListNotations.
Local Open Scope Z_scope.

(* the oracle of the decoder model agrees with the model of the library; the canonical text only
   matters (and is only compared) when the exponent is within the bound *)
Definition decimal_oracle_is_model (orc : oracles) : Prop :=
  forall s, match Decimal.dec_parse s with
            | None => o_decimal orc s = None
            | Some (m, e) => exists d, o_decimal orc s = Some (d, e) /\
                                       (Z.abs e <= max_decimal_exponent -> d = Decimal.dec_print m e)
            end.

Lemma mk_decimal_inj a b : mk_decimal a = mk_decimal b -> a = b.
Proof. destruct a, b; unfold mk_decimal, wkt_fields; cbn; intros H; congruence. Qed.

Definition dec_goval (quoted : bool) (s : bytes) : goval := if quoted then GStr s else GNum s.

Theorem decimal_accepted orc quoted s m e : decimal_oracle_is_model orc ->
  Decimal.dec_parse s = Some (m, e) -> Z.abs e <= max_decimal_exponent ->
  scalar_from_go orc KDecimal (dec_goval quoted s) = Ok (Some (mk_decimal (Decimal.dec_print m e))).
Proof.
  intros Ho Hp He. specialize (Ho s). rewrite Hp in Ho. destruct Ho as (d & Hd & Hc).
  unfold scalar_from_go, dec_goval. destruct quoted; rewrite Hd;
    (replace (max_decimal_exponent <? Z.abs e) with false by lia); rewrite (Hc He); reflexivity.
Qed.

Theorem decimal_exponent_rejected orc quoted s m e : decimal_oracle_is_model orc ->
  Decimal.dec_parse s = Some (m, e) -> max_decimal_exponent < Z.abs e ->
  is_err (scalar_from_go orc KDecimal (dec_goval quoted s)) = true.
Proof.
  intros Ho Hp He. specialize (Ho s). rewrite Hp in Ho. destruct Ho as (d & Hd & _).
  unfold scalar_from_go, dec_goval. destruct quoted; rewrite Hd;
    (replace (max_decimal_exponent <? Z.abs e) with true by lia); reflexivity.
Qed.

Theorem decimal_invalid_rejected orc quoted s : decimal_oracle_is_model orc ->
  Decimal.dec_parse s = None -> is_err (scalar_from_go orc KDecimal (dec_goval quoted s)) = true.
Proof.
  intros Ho Hp. specialize (Ho s). rewrite Hp in Ho.
  unfold scalar_from_go, dec_goval. destruct quoted; rewrite Ho; reflexivity.
Qed.

(* exactness: whatever is stored is the canonical text of the decimal the member's text reads as,
   and that text reads back as the same number *)
Theorem decimal_exact orc quoted s c : decimal_oracle_is_model orc ->
  scalar_from_go orc KDecimal (dec_goval quoted s) = Ok (Some (mk_decimal c)) ->
  exists m e b, Decimal.dec_parse s = Some (m, e) /\ c = Decimal.dec_print m e /\
                Decimal.dec_parse c = Some b /\ Decimal.dec_eq (m, e) b.
Proof.
  intros Ho H. pose proof (Ho s) as Hs.
  destruct (Decimal.dec_parse s) as [[m e]|] eqn:Hp.
  - destruct Hs as (d & Hd & Hc).
    assert (G : Z.abs e <= max_decimal_exponent /\ c = d).
    { unfold scalar_from_go, dec_goval in H. destruct quoted; rewrite Hd in H;
        (destruct (max_decimal_exponent <? Z.abs e) eqn:E; [discriminate|]);
        (split; [lia|]); apply mk_decimal_inj; congruence. }
    destruct G as [He ->]. rewrite (Hc He).
    assert (Hn : Decimal.dec_normalise s = Some (Decimal.dec_print m e)).
    { unfold Decimal.dec_normalise. rewrite Hp. unfold max_decimal_exponent, Decimal.max_decimal_exponent in *.
      destruct ((e <=? 1000) && (- (1000) <=? e)) eqn:Eb; [reflexivity|lia]. }
    destruct (Decimal.dec_normalise_numeric s _ Hn) as (a & b & Ha & Hb & Heq).
    rewrite Hp in Ha. inversion Ha; subst a. exists m, e, b. repeat split; assumption.
  - exfalso. unfold scalar_from_go, dec_goval in H. destruct quoted; rewrite Hs in H; discriminate.
Qed.

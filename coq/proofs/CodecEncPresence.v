(* CodecEncPresence.v — presence (Has along the proto path), read independently of the encoder's walk *)
From Coq Require Import String List NArith ZArith Bool Lia.
From J5V.lib Require Import Outcome Json JsonPrint.
From J5V.model Require Import CodecTypes CodecEnc CodecEncSpec.
Import ListNotations.
Local Open Scope N_scope.

(* presence, read independently of the walk: the proto path leads through populated message fields
   to a populated field *)
Inductive reaches : list N -> msg -> pval -> Prop :=
| R_last n m v : msg_get n m = Some v -> reaches [n] m v
| R_step n rest m sub v : rest <> [] -> msg_get n m = Some (VMsg sub) -> reaches rest sub v -> reaches (n :: rest) m v.

Lemma present_reaches path : forall m v, present path m = Some v <-> reaches path m v.
Proof.
  induction path as [|n rest IH]; intros m v.
  - split; [discriminate|intros H; inversion H].
  - destruct rest as [|n2 rest'].
    + cbn [present]. split; [intros H; constructor; exact H|].
      intros H. inversion H as [? ? ? Hg|? ? ? ? ? Hne]; subst; [exact Hg|congruence].
    + change (present (n :: n2 :: rest') m) with
        (match msg_get n m with Some (VMsg sub) => present (n2 :: rest') sub | _ => None end).
      split.
      * destruct (msg_get n m) as [[| | | | | |sub| |]|] eqn:E; try discriminate. intros H.
        apply R_step with (sub := sub); [discriminate|exact E|apply IH; exact H].
      * intros H. inversion H as [|? ? ? sub ? Hne Hg Hr]; subst. rewrite Hg. apply IH. exact Hr.
Qed.

(* an exposed oneof counts as present when exactly one of its members is *)
Lemma exposed_present env p r qs m : p_path p = [] -> p_ty p = FOneof r -> lookup env r = Some (SOneof qs) ->
  (prop_present env p m = Some (VMsg m) <-> exists q v, members_present qs m = [(q, v)]) /\
  (prop_present env p m = None \/ prop_present env p m = Some (VMsg m)).
Proof.
  intros Hp Ht Hl. unfold prop_present. rewrite Hp, Ht, Hl.
  destruct (members_present qs m) as [|[q v] [|y t]]; split; try (left; reflexivity); try (right; reflexivity);
    split; try discriminate; try (intros (q0 & v0 & H); discriminate).
  - intros _. eauto.
  - intros _. reflexivity.
Qed.

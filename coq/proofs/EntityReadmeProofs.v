(* EntityReadmeProofs.v — the README's entity documentation ("Foo Example") agrees with the
   model: the declaration printed there, expanded by model/Entity.v, produces every message,
   field (name, number, type), psm annotation, status value, service, rpc and path that the
   README shows.  The README facts are re-read on every run (the readme_ definitions of gen/EntityGen.v), so a
   change of either the documentation or (through the correspondence) the code breaks one of
   the obligations below. *)
From Coq Require Import String Ascii List NArith Bool.
From J5V.lib Require Import Outcome Strcase.
From J5V.model Require Import Entity.
From J5V.gen Require EntityGen.
Import ListNotations.
Local Open Scope string_scope.
Local Open Scope list_scope.
Local Open Scope N_scope.

Definition kind_of (ty : string) : fkind :=
  if String.eqb ty "string" then KScalar 9 (bs "string")
  else if String.prefix "key" ty then KKey false None None
  else if String.eqb ty "bool" then KScalar 8 (bs "bool")
  else KScalar 0 (bs ty).
Definition field_of (p : string * string) : ufield := mkU (bs (fst p)) (kind_of (snd p)) false false.

Definition readme_decl : entity :=
  mkE (bs EntityGen.readme_package) (bs EntityGen.readme_entity_name) []
      (map (fun p => mkK (field_of p) false) EntityGen.readme_keys)
      (map field_of EntityGen.readme_data)
      (map bs EntityGen.readme_statuses)
      (map (fun ev => mkEv (bs (fst ev)) (map field_of (snd ev))) EntityGen.readme_events)
      [] [] None [].

Definition readme_components : list component :=
  match convert readme_decl with Ok cs => cs | _ => [] end.

(* all messages with their names relative to the file package (nested: Parent.Child) *)
Definition all_messages (cs : list component) : list (bytes * option (bytes * N) * list ofield) :=
  flat_map (fun c => match c with
    | CMsg _ m => (m_name m, m_psm m, m_fields m)
                  :: map (fun n => (m_name m ++ [46] ++ fst n, None, snd n)) (m_nested m)
    | _ => [] end) cs.

Definition find_message (cs : list component) (name : bytes) :=
  find (fun m => bytes_eqb (fst (fst m)) name) (all_messages cs).

Lemma readme_compiles : exists cs, convert readme_decl = Ok cs /\ cs <> [].
Proof. eexists. split; [vm_compute; reflexivity|discriminate]. Qed.

Lemma readme_messages_produced :
  forallb (fun n => match find_message readme_components (bs n) with Some _ => true | None => false end)
          EntityGen.readme_messages = true.
Proof. vm_compute; reflexivity. Qed.

(* field (message, type text, proto name, number): the message has, at that number, a field of
   that proto name whose type is the README's (relative or package-qualified message/enum name,
   or the scalar "string") *)
Definition type_matches (pkg : bytes) (t : otype) (ty : string) : bool :=
  let full p n := (match p with [] => pkg | _ => p end) ++ [46] ++ n in
  let is_name fullname := bytes_eqb fullname (bs ty) || bytes_eqb fullname (pkg ++ [46] ++ bs ty) in
  match t with
  | TScalar pt _ => (pt =? 9) && String.eqb ty "string"
  | TObject p n => is_name (full p n)
  | TOneof p n => is_name (full p n)
  | TEnum p n => is_name (full p n)
  | TExt tn _ => bytes_eqb tn (bs ty)
  | TMap _ => false
  | TNested _ _ => false
  end.
Definition field_documented (f : string * string * string * N) : bool :=
  match f with (msg, ty, name, num) =>
    match find_message readme_components (bs msg) with
    | Some (_, _, fs) =>
        match nth_error fs (N.to_nat (num - 1)) with
        | Some fld => bytes_eqb (to_snake (f_json fld)) (bs name)
                      && type_matches (e_pkg readme_decl) (f_type fld) ty
        | None => false
        end
    | None => false
    end
  end.
Lemma readme_fields_produced : forallb field_documented EntityGen.readme_fields = true.
Proof. vm_compute; reflexivity. Qed.

Definition part_number (s : string) : N :=
  if String.eqb s "ENTITY_PART_KEYS" then 1 else if String.eqb s "ENTITY_PART_STATE" then 2
  else if String.eqb s "ENTITY_PART_EVENT" then 3 else if String.eqb s "ENTITY_PART_DATA" then 4 else 0.
Lemma readme_psm_produced :
  forallb (fun p => match p with (msg, en, part) =>
     match find_message readme_components (bs msg) with
     | Some (_, Some (en', part'), _) => bytes_eqb en' (bs en) && (part' =? part_number part)
     | _ => false
     end end) EntityGen.readme_psm = true.
Proof. vm_compute; reflexivity. Qed.

(* the status enum is exactly the documented one *)
Lemma readme_status_enum :
  map (fun v => (bs (snd (fst v)), snd v)) EntityGen.readme_enum_values
  = entity_status_values readme_decl
  /\ forallb (fun v => bytes_eqb (bs (fst (fst v))) (component_name readme_decl (bs "Status")))
             EntityGen.readme_enum_values = true.
Proof. split; vm_compute; reflexivity. Qed.

Definition find_service (cs : list component) (name : bytes) : option osvc :=
  match find (fun c => match c with CSvc _ s => bytes_eqb (sv_name s) name | _ => false end) cs with
  | Some (CSvc _ s) => Some s
  | _ => None
  end.

(* every documented rpc: service, name, request/response message, http path *)
Definition rpc_documented (r : string * string * string * string * string) : bool :=
  match r with (svc, name, inp, out, path) =>
    match find_service readme_components (bs svc) with
    | Some s =>
        existsb (fun m => bytes_eqb (mt_name m) (bs name) && bytes_eqb (mt_in m) (bs inp)
                          && (bytes_eqb (mt_out m) (bs out) || bytes_eqb (mt_out m) ([46] ++ bs out))
                          && bytes_eqb (mt_path m) (bs path)) (sv_methods s)
    | None => false
    end
  end.
Lemma readme_rpcs_produced : forallb rpc_documented EntityGen.readme_rpcs = true.
Proof. vm_compute; reflexivity. Qed.

Lemma readme_annotations :
  forallb (fun p => match find_service readme_components (bs (fst p)) with
                    | Some s => match sv_ann s with SQuery en => bytes_eqb en (bs (snd p)) | _ => false end
                    | None => false end) EntityGen.readme_query_entity = true
  /\ forallb (fun p => match find_service readme_components (bs (fst p)) with
                       | Some s => match sv_ann s with STopic tn _ _ => bytes_eqb tn (bs (snd p)) | _ => false end
                       | None => false end) EntityGen.readme_topic_names = true.
Proof. split; vm_compute; reflexivity. Qed.

(* the README facts were actually found (the obligations above are not vacuous) *)
Lemma readme_facts_present :
  (8 <=? N.of_nat (length EntityGen.readme_messages))
  && (15 <=? N.of_nat (length EntityGen.readme_fields))
  && (4 <=? N.of_nat (length EntityGen.readme_psm))
  && (3 <=? N.of_nat (length EntityGen.readme_enum_values))
  && (4 <=? N.of_nat (length EntityGen.readme_rpcs))
  && (1 <=? N.of_nat (length EntityGen.readme_keys))
  && (2 <=? N.of_nat (length EntityGen.readme_events)) = true.
Proof. vm_compute; reflexivity. Qed.

Definition readme_agrees : Prop :=
  (exists cs, convert readme_decl = Ok cs /\ cs <> [])
  /\ forallb (fun n => match find_message readme_components (bs n) with Some _ => true | None => false end)
             EntityGen.readme_messages = true
  /\ forallb field_documented EntityGen.readme_fields = true
  /\ forallb rpc_documented EntityGen.readme_rpcs = true
  /\ map (fun v => (bs (snd (fst v)), snd v)) EntityGen.readme_enum_values
     = entity_status_values readme_decl.
Lemma readme_agreement : readme_agrees.
Proof.
  exact (conj readme_compiles (conj readme_messages_produced (conj readme_fields_produced
        (conj readme_rpcs_produced (proj1 readme_status_enum))))).
Qed.

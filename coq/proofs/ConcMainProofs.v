(* ConcMainProofs.v — the statements of C10 about the guarded discipline, derived from
   the invariant (ConcInvProofs) and the measure (ConcTermProofs). *)
From Coq Require Import List NArith Bool Arith Lia.
From J5V.model Require Import Conc.
From J5V.proofs Require Import ConcInvProofs ConcTermProofs.
Import ListNotations.

Lemma ginv_reach k g calls sched : ginv k g calls (run Guarded k g calls sched).
Proof. unfold run. apply ginv_run. apply ginv_init. Qed.

Lemma results_nth st t th :
  nth_error (s_thr st) t = Some th -> nth t (results st) [] = rev (t_results th).
Proof.
  intros H. unfold results. apply nth_error_nth.
  rewrite nth_error_map, H. reflexivity.
Qed.

(* (1) under any schedule, the calls a thread has completed returned, in order, exactly
   what each returns when run alone on a fresh cache *)
Theorem guarded_results k g calls sched t :
  exists j, nth t (results (run Guarded k g calls sched)) [] =
            map (result_solo k g) (firstn j (nth t calls [])).
Proof.
  pose proof (ginv_reach k g calls sched) as I.
  destruct (nth_error (s_thr (run Guarded k g calls sched)) t) as [th|] eqn:Ht.
  - destruct (gi_results _ _ _ _ I _ _ Ht) as (j & Hr & _). exists j.
    rewrite (results_nth _ _ _ Ht). exact Hr.
  - exists 0. cbn. apply nth_overflow. unfold results. rewrite map_length.
    apply nth_error_None. exact Ht.
Qed.

(* (2a) no deadlock: while some call is outstanding, some thread can take a step *)
Theorem guarded_progress k g calls sched :
  all_done (run Guarded k g calls sched) = false ->
  exists t, t < length calls /\ can_step (run Guarded k g calls sched) t /\
            gstep Guarded k g t (run Guarded k g calls sched) <> run Guarded k g calls sched.
Proof.
  intros H. pose proof (ginv_reach k g calls sched) as I.
  destruct (progress k g calls _ I H) as (t & Hlt & Hcs).
  exists t. split; [exact Hlt|]. split; [exact Hcs|].
  intros E. pose proof (gstep_decreases k g calls _ t I Hcs) as D. rewrite E in D. lia.
Qed.

Lemma done_results k g calls st :
  ginv k g calls st -> all_done st = true -> results st = map (map (result_solo k g)) calls.
Proof.
  intros I Hd.
  apply (nth_ext _ _ [] []).
  - unfold results. rewrite !map_length. exact (gi_len _ _ _ _ I).
  - intros t Hlt. unfold results in Hlt. rewrite map_length in Hlt.
    destruct (nth_error (s_thr st) t) as [th|] eqn:Ht; [|apply nth_error_None in Ht; lia].
    rewrite (results_nth _ _ _ Ht).
    destruct (gi_results _ _ _ _ I _ _ Ht) as (j & Hr & Hs).
    unfold all_done in Hd. rewrite forallb_forall in Hd.
    pose proof (Hd _ (nth_error_In _ _ Ht)) as Hth.
    destruct (t_calls th) eqn:Ec; [|discriminate].
    assert (Hfull : firstn j (nth t calls []) = nth t calls []).
    { rewrite <- (firstn_skipn j (nth t calls [])) at 2. rewrite <- Hs. rewrite app_nil_r. reflexivity. }
    rewrite Hr, Hfull.
    change [] with (map (result_solo k g) []) at 2. rewrite map_nth. reflexivity.
Qed.

(* (2b) every fair schedule of fuel_bound rounds completes all calls, with the solo results *)
Theorem guarded_fair_complete k g calls rounds :
  Forall (covers (length calls)) rounds -> fuel_bound g calls <= length rounds ->
  all_done (run Guarded k g calls (concat rounds)) = true /\
  results (run Guarded k g calls (concat rounds)) = map (map (result_solo k g)) calls.
Proof.
  intros Hc Hb.
  assert (Hd : all_done (run Guarded k g calls (concat rounds)) = true).
  { unfold run. apply (fair_terminates k g calls); [apply ginv_init | exact Hc | rewrite mu_init; exact Hb]. }
  split; [exact Hd|]. apply done_results; [apply ginv_reach | exact Hd].
Qed.

(* (3) whenever the lock is free, every entry of the cache is fully linked and denotes
   its type: a lock-free observer never sees a placeholder with To == nil *)
Theorem guarded_linked_when_free k g calls sched :
  let st := run Guarded k g calls sched in
  s_lock st = None ->
  forall n c, lookup (cmap (s_sh st)) n = Some c ->
    (exists fs, cell_to (s_sh st) c = Some fs) /\
    forall d, unfold d (heap (s_sh st)) c = gunfold d g n.
Proof.
  intros st El n c B. subst st. pose proof (ginv_reach k g calls sched) as I.
  destruct (gi_free _ _ _ _ I El) as (_ & W & _). split.
  - eapply wf_linked; eauto.
  - intros d. eapply unfold_wf; eauto.
Qed.

(* mutual exclusion: two threads are never both between their lookup and their return *)
Theorem guarded_mutex k g calls sched t1 t2 th1 th2 :
  let st := run Guarded k g calls sched in
  nth_error (s_thr st) t1 = Some th1 -> nth_error (s_thr st) t2 = Some th2 ->
  ~ outside (t_pc th1) -> ~ outside (t_pc th2) -> t1 = t2.
Proof.
  intros st H1 H2 O1 O2. subst st. pose proof (ginv_reach k g calls sched) as I.
  pose proof (inside_is_holder _ _ _ _ _ _ I H1 O1) as E1.
  pose proof (inside_is_holder _ _ _ _ _ _ I H2 O2) as E2. congruence.
Qed.

(* the guarded machine never makes a thread wait for a free lock, and never leaves it queued
   behind nobody: a queued thread always has a holder to wait for *)
Theorem guarded_wait_has_holder k g calls sched t th :
  let st := run Guarded k g calls sched in
  nth_error (s_thr st) t = Some th -> t_pc th = PWait -> exists h, s_lock st = Some h /\ h <> t.
Proof.
  intros st Ht Hp. subst st. pose proof (ginv_reach k g calls sched) as I.
  destruct (s_lock (run Guarded k g calls sched)) as [h|] eqn:El.
  - exists h. split; [reflexivity|]. intros ->.
    destruct (gi_held _ _ _ _ I t El) as (thh & n & rest & Hh & _ & Ti & _).
    rewrite Ht in Hh. inversion Hh; subst thh. rewrite Hp in Ti. exact Ti.
  - destruct (gi_free _ _ _ _ I El) as (_ & _ & Hall). rewrite (Hall _ _ Ht) in Hp. discriminate.
Qed.

Lemma concat_repeat_single {A} (x : A) m : concat (repeat [x] m) = repeat x m.
Proof. induction m as [|m IH]; [reflexivity|]. cbn. rewrite IH. reflexivity. Qed.

(* result_solo is what a call returns when it is the only call made on a fresh cache *)
Theorem solo_is_solo k g n :
  results (run Guarded k g [[n]] (repeat 0 (fuel_bound g [[n]]))) = [[result_solo k g n]].
Proof.
  pose proof (guarded_fair_complete k g [[n]] (repeat [0] (fuel_bound g [[n]]))) as H.
  pose proof (concat_repeat_single 0 (fuel_bound g [[n]])) as E.
  assert (A : Forall (covers (length [[n]])) (repeat [0] (fuel_bound g [[n]]))).
  { apply Forall_forall. intros r Hr. apply repeat_spec in Hr. subst r.
    intros t Ht. cbn in Ht. left. lia. }
  assert (B : fuel_bound g [[n]] <= length (repeat [0] (fuel_bound g [[n]]))).
  { rewrite repeat_length. lia. }
  destruct (H A B) as [_ R]. unfold tid in *. rewrite E in R. exact R.
Qed.

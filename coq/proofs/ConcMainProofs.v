(* ConcMainProofs.v — the statements of C10 about the guarded discipline, derived from
   the invariant (ConcInvProofs) and the measure (ConcTermProofs). *)
From Coq Require Import List NArith Bool Arith Lia.
From J5V.model Require Import Conc.
From J5V.proofs Require Import ConcInvProofs ConcTermProofs.
Import ListNotations.

Lemma ginv_reach k g calls sched : calls_ok calls -> ginv k g calls (run Guarded k g calls sched).
Proof. intros H. unfold run. apply ginv_run. apply ginv_init. exact H. Qed.

Lemma results_nth st t th :
  nth_error (s_thr st) t = Some th -> nth t (results st) [] = rev (t_results th).
Proof.
  intros H. unfold results. apply nth_error_nth.
  rewrite nth_error_map, H. reflexivity.
Qed.

(* ---- what a call returns is a function of its type ----------------------------------- *)
Lemma char_fun k g n r1 r2 : char k g n r1 -> char k g n r2 -> r1 = r2.
Proof.
  intros [[-> G1] | [-> N1]] [[-> G2] | [-> N2]]; try reflexivity; contradiction.
Qed.

Lemma concat_repeat_single {A} (x : A) m : concat (repeat [x] m) = repeat x m.
Proof. induction m as [|m IH]; [reflexivity|]. cbn. rewrite IH. reflexivity. Qed.

Lemma solo_calls_ok n : n <> unsupported -> calls_ok [[n]].
Proof.
  intros Hn t m Hin. destruct t as [|[|t]]; cbn in Hin; try contradiction.
  destruct Hin as [<-|[]]. exact Hn.
Qed.

(* the call made alone on a fresh cache terminates with exactly one result *)
Lemma solo_run k g n : n <> unsupported ->
  exists r, results (run Guarded k g [[n]] (repeat 0 (fuel_bound g [[n]]))) = [[r]] /\ char k g n r.
Proof.
  intros Hn. pose proof (solo_calls_ok n Hn) as Hok.
  set (st := run Guarded k g [[n]] (repeat 0 (fuel_bound g [[n]]))).
  assert (I : ginv k g [[n]] st) by (apply ginv_reach; exact Hok).
  assert (Hd : all_done st = true).
  { unfold st, run. rewrite <- (concat_repeat_single 0 (fuel_bound g [[n]])).
    apply (fair_terminates k g [[n]]).
    - apply ginv_init. exact Hok.
    - apply Forall_forall. intros r Hr. apply repeat_spec in Hr. subst r.
      intros t Ht. cbn in Ht. left. lia.
    - rewrite mu_init, repeat_length. lia. }
  pose proof (gi_len _ _ _ _ I) as Hlen. change (length [[n]]) with 1 in Hlen.
  destruct (s_thr st) as [|th [|th2 l]] eqn:Eth; try discriminate Hlen.
  assert (Ht : nth_error (s_thr st) 0 = Some th) by (rewrite Eth; reflexivity).
  destruct (gi_results _ _ _ _ I _ _ Ht) as (j & Hr & Hs). cbn [nth] in Hr, Hs.
  unfold all_done in Hd. rewrite Eth in Hd. cbn in Hd.
  destruct (t_calls th) eqn:Ec; [|discriminate].
  destruct j as [|j]; [discriminate Hs|]. cbn [firstn] in Hr. rewrite firstn_nil in Hr.
  inversion Hr as [|? r ? rs Hc Hrest Ea Eb]; subst. inversion Hrest; subst.
  exists r. split; [|exact Hc]. unfold results. rewrite Eth. cbn. rewrite <- Eb. reflexivity.
Qed.

(* result_solo is what the call returns when it is the only call made on a fresh cache:
   the unfolding of its type if no type reachable from it has a field of an unsupported
   type, an error otherwise *)
Theorem solo_char k g n : n <> unsupported -> char k g n (result_solo k g n).
Proof.
  intros Hn. destruct (solo_run k g n Hn) as (r & E & C). unfold result_solo. rewrite E. exact C.
Qed.

Theorem solo_is_solo k g n : n <> unsupported ->
  results (run Guarded k g [[n]] (repeat 0 (fuel_bound g [[n]]))) = [[result_solo k g n]].
Proof.
  intros Hn. destruct (solo_run k g n Hn) as (r & E & C). unfold result_solo. rewrite E. reflexivity.
Qed.

Lemma char_to_solo k g ns rs :
  (forall n, In n ns -> n <> unsupported) -> Forall2 (char k g) ns rs -> rs = map (result_solo k g) ns.
Proof.
  intros Hok F. induction F as [|n r ns rs Hc F IH]; [reflexivity|]. cbn. f_equal.
  - eapply char_fun; [exact Hc | apply solo_char; apply Hok; left; reflexivity].
  - apply IH. intros m Hm. apply Hok. right. exact Hm.
Qed.

Lemma In_firstn {A} (l : list A) j x : In x (firstn j l) -> In x l.
Proof.
  revert l; induction j as [|j IH]; intros l H; [destruct H|].
  destruct l as [|y l]; [destruct H|]. destruct H as [->|H]; [left; reflexivity | right; apply IH; exact H].
Qed.

(* (1) under any schedule, the calls a thread has completed returned, in order, exactly
   what each returns when run alone on a fresh cache *)
Theorem guarded_results k g calls sched t : calls_ok calls ->
  exists j, nth t (results (run Guarded k g calls sched)) [] =
            map (result_solo k g) (firstn j (nth t calls [])).
Proof.
  intros Hok. pose proof (ginv_reach k g calls sched Hok) as I.
  destruct (nth_error (s_thr (run Guarded k g calls sched)) t) as [th|] eqn:Ht.
  - destruct (gi_results _ _ _ _ I _ _ Ht) as (j & Hr & _). exists j.
    rewrite (results_nth _ _ _ Ht). apply char_to_solo; [|exact Hr].
    intros n Hn. apply (Hok t). eapply In_firstn; eauto.
  - exists 0. cbn. apply nth_overflow. unfold results. rewrite map_length.
    apply nth_error_None. exact Ht.
Qed.

(* (2a) no deadlock: while some call is outstanding, some thread can take a step *)
Theorem guarded_progress k g calls sched : calls_ok calls ->
  all_done (run Guarded k g calls sched) = false ->
  exists t, t < length calls /\ can_step (run Guarded k g calls sched) t /\
            gstep Guarded k g t (run Guarded k g calls sched) <> run Guarded k g calls sched.
Proof.
  intros Hok H. pose proof (ginv_reach k g calls sched Hok) as I.
  destruct (progress k g calls _ I H) as (t & Hlt & Hcs).
  exists t. split; [exact Hlt|]. split; [exact Hcs|].
  intros E. pose proof (gstep_decreases k g calls _ t I Hcs) as D. rewrite E in D. lia.
Qed.

Lemma done_results k g calls st : calls_ok calls ->
  ginv k g calls st -> all_done st = true -> results st = map (map (result_solo k g)) calls.
Proof.
  intros Hok I Hd.
  apply (nth_ext _ _ [] []).
  - unfold results. rewrite !map_length. exact (gi_len _ _ _ _ I).
  - intros t Hlt. unfold results in Hlt. rewrite map_length in Hlt.
    destruct (nth_error (s_thr st) t) as [th|] eqn:Ht; [|apply nth_error_None in Ht; lia].
    rewrite (results_nth _ _ _ Ht).
    destruct (gi_results _ _ _ _ I _ _ Ht) as (j & Hr & Hs).
    unfold all_done in Hd. rewrite forallb_forall in Hd.
    pose proof (Hd _ (nth_error_In _ _ Ht)) as Hth.
    destruct (t_calls th) eqn:Ec; [|discriminate].
    assert (Hfull : firstn j (nth t calls []) = nth t calls []).
    { rewrite <- (firstn_skipn j (nth t calls [])) at 2. rewrite <- Hs. rewrite app_nil_r. reflexivity. }
    rewrite Hfull in Hr.
    rewrite (char_to_solo k g _ _ (Hok t) Hr).
    change [] with (map (result_solo k g) []) at 2. rewrite map_nth. reflexivity.
Qed.

(* (2b) every fair schedule of fuel_bound rounds completes all calls, with the solo results *)
Theorem guarded_fair_complete k g calls rounds : calls_ok calls ->
  Forall (covers (length calls)) rounds -> fuel_bound g calls <= length rounds ->
  all_done (run Guarded k g calls (concat rounds)) = true /\
  results (run Guarded k g calls (concat rounds)) = map (map (result_solo k g)) calls.
Proof.
  intros Hok Hc Hb.
  assert (Hd : all_done (run Guarded k g calls (concat rounds)) = true).
  { unfold run. apply (fair_terminates k g calls); [apply ginv_init; exact Hok | exact Hc | rewrite mu_init; exact Hb]. }
  split; [exact Hd|]. apply done_results; [exact Hok | apply ginv_reach; exact Hok | exact Hd].
Qed.

(* (3) whenever the lock is free, every entry of the cache is fully linked, denotes its
   type, and is a type that reflects: a lock-free observer never sees a placeholder with
   To == nil, nor anything a failed call has left behind *)
Theorem guarded_linked_when_free k g calls sched : calls_ok calls ->
  let st := run Guarded k g calls sched in
  s_lock st = None ->
  forall n c, lookup (cmap (s_sh st)) n = Some c ->
    (exists fs, cell_to (s_sh st) c = Some fs) /\
    (forall d, unfold d (heap (s_sh st)) c = gunfold d g n) /\
    good g n.
Proof.
  intros Hok st El n c B. subst st. pose proof (ginv_reach k g calls sched Hok) as I.
  destruct (gi_free _ _ _ _ I El) as (W & _). split; [|split].
  - eapply wf_linked; eauto.
  - intros d. eapply unfold_wf; eauto.
  - eapply wf_good; eauto.
Qed.

(* mutual exclusion: two threads are never both between their lookup and their return *)
Theorem guarded_mutex k g calls sched t1 t2 th1 th2 : calls_ok calls ->
  let st := run Guarded k g calls sched in
  nth_error (s_thr st) t1 = Some th1 -> nth_error (s_thr st) t2 = Some th2 ->
  ~ outside (t_pc th1) -> ~ outside (t_pc th2) -> t1 = t2.
Proof.
  intros Hok st H1 H2 O1 O2. subst st. pose proof (ginv_reach k g calls sched Hok) as I.
  pose proof (inside_is_holder _ _ _ _ _ _ I H1 O1) as E1.
  pose proof (inside_is_holder _ _ _ _ _ _ I H2 O2) as E2. congruence.
Qed.

(* ---- hand-off policies: every run of a mutex that hands the lock over, under ANY grant
   policy, is a run of the machine (on the schedule [expand] computes) ------------------- *)
Lemma hrun_from_expand gr d k g sched : forall st,
  hrun_from gr d k g sched st = run_from d k g (expand gr d k g sched st) st.
Proof.
  induction sched as [|t r IH]; intros st; [reflexivity|].
  cbn [hrun_from fold_left expand]. rewrite run_from_app. fold (hstep gr d k g t st).
  change (fold_left (fun s t0 => hstep gr d k g t0 s) r (hstep gr d k g t st))
    with (hrun_from gr d k g r (hstep gr d k g t st)).
  apply IH.
Qed.

Theorem handoff_refines gr d k g calls sched :
  hrun gr d k g calls sched = run d k g calls (expand gr d k g sched (init calls)).
Proof. unfold hrun, run. apply hrun_from_expand. Qed.

Lemma hsched_head gr d k g t st : In t (hsched gr d k g t st).
Proof.
  unfold hsched. destruct (released_by t st (gstep d k g t st)); [|left; reflexivity].
  destruct (gr (gstep d k g t st)); left; reflexivity.
Qed.

Lemma expand_incl gr d k g sched : forall st t, In t sched -> In t (expand gr d k g sched st).
Proof.
  induction sched as [|x r IH]; intros st t Hin; [destruct Hin|].
  cbn [expand]. apply in_or_app. destruct Hin as [->|Hin]; [left; apply hsched_head | right; apply IH; exact Hin].
Qed.

(* a weakly fair sequence of rounds of the hand-off machine expands to one of the machine, of the same length *)
Lemma expand_rounds gr d k g nt rounds : forall st,
  Forall (covers nt) rounds ->
  exists rounds', length rounds' = length rounds /\ Forall (covers nt) rounds' /\
                  expand gr d k g (concat rounds) st = concat rounds'.
Proof.
  induction rounds as [|r rs IH]; intros st Hc; [exists []; repeat split; constructor|].
  inversion Hc as [|? ? Hr Hrs]; subst.
  assert (Happ : forall a b s, expand gr d k g (a ++ b) s = expand gr d k g a s ++ expand gr d k g b (hrun_from gr d k g a s)).
  { induction a as [|x a IHa]; intros b s; [reflexivity|].
    cbn [app expand]. rewrite IHa, <- app_assoc. reflexivity. }
  destruct (IH (hrun_from gr d k g r st) Hrs) as (rs' & Hl & Hc' & He).
  exists (expand gr d k g r st :: rs'). split; [cbn; rewrite Hl; reflexivity|]. split.
  - constructor; [|exact Hc']. intros t Ht. apply expand_incl. apply Hr. exact Ht.
  - cbn [concat]. rewrite Happ, He. reflexivity.
Qed.

(* hence everything proved for all schedules of the machine holds of every hand-off mutex *)
Theorem handoff_results gr k g calls sched t : calls_ok calls ->
  exists j, nth t (results (hrun gr Guarded k g calls sched)) [] =
            map (result_solo k g) (firstn j (nth t calls [])).
Proof. intros Hok. rewrite handoff_refines. apply guarded_results. exact Hok. Qed.

Theorem handoff_fair_complete gr k g calls rounds : calls_ok calls ->
  weakly_fair (length calls) rounds -> fuel_bound g calls <= length rounds ->
  all_done (hrun gr Guarded k g calls (concat rounds)) = true /\
  results (hrun gr Guarded k g calls (concat rounds)) = map (map (result_solo k g)) calls.
Proof.
  intros Hok Hc Hb. rewrite handoff_refines.
  destruct (expand_rounds gr Guarded k g (length calls) rounds (init calls) Hc) as (rs' & Hl & Hc' & He).
  rewrite He. apply guarded_fair_complete; [exact Hok | exact Hc' | rewrite Hl; exact Hb].
Qed.

Theorem handoff_no_deadlock gr k g calls sched : calls_ok calls ->
  all_done (hrun gr Guarded k g calls sched) = false ->
  exists t, t < length calls /\ can_step (hrun gr Guarded k g calls sched) t /\
            gstep Guarded k g t (hrun gr Guarded k g calls sched) <> hrun gr Guarded k g calls sched.
Proof. intros Hok. rewrite handoff_refines. apply guarded_progress. exact Hok. Qed.

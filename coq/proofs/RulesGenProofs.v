(* RulesGenProofs.v — computed agreement between the hand-written models
   (RulesWrite.v) and the tables the translator regenerates from
   /repo on every run (gen/RulesGen.v). An edit of the Go switches breaks one of
   these lemmas at build time. *)
From Coq Require Import String List NArith ZArith Bool.
From J5V.lib Require Import Outcome.
From J5V.model Require Import RulesDecl RulesWrite.
From J5V.gen Require Import RulesGen.
From J5V.gen Require Id62Gen.
Import ListNotations.

Definition flag_values : list (option bool) := [None; Some false; Some true].

Definition cond_holds (c : cond) (flag : option bool) : option bool :=
  match c with
  | CondNotExclusive => Some (negb (is_true flag))
  | CondExclusive => Some (is_true flag)
  | CondFlagPresent => Some (is_some flag)
  | CondFlagAbsent => Some (negb (is_some flag))
  | CondOther => None
  end.

Definition rfield_eqb (a b : rfield) : bool :=
  match a, b with
  | RLt, RLt | RLte, RLte | RGt, RGt | RGte, RGte => true
  | _, _ => false
  end.
Definition ikind_eqb (a b : ikind) : bool :=
  match a, b with I32, I32 | I64, I64 | U32, U32 | U64, U64 => true | _, _ => false end.

(* the rule the Go branch assigns for a flag value, read off the table *)
Definition arm_rule (a : ikind * bool * cond * rfield * rfield) (flag : option bool) : rfield :=
  match a with
  | (_, _, c, th, el) => match cond_holds c flag with
                         | Some true => th
                         | Some false => el
                         | None => ROtherField
                         end
  end.

(* the rule the model assigns: write_int_rules probed with a bound of 5 *)
Definition model_rule (k : ikind) (is_max : bool) (flag : option bool) : rfield :=
  let r := if is_max then IR None (Some 5%Z) None flag else IR (Some 5%Z) None flag None in
  match write_int_rules k r with
  | Ok (CInt _ ub lb) =>
      if is_max
      then match ub with Lt _ => RLt | Lte _ => RLte | NoUb => ROtherField end
      else match lb with Gt _ => RGt | Gte _ => RGte | NoLb => ROtherField end
  | _ => ROtherField
  end.

Lemma writer_int_arms_agree :
  forallb (fun a => match a with
                    | (k, is_max, _, _, _) =>
                        forallb (fun flag => rfield_eqb (arm_rule a flag) (model_rule k is_max flag)) flag_values
                    end) writer_int_arms = true.
Proof. vm_compute. reflexivity. Qed.

(* every (format, bound) pair has exactly one arm *)
Lemma writer_int_arms_cover :
  map (fun a => match a with (k, is_max, _, _, _) => (k, is_max) end) writer_int_arms
  = [(I32, false); (I32, true); (I64, false); (I64, true); (U32, false); (U32, true); (U64, false); (U64, true)].
Proof. vm_compute. reflexivity. Qed.

(* ---- probing lemmas: each generated fact is compared with what the MODEL FUNCTION
   does on probe inputs, not with a hand-typed constant ------------------------ *)

(* wrap_array / wrap_map: when is (buf.validate.field).repeated / .map emitted? probe
   the four combinations (items constrained or not) x (rules declared or not) *)
Definition probe_item (constrained : bool) : fieldw :=
  FW KdString (if constrained then only_ty (CStr None None None false) else None) None None None.
Definition classify_cond (emits : bool -> bool -> bool) : arr_cond :=
  match emits false false, emits false true, emits true false, emits true true with
  | false, true, true, true => ArrItemsOrRules
  | false, false, true, true => ArrItemsOnly
  | _, _, _, _ => ArrCondOther
  end.
Definition model_array_cond : arr_cond :=
  classify_cond (fun items rules =>
    is_some (fw_val (wrap_array (if rules then Some (AR None None None) else None) None (probe_item items)))).
Definition model_map_cond : arr_cond :=
  classify_cond (fun items rules =>
    is_some (fw_val (wrap_map (if rules then Some (MR None None) else None) (probe_item items)))).

Lemma writer_array_cond_agree : writer_array_cond = model_array_cond.
Proof. vm_compute. reflexivity. Qed.
Lemma writer_map_cond_agree : writer_map_cond = model_map_cond.
Proof. vm_compute. reflexivity. Qed.

(* key:id62 compiles to the published pattern: probe write_field *)
Definition model_id62_published : bool :=
  match write_field (EE [] None []) (TKey (Some KId62) None None) with
  | Ok w => match fw_val w with
            | Some (C false (Some (CStr None None (Some p) false))) => str_eqb p Id62Gen.pattern_string
            | _ => false
            end
  | _ => false
  end.
Lemma writer_id62_agree : writer_id62_published = model_id62_published.
Proof. vm_compute. reflexivity. Qed.

(* checkIntegerBounds: the model's bound_ok has exactly the generated ranges (probed at
   both ends and one beyond), every format is covered, and the three checks are those
   write_int_rules makes *)
Definition range_ok (a : ikind * Z * Z) : bool :=
  match a with
  | (k, lo, hi) => bound_ok k lo && bound_ok k hi && negb (bound_ok k (lo - 1)) && negb (bound_ok k (hi + 1))
  end.
Lemma writer_int_ranges_agree :
  forallb range_ok writer_int_ranges = true /\
  map (fun a => match a with (k, _, _) => k end) writer_int_ranges = [I32; I64; U32; U64].
Proof. split; vm_compute; reflexivity. Qed.

Definition model_checks_minimum_range : bool :=
  negb (is_ok (write_int_rules I32 (IR (Some 3000000000%Z) None None None))).
Definition model_checks_maximum_range : bool :=
  negb (is_ok (write_int_rules I32 (IR None (Some 3000000000%Z) None None))).
Definition model_checks_order : bool :=
  negb (is_ok (write_int_rules I64 (IR (Some 2%Z) (Some 1%Z) None None))).
Lemma writer_int_checks_agree :
  writer_calls_check_integer_bounds = true /\
  writer_checks_minimum_range = model_checks_minimum_range /\
  writer_checks_maximum_range = model_checks_maximum_range /\
  writer_checks_order = model_checks_order.
Proof. repeat split; vm_compute; reflexivity. Qed.

(* rules the writer reduces to nothing: probe write_field *)
Definition model_float_rules_refused : bool := negb (is_ok (write_field (EE [] None []) (TFloat true true None))).
Definition emits_typeless (t : fty) : bool :=
  match write_field (EE [] None []) t with
  | Ok w => match fw_val w with Some (C false None) => true | _ => false end
  | _ => false
  end.
Definition model_timestamp_rules_empty : bool :=
  match write_field (EE [] None []) (TTimestamp (Some (TSR (Some 5%Z) (Some 9%Z) (Some true) None)) None) with
  | Ok w => match fw_val w with Some (C false (Some (CTimestamp NoUb NoLb))) => true | _ => false end
  | _ => false
  end.
Lemma writer_reduced_rules_agree :
  writer_float_rules_refused = model_float_rules_refused /\
  writer_object_rules_empty = emits_typeless (TObject [66%N;97%N;114%N] false (Some (OBR (Some 1%N) (Some 2%N)))) /\
  writer_oneof_rules_empty = emits_typeless (TOneof [67%N] true None) /\
  writer_timestamp_rules_empty = model_timestamp_rules_empty.
Proof. repeat split; vm_compute; reflexivity. Qed.

(* ---- the declaration language against schema.proto ------------------------------------
   Every field of every field-type message of schema.proto (with its Rules and Ext),
   ObjectProperty, KeyFormat and EntityKey, with its place in the models: InModel (a
   component of RulesDecl.fty / pty / prop, RulesCompile.xprop, RulesNested / RulesInlineEnum)
   or Outside (named in the propcfg texts). A field added to schema.proto, or one renamed,
   breaks [schema_vocabulary_covered] until it is given a place here. *)
Inductive vstatus := InModel | Outside.
Local Open Scope string_scope.
Definition vocabulary : list (String.string * list (String.string * vstatus)) := [
  ("AnyField", [("only_defined", InModel); ("list_rules", InModel); ("types", InModel)]);
  ("ArrayField", [("rules", InModel); ("items", InModel); ("ext", InModel)]);
  ("ArrayField.Ext", [("single_form", InModel)]);
  ("ArrayField.Rules", [("min_items", InModel); ("max_items", InModel); ("unique_items", InModel)]);
  (* Ext of a scalar / message field type is an empty message: its presence is not in the language *)
  ("BoolField", [("rules", InModel); ("list_rules", InModel); ("ext", Outside)]);
  ("BoolField.Ext", []);
  ("BoolField.Rules", [("const", InModel)]);
  ("BytesField", [("rules", InModel); ("ext", Outside)]);
  ("BytesField.Ext", []);
  ("BytesField.Rules", [("min_length", InModel); ("max_length", InModel)]);
  ("DateField", [("rules", InModel); ("list_rules", InModel); ("ext", Outside)]);
  ("DateField.Ext", []);
  ("DateField.Rules", [("minimum", InModel); ("maximum", InModel); ("exclusive_minimum", InModel); ("exclusive_maximum", InModel)]);
  ("DecimalField", [("rules", InModel); ("list_rules", InModel); ("ext", Outside)]);
  ("DecimalField.Ext", []);
  ("DecimalField.Rules", [("minimum", InModel); ("maximum", InModel); ("exclusive_minimum", InModel); ("exclusive_maximum", InModel)]);
  ("EntityKey", [("primary_key", InModel); ("foreign_key", InModel); ("tenant_key", InModel)]);
  (* ref: the enum of the compile unit (enum_env); enum: RulesInlineEnum.ienum *)
  ("EnumField", [("ref", InModel); ("enum", InModel); ("rules", InModel); ("list_rules", InModel); ("ext", Outside)]);
  ("EnumField.Ext", []);
  ("EnumField.Rules", [("in", InModel); ("not_in", InModel)]);
  (* float rules: only their presence is in the language (TFloat _ rules _): a compile error *)
  ("FloatField", [("format", InModel); ("rules", InModel); ("list_rules", InModel); ("ext", Outside)]);
  ("FloatField.Ext", []);
  ("FloatField.Rules", [("exclusive_maximum", Outside); ("exclusive_minimum", Outside); ("minimum", Outside); ("maximum", Outside); ("multiple_of", Outside)]);
  (* multiple_of: RulesCompile.x_mult *)
  ("IntegerField", [("format", InModel); ("rules", InModel); ("list_rules", InModel); ("ext", Outside)]);
  ("IntegerField.Ext", []);
  ("IntegerField.Rules", [("exclusive_maximum", InModel); ("exclusive_minimum", InModel); ("minimum", InModel); ("maximum", InModel); ("multiple_of", InModel)]);
  ("KeyField", [("rules", Outside); ("format", InModel); ("list_rules", InModel); ("ext", Outside); ("entity", InModel)]);
  ("KeyField.Ext", []);
  ("KeyField.Rules", []);
  ("KeyFormat", [("informal", InModel); ("custom", InModel); ("uuid", InModel); ("id62", InModel)]);
  ("KeyFormat.Custom", [("pattern", InModel)]);
  (* key_schema: always a string, the compiler does not look at it; ext: RulesCompile.x_map_ext *)
  ("MapField", [("item_schema", InModel); ("key_schema", Outside); ("rules", InModel); ("ext", InModel)]);
  ("MapField.Ext", [("single_form", InModel)]);
  ("MapField.Rules", [("min_pairs", InModel); ("max_pairs", InModel)]);
  (* object: RulesNested (inline schemas); entity (EntityJoin): outside *)
  ("ObjectField", [("ref", InModel); ("object", InModel); ("rules", InModel); ("ext", Outside); ("flatten", InModel); ("entity", Outside)]);
  ("ObjectField.EntityJoin", [("entity", Outside); ("entity_part", Outside)]);
  ("ObjectField.Ext", []);
  ("ObjectField.Rules", [("min_properties", InModel); ("max_properties", InModel)]);
  ("ObjectProperty", [("schema", InModel); ("name", InModel); ("required", InModel); ("explicitly_optional", InModel); ("description", InModel); ("proto_field", InModel)]);
  ("OneofField", [("ref", InModel); ("oneof", InModel); ("rules", InModel); ("list_rules", InModel); ("ext", Outside)]);
  ("OneofField.Ext", []);
  ("OneofField.Rules", []);
  ("StringField", [("format", InModel); ("rules", InModel); ("list_rules", InModel); ("ext", Outside)]);
  ("StringField.Ext", []);
  ("StringField.Rules", [("pattern", InModel); ("min_length", InModel); ("max_length", InModel)]);
  ("TimestampField", [("rules", InModel); ("list_rules", InModel); ("ext", Outside)]);
  ("TimestampField.Ext", []);
  ("TimestampField.Rules", [("minimum", InModel); ("maximum", InModel); ("exclusive_minimum", InModel); ("exclusive_maximum", InModel)])
].
Local Close Scope string_scope.

Lemma schema_vocabulary_covered :
  map (fun e => (fst e, map fst (snd e))) vocabulary = RulesGen.schema_vocabulary.
Proof. vm_compute. reflexivity. Qed.

(* the fields of schema.proto that are outside the declaration language of the models *)
Definition vocabulary_outside : list (String.string * String.string) :=
  flat_map (fun e => flat_map (fun f => match snd f with Outside => [(fst e, fst f)] | InModel => [] end) (snd e)) vocabulary.

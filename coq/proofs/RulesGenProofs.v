(* RulesGenProofs.v — computed agreement between the hand-written models
   (RulesWrite.v) and the tables the translator regenerates from
   /repo on every run (gen/RulesGen.v). An edit of the Go switches breaks one of
   these lemmas at build time. *)
From Coq Require Import String List NArith ZArith Bool.
From J5V.lib Require Import Outcome.
From J5V.model Require Import RulesDecl RulesWrite.
From J5V.gen Require Import RulesGen.
Import ListNotations.

Definition flag_values : list (option bool) := [None; Some false; Some true].

Definition cond_holds (c : cond) (flag : option bool) : option bool :=
  match c with
  | CondNotExclusive => Some (negb (is_true flag))
  | CondExclusive => Some (is_true flag)
  | CondFlagPresent => Some (is_some flag)
  | CondFlagAbsent => Some (negb (is_some flag))
  | CondOther => None
  end.

Definition rfield_eqb (a b : rfield) : bool :=
  match a, b with
  | RLt, RLt | RLte, RLte | RGt, RGt | RGte, RGte => true
  | _, _ => false
  end.
Definition ikind_eqb (a b : ikind) : bool :=
  match a, b with I32, I32 | I64, I64 | U32, U32 | U64, U64 => true | _, _ => false end.

(* the rule the Go branch assigns for a flag value, read off the table *)
Definition arm_rule (a : ikind * bool * cond * rfield * rfield) (flag : option bool) : rfield :=
  match a with
  | (_, _, c, th, el) => match cond_holds c flag with
                         | Some true => th
                         | Some false => el
                         | None => ROtherField
                         end
  end.

(* the rule the model assigns: write_int_rules probed with a bound of 5 *)
Definition model_rule (k : ikind) (is_max : bool) (flag : option bool) : rfield :=
  let r := if is_max then IR None (Some 5%Z) None flag else IR (Some 5%Z) None flag None in
  match write_int_rules k r with
  | Ok (CInt _ ub lb) =>
      if is_max
      then match ub with Lt _ => RLt | Lte _ => RLte | NoUb => ROtherField end
      else match lb with Gt _ => RGt | Gte _ => RGte | NoLb => ROtherField end
  | _ => ROtherField
  end.

Lemma writer_int_arms_agree :
  forallb (fun a => match a with
                    | (k, is_max, _, _, _) =>
                        forallb (fun flag => rfield_eqb (arm_rule a flag) (model_rule k is_max flag)) flag_values
                    end) writer_int_arms = true.
Proof. vm_compute. reflexivity. Qed.

(* every (format, bound) pair has exactly one arm *)
Lemma writer_int_arms_cover :
  map (fun a => match a with (k, is_max, _, _, _) => (k, is_max) end) writer_int_arms
  = [(I32, false); (I32, true); (I64, false); (I64, true); (U32, false); (U32, true); (U64, false); (U64, true)].
Proof. vm_compute. reflexivity. Qed.

(* wrap_array emits repeated rules when the items carry a constraint or the
   array declares rules *)
Lemma writer_array_cond_agree : writer_array_cond = ArrItemsOrRules.
Proof. reflexivity. Qed.

Lemma writer_id62_agree : writer_id62_published = true.
Proof. reflexivity. Qed.


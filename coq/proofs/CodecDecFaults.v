(* CodecDecFaults.v — C03 rejection clause at document level: a fault of any listed class at any
   position (top level, nested object, array element, map value, oneof arm, to any depth) makes the
   decoder reject the document.  Proved on the tree reading (CodecDecTree) and transported to the
   token-level / byte-level model by the refinement theorem. *)
From Coq Require Import String List NArith ZArith Bool Lia.
From J5V.lib Require Import Outcome Json.
From J5V.model Require Import CodecTypes CodecDecScalar CodecDec CodecDecTree.
From J5V.proofs Require Import CodecDecProofs CodecDecTreeProofs.
Import ListNotations.

(* the keys of a oneof object other than "!type", and the last "!type" string *)
Fixpoint nontype_keys (ms : list (bytes * jvalue)) : list bytes :=
  match ms with
  | [] => []
  | (k, _) :: r => if bytes_eqb k type_key then nontype_keys r else k :: nontype_keys r
  end.
Fixpoint last_type (ms : list (bytes * jvalue)) (c : option bytes) : option bytes :=
  match ms with
  | [] => c
  | (k, v) :: r =>
    if bytes_eqb k type_key then match v with JStr s => last_type r (Some s) | _ => last_type r c end
    else last_type r c
  end.

Section Faults.
  Variable orc : oracles.
  Variable e : env.

  (* [faulty ty j]: the value j, standing where a field of type ty is expected, contains a fault
     somewhere inside it.  The leaves are the property's fault classes; the other constructors are
     the positions. *)
  Inductive faulty : field_ty -> jvalue -> Prop :=
  (* wrong JSON type / unparsable or out-of-range number / invalid base64, date, decimal, timestamp:
     whatever makes the kind's conversion fail *)
  | F_scalar_shape k j : is_container j = true -> faulty (FScalar k) j
  | F_scalar_value k j c : scalar_from_go orc k (goval_of_json j) = Err c -> faulty (FScalar k) j
  (* enum: not a string, or an unknown name *)
  | F_enum_shape ref j : (forall s, j <> JStr s) -> faulty (FEnum ref) j
  | F_enum_unknown ref prefix opts s :
      lookup e ref = Some (SEnum prefix opts) -> option_by_name prefix opts s = None ->
      faulty (FEnum ref) (JStr s)
  (* object *)
  | F_object_shape ref j : (forall ms, j <> JObj ms) -> faulty (FObject ref) j
  | F_object_inside ref props ms :
      lookup e ref = Some (SObject props) -> faulty_members props ms -> faulty (FObject ref) (JObj ms)
  (* oneof *)
  | F_oneof_shape ref j : (forall ms, j <> JObj ms) -> faulty (FOneof ref) j
  | F_oneof_inside ref props ms :
      lookup e ref = Some (SOneof props) -> faulty_oneof props ms -> faulty (FOneof ref) (JObj ms)
  (* array: not an array, or a faulty / null element *)
  | F_array_shape item j : (forall js, j <> JArr js) -> faulty (FArray item) j
  | F_array_element item js v : In v js -> faulty_element item v -> faulty (FArray item) (JArr js)
  (* map: not an object, or a faulty / null value *)
  | F_map_shape item j : (forall ms, j <> JObj ms) -> faulty (FMap item) j
  | F_map_value item ms k v : In (k, v) ms -> faulty_element item v -> faulty (FMap item) (JObj ms)

  with faulty_members : list property -> list (bytes * jvalue) -> Prop :=
  | M_unknown_key props ms k v : In (k, v) ms -> find_prop props k = None -> faulty_members props ms
  | M_member props ms k v p :
      In (k, v) ms -> find_prop props k = Some p -> v <> JNull -> faulty (p_ty p) v ->
      faulty_members props ms

  with faulty_oneof : list property -> list (bytes * jvalue) -> Prop :=
  | O_unknown_key props ms k v :
      In (k, v) ms -> bytes_eqb k type_key = false -> find_prop props k = None -> faulty_oneof props ms
  | O_member props ms k v p :
      In (k, v) ms -> bytes_eqb k type_key = false -> find_prop props k = Some p -> v <> JNull ->
      faulty (p_ty p) v -> faulty_oneof props ms
  | O_type_shape props ms k v :
      In (k, v) ms -> bytes_eqb k type_key = true -> (forall s, v <> JStr s) -> faulty_oneof props ms
  (* more than one key in a oneof (null-valued keys count) *)
  | O_two_keys props ms k1 k2 rest : nontype_keys ms = k1 :: k2 :: rest -> faulty_oneof props ms
  (* a "!type" that contradicts the key present, wherever it stands among the members *)
  | O_type_contradiction props ms k t :
      nontype_keys ms = [k] -> last_type ms None = Some t -> bytes_eqb k t = false -> faulty_oneof props ms

  with faulty_element : field_ty -> jvalue -> Prop :=
  | E_null item : faulty_element item JNull
  | E_value item v : faulty item v -> faulty_element item v.

  Definition not_ok {A} (o : outcome A) : Prop := is_ok o = false.

  Lemma not_ok_err {A} c : @not_ok A (Err c). Proof. reflexivity. Qed.
  Lemma not_ok_fuel {A} : @not_ok A OutOfFuel. Proof. reflexivity. Qed.
  Lemma not_ok_bind {A B} (o : outcome A) (k : A -> outcome B) :
    (not_ok o \/ forall a, o = Ok a -> not_ok (k a)) -> not_ok (obind o k).
  Proof.
    intros [H | H]; destruct o; cbn in *; try reflexivity; try discriminate. apply H. reflexivity.
  Qed.
  Lemma not_ok_omap {A B} (o : outcome A) (g : A -> B) : not_ok o -> not_ok (omap g o).
  Proof. destruct o; cbn; intros H; try reflexivity; discriminate. Qed.

  Lemma with_holder_not_ok {A} path m (k : N -> msg -> outcome (msg * A)) :
    (forall n h, not_ok (k n h)) -> not_ok (with_holder path m k).
  Proof.
    intros H. revert m. induction path as [|n rest IH]; intros m; [reflexivity|].
    destruct rest as [|n2 rest']; [apply H|].
    change (with_holder (n :: n2 :: rest') m k) with
      (let '(sub, m1) := msg_mutable [] n m in
       obind (with_holder (n2 :: rest') sub k) (fun r => Ok (msg_put n (VMsg (fst r)) m1, snd r))).
    destruct (msg_mutable [] n m) as [sub m1]. apply not_ok_bind. left. apply IH.
  Qed.

  (* a member whose own decoding is never accepted makes tr_member not accept *)
  Lemma tr_member_not_ok d dp p v m seen :
    v <> JNull -> (forall m0, not_ok (dp v m0)) -> not_ok (tr_member d dp p v m seen).
  Proof.
    intros Hv H. unfold tr_member. destruct (max_nesting_depth <? d + 1)%N; [reflexivity|].
    destruct v; try congruence;
      (destruct (mem_bytes (p_json p) seen); [reflexivity|]);
      (destruct (oneof_conflict p m); [reflexivity|]);
      apply not_ok_bind; left; apply H.
  Qed.

  (* when the body loop of decodeOneofInner gets through, the post-checks see every key that is
     not "!type" and the last "!type" *)
  Lemma tr_oneof_S f d props ms m seen found c :
    tr_oneof orc e (S f) d props ms m seen found c =
    match ms with
    | [] => oneof_post props m found c
    | (key, v) :: r =>
      if bytes_eqb key type_key then
        match v with
        | JStr s => tr_oneof orc e f d props r m seen found (Some s)
        | _ => Err "unexpected token, expected string"%string
        end
      else
        match find_prop props key with
        | None => Err "no such key"%string
        | Some p =>
          obind (tr_member d (tr_present orc e f (d + 1) p) p v m seen) (fun ms' =>
            tr_oneof orc e f d props r (fst ms') (snd ms') (found ++ [key]) c)
        end
    end.
  Proof. reflexivity. Qed.

  Lemma tr_oneof_post f : forall d props ms m seen found c m'',
    tr_oneof orc e f d props ms m seen found c = Ok m'' ->
    exists m', oneof_post props m' (found ++ nontype_keys ms) (last_type ms c) = Ok m''.
  Proof.
    induction f as [|f IH]; intros d props ms m seen found c m'' H; [discriminate|].
    rewrite tr_oneof_S in H. destruct ms as [|[key v] r].
    - cbn [nontype_keys last_type]. rewrite app_nil_r. exists m. exact H.
    - cbn [nontype_keys last_type]. destruct (bytes_eqb key type_key).
      + destruct v; try discriminate. eapply IH. exact H.
      + destruct (find_prop props key) as [p|]; [|discriminate].
        destruct (tr_member d (tr_present orc e f (d + 1) p) p v m seen) as [[m1 seen1]| | |]; try discriminate.
        cbn [obind fst snd] in H. apply IH in H. destruct H as [m' H]. exists m'.
        rewrite <- app_assoc in H. exact H.
  Qed.

  Lemma last_type_some ms : forall c t, last_type ms None = Some t -> last_type ms c = Some t.
  Proof.
    induction ms as [|[k v] r IH]; intros c t H; cbn [last_type] in *; [discriminate|].
    destruct (bytes_eqb k type_key); [|apply IH; exact H].
    destruct v; try (apply IH; exact H). exact H.
  Qed.

  Lemma oneof_whole_not_ok f d props ms m seen found c :
    (exists k1 k2 rest, nontype_keys ms = k1 :: k2 :: rest) \/
    (exists k t, nontype_keys ms = [k] /\ last_type ms None = Some t /\ bytes_eqb k t = false) ->
    not_ok (tr_oneof orc e f d props ms m seen found c).
  Proof.
    intros H. unfold not_ok.
    destruct (tr_oneof orc e f d props ms m seen found c) as [m''| | |] eqn:E; try reflexivity.
    exfalso. apply tr_oneof_post in E. destruct E as [m' E].
    destruct H as [(k1 & k2 & rest & Hk) | (k & t & Hk & Ht & Hne)].
    - rewrite Hk in E. unfold oneof_post in E.
      rewrite app_length in E. cbn [length] in E.
      replace (N.of_nat (length found + S (S (length rest))) =? 0)%N with false in E by (symmetry; apply N.eqb_neq; lia).
      replace (1 <? N.of_nat (length found + S (S (length rest))))%N with true in E by (symmetry; apply N.ltb_lt; lia).
      discriminate.
    - rewrite Hk in E. rewrite (last_type_some ms c t Ht) in E. unfold oneof_post in E.
      rewrite app_length in E. cbn [length] in E.
      replace (N.of_nat (length found + 1) =? 0)%N with false in E by (symmetry; apply N.eqb_neq; lia).
      destruct found as [|f0 fr].
      + cbn in E. rewrite Hne in E. discriminate.
      + replace (1 <? N.of_nat (length (f0 :: fr) + 1))%N with true in E by (symmetry; apply N.ltb_lt; cbn [length]; lia).
        discriminate.
  Qed.

  Definition level (f : nat) : Prop :=
    (forall ty j, faulty ty j -> forall d p m, p_ty p = ty -> not_ok (tr_present orc e f d p j m)) /\
    (forall props ms, faulty_members props ms -> forall d m seen, not_ok (tr_object orc e f d props ms m seen)) /\
    (forall props ms, faulty_oneof props ms -> forall d m seen found c, not_ok (tr_oneof orc e f d props ms m seen found c)) /\
    (forall item js v, In v js -> faulty_element item v -> forall d acc, not_ok (tr_array orc e f d item js acc)) /\
    (forall item ms k v, In (k, v) ms -> faulty_element item v -> forall d acc, not_ok (tr_map orc e f d item ms acc)).

  Lemma level_step f : level f -> level (S f).
  Proof.
    intros (Lp & Lo & Ln & La & Lm).
    assert (Lp' : forall ty j, faulty ty j -> forall d p m, p_ty p = ty -> not_ok (tr_present orc e (S f) d p j m)).
    { intros ty j Hf d p m Hty. cbn [tr_present]. rewrite Hty.
      inversion Hf; subst; clear Hf.
      - rewrite H. reflexivity.
      - destruct (is_container j); [reflexivity|]. rewrite H. reflexivity.
      - destruct j; try reflexivity. exfalso. eapply H. reflexivity.
      - rewrite H, H0. reflexivity.
      - destruct j; try reflexivity. exfalso. eapply H. reflexivity.
      - rewrite H. apply not_ok_omap. apply with_holder_not_ok. intros n h.
        destruct (msg_mutable (p_siblings p) n h) as [sub h1].
        apply not_ok_bind. left. apply Lo. assumption.
      - destruct j; try reflexivity. exfalso. eapply H. reflexivity.
      - rewrite H. destruct (p_path p) as [|n0 path0].
        + apply Ln. assumption.
        + apply not_ok_omap. apply with_holder_not_ok. intros n h.
          destruct (msg_mutable (p_siblings p) n h) as [sub h1].
          apply not_ok_bind. left. apply Ln. assumption.
      - destruct j; try reflexivity. exfalso. eapply H. reflexivity.
      - destruct item; try reflexivity;
          (apply not_ok_omap; apply with_holder_not_ok; intros n h; cbn zeta;
           apply not_ok_bind; left; eapply La; eassumption).
      - destruct j; try reflexivity. exfalso. eapply H. reflexivity.
      - destruct item; try reflexivity;
          (apply not_ok_omap; apply with_holder_not_ok; intros n h; cbn zeta;
           apply not_ok_bind; left; eapply Lm; eassumption). }
    assert (Lo' : forall props ms, faulty_members props ms -> forall d m seen, not_ok (tr_object orc e (S f) d props ms m seen)).
    { intros props ms Hf d m seen. cbn [tr_object].
      destruct ms as [|[key0 v0] r]; [inversion Hf; subst; contradiction|].
      assert (Hcase :
        find_prop props key0 = None \/
        (exists p, find_prop props key0 = Some p /\ v0 <> JNull /\ faulty (p_ty p) v0) \/
        faulty_members props r).
      { inversion Hf as [ps ms0 k v Hin Hfind | ps ms0 k v p Hin Hfind Hnn Hfv]; subst;
          (destruct Hin as [Heq | Hin]; [inversion Heq; subst | ]).
        - left. assumption.
        - right. right. eapply M_unknown_key; eassumption.
        - right. left. exists p. repeat split; assumption.
        - right. right. eapply M_member; eassumption. }
      destruct Hcase as [Hn | [(p & Hp & Hnn & Hfv) | Hr]].
      - rewrite Hn. reflexivity.
      - rewrite Hp. apply not_ok_bind. left.
        apply tr_member_not_ok; [assumption|]. intros m0. eapply Lp; [eassumption|reflexivity].
      - destruct (find_prop props key0) as [p0|]; [|reflexivity].
        apply not_ok_bind. right. intros [m' seen'] _. apply Lo. exact Hr. }
    assert (Ln' : forall props ms, faulty_oneof props ms -> forall d m seen found c, not_ok (tr_oneof orc e (S f) d props ms m seen found c)).
    { intros props ms Hf d m seen found c. cbn [tr_oneof].
      destruct ms as [|[key0 v0] r]; [inversion Hf; subst; try contradiction; cbn in *; discriminate|].
      assert (Hwhole : (exists k1 k2 rest, nontype_keys ((key0, v0) :: r) = k1 :: k2 :: rest) \/
                       (exists k t, nontype_keys ((key0, v0) :: r) = [k] /\ last_type ((key0, v0) :: r) None = Some t /\ bytes_eqb k t = false) ->
                       not_ok (tr_oneof orc e (S f) d props ((key0, v0) :: r) m seen found c))
        by (apply oneof_whole_not_ok).
      cbn [tr_oneof] in Hwhole.
      (* either the head member carries the fault, or the fault is in the tail *)
      assert (Htail : faulty_oneof props r ->
                forall m' seen' found' c', not_ok (tr_oneof orc e f d props r m' seen' found' c'))
        by (intros Hr m' seen' found' c'; apply Ln; exact Hr).
      assert (Hcase :
        (bytes_eqb key0 type_key = false /\ find_prop props key0 = None) \/
        (bytes_eqb key0 type_key = false /\ exists p, find_prop props key0 = Some p /\ v0 <> JNull /\ faulty (p_ty p) v0) \/
        (bytes_eqb key0 type_key = true /\ forall s, v0 <> JStr s) \/
        faulty_oneof props r \/
        ((exists k1 k2 rest, nontype_keys ((key0, v0) :: r) = k1 :: k2 :: rest) \/
         (exists k t, nontype_keys ((key0, v0) :: r) = [k] /\ last_type ((key0, v0) :: r) None = Some t /\ bytes_eqb k t = false))).
      { inversion Hf as [ps ms0 k v Hin Hk Hfind | ps ms0 k v p Hin Hk Hfind Hnn Hfv | ps ms0 k v Hin Hk Hshape
                        | ps ms0 k1 k2 rest Hkeys | ps ms0 k t Hkeys Hty Hne]; subst.
        - destruct Hin as [Heq | Hin]; [inversion Heq; subst | ].
          + left. split; assumption.
          + right. right. right. left. eapply O_unknown_key; eassumption.
        - destruct Hin as [Heq | Hin]; [inversion Heq; subst | ].
          + right. left. split; [assumption|]. exists p. repeat split; assumption.
          + right. right. right. left. eapply O_member; eassumption.
        - destruct Hin as [Heq | Hin]; [inversion Heq; subst | ].
          + right. right. left. split; assumption.
          + right. right. right. left. eapply O_type_shape; eassumption.
        - right. right. right. right. left. eauto.
        - right. right. right. right. right. eauto. }
      destruct Hcase as [[Hk Hn] | [[Hk (p & Hp & Hnn & Hfv)] | [[Hk Hshape] | [Hr | Hw]]]]; [| | | | apply Hwhole; exact Hw].
      - rewrite Hk, Hn. reflexivity.
      - rewrite Hk, Hp. apply not_ok_bind. left.
        apply tr_member_not_ok; [assumption|]. intros m0. eapply Lp; [eassumption|reflexivity].
      - rewrite Hk. destruct v0; try reflexivity. exfalso. eapply Hshape. reflexivity.
      - destruct (bytes_eqb key0 type_key).
        + destruct v0; try reflexivity. apply Htail. exact Hr.
        + destruct (find_prop props key0) as [p0|]; [|reflexivity].
          apply not_ok_bind. right. intros [m' seen'] _. apply Htail. exact Hr. }
    assert (La' : forall item js v, In v js -> faulty_element item v -> forall d acc, not_ok (tr_array orc e (S f) d item js acc)).
    { intros item js v Hin Hf d acc. cbn [tr_array].
      destruct js as [|v0 r]; [contradiction|].
      destruct Hin as [-> | Hin].
      - (* the head element is the faulty one *)
        inversion Hf; subst; clear Hf.
        + (* null *)
          destruct item as [k|ref|ref|ref|it|it|pb]; try reflexivity.
          * cbn [is_container goval_of_json].
            destruct (scalar_from_go orc k GNil) as [[x|]| | |] eqn:Es; try reflexivity.
            exfalso. destruct k; cbn in Es; try discriminate;
              repeat match type of Es with
                     | context[match ?c with Some _ => _ | None => _ end] => destruct c
                     end; discriminate.
          * destruct (lookup e ref) as [[props| |]|]; reflexivity.
          * destruct (lookup e ref) as [[|props|]|]; reflexivity.
        + inversion H; subst; clear H; try reflexivity.
          * rewrite H0. reflexivity.
          * destruct (is_container v); [reflexivity|]. rewrite H0. reflexivity.
          * destruct (is_container v); [reflexivity|].
            destruct v; try reflexivity. exfalso. eapply H0. reflexivity.
          * cbn [is_container]. rewrite H0, H1. reflexivity.
          * destruct (lookup e ref) as [[props| |]|]; try reflexivity.
            destruct v; try reflexivity. exfalso. eapply H0. reflexivity.
          * rewrite H0. apply not_ok_bind. left. apply Lo. assumption.
          * destruct (lookup e ref) as [[|props|]|]; try reflexivity.
            destruct v; try reflexivity. exfalso. eapply H0. reflexivity.
          * rewrite H0. apply not_ok_bind. left. apply Ln. assumption.
      - (* a later element *)
        destruct item as [k|ref|ref|ref|it|it|pb]; try reflexivity.
        + destruct (is_container v0); [reflexivity|].
          apply not_ok_bind. right. intros [x|] _; [|reflexivity].
          cbn [list_append obind]. eapply La; eassumption.
        + destruct (is_container v0); [reflexivity|].
          destruct v0; try reflexivity.
          destruct (lookup e ref) as [[| |prefix opts]|]; try reflexivity.
          destruct (option_by_name prefix opts s); [|reflexivity]. eapply La; eassumption.
        + destruct (lookup e ref) as [[props| |]|]; try reflexivity.
          destruct v0; try reflexivity.
          apply not_ok_bind. right. intros sub _. eapply La; eassumption.
        + destruct (lookup e ref) as [[|props|]|]; try reflexivity.
          destruct v0; try reflexivity.
          apply not_ok_bind. right. intros sub _. eapply La; eassumption. }
    assert (Lm' : forall item ms k v, In (k, v) ms -> faulty_element item v -> forall d acc, not_ok (tr_map orc e (S f) d item ms acc)).
    { intros item ms k v Hin Hf d acc. cbn [tr_map].
      destruct ms as [|[k0 v0] r]; [contradiction|].
      destruct Hin as [Heq | Hin].
      - inversion Heq; subst; clear Heq.
        inversion Hf; subst; clear Hf.
        + destruct item as [k0|ref|ref|ref|it|it|pb]; try reflexivity;
            (destruct (map_get k acc); [reflexivity|]).
          * cbn [is_container goval_of_json].
            destruct (scalar_from_go orc k0 GNil) as [[x|]| | |] eqn:Es; try reflexivity.
            exfalso. destruct k0; cbn in Es; try discriminate;
              repeat match type of Es with
                     | context[match ?c with Some _ => _ | None => _ end] => destruct c
                     end; discriminate.
          * reflexivity.
          * destruct (lookup e ref) as [[props| |]|]; reflexivity.
          * destruct (lookup e ref) as [[|props|]|]; reflexivity.
        + inversion H; subst; clear H; try reflexivity;
            (destruct (map_get k acc); [reflexivity|]).
          * rewrite H0. reflexivity.
          * destruct (is_container v); [reflexivity|]. rewrite H0. reflexivity.
          * destruct v; try reflexivity. exfalso. eapply H0. reflexivity.
          * rewrite H0, H1. reflexivity.
          * destruct (lookup e ref) as [[props| |]|]; try reflexivity.
            destruct v; try reflexivity. exfalso. eapply H0. reflexivity.
          * rewrite H0. apply not_ok_bind. left. apply Lo. assumption.
          * destruct (lookup e ref) as [[|props|]|]; try reflexivity.
            destruct v; try reflexivity. exfalso. eapply H0. reflexivity.
          * rewrite H0. apply not_ok_bind. left. apply Ln. assumption.
      - destruct item as [k1|ref|ref|ref|it|it|pb]; try reflexivity;
          (destruct (map_get k0 acc); [reflexivity|]).
        + destruct (is_container v0); [reflexivity|].
          apply not_ok_bind. right. intros [x|] _; [|reflexivity].
          cbn [map_set_value obind]. eapply Lm; eassumption.
        + destruct v0; try reflexivity.
          destruct (lookup e ref) as [[| |prefix opts]|]; try reflexivity.
          destruct (option_by_name prefix opts s); [|reflexivity]. eapply Lm; eassumption.
        + destruct (lookup e ref) as [[props| |]|]; try reflexivity.
          destruct v0; try reflexivity.
          apply not_ok_bind. right. intros sub _. eapply Lm; eassumption.
        + destruct (lookup e ref) as [[|props|]|]; try reflexivity.
          destruct v0; try reflexivity.
          apply not_ok_bind. right. intros sub _. eapply Lm; eassumption. }
    repeat split; assumption.
  Qed.

  Lemma level_all f : level f.
  Proof.
    induction f as [|f IH]; [|apply level_step; exact IH].
    repeat split; intros; reflexivity.
  Qed.
End Faults.

(* ---------------------------------------------------------------- document level, byte level *)
Lemma not_ok_total_err {A} (o : outcome A) :
  is_ok o = false -> is_panic o = false -> o <> OutOfFuel -> is_err o = true.
Proof. destruct o; cbn; intros; try reflexivity; try discriminate. congruence. Qed.

(* a document (as the tokenizer reads it: the tree j, whatever follows) whose root object contains a
   fault at any position is rejected with an error by JSONToProto *)
Theorem faulty_document_rejected orc e root bs ms rest me :
  lex bs = (tokens_of (JObj ms) ++ rest, me) ->
  (exists props, lookup e root = Some (SObject props) /\ faulty_members orc e props ms) \/
  (exists props, lookup e root = Some (SOneof props) /\ faulty_oneof orc e props ms) ->
  is_err (decode_bytes orc e root bs) = true.
Proof.
  intros Hlex H.
  destruct (decode_bytes_total orc e root bs) as [Hp Hf].
  apply not_ok_total_err; try assumption.
  rewrite (decode_bytes_tree orc e root bs (JObj ms) rest me Hlex).
  unfold tr_decode.
  destruct (level_all orc e (S (jsize (JObj ms)))) as (_ & Lo & Ln & _).
  destruct H as [(props & Hl & Hfm) | (props & Hl & Hfo)]; rewrite Hl.
  - apply Lo. exact Hfm.
  - apply Ln. exact Hfo.
Qed.

(* BclGenProofs.v — computed agreement between the hand-written model tables
   and what the translator read from /repo (gen/TokensGen.v): an edit of the Go
   token enumeration, operator table, CanStartTag / IsLiteral sets, switch arms
   or a new panic( site breaks a named lemma here. *)
From Coq Require Import String List NArith ZArith Bool.
From J5V.lib Require Import Text Outcome.
From J5V.model Require Import BclLexer BclParser.
From J5V.gen Require TokensGen UnicodeGen.
Import ListNotations.
Local Open Scope N_scope.
Local Open Scope string_scope.

(* every model token type has the value and the name of a TokenType constant *)
Definition name_ok (t : ttype) : bool :=
  existsb (fun e => N.eqb (fst e) (tt_code t) && String.eqb (snd e) (tt_name t)) TokensGen.token_names.
Lemma token_enum_agrees : forallb name_ok all_tt = true.
Proof. vm_compute. reflexivity. Qed.

(* ... and the TokenType constants the model does not have are exactly the range markers *)
Definition modelled (e : N * string) : bool := existsb (fun t => N.eqb (tt_code t) (fst e)) all_tt.
Lemma token_enum_complete :
  map snd (filter (fun e => negb (modelled e)) TokensGen.token_names)
  = ["literal_beg"; "literal_end"; "operator_beg"; "operator_end"; "keyword_beg"; "keyword_end"].
Proof. vm_compute. reflexivity. Qed.

Lemma operators_agree :
  map (fun e => (fst e, tt_code (snd e))) model_operators = TokensGen.operators.
Proof. vm_compute. reflexivity. Qed.
(* the table init() builds at run time is the one read from the source *)
Lemma operators_runtime_agree : TokensGen.operators_runtime = TokensGen.operators.
Proof. vm_compute. reflexivity. Qed.
(* an operator's literal is its single rune: tokens[op] = string(rune) *)
Lemma operator_text_agrees :
  forallb (fun e => match assoc_N TokensGen.token_text (snd e) with
                    | Some [r] => N.eqb r (fst e) | _ => false end) TokensGen.operators = true.
Proof. vm_compute. reflexivity. Qed.

Lemma literals_agree : map tt_code (filter is_literal all_tt) = TokensGen.literals.
Proof. vm_compute. reflexivity. Qed.
Lemma can_start_tag_agrees : map tt_code (filter can_start_tag all_tt) = TokensGen.can_start_tag.
Proof. vm_compute. reflexivity. Qed.
(* the model has no keyword handling: asKeyword never succeeds *)
Lemma no_keywords : TokensGen.keywords = [].
Proof. reflexivity. Qed.

(* ---- nextFragment's switch: the model dispatches on the same labels ------------- *)
Definition synth (t : ttype) : token := mkTok t [120] pos0 pos0.
(* behaviour class of nextFragment on a lone token of type t:
   0 skip (no fragment), 1 close, 2 comment, 3 description, 4 statement, 5 unexpected token *)
Definition nf_class (t : ttype) : N :=
  match next_fragment (mkW [synth t] None) with
  | WOk None _ => 0
  | WOk (Some (FClose _)) _ => 1
  | WOk (Some (FComment _)) _ => 2
  | WOk (Some (FDesc _)) _ => 3
  | WOk (Some _) _ => 4
  | WErr _ _ _ => 5
  | _ => 6
  end.
(* the Go arms in source order: EOF, EOL, RBRACE, COMMENT/BLOCK_COMMENT, DESCRIPTION, IDENT/BOOL, default *)
Definition arm_classes : list N := [0; 0; 1; 2; 3; 4; 5].
Fixpoint arm_of (arms : list (list N)) (classes : list N) (dflt : N) (c : N) : N :=
  match arms, classes with
  | a :: ar, k :: kr => if existsb (N.eqb c) a then k else arm_of ar kr dflt c
  | _, _ => dflt
  end.
Lemma next_fragment_arms_agree :
  length TokensGen.next_fragment_arms = 7%nat /\
  forallb (fun t => N.eqb (nf_class t) (arm_of TokensGen.next_fragment_arms arm_classes 5 (tt_code t))) all_tt = true.
Proof. split; vm_compute; reflexivity. Qed.

(* walkStatement's final switch, on "x <t>" for token types that cannot start a tag or a qualifier:
   0 open block, 1 header description, 2 trailing comment, 3 plain declaration, 4 unexpected token *)
Definition ws_class (t : ttype) : N :=
  match walk_statement (mkW [synth IDENT; synth t; synth EOL] None) with
  | WOk (FHeader h) _ =>
    if hopen h then 0 else
    match hdesc h, hcomment h with
    | Some _, _ => 1
    | None, Some _ => 2
    | None, None => 3
    end
  | WOk _ _ => 5
  | WErr _ _ _ => 4
  | _ => 6
  end.
Definition ws_arm_classes : list N := [0; 1; 2; 3; 4].
Definition reaches_switch (t : ttype) : bool :=
  negb (can_start_tag t) && negb (tt_eqb t COLON) && negb (tt_eqb t ASSIGN) && negb (tt_eqb t PLUS).
Lemma walk_statement_arms_agree :
  length TokensGen.walk_statement_arms = 5%nat /\
  forallb (fun t => N.eqb (ws_class t) (arm_of TokensGen.walk_statement_arms ws_arm_classes 4 (tt_code t)))
          (filter reaches_switch all_tt) = true.
Proof. split; vm_compute; reflexivity. Qed.

(* the nesting bound of array values, and that popValue still has one recursive call guarded by it *)
(* the model's bound is the constant read from parser.go; it must leave room for real files *)
Lemma max_value_depth_agrees : max_value_depth = TokensGen.max_value_depth /\ N.leb 16 max_value_depth = true.
Proof. split; reflexivity. Qed.
Lemma pop_value_guarded : TokensGen.pop_value_recursive_calls = 1 /\ TokensGen.pop_value_depth_guards = 1.
Proof. split; reflexivity. Qed.

(* messages: every text / format the model reads from the code is there, every error site of the
   model finds its expected set, every token type has a printed text, and the operator range of
   Token.String is the operator table *)
Lemma message_texts_present :
  forallb (fun m => negb (list_N_eqb m []))
    [msg_eof; msg_eol_regex; msg_eol_string; msg_escape; msg_second_dot; slit "lexer.go:NextToken" 0;
     slit "errors.go:msg" 0; slit "errors.go:msg" 1; slit "errors.go:msg" 2;
     slit "token.go:String" 0; slit "token.go:String" 1; slit "token.go:String" 3;
     slit "parser.go:popValue" 0; msg_close; msg_unclosed] = true.
Proof. vm_compute. reflexivity. Qed.
(* the cut of a literal in Token.String: threshold and kept length are there, kept <= threshold *)
Lemma token_string_cut_present :
  match TokensGen.token_string_ints with [a; b] => N.leb b a && N.ltb 0 b | _ => false end = true.
Proof. vm_compute. reflexivity. Qed.
Lemma expected_sites_present :
  forallb (fun l => match l with [] => false | _ => true end)
    [exp_ident; exp_elems; exp_value; exp_tag; exp_end; exp_assign; exp_plus_assign; exp_header; exp_fragment] = true.
Proof. vm_compute. reflexivity. Qed.
Lemma token_texts_present : forallb (fun t => negb (list_N_eqb (tt_text t) [])) all_tt = true.
Proof. vm_compute. reflexivity. Qed.
Lemma is_operator_agrees :
  forallb (fun t => Bool.eqb (is_operator t) (existsb (fun e => N.eqb (snd e) (tt_code t)) TokensGen.operators)) all_tt = true.
Proof. vm_compute. reflexivity. Qed.

(* explicit panic( calls in the anchored files: only the default arm of the formatter's type
   switch over the closed set of fragment types (unreachable: walkFragments builds no other type) *)
Lemma panic_sites_reviewed : TokensGen.panic_sites = [("fmt.go", "diffFile")].
Proof. reflexivity. Qed.

(* the unicode tables are sorted and disjoint, as in_ranges assumes *)
Fixpoint ranges_sorted (prev : N) (first : bool) (rs : list (N * N)) : bool :=
  match rs with
  | [] => true
  | (lo, hi) :: r => (first || N.ltb prev lo) && N.leb lo hi && ranges_sorted hi false r
  end.
Lemma unicode_tables_sorted :
  ranges_sorted 0 true UnicodeGen.space_ranges && ranges_sorted 0 true UnicodeGen.digit_ranges
  && ranges_sorted 0 true UnicodeGen.letter_ranges = true.
Proof. vm_compute. reflexivity. Qed.
(* ASCII anchors the lexer's dispatch relies on *)
Lemma unicode_ascii_anchors :
  is_space 32 = true /\ is_space 9 = true /\ is_space 10 = true /\ is_space 13 = true /\
  is_digit 48 = true /\ is_digit 57 = true /\ is_letter 97 = true /\ is_letter 90 = true /\
  is_letter 95 = false /\ is_space 124 = false /\ is_letter 34 = false /\ is_digit 47 = false.
Proof. vm_compute. repeat split. Qed.

(* BclFmtBytesProofs.v — C09 on Go strings (bytes).  Fmt(input) decodes the input
   to runes, formats, and encodes; because the formatter only writes runes of its
   (decoded, hence valid) input and ASCII, decoding the encoded output gives the
   rune-level output back, and the rune-level theorems carry over to bytes. *)
From Coq Require Import String List NArith ZArith Bool.
From J5V.lib Require Import Text Outcome.
From J5V.model Require Import BclLexer BclParser BclFmt.
From J5V.proofs Require Import BclUtf8Proofs BclRuneClosedProofs BclFmtIdemProofs BclFmtRoundProofs.
Import ListNotations.

(* the bridge: the byte output is the encoding of the rune output, and reads back as it *)
Theorem fmt_bytes_runes : forall input outb, fmt_bytes input = Ok outb ->
  exists out, fmt_runes (utf8_decode input) = Ok out /\ outb = utf8_encode out /\ utf8_decode outb = out.
Proof.
  intros input outb. unfold fmt_bytes.
  destruct (fmt_runes (utf8_decode input)) as [out|e|p|] eqn:E; cbn [omap obind]; try discriminate.
  intros [= <-]. exists out. split; [reflexivity|]. split; [reflexivity|].
  exact (fmt_bytes_decode input out E).
Qed.

Lemma fmt_bytes_of_runes input out : fmt_runes (utf8_decode input) = Ok out ->
  fmt_bytes input = Ok (utf8_encode out).
Proof. intros E. unfold fmt_bytes. rewrite E. reflexivity. Qed.

(* Fmt(Fmt(s)) = Fmt(s) on strings *)
Theorem fmt_bytes_idempotent : forall input outb, fmt_bytes input = Ok outb -> fmt_bytes outb = Ok outb.
Proof.
  intros input outb H. destruct (fmt_bytes_runes input outb H) as (out & Hf & He & Hd).
  unfold fmt_bytes. rewrite Hd. rewrite (fmt_idempotent _ _ Hf). cbn [omap obind]. rewrite He. reflexivity.
Qed.

(* a file the parser accepts is formatted, and the parser accepts the formatted bytes *)
Theorem fmt_bytes_output_accepted : forall input body, parse_file input true = Ok (mkP (Some body) []) ->
  exists outb body', fmt_bytes input = Ok outb /\ parse_file outb true = Ok (mkP (Some body') []).
Proof.
  intros input body Hp. unfold parse_file in Hp.
  destruct (fmt_output_accepted (utf8_decode input) (ex_intro _ body Hp)) as (out & Hf & body' & Hp').
  exists (utf8_encode out), body'. split; [exact (fmt_bytes_of_runes _ _ Hf)|].
  unfold parse_file. rewrite (fmt_bytes_decode input out Hf). exact Hp'.
Qed.

(* non-vacuity: a two-byte rune in a string literal, and an invalid byte (formatted to U+FFFD) *)
Example fmt_bytes_example :
  fmt_bytes [97; 61; 34; 195; 169; 34; 10]%N = Ok [97; 32; 61; 32; 34; 195; 169; 34; 10]%N /\
  is_ok (parse_file [97; 61; 34; 195; 169; 34; 10]%N true) = true /\
  fmt_bytes [97; 61; 34; 195; 34; 10]%N = Ok [97; 32; 61; 32; 34; 239; 191; 189; 34; 10]%N.
Proof. vm_compute. repeat split. Qed.

(* BclFmtLineProofs.v — line level of C09: the line the formatter writes for a
   header, an assignment, a comment or a closing brace is a sequence of rendered
   tokens and single spaces in which no two adjacent tokens can fuse; lexing it
   gives the tokens of the fragment, then the EOL. *)
From Coq Require Import String List NArith ZArith Bool Lia ZifyN ZifyNat ZifyBool.
From J5V.lib Require Import Text Outcome.
From J5V.model Require Import BclLexer BclParser BclFmt.
From J5V.proofs Require Import BclPosProofs BclLexerProofs BclLexerCoverProofs BclFmtLitProofs BclLexLitProofs
                               BclFmtSeqProofs BclFragWfProofs.
Import ListNotations.
Local Open Scope N_scope.
Arguments Nat.sub : simpl never.

(* ---- composing item lists ------------------------------------------------------------------- *)
Lemma render_items_app a b : render_items (a ++ b) = render_items a ++ render_items b.
Proof. unfold render_items. apply flat_map_app. Qed.

Lemma items_ok_app : forall a b tail, items_ok a (render_items b ++ tail) -> items_ok b tail -> items_ok (a ++ b) tail.
Proof.
  induction a as [|i r IH]; intros b tail Ha Hb; [exact Hb|].
  destruct i as [typ l|]; cbn [app items_ok] in *.
  - destruct Ha as (A & B & C). split; [exact A|]. split; [|apply IH; assumption].
    rewrite render_items_app, <- app_assoc. exact B.
  - apply IH; assumption.
Qed.

Lemma item_toks_app a b : item_toks (a ++ b) = item_toks a ++ item_toks b.
Proof. induction a as [|i r IH]; [reflexivity|]. destruct i; cbn; rewrite IH; reflexivity. Qed.

Lemma ends_with_tok_cons i l : l <> [] -> ends_with_tok (i :: l) = ends_with_tok l.
Proof. destruct l as [|j q]; [congruence|]. intros _. destruct i; reflexivity. Qed.

Lemma ends_with_tok_app a b : b <> [] -> ends_with_tok b -> ends_with_tok (a ++ b).
Proof.
  induction a as [|i r IH]; intros Hb He; [exact He|]. cbn [app].
  rewrite ends_with_tok_cons; [apply IH; assumption|]. destruct r; [exact Hb|discriminate].
Qed.

(* the first rune of the text that follows *)
Definition starts_not (p : N -> bool) (tail : list N) : Prop := not_extending p tail.
Lemma ident_char_sep c : In c [32; 46; 58; 10; 44; 93; 123] -> ident_char c = false.
Proof. cbn. intros [<-|[<-|[<-|[<-|[<-|[<-|[<-|[]]]]]]]]; vm_compute; reflexivity. Qed.

(* ---- identifiers and references ------------------------------------------------------------------ *)
Definition id_item (i : token) : sitem := Tok (ctyp i) (lit i).

Lemma ctyp_ident i : ty i = IDENT -> ctyp i = IDENT \/ ctyp i = BOOL.
Proof. unfold ctyp. intros ->. destruct (is_tf (lit i)); auto. Qed.

Lemma render_id_item i : ty i = IDENT -> render_item (id_item i) = token_source i.
Proof.
  intros H. unfold id_item, render_item, token_source. cbn [ty lit]. rewrite H.
  destruct (ctyp_ident i H) as [-> | ->]; reflexivity.
Qed.

Lemma id_item_ok i tail : id_ok i -> not_extending ident_char tail -> items_ok [id_item i] tail.
Proof.
  intros [Hty Hlx] Ht. cbn. split; [exact Hlx|]. split; [|exact I].
  destruct (ctyp_ident i Hty) as [-> | ->]; exact Ht.
Qed.

Fixpoint ref_items (r : reference) : list sitem :=
  match r with
  | [] => []
  | [i] => [id_item i]
  | i :: rest => id_item i :: Tok DOT [46] :: ref_items rest
  end.

Lemma render_ref_items r : Forall id_ok r -> render_items (ref_items r) = reference_text r.
Proof.
  unfold reference_text. induction r as [|i rest IH]; intros H; [reflexivity|].
  inversion H as [|x l [Hty _] Hr]; subst. destruct rest as [|j rest'].
  - cbn [ref_items render_items flat_map map join_with]. rewrite render_id_item by exact Hty. apply app_nil_r.
  - change (ref_items (i :: j :: rest')) with (id_item i :: Tok DOT [46] :: ref_items (j :: rest')).
    cbn [render_items flat_map]. rewrite render_id_item by exact Hty.
    change (flat_map render_item (ref_items (j :: rest'))) with (render_items (ref_items (j :: rest'))).
    rewrite IH by exact Hr. reflexivity.
Qed.

Lemma ref_items_ok r tail : Forall id_ok r -> not_extending ident_char tail -> items_ok (ref_items r) tail.
Proof.
  induction r as [|i rest IH]; intros H Ht; [exact I|].
  inversion H as [|x l Hi Hr]; subst. destruct rest as [|j rest'].
  - apply id_item_ok; assumption.
  - change (ref_items (i :: j :: rest')) with ([id_item i] ++ Tok DOT [46] :: ref_items (j :: rest')).
    apply items_ok_app.
    + apply id_item_ok; [exact Hi|]. cbn. vm_compute. reflexivity.
    + cbn [items_ok]. split; [reflexivity|]. split; [exact I|]. apply IH; assumption.
Qed.

Lemma ref_items_ends r : r <> [] -> ends_with_tok (ref_items r) /\ ref_items r <> [].
Proof.
  induction r as [|i rest IH]; intros H; [congruence|]. destruct rest as [|j rest'].
  - split; [exact I|discriminate].
  - destruct (IH ltac:(discriminate)) as [A B]. split; [|discriminate].
    change (ref_items (i :: j :: rest')) with (id_item i :: Tok DOT [46] :: ref_items (j :: rest')).
    cbn [ends_with_tok]. destruct (ref_items (j :: rest')) eqn:E; [congruence|exact A].
Qed.

(* ---- values ------------------------------------------------------------------------------------- *)
Lemma value_ind' (Q : value -> Prop) :
  (forall t s e, Q (VTok t s e)) -> (forall vs s e, Forall Q vs -> Q (VArr vs s e)) -> forall v, Q v.
Proof.
  intros H1 H2. fix F 1. intros [t s e|vs s e]; [apply H1|]. apply H2.
  induction vs as [|x r IH]; constructor; [apply F|exact IH].
Qed.

Fixpoint sep_concat {A} (sep : list A) (ls : list (list A)) (first : bool) : list A :=
  match ls with
  | [] => []
  | x :: r => (if first then [] else sep) ++ x ++ sep_concat sep r false
  end.

Fixpoint value_items (v : value) : list sitem :=
  match v with
  | VTok t _ _ => [Tok (ctyp t) (lit t)]
  | VArr vs _ _ => Tok LBRACK [91] :: sep_concat [Tok COMMA [44]; Sp] (map value_items vs) true ++ [Tok RBRACK [93]]
  end.

Lemma value_text_arr vs s e :
  value_text (VArr vs s e) = 91 :: sep_concat [44; 32] (map value_text vs) true ++ [93].
Proof.
  cbn [value_text]. f_equal. f_equal. generalize true. induction vs as [|x r IH]; intros b; [reflexivity|].
  cbn [map sep_concat]. rewrite <- IH. reflexivity.
Qed.

Lemma vlit_ctyp t : is_vlit (ty t) = true -> ctyp t = ty t.
Proof. unfold ctyp. destruct (ty t); try discriminate; reflexivity. Qed.

Lemma render_value_items : forall v, vlx v -> render_items (value_items v) = value_text v.
Proof.
  apply (value_ind' (fun v => vlx v -> render_items (value_items v) = value_text v)).
  - intros t s e H. inversion H; subst. cbn. rewrite app_nil_r. unfold token_source. cbn [ty lit].
    rewrite (vlit_ctyp t) by assumption. reflexivity.
  - intros vs s e IH H. inversion H as [|vs0 s0 e0 Hvs]; subst. rewrite value_text_arr.
    cbn [value_items]. change (render_items (Tok LBRACK [91] :: ?x)) with (91 :: render_items x).
    cbn [render_items flat_map render_item token_source ty lit app]. f_equal.
    change (flat_map render_item ?x) with (render_items x). rewrite render_items_app. cbn. f_equal.
    clear H. generalize true. induction vs as [|x r IHr]; intros b; [reflexivity|].
    inversion IH as [|? ? Hx Hr]; subst. inversion Hvs as [|? ? [Hvx _] Hvr]; subst.
    cbn [map sep_concat]. rewrite !render_items_app. rewrite (Hx Hvx). rewrite (IHr Hr Hvr).
    destruct b; reflexivity.
Qed.

(* what may follow a value *)
Definition after_value_ok (v : value) (tail : list N) : Prop :=
  match v with
  | VTok t _ _ => sep_ok (ctyp t) tail
  | VArr _ _ _ => True
  end.

Lemma sep_ok_elem typ c rest : is_vlit typ = true -> ends_line_ty typ = false -> In c [44; 93] ->
  sep_ok typ (c :: rest).
Proof.
  intros Hv He Hc. assert (Hic : ident_char c = false) by (apply ident_char_sep; cbn in *; tauto).
  assert (Hd : is_digit c = false /\ c <> 46 /\ c <> 47).
  { cbn in Hc. destruct Hc as [<-|[<-|[]]]; repeat split; try (vm_compute; reflexivity); lia. }
  destruct typ; try discriminate; cbn; auto; try tauto.
  unfold not_starting. cbn. intros [= ->]. tauto.
Qed.

Lemma value_items_ok : forall v tail, vlx v -> after_value_ok v tail -> items_ok (value_items v) tail.
Proof.
  apply (value_ind' (fun v => forall tail, vlx v -> after_value_ok v tail -> items_ok (value_items v) tail)).
  - intros t s e tail H Ha. inversion H; subst. cbn. split; [assumption|]. split; [exact Ha|exact I].
  - intros vs s e IH tail H _. inversion H as [|vs0 s0 e0 Hvs]; subst. cbn [value_items items_ok].
    split; [reflexivity|]. split; [exact I|].
    apply items_ok_app; [|cbn; auto].
    change (render_items [Tok RBRACK [93]]) with [93]. cbn [app].
    (* every element is followed by a comma or by the closing bracket *)
    assert (Hgen : forall b nxt, In (hd 0 nxt) [44; 93] -> nxt <> [] ->
              items_ok (sep_concat [Tok COMMA [44]; Sp] (map value_items vs) b) nxt).
    { clear H. induction vs as [|x r IHr]; intros b nxt Hn Hne; [exact I|].
      inversion IH as [|? ? Hx Hr]; subst. inversion Hvs as [|? ? [Hvx Hex] Hvr]; subst.
      cbn [map sep_concat].
      assert (Hrest : forall nxt', nxt' = render_items (sep_concat [Tok COMMA [44]; Sp] (map value_items r) false) ++ nxt ->
                In (hd 0 nxt') [44; 93] /\ nxt' <> []).
      { intros nxt' ->. destruct r as [|y r']; cbn [map sep_concat render_items flat_map app].
        - split; assumption.
        - cbn. split; [left; reflexivity|discriminate]. }
      apply items_ok_app.
      - destruct b; cbn [items_ok]; [exact I|]. split; [reflexivity|]. split; [exact I|exact I].
      - apply items_ok_app.
        + apply Hx; [exact Hvx|]. destruct (Hrest _ eq_refl) as [Hin Hne'].
          destruct x as [t s0 e0|vs' s0 e0]; [|exact I]. cbn [after_value_ok].
          inversion Hvx; subst. rewrite (vlit_ctyp t) by assumption.
          destruct (render_items _ ++ nxt) as [|c rest] eqn:E; [congruence|].
          apply sep_ok_elem; [assumption|exact Hex|exact Hin].
        + apply IHr; assumption. }
    apply Hgen; [right; left; reflexivity|discriminate].
Qed.

(* ---- tags -------------------------------------------------------------------------------------- *)
Definition mark_items (t : tag) : list sitem :=
  match tmark t, tmark_tok t with
  | MarkNone, _ => []
  | _, Some mt => [Tok (ty mt) (lit mt); Sp]
  | _, None => [Sp]
  end.
Definition tag_items (t : tag) : list sitem :=
  mark_items t ++
  match tbody t with
  | TagRef r => ref_items r
  | TagVal (VTok tk _ _) => [Tok STRING (lit tk)]
  | TagVal (VArr _ _ _) => []
  end.

Lemma render_tag_items t : tlx t -> render_items (tag_items t) = tag_text t.
Proof.
  intros [Hm Hb]. unfold tag_items, tag_text, mark_items. rewrite render_items_app. f_equal.
  - unfold mark_ok in Hm. destruct (tmark t), (tmark_tok t) as [mt|]; try contradiction; try reflexivity;
      destruct Hm as [Hty Hl]; cbn; unfold token_source; cbn [ty lit]; rewrite Hty, app_nil_r; reflexivity.
  - destruct (tbody t) as [r|[tk s e|vs s e]]; [|cbn; rewrite app_nil_r; unfold token_source; cbn; rewrite Hb; reflexivity|contradiction].
    apply render_ref_items. apply Hb.
Qed.

Lemma tag_items_ok t tail : tlx t -> not_extending ident_char tail -> items_ok (tag_items t) tail.
Proof.
  intros [Hm Hb] Ht. unfold tag_items. apply items_ok_app.
  - unfold mark_items, mark_ok in *. destruct (tmark t), (tmark_tok t) as [mt|]; try contradiction; try exact I;
      destruct Hm as [Hty Hl]; cbn; rewrite Hty, Hl; (split; [reflexivity|split; exact I]).
  - destruct (tbody t) as [r|[tk s e|vs s e]]; [apply ref_items_ok; [apply Hb|exact Ht]| |exact I].
    cbn. auto.
Qed.

Lemma tag_items_ends t : tlx t -> ends_with_tok (tag_items t) /\ tag_items t <> [].
Proof.
  intros [Hm Hb]. unfold tag_items.
  assert (Hbody : let b := match tbody t with TagRef r => ref_items r | TagVal (VTok tk _ _) => [Tok STRING (lit tk)] | TagVal (VArr _ _ _) => [] end in
                  ends_with_tok b /\ b <> []).
  { destruct (tbody t) as [r|[tk s e|vs s e]]; cbn; [apply ref_items_ends; apply Hb|split; [exact I|discriminate]|contradiction]. }
  destruct Hbody as [A B]. split; [apply ends_with_tok_app; assumption|].
  intros H. apply app_eq_nil in H. destruct H as [_ H]. contradiction.
Qed.

(* ---- whole lines ------------------------------------------------------------------------------- *)
Definition comment_items (c : option comment) : list sitem :=
  match c with Some c => [Sp; Tok COMMENT (cvalue c)] | None => [] end.

Lemma render_comment_items c : render_items (comment_items c) = inline_comment c.
Proof. destruct c as [c|]; [|reflexivity]. cbn. rewrite app_nil_r. reflexivity. Qed.

Definition header_items (h : header) : list sitem :=
  ref_items (htype h)
  ++ flat_map (fun t => Sp :: tag_items t) (htags h)
  ++ flat_map (fun t => Tok COLON [58] :: tag_items t) (hquals h)
  ++ (if hopen h then [Sp; Tok LBRACE [123]] else [])
  ++ (match hdesc h with
      | Some d => match dtoks d with [t] => [Sp; Tok DESCRIPTION (lit t)] | _ => [] end
      | None => []
      end)
  ++ comment_items (hcomment h).

Lemma flat_map_render {A} (f : A -> list sitem) (g : A -> list N) l :
  (forall x, In x l -> render_items (f x) = g x) -> render_items (flat_map f l) = flat_map g l.
Proof.
  induction l as [|x r IH]; intros H; [reflexivity|]. cbn [flat_map]. rewrite render_items_app.
  rewrite (H x (or_introl eq_refl)). f_equal. apply IH. intros y Hy. apply H. right. exact Hy.
Qed.

Lemma render_header_items h : hlx h ->
  render_items (header_items h) = header_text h ++ inline_comment (hcomment h).
Proof.
  intros (Hr & Htags & Hquals & Hc & Hd). unfold header_items, header_text.
  rewrite !render_items_app, <- !app_assoc.
  rewrite (render_ref_items (htype h)) by apply Hr. f_equal.
  rewrite (flat_map_render _ (fun t => sp ++ tag_text t)).
  2:{ intros t Ht. change (render_items (Sp :: tag_items t)) with (32 :: render_items (tag_items t)).
      rewrite render_tag_items; [reflexivity|]. rewrite Forall_forall in Htags. auto. }
  f_equal.
  rewrite (flat_map_render _ (fun t => 58 :: tag_text t)).
  2:{ intros t Ht. change (render_items (Tok COLON [58] :: tag_items t)) with (58 :: render_items (tag_items t)).
      rewrite render_tag_items; [reflexivity|]. rewrite Forall_forall in Hquals. auto. }
  f_equal. f_equal; [destruct (hopen h); reflexivity|].
  f_equal; [|apply render_comment_items].
  destruct (hdesc h) as [d|]; [|reflexivity]. destruct Hd as ((t & Ht & Hty & _) & _). rewrite Ht.
  cbn. rewrite !app_nil_r. unfold token_source. rewrite Hty. reflexivity.
Qed.

(* what a line may be followed by: the newline that ends it *)
Lemma nl_not_ident tail : not_extending ident_char (10 :: tail).
Proof. cbn. vm_compute. reflexivity. Qed.

Lemma comment_items_ok c tail : comment_lx c -> items_ok (comment_items c) (10 :: tail).
Proof.
  destruct c as [c|]; [|intros; exact I]. cbn. intros H. split; [exact H|]. split; [|exact I].
  right. reflexivity.
Qed.

Lemma render_starts_sp (r : list sitem) tail : not_extending ident_char (render_items (Sp :: r) ++ tail).
Proof. cbn. vm_compute. reflexivity. Qed.

Lemma flat_map_items_ok (f : tag -> list sitem) (l : list tag) tail :
  (forall t tl, tlx t -> not_extending ident_char tl -> items_ok (f t) tl) ->
  (forall t r, not_extending ident_char (render_items (f t) ++ r)) ->
  Forall tlx l -> not_extending ident_char tail -> items_ok (flat_map f l) tail.
Proof.
  intros Hf Hstart. induction l as [|t r IH]; intros Hl Ht; [exact I|].
  inversion Hl; subst. cbn [flat_map]. apply items_ok_app; [|apply IH; assumption].
  apply Hf; [assumption|]. destruct r as [|t2 r2]; [cbn; exact Ht|].
  cbn [flat_map]. rewrite render_items_app, <- app_assoc. apply Hstart.
Qed.

Lemma header_items_ok h tail : hlx h -> items_ok (header_items h) (10 :: tail).
Proof.
  intros (Hr & Htags & Hquals & Hc & Hd). unfold header_items.
  (* everything after the type starts with a space, a colon or the final newline *)
  assert (Hne : forall (parts : list sitem), (parts = [] \/ exists x, In (hd 0 x) [32; 58; 10] /\ x <> [] /\ render_items parts ++ 10 :: tail = x) ->
                 not_extending ident_char (render_items parts ++ 10 :: tail)).
  { intros parts [->|(x & Hin & Hx & ->)]; [apply nl_not_ident|].
    destruct x as [|c0 x']; [congruence|]. cbn. apply ident_char_sep. cbn in Hin. cbn. tauto. }
  set (T := flat_map (fun t => Sp :: tag_items t) (htags h)).
  set (Q := flat_map (fun t => Tok COLON [58] :: tag_items t) (hquals h)).
  set (O := if hopen h then [Sp; Tok LBRACE [123]] else []).
  set (D := match hdesc h with Some d => match dtoks d with [t] => [Sp; Tok DESCRIPTION (lit t)] | _ => [] end | None => [] end).
  set (C := comment_items (hcomment h)).
  assert (HC : items_ok C (10 :: tail)) by (apply comment_items_ok; exact Hc).
  assert (HsC : not_extending ident_char (render_items C ++ 10 :: tail)).
  { subst C. destruct (hcomment h); [apply render_starts_sp|apply nl_not_ident]. }
  assert (HD : items_ok (D ++ C) (10 :: tail) /\ not_extending ident_char (render_items (D ++ C) ++ 10 :: tail)).
  { subst D. destruct (hdesc h) as [d|]; [|split; [exact HC|exact HsC]].
    destruct Hd as ((t & Ht & Hty & Hlx) & _ & Hcn & _). rewrite Ht. subst C. rewrite Hcn. cbn [comment_items app].
    split; [|apply render_starts_sp]. cbn [items_ok]. unfold tok_lx, ctyp in Hlx. rewrite Hty in Hlx.
    split; [exact Hlx|]. split; [|exact I]. right. reflexivity. }
  destruct HD as [HD HsD].
  assert (HO : items_ok (O ++ D ++ C) (10 :: tail) /\ not_extending ident_char (render_items (O ++ D ++ C) ++ 10 :: tail)).
  { subst O. destruct (hopen h); [|split; assumption]. split; [|apply render_starts_sp].
    cbn [app items_ok]. split; [reflexivity|]. split; [exact I|exact HD]. }
  destruct HO as [HO HsO].
  assert (HQ : items_ok (Q ++ O ++ D ++ C) (10 :: tail) /\ not_extending ident_char (render_items (Q ++ O ++ D ++ C) ++ 10 :: tail)).
  { split.
    - apply items_ok_app; [|exact HO]. subst Q.
      apply flat_map_items_ok; [| |exact Hquals|exact HsO].
      + intros t tl Ht Htl. cbn [items_ok]. split; [reflexivity|]. split; [exact I|]. apply tag_items_ok; assumption.
      + intros t r. cbn. vm_compute. reflexivity.
    - subst Q. destruct (hquals h) as [|q qs]; [exact HsO|]. cbn. vm_compute. reflexivity. }
  destruct HQ as [HQ HsQ].
  assert (HT : items_ok (T ++ Q ++ O ++ D ++ C) (10 :: tail) /\ not_extending ident_char (render_items (T ++ Q ++ O ++ D ++ C) ++ 10 :: tail)).
  { split.
    - apply items_ok_app; [|exact HQ]. subst T.
      apply flat_map_items_ok; [| |exact Htags|exact HsQ].
      + intros t tl Ht Htl. cbn [items_ok]. apply tag_items_ok; assumption.
      + intros t r. apply render_starts_sp.
    - subst T. destruct (htags h) as [|q qs]; [exact HsQ|]. cbn. vm_compute. reflexivity. }
  destruct HT as [HT HsT].
  apply items_ok_app; [|exact HT]. apply ref_items_ok; [apply Hr|exact HsT].
Qed.

Lemma header_items_ends h : hlx h -> ends_with_tok (header_items h) /\ header_items h <> [].
Proof.
  intros (Hr & Htags & Hquals & Hc & Hd). unfold header_items.
  destruct (ref_items_ends (htype h) (proj1 Hr)) as [A B].
  split; [|intros H; apply app_eq_nil in H; destruct H as [H _]; contradiction].
  (* the list ends with its last non-empty part *)
  assert (Hgen : forall (pre : list sitem) (parts : list (list sitem)),
            ends_with_tok pre -> pre <> [] -> Forall (fun p => p = [] \/ (ends_with_tok p /\ p <> [])) parts ->
            ends_with_tok (pre ++ concat parts)).
  { intros pre parts. revert pre. induction parts as [|p ps IHp]; intros pre He Hne Hf; [cbn; rewrite app_nil_r; exact He|].
    inversion Hf as [|? ? Hp Hps]; subst. cbn [concat]. destruct Hp as [->|[Hpe Hpn]]; [cbn; apply IHp; assumption|].
    rewrite app_assoc. apply IHp; [apply ends_with_tok_app; assumption| |exact Hps].
    intros H. apply app_eq_nil in H. destruct H; contradiction. }
  assert (Hfm : forall (f : tag -> list sitem) l, (forall t, tlx t -> ends_with_tok (f t) /\ f t <> []) -> Forall tlx l ->
            flat_map f l = [] \/ (ends_with_tok (flat_map f l) /\ flat_map f l <> [])).
  { intros f l Hf. induction l as [|t r IHl]; intros Hl; [left; reflexivity|]. inversion Hl; subst. right. cbn [flat_map].
    destruct (Hf t H1) as [E1 E2]. destruct (IHl H2) as [->|[E3 E4]].
    - rewrite app_nil_r. auto.
    - split; [apply ends_with_tok_app; assumption|]. intros H. apply app_eq_nil in H. destruct H; contradiction. }
  specialize (Hgen (ref_items (htype h))
    [flat_map (fun t => Sp :: tag_items t) (htags h);
     flat_map (fun t => Tok COLON [58] :: tag_items t) (hquals h);
     (if hopen h then [Sp; Tok LBRACE [123]] else []);
     (match hdesc h with Some d => match dtoks d with [t] => [Sp; Tok DESCRIPTION (lit t)] | _ => [] end | None => [] end);
     comment_items (hcomment h)] A B).
  cbn [concat] in Hgen. rewrite app_nil_r in Hgen. apply Hgen.
  apply Forall_cons; [|apply Forall_cons; [|apply Forall_cons; [|apply Forall_cons; [|apply Forall_cons; [|apply Forall_nil]]]]].
  - apply Hfm; [|exact Htags]. intros t Ht. destruct (tag_items_ends t Ht) as [E1 E2].
    split; [|discriminate]. change (Sp :: tag_items t) with ([Sp] ++ tag_items t). apply ends_with_tok_app; assumption.
  - apply Hfm; [|exact Hquals]. intros t Ht. destruct (tag_items_ends t Ht) as [E1 E2].
    split; [|discriminate]. change (Tok COLON [58] :: tag_items t) with ([Tok COLON [58]] ++ tag_items t). apply ends_with_tok_app; assumption.
  - destruct (hopen h); [right; split; [exact I|discriminate]|left; reflexivity].
  - destruct (hdesc h) as [d|]; [|left; reflexivity]. destruct (dtoks d) as [|t [|t2 r]]; auto. right. split; [exact I|discriminate].
  - destruct (hcomment h); [right; split; [exact I|discriminate]|left; reflexivity].
Qed.

(* ---- assignments ----------------------------------------------------------------------------- *)
Definition assign_items (a : assign) : list sitem :=
  ref_items (akey a)
  ++ (if aappend a then [Sp; Tok PLUS [43]; Tok ASSIGN [61]; Sp] else [Sp; Tok ASSIGN [61]; Sp])
  ++ value_items (avalue a)
  ++ comment_items (acomment a).

Lemma render_assign_items a : alx a ->
  render_items (assign_items a) = assign_text a ++ inline_comment (acomment a).
Proof.
  intros (Hr & Hv & Hc & _). unfold assign_items, assign_text. rewrite !render_items_app, <- !app_assoc.
  rewrite (render_ref_items (akey a)) by apply Hr. f_equal. f_equal; [destruct (aappend a); reflexivity|].
  rewrite render_value_items by exact Hv. f_equal. apply render_comment_items.
Qed.

Lemma value_items_ends v : vlx v -> ends_with_tok (value_items v) /\ value_items v <> [].
Proof.
  intros H. destruct v as [t s e|vs s e]; [split; [exact I|discriminate]|]. split; [|discriminate].
  cbn [value_items]. change (Tok LBRACK [91] :: ?x ++ [Tok RBRACK [93]]) with ((Tok LBRACK [91] :: x) ++ [Tok RBRACK [93]]).
  apply ends_with_tok_app; [discriminate|exact I].
Qed.

Ltac sep_tac := cbn; auto;
  try (unfold not_starting; cbn; congruence);
  try (split; [vm_compute; reflexivity|lia]);
  try (vm_compute; reflexivity);
  try (right; reflexivity).

Lemma sep_ok_after_value typ tail : is_vlit typ = true -> ends_line_ty typ = false -> sep_ok typ (32 :: tail).
Proof. intros Hv He. destruct typ; try discriminate; sep_tac. Qed.
Lemma sep_ok_at_nl typ tail : is_vlit typ = true -> sep_ok typ (10 :: tail).
Proof. intros Hv. destruct typ; try discriminate; sep_tac. Qed.

Lemma assign_items_ok a tail : alx a -> items_ok (assign_items a) (10 :: tail).
Proof.
  intros (Hr & Hv & Hc & He & _). unfold assign_items.
  apply items_ok_app; [apply ref_items_ok; [apply Hr|]; destruct (aappend a); cbn; vm_compute; reflexivity|].
  apply items_ok_app; [destruct (aappend a); cbn; repeat split; reflexivity|].
  apply items_ok_app; [|apply comment_items_ok; exact Hc].
  apply value_items_ok; [exact Hv|].
  destruct (avalue a) as [t s e|vs s e]; [|exact I]. cbn [after_value_ok].
  inversion Hv; subst. rewrite (vlit_ctyp t) by assumption.
  destruct (acomment a) as [c|] eqn:Ec.
  - cbn [comment_items render_items flat_map render_item app].
    destruct (ends_line_ty (ty t)) eqn:El; [specialize (He El); discriminate|].
    apply sep_ok_after_value; assumption.
  - cbn. apply sep_ok_at_nl. assumption.
Qed.

Lemma assign_items_ends a : alx a -> ends_with_tok (assign_items a) /\ assign_items a <> [].
Proof.
  intros (Hr & Hv & Hc & He & _). unfold assign_items.
  destruct (ref_items_ends (akey a) (proj1 Hr)) as [A B].
  split; [|intros H; apply app_eq_nil in H; destruct H as [H _]; contradiction].
  destruct (value_items_ends (avalue a) Hv) as [V1 V2].
  apply ends_with_tok_app; [destruct (aappend a); discriminate|].
  apply ends_with_tok_app; [intros H; apply app_eq_nil in H; destruct H; contradiction|].
  destruct (acomment a); cbn [comment_items]; [apply ends_with_tok_app; [discriminate|exact I]|rewrite app_nil_r; exact V1].
Qed.

(* ---- a rendered line: leading tabs, the items, the newline --------------------------------------- *)
Lemma lex_run_tabs : forall n s toks s' r, rest s = tabs n ++ r -> toks <> [] ->
  (forall s0, rest s0 = r -> lex_run s0 toks s') -> lex_run s toks s'.
Proof.
  induction n as [|n IH]; intros s toks s' r Hr Hne H; [apply H; exact Hr|].
  cbn [tabs repeat app] in Hr. destruct (next_cons s _ _ Hr) as [_ Hn].
  apply (lex_run_skip s 9 (tabs n ++ r)); [exact Hr|vm_compute; reflexivity|lia|exact Hne|].
  apply (IH (next s) toks s' r Hn Hne H).
Qed.

Theorem line_relex items n REST s :
  items_ok items (10 :: REST) -> ends_with_tok items -> items <> [] ->
  rest s = tabs n ++ render_items items ++ 10 :: REST ->
  exists s', lex_run s (item_toks items ++ [(EOL, [10])]) s' /\ rest s' = REST.
Proof.
  intros Hok He Hne Hr.
  assert (Hrun : forall s0, rest s0 = render_items items ++ 10 :: REST ->
            exists s', lex_run s0 (item_toks items ++ [(EOL, [10])]) s' /\ rest s' = REST).
  { intros s0 H0. destruct (items_relex items (10 :: REST) s0 Hok He H0) as (s1 & Hrun & Hs1).
    destruct (relex_eol REST s1 Hs1) as (st & en & s2 & E & Hs2).
    exists s2. split; [|exact Hs2]. eapply lex_run_app; [exact Hrun|].
    change (EOL, [10]) with (etok (mkTok EOL [10] st en)). econstructor; [exact E|constructor]. }
  (* the run does not depend on the state the tabs are skipped from: take the one after the tabs *)
  revert s Hr. induction n as [|n IH]; intros s Hr; [apply Hrun; exact Hr|].
  cbn [tabs repeat app] in Hr. destruct (next_cons s _ _ Hr) as [_ Hn].
  destruct (IH (next s) Hn) as (s' & Hrun' & Hs'). exists s'. split; [|exact Hs'].
  apply (lex_run_skip s 9 (tabs n ++ render_items items ++ 10 :: REST)); [exact Hr|vm_compute; reflexivity|lia| |exact Hrun'].
  destruct (item_toks items); discriminate.
Qed.

(* the lines of the four single-line fragment kinds *)
Definition frag_items (f : fragment) : list sitem :=
  match f with
  | FHeader h => header_items h
  | FAssign a => assign_items a
  | FComment t => [Tok (ty t) (lit t)]
  | FClose t => [Tok RBRACE [125]]
  | FDesc _ => []
  end.

Definition frag_line_text (f : fragment) : list N :=
  match f with
  | FHeader h => header_text h ++ inline_comment (hcomment h)
  | FAssign a => assign_text a ++ inline_comment (acomment a)
  | FComment t => token_source t
  | FClose t => token_source t
  | FDesc _ => []
  end.

Theorem fragment_line_relex f n REST s :
  frag_lx f -> (forall d, f <> FDesc d) ->
  rest s = tabs n ++ frag_line_text f ++ 10 :: REST ->
  exists s', lex_run s (item_toks (frag_items f) ++ [(EOL, [10])]) s' /\ rest s' = REST.
Proof.
  intros Hlx Hnd Hr. destruct f as [h|a|d|t|t]; cbn [frag_lx frag_items frag_line_text] in *.
  - destruct (header_items_ends h Hlx) as [A B].
    apply (line_relex (header_items h) n REST s (header_items_ok h REST Hlx) A B).
    rewrite render_header_items by exact Hlx. exact Hr.
  - destruct (assign_items_ends a Hlx) as [A B].
    apply (line_relex (assign_items a) n REST s (assign_items_ok a REST Hlx) A B).
    rewrite render_assign_items by exact Hlx. exact Hr.
  - exfalso. apply (Hnd d). reflexivity.
  - destruct Hlx as [Hty Hlx]. apply (line_relex [Tok (ty t) (lit t)] n REST s); [|exact I|discriminate|].
    + cbn. unfold tok_lx, ctyp in Hlx. destruct Hty as [Hty|Hty]; rewrite Hty in *; (split; [exact Hlx|]); split; try exact I.
      right. reflexivity.
    + cbn [render_items flat_map render_item]. rewrite app_nil_r.
      replace (token_source (mkTok (ty t) (lit t) pos0 pos0)) with (token_source t) by reflexivity. exact Hr.
  - destruct Hlx as [Hty Hl]. apply (line_relex [Tok RBRACE [125]] n REST s); [|exact I|discriminate|].
    + cbn. repeat split; reflexivity.
    + cbn [render_items flat_map render_item]. rewrite app_nil_r.
      replace (token_source (mkTok RBRACE [125] pos0 pos0)) with (token_source t); [exact Hr|].
      unfold token_source. rewrite Hty, Hl. reflexivity.
Qed.

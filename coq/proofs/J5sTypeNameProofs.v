(* J5sTypeNameProofs.v — the type every field of a compiled main file names is the declared one
   (J5sTypeNames): scalars their well-known type, references the declaration they resolve to,
   inline types the type nested under the message of the field, map fields their entry, entry
   values the item type - for every field at every depth, after the link step. *)
From Coq Require Import String List NArith Bool Lia.
From J5V.lib Require Import Outcome Corr.
From J5V.model Require Import J5sAst Desc J5sWalk J5sLink J5sConvert J5sContract J5sValid J5sTypeNames.
From J5V.proofs Require Import J5sProofs J5sContractProofs J5sLinkProofs J5sResolveProofs J5sServiceProofs
  J5sTotalProofs J5sCompileProofs J5sLinkExtProofs J5sNamedProofs J5sC13Proofs J5sSubPkgProofs.
Import ListNotations.
Local Open Scope N_scope.

Lemma msg_ftypes_eq scope n k fs ms es :
  msg_ftypes scope (DMsg n k fs ms es) =
  map (fun f => (qual (qual scope n) (f_name f), f_tname f)) fs ++ flat_map (msg_ftypes (qual scope n)) ms.
Proof. reflexivity. Qed.

Lemma flat_map_map {A B C} (g : A -> B) (h : B -> list C) l : flat_map h (map g l) = flat_map (fun x => h (g x)) l.
Proof. induction l as [|x r IH]; cbn; [reflexivity|]. rewrite IH. reflexivity. Qed.

Definition good_path (path : list str) : Prop := exists c r rest, path = (c :: r) :: rest /\ c <> 46.
Definition nodots (l : list str) : Prop := forall x, In x l -> nodot_b x = true.

Lemma good_path_app path n : good_path path -> good_path (path ++ [n]).
Proof. intros (c & r & rest & -> & Hc). exists c, r, (rest ++ [n]). split; [reflexivity|exact Hc]. Qed.
Lemma good_path_ne path : good_path path -> path <> [].
Proof. intros (c & r & rest & -> & _). discriminate. Qed.

Lemma rel_name_good path n : good_path path -> rel_name (path ++ [n]) <> [] /\ hd 0 (rel_name (path ++ [n])) <> 46.
Proof.
  intros (c & r & rest & -> & Hc). unfold rel_name. destruct rest as [|y l]; cbn; split; try discriminate; exact Hc.
Qed.

Lemma nodot_hd s : nodot_b s = true -> s <> [] -> hd 0 s <> 46.
Proof.
  destruct s as [|c r]; [contradiction|]. cbn. intros H _. apply andb_true_iff in H. destruct H as [H _].
  apply negb_true_iff in H. apply N.eqb_neq. exact H.
Qed.

Section TN.
Variables snake camel screaming : str -> str.
Hypothesis Hcamel : forall s, nodot_b (camel s) = true.
Hypothesis Hsnake : forall s, nodot_b (snake s) = true.
Variable ev : env.
Hypothesis Henv : forall r t, resolve ev r = Ok t -> tr_pkg t <> [].
Variable pkg : str.

Notation cv_item := (cv_item snake camel screaming).
Notation cv_props := (cv_props snake camel screaming).
Notation cv_property := (cv_property snake camel screaming).
Notation cv_nested := (cv_nested snake camel screaming).
Notation cv_nesteds := (cv_nesteds snake camel screaming).
Notation wf_item := (wf_item snake camel).
Notation wf_props := (wf_props snake camel).
Notation wf_property := (wf_property snake camel).
Notation wf_nested := (wf_nested snake camel).
Notation wf_nesteds := (wf_nesteds snake camel).
Notation item_tname := (item_tname camel ev pkg).
Notation prop_tname := (prop_tname snake camel ev pkg).
Notation field_types := (field_types snake camel ev pkg).
Notation item_ftypes := (item_ftypes snake camel ev pkg).
Notation props_ftypes := (props_ftypes snake camel ev pkg).
Notation property_ftypes := (property_ftypes snake camel ev pkg).
Notation nested_ftypes := (nested_ftypes snake camel ev pkg).
Notation nesteds_ftypes := (nesteds_ftypes snake camel ev pkg).

(* what the link step makes of a field, and of a nested message *)
Definition lkf (nested : list str) (path : list str) (scope : str) (f : dfield) : str * str :=
  (qual scope (f_name f), link_name nested pkg path (f_tname f)).
Definition lkm (path : list str) (scope : str) (m : dmsg) : list (str * str) :=
  msg_ftypes scope (link_msg pkg path m).

Lemma lkm_eq path scope n k fs ms es :
  lkm path scope (DMsg n k fs ms es) =
  map (lkf (map dm_name ms) (path ++ [n]) (qual scope n)) fs ++ flat_map (lkm (path ++ [n]) (qual scope n)) ms.
Proof.
  unfold lkm. rewrite link_msg_eq, msg_ftypes_eq, map_map, flat_map_map. reflexivity.
Qed.

Lemma link_inline nested sc path n :
  good_path path -> nodots nested -> link_name nested pkg sc (rel_name (path ++ [n])) = abs_name pkg (path ++ [n]).
Proof.
  intros Hg Hn. destruct (rel_name_good path n Hg) as [H1 H2]. apply link_name_inline; [exact H1|exact H2|].
  intros Hin. pose proof (Hn _ Hin) as Hnd. apply nodot_no_dot in Hnd.
  rewrite (has_dot_rel path n (good_path_ne _ Hg)) in Hnd. discriminate.
Qed.

Lemma link_dotted nested sc tn : hd 0 tn = 46 -> link_name nested pkg sc tn = tn.
Proof. destruct tn as [|c r]; cbn; [discriminate|]. intros ->. reflexivity. Qed.

Lemma scalar_link nested sc s : link_name nested pkg sc (fc_tname (scalar_core s)) = scalar_tname s.
Proof. destruct s as [| | |[]|[]| | | |[]|]; reflexivity. Qed.

Lemma ref_link nested sc r we c : ref_core ev r we = Ok c -> link_name nested pkg sc (fc_tname c) = ref_tname ev r.
Proof.
  unfold ref_core. intros H. inv_ok H. pose proof (Henv _ _ E) as Hp. unfold ref_tname. rewrite E.
  assert (Ht : fc_tname c = tr_tname a).
  { destruct we; destruct (tr_enum a); try discriminate; inversion H; reflexivity. }
  rewrite Ht. unfold tr_tname. destruct (tr_pkg a) as [|p0 pr] eqn:Ep; [contradiction|]. apply link_dotted. reflexivity.
Qed.

Definition item_tn0 (f : field) : Prop :=
  wf_item ev f = true -> forall path pn c scope, good_path path ->
    cv_item ev path (camel pn) f = Ok c ->
    (forall nested sc, nodots nested -> link_name nested pkg sc (fc_tname c) = item_tname path pn f) /\
    flat_map (lkm path scope) (fc_msgs c) = item_ftypes scope path pn f.
Definition item_tn (f : field) : Prop :=
  item_tn0 f /\ match f with FArray it | FMap it => item_tn0 it | _ => True end.
Definition props_tn (ps : props) : Prop :=
  forall io, wf_props ev io ps = true -> forall path n r scope nested,
    good_path path -> nodots nested -> incl (map dm_name (pr_msgs r)) nested ->
    cv_props ev path io n ps = Ok r ->
    map (lkf nested path scope) (pr_fields r) = field_types scope path (props_list ps) /\
    flat_map (lkm path scope) (pr_msgs r) = props_ftypes scope path ps.
Definition property_tn (p : property) : Prop :=
  forall io, wf_property ev io p = true -> forall path n r scope nested,
    good_path path -> nodots nested -> incl (map dm_name (pr_msgs r)) nested ->
    cv_property ev path io n p = Ok r ->
    map (lkf nested path scope) (pr_fields r) = field_types scope path [p] /\
    flat_map (lkm path scope) (pr_msgs r) = property_ftypes scope path p.

Lemma pieces_nodots r : fields_named r -> nodots (map dm_name (pr_msgs r)).
Proof.
  intros [_ [_ Hn]] x Hx. apply in_map_iff in Hx. destruct Hx as (m & <- & Hm). apply Hn. exact Hm.
Qed.

Theorem convert_tnames :
  (forall f, item_tn f) /\ (forall ps, props_tn ps) /\ (forall p, property_tn p).
Proof.
  apply ast_mutind.
  - intros s. split; [|exact I]. intros _ path pn c scope _ H. cbn in H. inversion H. subst c.
    split; [intros nested sc _; apply scalar_link|]. destruct (scalar_core_msgs s) as [Hm _]. rewrite Hm. reflexivity.
  - intros r. split; [|exact I]. intros _ path pn c scope _ H. cbn in H.
    split; [intros nested sc _; eapply ref_link; exact H|]. apply ref_core_shape in H. destruct H as (_ & Hm & _). rewrite Hm. reflexivity.
  - intros nm ps IH. split; [|exact I]. intros Hw path pn c scope Hg H. cbn in Hw.
    apply andb_true_iff in Hw. destruct Hw as [Hw _]. apply andb_true_iff in Hw. destruct Hw as [Hn Hw].
    rewrite (cv_item_obj snake camel screaming) in H. inv_ok H. inversion H. subst c. clear H.
    cbn [fc_tname fc_msgs]. rewrite (inline_name_spec camel) in *.
    split; [intros nested sc Hnd; apply link_inline; assumption|].
    cbn [flat_map]. rewrite app_nil_r, lkm_eq.
    pose proof (props_named snake camel screaming Hcamel Hsnake ev Henv ps false Hw _ _ _ (good_path_ne _ (good_path_app _ _ Hg)) E) as Hr.
    destruct (IH false Hw _ _ _ (qual scope (inline_type_name camel pn nm)) (map dm_name (pr_msgs a))
                 (good_path_app _ _ Hg) (pieces_nodots _ Hr) (incl_refl _) E) as [A1 A2].
    rewrite A1, A2. reflexivity.
  - intros r. split; [|exact I]. intros _ path pn c scope _ H. cbn in H.
    split; [intros nested sc _; eapply ref_link; exact H|]. apply ref_core_shape in H. destruct H as (_ & Hm & _). rewrite Hm. reflexivity.
  - intros nm ps IH. split; [|exact I]. intros Hw path pn c scope Hg H. cbn in Hw.
    apply andb_true_iff in Hw. destruct Hw as [Hw _]. apply andb_true_iff in Hw. destruct Hw as [Hw _].
    apply andb_true_iff in Hw. destruct Hw as [Hn Hw].
    rewrite (cv_item_oneof snake camel screaming) in H. inv_ok H. inversion H. subst c. clear H.
    cbn [fc_tname fc_msgs]. rewrite (inline_name_spec camel) in *.
    split; [intros nested sc Hnd; apply link_inline; assumption|].
    cbn [flat_map]. rewrite app_nil_r, lkm_eq.
    pose proof (props_named snake camel screaming Hcamel Hsnake ev Henv ps true Hw _ _ _ (good_path_ne _ (good_path_app _ _ Hg)) E) as Hr.
    destruct (IH true Hw _ _ _ (qual scope (inline_type_name camel pn nm)) (map dm_name (pr_msgs a))
                 (good_path_app _ _ Hg) (pieces_nodots _ Hr) (incl_refl _) E) as [A1 A2].
    rewrite A1, A2. reflexivity.
  - intros r. split; [|exact I]. intros _ path pn c scope _ H. cbn in H.
    split; [intros nested sc _; eapply ref_link; exact H|]. apply ref_core_shape in H. destruct H as (_ & Hm & _). rewrite Hm. reflexivity.
  - intros e. split; [|exact I]. intros _ path pn c scope Hg H. cbn [J5sConvert.cv_item] in H. inversion H. subst c. clear H.
    cbn [fc_tname fc_msgs]. rewrite (inline_name_spec camel).
    split; [intros nested sc Hnd; apply link_inline; assumption|reflexivity].
  - intros it [IH _]. split; [|exact IH]. intros Hw. cbn in Hw. discriminate.
  - intros it [IH _]. split; [|exact IH]. intros Hw. cbn in Hw. discriminate.
  - intros io _ path n r scope nested _ _ _ H. cbn in H. inversion H. subst r. split; reflexivity.
  - intros p IHp ps IHps io Hw path n r scope nested Hg Hnd Hi H. cbn in Hw. apply andb_true_iff in Hw. destruct Hw as [H1 H2].
    rewrite (cv_props_cons snake camel screaming) in H. inv_ok H. inversion H. subst r. clear H.
    cbn [pres_app pr_fields pr_msgs] in *. rewrite map_app in Hi.
    destruct (IHp io H1 _ _ _ scope nested Hg Hnd (fun x Hx => Hi x (in_or_app _ _ _ (or_introl Hx))) E) as [A1 A2].
    destruct (IHps io H2 _ _ _ scope nested Hg Hnd (fun x Hx => Hi x (in_or_app _ _ _ (or_intror Hx))) E0) as [B1 B2].
    rewrite map_app, flat_map_app, A1, A2, B1, B2. split; reflexivity.
  - intros n rq op f [IH IHit] io Hw path num r scope nested Hg Hnd Hi H. cbn in Hw.
    apply andb_true_iff in Hw. destruct Hw as [Hw Hwf]. rewrite (cv_property_eq snake camel screaming) in H.
    destruct f as [s|rf|nm ps|rf|nm ps|rf|e|it|it].
    1-7: inv_ok H; apply finish_inv in H; destruct H as (Hf & Hm & He);
         destruct (IH Hwf _ _ _ scope Hg E) as [Ht Hms]; rewrite Hf, Hm;
         (split; [cbn [map]; unfold lkf; cbn [f_name f_tname]; rewrite (Ht nested path Hnd); reflexivity|exact Hms]).
    + inv_ok H. apply finish_inv in H. destruct H as (Hf & Hm & He).
      destruct (IHit Hwf _ _ _ scope Hg E) as [Ht Hms]. rewrite Hf, Hm.
      split; [cbn [map]; unfold lkf; cbn [f_name f_tname]; rewrite (Ht nested path Hnd); reflexivity|exact Hms].
    + inv_ok H. destruct io; [discriminate|]. apply finish_inv in H. destruct H as (Hf & Hm & He).
      destruct (IHit Hwf _ _ _ scope Hg E) as [Ht Hms]. rewrite Hf, Hm in *.
      assert (Hen : nodot_b (map_name (snake n)) = true) by (apply map_name_nodot; apply Hsnake).
      assert (Hne : map_name (snake n) <> []) by (unfold map_name; destruct (map_name_go (snake n) true); discriminate).
      split.
      * cbn [map]. unfold lkf. cbn [f_name f_tname].
        rewrite (link_name_entry nested pkg path _ Hne (nodot_hd _ Hen Hne)).
        -- unfold J5sTypeNames.field_types. cbn [map prop_name J5sTypeNames.prop_tname]. rewrite (map_name_spec snake). reflexivity.
        -- apply Hi. rewrite map_app. apply in_or_app. right. left. reflexivity.
      * rewrite flat_map_app, Hms. cbn [flat_map]. rewrite app_nil_r, lkm_eq. cbn [map flat_map]. rewrite app_nil_r.
        unfold lkf. cbn [f_name f_tname key_field value_field].
        rewrite (Ht [] (path ++ [map_name (snake n)]) (fun x (Hx : In x []) => match Hx with end)).
        rewrite (map_name_spec snake). reflexivity.
Qed.


(* ---- declared objects / oneofs with their nested declarations *)
Definition okpath (path : list str) : Prop := forall nm, type_ident nm = true -> good_path (path ++ [nm]).

Lemma okpath_nil : okpath [].
Proof.
  intros nm H. destruct nm as [|c r]; [discriminate|]. exists c, r, []. split; [reflexivity|].
  cbn in H. apply andb_true_iff in H. destruct H as [H _]. intros ->. vm_compute in H. discriminate.
Qed.
Lemma okpath_good path : good_path path -> okpath path.
Proof. intros Hg nm _. apply good_path_app. exact Hg. Qed.

Lemma pieces_names ms : pieces_ok ms -> nodots (map dm_name ms).
Proof. intros [_ Hn] x Hx. apply in_map_iff in Hx. destruct Hx as (m & <- & Hm). apply Hn. exact Hm. Qed.

Lemma nodots_app a c : nodots a -> nodots c -> nodots (a ++ c).
Proof. intros Ha Hc x Hx. apply in_app_or in Hx. destruct Hx; auto. Qed.

Theorem nested_tnames :
  (forall n, wf_nested ev n = true -> forall path ms es is scope, okpath path ->
     cv_nested ev path n = Ok (ms, es, is) -> flat_map (lkm path scope) ms = nested_ftypes scope path n) /\
  (forall ns, wf_nesteds ev ns = true -> forall path ms es is scope, okpath path ->
     cv_nesteds ev path ns = Ok (ms, es, is) -> flat_map (lkm path scope) ms = nesteds_ftypes scope path ns).
Proof.
  destruct convert_tnames as (_ & Hprops & _).
  apply nested_mutind.
  - intros nm ps subs IH Hw path ms es is scope Hok H. cbn in Hw. repeat (apply andb_true_iff in Hw; destruct Hw as [Hw ?]).
    rewrite (cv_nested_obj snake camel screaming) in H. inv_ok H. destruct a0 as [[sm se] si]. inversion H. subst. clear H.
    assert (Hg : good_path (path ++ [nm])) by (apply Hok; assumption).
    pose proof (props_named snake camel screaming Hcamel Hsnake ev Henv ps false ltac:(assumption) _ _ _ (good_path_ne _ Hg) E) as Hr.
    pose proof (proj2 (nested_named snake camel screaming Hcamel Hsnake ev Henv) subs ltac:(assumption) _ _ _ _ E0) as Hs.
    cbn [flat_map]. rewrite app_nil_r, lkm_eq, flat_map_app, map_app.
    destruct (Hprops ps false ltac:(assumption) _ _ _ (qual scope nm) (map dm_name (pr_msgs a) ++ map dm_name sm) Hg
                (nodots_app _ _ (pieces_nodots _ Hr) (pieces_names _ Hs)) (incl_appl _ (incl_refl _)) E) as [A1 A2].
    rewrite A1, A2, (IH ltac:(assumption) _ _ _ _ (qual scope nm) (okpath_good _ Hg) E0). reflexivity.
  - intros nm ps subs IH Hw path ms es is scope Hok H. cbn in Hw. repeat (apply andb_true_iff in Hw; destruct Hw as [Hw ?]).
    rewrite (cv_nested_oneof snake camel screaming) in H. inv_ok H. destruct a0 as [[sm se] si]. inversion H. subst. clear H.
    assert (Hg : good_path (path ++ [nm])) by (apply Hok; assumption).
    pose proof (props_named snake camel screaming Hcamel Hsnake ev Henv ps true ltac:(assumption) _ _ _ (good_path_ne _ Hg) E) as Hr.
    pose proof (proj2 (nested_named snake camel screaming Hcamel Hsnake ev Henv) subs ltac:(assumption) _ _ _ _ E0) as Hs.
    cbn [flat_map]. rewrite app_nil_r, lkm_eq, flat_map_app, map_app.
    destruct (Hprops ps true ltac:(assumption) _ _ _ (qual scope nm) (map dm_name (pr_msgs a) ++ map dm_name sm) Hg
                (nodots_app _ _ (pieces_nodots _ Hr) (pieces_names _ Hs)) (incl_appl _ (incl_refl _)) E) as [A1 A2].
    rewrite A1, A2, (IH ltac:(assumption) _ _ _ _ (qual scope nm) (okpath_good _ Hg) E0). reflexivity.
  - intros e _ path ms es is scope _ H. cbn in H. inversion H. subst. reflexivity.
  - intros _ path ms es is scope _ H. cbn in H. inversion H. subst. reflexivity.
  - intros n IHn r IHr Hw path ms es is scope Hok H. cbn in Hw. apply andb_true_iff in Hw. destruct Hw as [H1 H2].
    rewrite (cv_nesteds_cons snake camel screaming) in H. inv_ok H.
    destruct a as [[am ae] ai]. destruct a0 as [[cm ce] ci]. inversion H. subst. clear H.
    rewrite flat_map_app, (IHn H1 _ _ _ _ scope Hok E), (IHr H2 _ _ _ _ scope Hok E0). reflexivity.
Qed.

(* ---- the main file of a source file *)
Notation cv_elements := (cv_elements snake camel screaming).
Notation elem_ftypes := (elem_ftypes snake camel ev pkg).

Lemma cv_elements_tnames els : forall m s t m' s' t',
  forallb (wf_element snake camel ev) els = true ->
  cv_elements ev pkg els m s t = Ok (m', s', t') ->
  flat_map (lkm [] pkg) (fa_msgs m') = flat_map (lkm [] pkg) (fa_msgs m) ++ flat_map elem_ftypes els.
Proof.
  induction els as [|e r IH]; intros m s t m' s' t' Hw H; cbn [forallb J5sConvert.cv_elements] in Hw, H.
  - inversion H. subst. cbn. rewrite app_nil_r. reflexivity.
  - apply andb_true_iff in Hw. destruct Hw as [Hw1 Hw2]. destruct e as [nm ps subs|nm ps subs|en|sv|tp]; cbn [flat_map].
    + apply obind_ok in H. destruct H as ([[ms es] is] & E & H). cbn [wf_element] in Hw1.
      rewrite (IH _ _ _ _ _ _ Hw2 H). cbn [facc_add fa_msgs]. rewrite flat_map_app, <- app_assoc.
      rewrite (proj1 nested_tnames _ Hw1 _ _ _ _ pkg okpath_nil E). reflexivity.
    + apply obind_ok in H. destruct H as ([[ms es] is] & E & H). cbn [wf_element] in Hw1.
      rewrite (IH _ _ _ _ _ _ Hw2 H). cbn [facc_add fa_msgs]. rewrite flat_map_app, <- app_assoc.
      rewrite (proj1 nested_tnames _ Hw1 _ _ _ _ pkg okpath_nil E). reflexivity.
    + rewrite (IH _ _ _ _ _ _ Hw2 H). cbn [facc_add fa_msgs J5sTypeNames.elem_ftypes app]. rewrite app_nil_r. reflexivity.
    + apply obind_ok in H. destruct H as ([[ms ss] is] & E & H). rewrite (IH _ _ _ _ _ _ Hw2 H). reflexivity.
    + apply obind_ok in H. destruct H as ([[ms ss] is] & E & H). rewrite (IH _ _ _ _ _ _ Hw2 H). reflexivity.
Qed.

End TN.

(* ------------------------------------------------------------------ requests, responses, topic messages *)
Section TNSub.
Variables snake camel screaming : str -> str.
Hypothesis Hcamel : forall s, nodot_b (camel s) = true.
Hypothesis Hsnake : forall s, nodot_b (snake s) = true.
Variable ev : env.
Hypothesis Henv : forall r t, resolve ev r = Ok t -> tr_pkg t <> [].
Variable pkg : str.    (* the sub-package *)

Notation cv_virtual := (cv_virtual snake camel screaming).
Notation cv_method := (cv_method snake camel screaming).
Notation cv_methods := (cv_methods snake camel screaming).
Notation cv_service := (cv_service snake camel screaming).
Notation cv_tmsgs := (cv_tmsgs snake camel screaming).
Notation accept_topic := (accept_topic snake camel screaming).
Notation cv_topic := (cv_topic snake camel screaming).
Notation virtual_ftypes := (virtual_ftypes snake camel ev pkg).
Notation method_ftypes := (method_ftypes snake camel ev pkg).
Notation service_ftypes := (service_ftypes snake camel ev pkg).
Notation tmsgs_ftypes := (tmsgs_ftypes snake camel ev pkg).
Notation topic_ftypes := (topic_ftypes snake camel ev pkg).
Notation lkr := (lkm pkg [] pkg).

Lemma good_single name : good_name name -> good_path [name].
Proof.
  intros [Hu _]. destruct name as [|c r]; [discriminate|]. exists c, r, []. split; [reflexivity|].
  cbn in Hu. intros ->. vm_compute in Hu. discriminate.
Qed.

Lemma virtual_tnames name virt decl m is :
  wf_virtual snake camel ev (papp virt decl) = true -> good_name name ->
  cv_virtual ev name virt decl = Ok (m, is) -> lkr m = virtual_ftypes name (papp virt decl).
Proof.
  unfold wf_virtual, J5sConvert.cv_virtual. intros Hw Hg H. apply andb_true_iff in Hw. destruct Hw as [Hw _].
  inv_ok H. inversion H. subst. clear H. rewrite lkm_eq. cbn [app].
  pose proof (props_named snake camel screaming Hcamel Hsnake ev Henv _ false Hw _ _ _ (good_path_ne _ (good_single _ Hg)) E) as Hr.
  destruct (proj1 (proj2 (convert_tnames snake camel screaming Hcamel Hsnake ev Henv pkg)) _ false Hw _ _ _ (qual pkg name)
              (map dm_name (pr_msgs a)) (good_single _ Hg) (pieces_nodots _ Hr) (incl_refl _) E) as [A1 A2].
  rewrite A1, A2. reflexivity.
Qed.

Lemma method_tnames base m ms dm is :
  wf_method snake camel ev base m = true -> cv_method ev base m = Ok (ms, dm, is) ->
  flat_map lkr ms = method_ftypes m.
Proof.
  unfold wf_method, J5sConvert.cv_method. intros Hw H. apply and4 in Hw. destruct Hw as (Hn & Hq & Hp & _).
  apply type_ident_facts in Hn.
  apply obind_ok in H. destruct H as ([rq rqi] & Erq & H).
  apply obind_ok in H. destruct H as ([[rmsgs outn] rimps] & Ers & H).
  apply obind_ok in H. destruct H as (h & _ & H). inversion H. subst ms dm is. clear H.
  unfold J5sTypeNames.method_ftypes. cbn [flat_map fst].
  rewrite (virtual_tnames _ PNil _ _ _ Hq (good_suffix _ (b "Request") Hn eq_refl) Erq). cbn [papp]. f_equal.
  destruct (m_response m) as [ps|].
  - apply obind_ok in Ers. destruct Ers as ([rs rsi] & Ev & Ers). inversion Ers. subst. cbn [flat_map fst].
    rewrite app_nil_r, (virtual_tnames _ PNil _ _ _ Hp (good_suffix _ (b "Response") Hn eq_refl) Ev). reflexivity.
  - inversion Ers. subst. reflexivity.
Qed.

Lemma methods_tnames base l : forall ms ds is,
  forallb (wf_method snake camel ev base) l = true -> cv_methods ev base l = Ok (ms, ds, is) ->
  flat_map lkr ms = flat_map method_ftypes l.
Proof.
  induction l as [|m r IH]; intros ms ds is Hw H; cbn [forallb J5sConvert.cv_methods] in Hw, H.
  - inversion H. reflexivity.
  - apply andb_true_iff in Hw. destruct Hw as [H1 H2].
    apply obind_ok in H. destruct H as ([[am ad] ai] & Ea & H).
    apply obind_ok in H. destruct H as ([[cm cd] ci] & Ec & H). inversion H. subst. clear H.
    cbn [flat_map]. rewrite flat_map_app, (method_tnames _ _ _ _ _ H1 Ea), (IH _ _ _ H2 Ec). reflexivity.
Qed.

Lemma service_tnames s ms ss is :
  wf_service snake camel ev s = true -> cv_service ev s = Ok (ms, ss, is) -> flat_map lkr ms = service_ftypes s.
Proof.
  unfold wf_service, J5sConvert.cv_service. intros Hw H.
  apply andb_true_iff in Hw. destruct Hw as [Hw _]. apply andb_true_iff in Hw. destruct Hw as [_ Hw].
  apply obind_ok in H. destruct H as ([[m1 d1] i1] & E & H). inversion H. subst.
  exact (methods_tnames _ _ _ _ _ Hw E).
Qed.

Lemma tmsgs_tnames tname single virt l : forall ms ds is,
  good_name tname -> forallb (wf_tmsg snake camel ev single virt) l = true ->
  cv_tmsgs ev tname single virt l = Ok (ms, ds, is) -> flat_map lkr ms = tmsgs_ftypes tname virt l.
Proof.
  induction l as [|t r IH]; intros ms ds is Hg Hw H.
  - cbn in H. inversion H. reflexivity.
  - pose proof (tmsgs_good snake camel ev single virt tname (t :: r) Hg Hw t (or_introl eq_refl)) as Hgt.
    cbn [forallb] in Hw. apply andb_true_iff in Hw. destruct Hw as [H1 H2].
    cbn [J5sConvert.cv_tmsgs] in H.
    apply obind_ok in H. destruct H as (mn & Emn & H).
    apply obind_ok in H. destruct H as ([m1 i1] & Ev & H).
    apply obind_ok in H. destruct H as ([[cm cd] ci] & Er & H). inversion H. subst. clear H.
    assert (Hmn : mn = tmsg_name tname t).
    { unfold tmsg_name. destruct (tm_name t); [inversion Emn; reflexivity|]. destruct single; inversion Emn. reflexivity. }
    subst mn. unfold wf_tmsg in H1. apply andb_true_iff in H1. destruct H1 as [Hv _].
    unfold J5sTypeNames.tmsgs_ftypes in *. cbn [flat_map fst].
    rewrite (virtual_tnames _ _ _ _ _ Hv (good_suffix _ (b "Message") Hgt eq_refl) Ev), (IH _ _ _ Hg H2 Er). reflexivity.
Qed.

Lemma accept_tnames tname topic_name rl virt l ms ss is :
  good_name tname -> forallb (wf_tmsg snake camel ev (is_single_b l) virt) l = true ->
  accept_topic ev tname topic_name rl virt l = Ok (ms, ss, is) -> flat_map lkr ms = tmsgs_ftypes tname virt l.
Proof.
  unfold J5sConvert.accept_topic. intros Hg Hw H. apply obind_ok in H. destruct H as ([[m1 d1] i1] & E & H). inversion H. subst.
  eapply tmsgs_tnames; [exact Hg| |exact E]. exact Hw.
Qed.

Lemma topic_tnames t ms ss is :
  wf_topic snake camel ev t = true -> cv_topic ev t = Ok (ms, ss, is) -> flat_map lkr ms = topic_ftypes t.
Proof.
  destruct t as [name msgs|name req reply|name entity msg|name entity msg]; cbn [wf_topic J5sConvert.cv_topic J5sTypeNames.topic_ftypes]; intros Hw H.
  - apply andb_true_iff in Hw. destruct Hw as [Hn Hw]. apply type_ident_facts in Hn.
    eapply accept_tnames; [exact Hn|exact Hw|exact H].
  - apply andb_true_iff in Hw. destruct Hw as [Hw Hr]. apply andb_true_iff in Hw. destruct Hw as [Hn Hq].
    apply type_ident_facts in Hn.
    apply obind_ok in H. destruct H as ([[am asv] ai] & Ea & H).
    apply obind_ok in H. destruct H as ([[cm csv] ci] & Ec & H). inversion H. subst. clear H.
    rewrite flat_map_app.
    rewrite (accept_tnames _ _ _ _ _ _ _ _ (good_suffix _ (b "Request") Hn eq_refl) Hq Ea).
    rewrite (accept_tnames _ _ _ _ _ _ _ _ (good_suffix _ (b "Reply") Hn eq_refl) Hr Ec). reflexivity.
  - apply andb_true_iff in Hw. destruct Hw as [Hn0 Hw]. pose proof (type_ident_facts _ Hn0) as Hn.
    eapply accept_tnames; [exact Hn| |exact H]. cbn [forallb is_single_b]. rewrite andb_true_r.
    unfold wf_tmsg, default_tm_name in *. destruct (tm_name msg) as [n|] eqn:En; [rewrite En; exact Hw|].
    cbn [tm_name tm_fields]. apply andb_true_iff in Hw. destruct Hw as [Hv _]. rewrite Hv. cbn.
    exact Hn0.
  - apply andb_true_iff in Hw. destruct Hw as [Hn Hw]. apply type_ident_facts in Hn.
    eapply accept_tnames; [exact Hn| |exact H]. cbn [forallb is_single_b]. rewrite Hw. reflexivity.
Qed.

End TNSub.

Section TNSubElems.
Variables snake camel screaming : str -> str.
Hypothesis Hcamel : forall s, nodot_b (camel s) = true.
Hypothesis Hsnake : forall s, nodot_b (snake s) = true.
Variable ev : env.
Hypothesis Henv : forall r t, resolve ev r = Ok t -> tr_pkg t <> [].
Variables spkg tpkg : str.

Lemma cv_elements_sub_tnames pkg els : forall m s t m' s' t',
  forallb (wf_element snake camel ev) els = true ->
  cv_elements snake camel screaming ev pkg els m s t = Ok (m', s', t') ->
  flat_map (lkm spkg [] spkg) (fa_msgs s') =
    flat_map (lkm spkg [] spkg) (fa_msgs s) ++ flat_map (service_ftypes snake camel ev spkg) (flat_map elem_services els) /\
  flat_map (lkm tpkg [] tpkg) (fa_msgs t') =
    flat_map (lkm tpkg [] tpkg) (fa_msgs t) ++ flat_map (topic_ftypes snake camel ev tpkg) (flat_map elem_topics els).
Proof.
  induction els as [|e r IH]; intros m s t m' s' t' Hw H; cbn [forallb J5sConvert.cv_elements] in Hw, H.
  - inversion H. subst. cbn. rewrite !app_nil_r. auto.
  - apply andb_true_iff in Hw. destruct Hw as [Hw1 Hw2].
    destruct e as [nm ps subs|nm ps subs|en|sv|tp]; cbn [flat_map elem_services elem_topics app].
    + apply obind_ok in H. destruct H as ([[ms es] is] & _ & H). exact (IH _ _ _ _ _ _ Hw2 H).
    + apply obind_ok in H. destruct H as ([[ms es] is] & _ & H). exact (IH _ _ _ _ _ _ Hw2 H).
    + exact (IH _ _ _ _ _ _ Hw2 H).
    + apply obind_ok in H. destruct H as ([[ms ss] is] & E & H). cbn [wf_element] in Hw1.
      destruct (IH _ _ _ _ _ _ Hw2 H) as [A B]. split; [|exact B].
      cbn [facc_add fa_msgs] in A. rewrite A, flat_map_app, <- app_assoc.
      rewrite (service_tnames snake camel screaming Hcamel Hsnake ev Henv spkg _ _ _ _ Hw1 E). reflexivity.
    + apply obind_ok in H. destruct H as ([[ms ss] is] & E & H). cbn [wf_element] in Hw1.
      destruct (IH _ _ _ _ _ _ Hw2 H) as [A B]. split; [exact A|].
      cbn [facc_add fa_msgs] in B. rewrite B, flat_map_app, <- app_assoc.
      rewrite (topic_tnames snake camel screaming Hcamel Hsnake ev Henv tpkg _ _ _ _ Hw1 E). reflexivity.
Qed.

End TNSubElems.

(* ------------------------------------------------------------------ files and packages *)
Section TNFiles.
Variables snake camel screaming : str -> str.
Hypothesis Hcamel : forall s, nodot_b (camel s) = true.
Hypothesis Hsnake : forall s, nodot_b (snake s) = true.

(* the fields of the linked main file of a source file name exactly the declared types *)
Definition main_types_ok (ev : env) (f : jfile) (df : dfile) : Prop :=
  fl_path df = main_proto_path f /\
  flat_map (msg_ftypes (j5s_pkg f)) (fl_msgs df) =
  flat_map (elem_ftypes snake camel ev (j5s_pkg f)) (jf_elements f).

Lemma cv_file_tnames bd f D im :
  (forall x, In x bd -> bfile_pkg x <> []) ->
  valid_file snake camel bd f = true ->
  import_map (jf_imports f) [] = Ok im ->
  cv_file snake camel screaming (pkg_exports camel bd) f = Ok D ->
  exists df, In df D /\ forall df', link_file df = Ok df' ->
    main_types_ok (mkEnv (j5s_pkg f) im (pkg_exports camel bd)) f df'.
Proof.
  unfold valid_file, cv_file. intros Hne Hv Him H. apply andb_true_iff in Hv. destruct Hv as [_ Hv].
  rewrite Him in Hv, H. cbn [obind] in H.
  apply obind_ok in H. destruct H as ([[m s] t] & E & H). inversion H. subst D. clear H.
  set (ev := mkEnv (j5s_pkg f) im (pkg_exports camel bd)) in *.
  assert (Henv : forall r t0, resolve ev r = Ok t0 -> tr_pkg t0 <> []) by (intros r t0; apply (resolve_has_pkg camel bd); exact Hne).
  eexists. split; [left; reflexivity|]. intros df' Hl.
  unfold link_file, mk_file in Hl. cbn [fl_msgs fl_enums fl_pkg fl_svcs fl_path fl_deps] in Hl.
  apply obind_ok in Hl. destruct Hl as (ss & _ & Hl). inversion Hl. subst df'. clear Hl.
  unfold main_types_ok. cbn [fl_path fl_msgs]. split; [reflexivity|].
  unfold link_msgs. rewrite flat_map_map.
  pose proof (cv_elements_tnames snake camel screaming Hcamel Hsnake ev Henv (j5s_pkg f) _ _ _ _ _ _ _ Hv E) as Ht.
  cbn [facc_nil fa_msgs flat_map app] in Ht. exact Ht.
Qed.

Theorem compile_tnames bd pkg D :
  valid_bundle snake camel screaming bd = true -> (forall x, In x bd -> bfile_pkg x <> []) ->
  compile_package snake camel screaming bd pkg = Ok D ->
  forall f im, In (BJ f) bd -> j5s_pkg f = pkg -> import_map (jf_imports f) [] = Ok im ->
  exists df, In df D /\ main_types_ok (mkEnv (j5s_pkg f) im (pkg_exports camel bd)) f df.
Proof.
  intros Hv Hne HD f im Hin Hp Him.
  destruct (compile_package_inv snake camel screaming _ _ _ HD) as (fs & Efs & _ & El & _).
  unfold convert_package in Efs. destruct (pkg_files bd pkg) as [|x0 r0] eqn:Epf; [discriminate|].
  rewrite <- Epf in Efs.
  destruct (cv_files_split snake camel screaming _ _ _ Efs) as [I1 _].
  destruct (I1 f (in_pkg_files _ _ _ Hin Hp)) as (Df & Hc & Hi).
  destruct (cv_file_tnames bd f Df im Hne (valid_files snake camel screaming bd Hv f Hin) Him Hc) as (df & Hd & Hl).
  destruct (link_files_of _ _ _ El (Hi _ Hd)) as (df' & Hd' & Hl'). exists df'. split; [exact Hd'|apply Hl; exact Hl'].
Qed.


(* the request / response / topic messages: the .service and .topic files *)
Definition service_types_ok (ev : env) (f : jfile) (df : dfile) : Prop :=
  fl_path df = sub_proto_path f (b "service") /\
  flat_map (msg_ftypes (sub_pkg (j5s_pkg f) (b "service"))) (fl_msgs df) =
  flat_map (service_ftypes snake camel ev (sub_pkg (j5s_pkg f) (b "service"))) (file_services f).
Definition topic_types_ok (ev : env) (f : jfile) (df : dfile) : Prop :=
  fl_path df = sub_proto_path f (b "topic") /\
  flat_map (msg_ftypes (sub_pkg (j5s_pkg f) (b "topic"))) (fl_msgs df) =
  flat_map (topic_ftypes snake camel ev (sub_pkg (j5s_pkg f) (b "topic"))) (file_topics f).

Lemma cv_file_sub_tnames bd f D im :
  (forall x, In x bd -> bfile_pkg x <> []) ->
  valid_file snake camel bd f = true ->
  import_map (jf_imports f) [] = Ok im ->
  cv_file snake camel screaming (pkg_exports camel bd) f = Ok D ->
  (file_services f <> [] -> exists df, In df D /\ forall df', link_file df = Ok df' ->
     service_types_ok (mkEnv (j5s_pkg f) im (pkg_exports camel bd)) f df') /\
  (file_topics f <> [] -> exists df, In df D /\ forall df', link_file df = Ok df' ->
     topic_types_ok (mkEnv (j5s_pkg f) im (pkg_exports camel bd)) f df').
Proof.
  unfold valid_file, cv_file. intros Hne Hv Him H. apply andb_true_iff in Hv. destruct Hv as [_ Hv].
  rewrite Him in Hv, H. cbn [obind] in H.
  apply obind_ok in H. destruct H as ([[m s] t] & E & H). inversion H. subst D. clear H.
  set (ev := mkEnv (j5s_pkg f) im (pkg_exports camel bd)) in *.
  assert (Henv : forall r t0, resolve ev r = Ok t0 -> tr_pkg t0 <> []) by (intros r t0; apply (resolve_has_pkg camel bd); exact Hne).
  destruct (cv_elements_linkable snake camel screaming _ _ _ facc_nil facc_nil facc_nil _ _ _ Hv (linkable_nil) (linkable_nil) eq_refl E) as (Ls & Lt & _).
  destruct (cv_elements_parts snake camel screaming ev _ _ _ _ _ _ _ _ E)
    as [(_ & _ & _ & _ & _ & _ & S5) (_ & _ & _ & _ & _ & _ & T5)].
  cbn [facc_nil fa_used orb] in S5, T5.
  destruct (cv_elements_sub_tnames snake camel screaming Hcamel Hsnake ev Henv
              (sub_pkg (j5s_pkg f) (b "service")) (sub_pkg (j5s_pkg f) (b "topic")) _ _ _ _ _ _ _ _ Hv E) as [A B].
  cbn [facc_nil fa_msgs flat_map app] in A, B.
  split.
  - intros Hnes. assert (Hu : fa_used s = true) by (rewrite S5; apply nonempty_ne; exact Hnes).
    eexists. split; [right; apply in_or_app; left; rewrite Hu; left; reflexivity|].
    intros df' Hl. destruct (link_file_val _ _ _ _ Ls Hl) as (P1 & _ & _ & P4 & _).
    split; [exact P1|]. rewrite P4. unfold link_msgs. rewrite flat_map_map. exact A.
  - intros Hnet. assert (Hu : fa_used t = true) by (rewrite T5; apply nonempty_ne; exact Hnet).
    eexists. split; [right; apply in_or_app; right; rewrite Hu; left; reflexivity|].
    intros df' Hl. destruct (link_file_val _ _ _ _ Lt Hl) as (P1 & _ & _ & P4 & _).
    split; [exact P1|]. rewrite P4. unfold link_msgs. rewrite flat_map_map. exact B.
Qed.

Theorem compile_sub_tnames bd pkg D :
  valid_bundle snake camel screaming bd = true -> (forall x, In x bd -> bfile_pkg x <> []) ->
  compile_package snake camel screaming bd pkg = Ok D ->
  forall f im, In (BJ f) bd -> j5s_pkg f = pkg -> import_map (jf_imports f) [] = Ok im ->
  (file_services f <> [] -> exists df, In df D /\ service_types_ok (mkEnv (j5s_pkg f) im (pkg_exports camel bd)) f df) /\
  (file_topics f <> [] -> exists df, In df D /\ topic_types_ok (mkEnv (j5s_pkg f) im (pkg_exports camel bd)) f df).
Proof.
  intros Hv Hne HD f im Hin Hp Him.
  destruct (compile_package_inv snake camel screaming _ _ _ HD) as (fs & Efs & _ & El & _).
  unfold convert_package in Efs. destruct (pkg_files bd pkg) as [|x0 r0] eqn:Epf; [discriminate|].
  rewrite <- Epf in Efs.
  destruct (cv_files_split snake camel screaming _ _ _ Efs) as [I1 _].
  destruct (I1 f (in_pkg_files _ _ _ Hin Hp)) as (Df & Hc & Hi).
  destruct (cv_file_sub_tnames bd f Df im Hne (valid_files snake camel screaming bd Hv f Hin) Him Hc) as [Hs Ht].
  split.
  - intros Hnes. destruct (Hs Hnes) as (df & Hd & Hl).
    destruct (link_files_of _ _ _ El (Hi _ Hd)) as (df' & Hd' & Hl'). exists df'. split; [exact Hd'|apply Hl; exact Hl'].
  - intros Hnet. destruct (Ht Hnet) as (df & Hd & Hl).
    destruct (link_files_of _ _ _ El (Hi _ Hd)) as (df' & Hd' & Hl'). exists df'. split; [exact Hd'|apply Hl; exact Hl'].
Qed.

End TNFiles.

(* ProtoPrintBytesEraseProofs.v — C05 byte level: a descriptor without source info (unlocated_b) has no comments, so the
   laid-out file is its own comment-free form and the printer model writes no comment pseudo token (all descriptors,
   any nesting depth). *)
From Coq Require Import String List NArith ZArith Bool.
From J5V.lib Require Import Outcome Corr.
From J5V.model Require Import ProtoPrintLit ProtoPrint ProtoLex ProtoLayout ProtoPrintCorr ProtoPrintFile ProtoParseFile
  ProtoPrintFileWf ProtoPrintFileErase ProtoPrintBytes.
From J5V.proofs Require Import ProtoPrintFileSortProofs ProtoPrintFileSemProofs ProtoPrintFileTextProofs.
Import ListNotations.
Local Open Scope N_scope.

Lemma cmt_none_eq c : cmt_none c = true -> c = no_cmt.
Proof. destruct c as [[|? ?] [|? ?]]; cbn; intro H; try discriminate; reflexivity. Qed.

Lemma map_fix {A} (f : A -> A) l : Forall (fun x => f x = x) l -> map f l = l.
Proof. induction 1 as [|x l Hx _ IH]; [reflexivity|]. cbn. rewrite Hx, IH. reflexivity. Qed.

Lemma sort_project_Forall {A} (P : A -> Prop) (l : list (key3 * A)) :
  Forall (fun p => P (snd p)) l -> Forall P (sort_project l).
Proof.
  intro H. unfold sort_project. apply Forall_forall. intros x Hx. apply in_map_iff in Hx.
  destruct Hx as (p & <- & Hp). apply isort_In in Hp. rewrite Forall_forall in H. exact (H p Hp).
Qed.

Lemma lay_field_unloc st pkg ctx e f : dfield_unlocated f = true ->
  erase_sfield (lay_field st pkg ctx e f) = lay_field st pkg ctx e f.
Proof.
  unfold dfield_unlocated. intro H. apply andb_prop in H. destruct H as [H _]. apply andb_prop in H. destruct H as [_ Hc].
  apply cmt_none_eq in Hc. unfold erase_sfield, lay_field. cbn. rewrite Hc. reflexivity.
Qed.

Lemma lay_fields_unloc st pkg ctx fs : forallb dfield_unlocated fs = true ->
  map erase_sfield (lay_fields st pkg ctx fs) = lay_fields st pkg ctx fs.
Proof.
  intro H. apply map_fix. unfold lay_fields. apply sort_project_Forall. apply Forall_forall. intros p Hp.
  apply in_map_iff in Hp. destruct Hp as (f & <- & Hf). cbn. apply lay_field_unloc.
  rewrite forallb_forall in H. exact (H f Hf).
Qed.

Lemma lay_values_unloc vs : forallb dvalue_unlocated vs = true ->
  map erase_svalue (sort_project (map (fun v => (key0 (v_key v), lay_value v)) vs))
  = sort_project (map (fun v => (key0 (v_key v), lay_value v)) vs).
Proof.
  intro H. apply map_fix. apply sort_project_Forall. apply Forall_forall. intros p Hp.
  apply in_map_iff in Hp. destruct Hp as (v & <- & Hv). cbn.
  rewrite forallb_forall in H. specialize (H v Hv). unfold dvalue_unlocated in H.
  apply andb_prop in H. destruct H as [H _]. apply andb_prop in H. destruct H as [_ Hc].
  apply cmt_none_eq in Hc. unfold erase_svalue, lay_value. cbn. rewrite Hc. reflexivity.
Qed.

Lemma lay_methods_unloc st pkg n ms : forallb dmethod_unlocated ms = true ->
  map erase_smethod (sort_project (map (fun m => (key0 (m_key m), lay_method st pkg n m)) ms))
  = sort_project (map (fun m => (key0 (m_key m), lay_method st pkg n m)) ms).
Proof.
  intro H. apply map_fix. apply sort_project_Forall. apply Forall_forall. intros p Hp.
  apply in_map_iff in Hp. destruct Hp as (m & <- & Hm). cbn.
  rewrite forallb_forall in H. specialize (H m Hm). unfold dmethod_unlocated in H.
  apply andb_prop in H. destruct H as [H _]. apply andb_prop in H. destruct H as [_ Hc].
  apply cmt_none_eq in Hc. unfold erase_smethod, lay_method. cbn. rewrite Hc. reflexivity.
Qed.

Ltac split_and H :=
  repeat match type of H with (_ && _ = true) => let H' := fresh H in apply andb_prop in H; destruct H as [H H'] end.

Lemma lay_elem_unloc : forall (e : delem) st pkg ctx, delem_unlocated e = true ->
  erase_selem (lay_elem st pkg ctx e) = lay_elem st pkg ctx e.
Proof.
  fix IH 1. intros [f|k c n o fs|k c n o body|k c n o vs|k c n o ms] st pkg ctx H.
  - cbn [lay_elem erase_selem]. f_equal. apply lay_field_unloc. exact H.
  - cbn [delem_unlocated] in H. apply andb_prop in H. destruct H as [H Hfs]. apply andb_prop in H. destruct H as [H _].
    apply andb_prop in H. destruct H as [_ Hc]. apply cmt_none_eq in Hc. subst c.
    cbn [lay_elem erase_selem]. f_equal. apply lay_fields_unloc. exact Hfs.
  - rewrite lay_elem_msg, erase_selem_msg.
    cbn [delem_unlocated] in H. apply andb_prop in H. destruct H as [H Hb]. apply andb_prop in H. destruct H as [H _].
    apply andb_prop in H. destruct H as [_ Hc]. apply cmt_none_eq in Hc. subst c. f_equal.
    apply map_fix. unfold lay_body. apply sort_project_Forall. rewrite lay_keyed_map.
    induction body as [|x r IHr]; [constructor|].
    apply andb_prop in Hb. destruct Hb as [Hx Hr]. constructor; [cbn; apply IH; exact Hx|exact (IHr Hr)].
  - cbn [delem_unlocated] in H. apply andb_prop in H. destruct H as [H Hvs]. apply andb_prop in H. destruct H as [H _].
    apply andb_prop in H. destruct H as [_ Hc]. apply cmt_none_eq in Hc. subst c.
    cbn [lay_elem erase_selem]. f_equal. apply lay_values_unloc. exact Hvs.
  - cbn [delem_unlocated] in H. apply andb_prop in H. destruct H as [H Hms]. apply andb_prop in H. destruct H as [H _].
    apply andb_prop in H. destruct H as [_ Hc]. apply cmt_none_eq in Hc. subst c.
    cbn [lay_elem erase_selem]. f_equal. apply lay_methods_unloc. exact Hms.
Qed.

From J5V.proofs Require Import ProtoPrintFileFullProofs.

Lemma erase_group_exts l :
  map erase_sext (group_exts l) = group_exts (map (payload_map erase_sfield) l).
Proof.
  unfold group_exts. rewrite group_by_map, !map_map. apply map_ext. intros [x fs]. reflexivity.
Qed.

Theorem lay_file_unlocated st D : unlocated_b D = true -> erase_sfile (lay_file st D) = lay_file st D.
Proof.
  unfold unlocated_b. intro H. apply andb_prop in H. destruct H as [Hx Hb].
  unfold erase_sfile, lay_file. cbn [s_pkg s_imports s_fopts s_exts s_body]. f_equal.
  - rewrite erase_group_exts. f_equal. rewrite map_map. apply map_ext_in. intros [x f] Hin. unfold payload_map. cbn [fst snd].
    f_equal. apply lay_field_unloc. rewrite forallb_forall in Hx. exact (Hx (x, f) Hin).
  - apply map_fix. unfold lay_body. apply sort_project_Forall. rewrite lay_keyed_map.
    apply Forall_forall. intros p Hp. apply in_map_iff in Hp. destruct Hp as (e & <- & He). cbn [snd].
    apply lay_elem_unloc. rewrite forallb_forall in Hb. exact (Hb e He).
Qed.

(* for a descriptor without source info the printer model writes no comment pseudo token *)
Theorem print_tokens_unlocated st D : unlocated_b D = true -> print_file_tokens_nc st D = print_file_tokens st D.
Proof. intro H. unfold print_file_tokens_nc, print_file_tokens. rewrite (lay_file_unlocated st D H). reflexivity. Qed.

Theorem unlocated_no_comments st D : unlocated_b D = true ->
  erase_sfile (lay_file st D) = lay_file st D /\ print_file_tokens_nc st D = print_file_tokens st D.
Proof. intro H. split; [exact (lay_file_unlocated st D H)|exact (print_tokens_unlocated st D H)]. Qed.

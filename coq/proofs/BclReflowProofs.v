(* BclReflowProofs.v — the description re-flow (description.go, after fix 4c24869)
   is a fixed point: feeding its own output lines back gives the same lines.
   The algorithm is lifted to lines-as-word-lists ([] = an empty line), the
   fixed-point property is proved there by running a second copy of the machine
   on the output of the first in lock step, and transported back to runes. *)
From Coq Require Import String List NArith ZArith Bool Lia ZifyN ZifyNat ZifyBool.
From J5V.lib Require Import Text.
From J5V.model Require Import BclLexer BclFmt.
From J5V.proofs Require Import BclTextProofs.
Import ListNotations.
Local Open Scope Z_scope.

Section WordLevel.
Variable maxw : Z.
Notation word := (list N) (only parsing).
Notation wline := (list (list N)) (only parsing).                 (* [] = an empty line *)
Definition wlen (w : word) : Z := Z.of_N (utf8_len w).
Definition jn (ws : wline) : list N := join_with 32 ws.

Definition overflow (pw : wline) (x : word) : bool := maxw <? wlen (jn pw) + wlen x.

(* machine state: pending words, lastWasEmpty, lines emitted so far *)
Notation st := (list (list N) * bool * list (list (list N)))%type (only parsing).

Fixpoint flowW (ws : wline) (pw : wline) (out : list wline) : wline * list wline :=
  match ws with
  | [] => (pw, out)
  | x :: r =>
    match pw with
    | [] => flowW r [x] out
    | _ => if overflow pw x then flowW r [x] (out ++ [pw]) else flowW r (pw ++ [x]) out
    end
  end.

Definition flush (pw : wline) (out : list wline) : list wline :=
  match pw with [] => out | _ => out ++ [pw] end.

Definition step (s : st) (line : wline) : st :=
  let '(pw, le, out) := s in
  match line with
  | [] => ([], true, (if le then flush pw out else flush pw out ++ [[]]))
  | _ => let '(pw', out') := flowW line pw out in (pw', false, out')
  end.

Definition run (s : st) (lines : list wline) : st := fold_left step lines s.
Definition init : st := ([], true, []).
Definition finish (s : st) : list wline := let '(pw, _, out) := s in flush pw out.
Definition G (lines : list wline) : list wline := finish (run init lines).

Lemma run_app s a b : run s (a ++ b) = run (run s a) b.
Proof. unfold run. apply fold_left_app. Qed.

(* a greedy line: every word after the first was added without overflow *)
Fixpoint gp_from (cur : wline) (rest : wline) : Prop :=
  match rest with
  | [] => True
  | x :: r => overflow cur x = false /\ gp_from (cur ++ [x]) r
  end.
Definition gp (ws : wline) : Prop := match ws with [] => True | x :: r => gp_from [x] r end.

Lemma gp_from_snoc : forall rest cur x,
  gp_from cur rest -> overflow (cur ++ rest) x = false -> gp_from cur (rest ++ [x]).
Proof.
  induction rest as [|y r IH]; intros cur x H Ho; cbn in *.
  - rewrite app_nil_r in Ho. auto.
  - destruct H as [H1 H2]. split; [exact H1|]. apply IH; [exact H2|].
    rewrite <- app_assoc. exact Ho.
Qed.

Lemma gp_snoc pw x : pw <> [] -> gp pw -> overflow pw x = false -> gp (pw ++ [x]).
Proof.
  destruct pw as [|y r]; [congruence|]. intros _ H Ho. cbn [app gp] in *.
  apply gp_from_snoc; assumption.
Qed.

Lemma flowW_gp_from : forall rest cur out, cur <> [] -> gp_from cur rest ->
  flowW rest cur out = (cur ++ rest, out).
Proof.
  induction rest as [|x r IH]; intros cur out Hc H; cbn [flowW].
  - rewrite app_nil_r. reflexivity.
  - cbn in H. destruct H as [H1 H2]. destruct cur as [|c0 cr]; [congruence|].
    rewrite H1. rewrite IH; [|destruct cr; discriminate|exact H2].
    rewrite <- app_assoc. reflexivity.
Qed.

(* reading a greedy line from an empty pending line reproduces it *)
Lemma flowW_line_fresh pw out : pw <> [] -> gp pw -> flowW pw [] out = (pw, out).
Proof.
  destruct pw as [|x r]; [congruence|]. intros _ H. cbn [flowW]. cbn in H.
  apply (flowW_gp_from r [x]); [discriminate|exact H].
Qed.

(* reading a greedy line whose first word overflows the pending one: the pending line is emitted *)
Lemma flowW_line_after qw pw out x r : qw <> [] -> pw = x :: r -> gp pw -> overflow qw x = true ->
  flowW pw qw out = (pw, out ++ [qw]).
Proof.
  intros Hq -> H Ho. destruct qw as [|q0 qr]; [congruence|]. cbn [flowW]. rewrite Ho.
  cbn in H. apply (flowW_gp_from r [x]); [discriminate|exact H].
Qed.

(* ---- the second machine, run on the first machine's output, in lock step --------------- *)
(* what the second machine looks like after reading everything the first has emitted *)
Definition synced (pw : wline) (outO : list wline) : Prop :=
  (* caught up: nothing pending *)
  run init outO = ([], true, outO) \/
  (* one line behind: the last emitted line is still pending, and it overflowed with the first
     word of the first machine's pending line *)
  (exists prev outR x r, outO = outR ++ [prev] /\ prev <> [] /\ pw = x :: r /\ overflow prev x = true /\
                         run init outO = (prev, false, outR)).

Definition inv (s : st) : Prop :=
  let '(pw, le, outO) := s in
  gp pw /\ (pw <> [] -> le = false) /\ (pw = [] -> le = true) /\ synced pw outO /\
  (* when caught up with nothing pending, the second machine agrees on lastWasEmpty *)
  (pw = [] -> run init outO = ([], true, outO)).

Lemma step_wordline s line : line <> [] ->
  step s line = let '(pw, le, out) := s in let '(pw', out') := flowW line pw out in (pw', false, out').
Proof. destruct s as [[pw le] out]. destruct line; [congruence|]. reflexivity. Qed.

(* the second machine reads one emitted word line *)
Lemma second_reads_line pw outO : pw <> [] -> gp pw -> synced pw outO ->
  run init (outO ++ [pw]) = (pw, false, outO).
Proof.
  intros Hne Hg Hs. rewrite run_app. destruct Hs as [Hs|(prev & outR & x & r & E1 & E2 & E3 & E4 & E5)].
  - rewrite Hs. cbn [run fold_left]. rewrite step_wordline by exact Hne.
    rewrite flowW_line_fresh by assumption. reflexivity.
  - rewrite E5. cbn [run fold_left]. rewrite step_wordline by exact Hne.
    rewrite (flowW_line_after prev pw outR x r) by assumption. rewrite E1. reflexivity.
Qed.

(* words of one input line, one at a time *)
Lemma flowW_inv : forall ws pw outO,
  gp pw -> synced pw outO -> (pw = [] -> run init outO = ([], true, outO)) ->
  let '(pw', outO') := flowW ws pw outO in
  gp pw' /\ synced pw' outO' /\ (pw' = [] -> run init outO' = ([], true, outO')) /\ (ws <> [] -> pw' <> []).
Proof.
  induction ws as [|x r IH]; intros pw outO Hg Hs He; cbn [flowW].
  - repeat split; auto; try congruence.
  - destruct pw as [|p0 pr].
    + specialize (IH [x] outO). destruct (flowW r [x] outO) as [pw' outO'] eqn:E.
      destruct IH as (A & B & C & D).
      * exact I.
      * left. apply He. reflexivity.
      * discriminate.
      * split; [exact A|]. split; [exact B|]. split; [exact C|]. intros _.
        destruct r as [|y r']; [cbn in E; injection E as <- <-; discriminate|apply D; discriminate].
    + destruct (overflow (p0 :: pr) x) eqn:Eo.
      * specialize (IH [x] (outO ++ [p0 :: pr])).
        destruct (flowW r [x] (outO ++ [p0 :: pr])) as [pw' outO'] eqn:E.
        destruct IH as (A & B & C & D).
        -- exact I.
        -- right. exists (p0 :: pr), outO, x, []. repeat split; auto; [discriminate|].
           apply second_reads_line; [discriminate|exact Hg|exact Hs].
        -- discriminate.
        -- split; [exact A|]. split; [exact B|]. split; [exact C|]. intros _.
           destruct r as [|y r']; [cbn in E; injection E as <- <-; discriminate|apply D; discriminate].
      * specialize (IH ((p0 :: pr) ++ [x]) outO).
        destruct (flowW r ((p0 :: pr) ++ [x]) outO) as [pw' outO'] eqn:E.
        destruct IH as (A & B & C & D).
        -- apply gp_snoc; [discriminate|exact Hg|exact Eo].
        -- destruct Hs as [Hs|(prev & outR & x0 & r0 & E1 & E2 & E3 & E4 & E5)]; [left; exact Hs|].
           right. exists prev, outR, x0, (r0 ++ [x]). repeat split; auto.
           rewrite E3. reflexivity.
        -- discriminate.
        -- split; [exact A|]. split; [exact B|]. split; [exact C|]. intros _.
           destruct r as [|y r']; [cbn in E; injection E as <- <-; discriminate|apply D; discriminate].
Qed.

Lemma step_inv s line : inv s -> inv (step s line).
Proof.
  destruct s as [[pw le] outO]. intros (Hg & Hle & Hle2 & Hs & He).
  destruct line as [|x r].
  - (* an empty line *)
    cbn [step]. destruct pw as [|p0 pr].
    + (* nothing pending *)
      specialize (He eq_refl). cbn [flush].
      rewrite (Hle2 eq_refl).
      split; [exact I|]. split; [congruence|]. split; [reflexivity|]. split; [left; exact He|intros _; exact He].
    + cbn [flush].
      assert (Hr : run init (outO ++ [p0 :: pr]) = (p0 :: pr, false, outO)).
      { apply second_reads_line; [discriminate|exact Hg|exact Hs]. }
      destruct le.
      * specialize (Hle ltac:(discriminate)). discriminate.
      * assert (Hr2 : run init ((outO ++ [p0 :: pr]) ++ [[]]) = ([], true, (outO ++ [p0 :: pr]) ++ [[]])).
        { rewrite run_app, Hr. reflexivity. }
        split; [exact I|]. split; [congruence|]. split; [reflexivity|]. split; [left; exact Hr2|intros _; exact Hr2].
  - rewrite step_wordline by discriminate.
    pose proof (flowW_inv (x :: r) pw outO Hg Hs He) as H.
    destruct (flowW (x :: r) pw outO) as [pw' outO']. destruct H as (A & B & C & D).
    split; [exact A|]. split; [reflexivity|]. split; [intros Hn; exfalso; apply D; [discriminate|exact Hn]|]. split; [exact B|exact C].
Qed.
End WordLevel.

(* ---- the fixed point at word level ------------------------------------------------------------ *)
Section WordLevel2.
Variable maxw : Z.

Lemma run_inv : forall lines s, inv maxw s -> inv maxw (run maxw s lines).
Proof.
  induction lines as [|l r IH]; intros s H; [exact H|].
  cbn [run fold_left]. apply IH. apply step_inv. exact H.
Qed.

Lemma init_inv : inv maxw init.
Proof.
  cbn. split; [exact I|]. split; [congruence|]. split; [reflexivity|]. split; [left; reflexivity|reflexivity].
Qed.

Theorem G_fixed lines : G maxw (G maxw lines) = G maxw lines.
Proof.
  unfold G at 2 3. pose proof (run_inv lines init init_inv) as H.
  destruct (run maxw init lines) as [[pw le] outO]. destruct H as (Hg & _ & _ & Hs & He).
  cbn [finish]. destruct pw as [|p0 pr]; cbn [flush].
  - unfold G. rewrite (He eq_refl). reflexivity.
  - unfold G. rewrite (second_reads_line maxw (p0 :: pr) outO); [reflexivity|discriminate|exact Hg|exact Hs].
Qed.
End WordLevel2.

(* ---- words and fields ------------------------------------------------------------------------------ *)
Definition word_ok (w : list N) : Prop := w <> [] /\ Forall (fun c => is_space c = false) w.

Lemma is_space_32 : is_space 32 = true. Proof. vm_compute. reflexivity. Qed.
Lemma is_space_10 : is_space 10 = true. Proof. vm_compute. reflexivity. Qed.

Lemma fields_loop_ok : forall l cur, Forall (fun c => is_space c = false) cur ->
  Forall word_ok (fields_loop l cur).
Proof.
  induction l as [|c r IH]; intros cur Hc; cbn [fields_loop].
  - destruct cur; constructor; [|constructor]. split; [discriminate|exact Hc].
  - destruct (is_space c) eqn:E.
    + destruct cur as [|c0 cr]; [apply IH; constructor|].
      constructor; [split; [discriminate|exact Hc]|apply IH; constructor].
    + apply IH. apply Forall_app. split; [exact Hc|repeat constructor; exact E].
Qed.

Lemma fields_ok l : Forall word_ok (fields l).
Proof. apply fields_loop_ok. constructor. Qed.

Lemma fields_loop_word : forall w rest cur, Forall (fun c => is_space c = false) w ->
  fields_loop (w ++ rest) cur = fields_loop rest (cur ++ w).
Proof.
  induction w as [|c r IH]; intros rest cur H; cbn [app fields_loop]; [rewrite app_nil_r; reflexivity|].
  inversion H; subst. rewrite H2. rewrite IH by assumption. rewrite <- app_assoc. reflexivity.
Qed.

Lemma fields_jn : forall ws, Forall word_ok ws -> fields (join_with 32 ws) = ws.
Proof.
  unfold fields. induction ws as [|w r IH]; intros H; [reflexivity|].
  inversion H as [|x l [Hne Hns] Hr]; subst. destruct r as [|w2 r2].
  - cbn [join_with]. rewrite <- (app_nil_r w) at 1. rewrite fields_loop_word by exact Hns. cbn.
    destruct w; [congruence|reflexivity].
  - cbn [join_with]. rewrite fields_loop_word by exact Hns. cbn [app fields_loop]. rewrite is_space_32.
    destruct w as [|c0 cr]; [congruence|]. f_equal. apply IH. exact Hr.
Qed.

Lemma fields_loop_nil : forall l cur, fields_loop l cur = [] -> cur = [] /\ all_space l = true.
Proof.
  induction l as [|c r IH]; intros cur H; cbn [fields_loop all_space forallb] in *.
  - destruct cur; [auto|discriminate].
  - destruct (is_space c) eqn:E.
    + destruct cur as [|c0 cr]; [|discriminate]. destruct (IH [] H) as [_ A]. auto.
    + destruct (IH _ H) as [A _]. destruct cur; discriminate.
Qed.

Lemma all_space_fields l : all_space l = true -> fields l = [].
Proof.
  unfold fields. induction l as [|c r IH]; [reflexivity|]. cbn [all_space forallb fields_loop].
  intros H. apply andb_true_iff in H. destruct H as [-> H]. apply IH. exact H.
Qed.

Lemma all_space_iff l : all_space l = true <-> fields l = [].
Proof. split; [apply all_space_fields|]. intros H. apply (fields_loop_nil l [] H). Qed.

Lemma jn_nil_iff ws : Forall word_ok ws -> (join_with 32 ws = [] <-> ws = []).
Proof.
  intros H. split; [|intros ->; reflexivity]. destruct ws as [|w r]; [reflexivity|].
  inversion H as [|x l [Hne _] _]; subst. destruct r; cbn; intros E.
  - congruence.
  - destruct w; [congruence|discriminate].
Qed.

Lemma jn_snoc pw x : pw <> [] -> join_with 32 pw ++ 32%N :: x = join_with 32 (pw ++ [x]).
Proof.
  induction pw as [|p r IH]; [congruence|]. intros _. destruct r as [|p2 r2].
  - reflexivity.
  - cbn [app join_with] in *. rewrite <- app_assoc. cbn [app]. f_equal. f_equal. apply IH. discriminate.
Qed.

(* ---- the rune-level algorithm is the word-level one ---------------------------------------------- *)
Section Transport.
Variable maxw : Z.

Definition lines_ok (ls : list (list (list N))) : Prop := Forall (Forall word_ok) ls.

Lemma flow_words_flowW : forall ws pw outW,
  Forall word_ok ws -> Forall word_ok pw ->
  flow_words maxw ws (join_with 32 pw) (map (join_with 32) outW) =
  (let '(pw', outW') := flowW maxw ws pw outW in (join_with 32 pw', map (join_with 32) outW')).
Proof.
  induction ws as [|x r IH]; intros pw outW Hws Hpw; cbn [flow_words flowW]; [reflexivity|].
  inversion Hws as [|y l Hx Hr]; subst.
  destruct pw as [|p0 pr].
  - cbn [join_with]. rewrite <- (IH [x] outW Hr); [reflexivity|constructor; [exact Hx|constructor]].
  - destruct (join_with 32 (p0 :: pr)) as [|c0 cr] eqn:Ej.
    { apply (jn_nil_iff (p0 :: pr) Hpw) in Ej. discriminate. }
    rewrite <- Ej. unfold overflow, wlen, jn.
    destruct (maxw <? Z.of_N (utf8_len (join_with 32 (p0 :: pr))) + Z.of_N (utf8_len x)) eqn:Eo.
    + rewrite <- (IH [x] (outW ++ [p0 :: pr]) Hr); [|constructor; [exact Hx|constructor]].
      rewrite map_app. reflexivity.
    + rewrite jn_snoc by discriminate.
      rewrite <- (IH ((p0 :: pr) ++ [x]) outW Hr); [reflexivity|].
      apply Forall_app. split; [exact Hpw|constructor; [exact Hx|constructor]].
Qed.

Lemma flowW_ok : forall ws pw outW, Forall word_ok ws -> Forall word_ok pw -> lines_ok outW ->
  let '(pw', outW') := flowW maxw ws pw outW in Forall word_ok pw' /\ lines_ok outW'.
Proof.
  induction ws as [|x r IH]; intros pw outW Hws Hpw Ho; cbn [flowW]; [auto|].
  inversion Hws as [|y l Hx Hr]; subst. destruct pw as [|p0 pr].
  - apply IH; [exact Hr| |exact Ho]. constructor; [exact Hx|constructor].
  - destruct (overflow maxw (p0 :: pr) x).
    + apply IH; [exact Hr| |].
      * constructor; [exact Hx|constructor].
      * apply Forall_app. split; [exact Ho|constructor; [exact Hpw|constructor]].
    + apply IH; [exact Hr| |exact Ho]. apply Forall_app. split; [exact Hpw|constructor; [exact Hx|constructor]].
Qed.

Lemma reformat_loop_run : forall lines pw le outW,
  Forall word_ok pw -> lines_ok outW ->
  reformat_loop maxw lines (join_with 32 pw) le (map (join_with 32) outW) =
  map (join_with 32) (finish (run maxw (pw, le, outW) (map fields lines))).
Proof.
  induction lines as [|line r IH]; intros pw le outW Hpw Ho; cbn [reformat_loop map run fold_left].
  - cbn [finish]. destruct pw as [|p0 pr]; cbn [flush]; [reflexivity|].
    destruct (join_with 32 (p0 :: pr)) as [|c0 cr] eqn:Ej.
    { apply (jn_nil_iff (p0 :: pr) Hpw) in Ej. discriminate. }
    rewrite <- Ej, map_app. reflexivity.
  - destruct (all_space line) eqn:Ea.
    + rewrite (all_space_fields line Ea). cbn [step].
      assert (Hfl : (match join_with 32 pw with [] => map (join_with 32) outW
                     | _ => map (join_with 32) outW ++ [join_with 32 pw] end)
                    = map (join_with 32) (flush pw outW)).
      { destruct pw as [|p0 pr]; [reflexivity|]. cbn [flush].
        destruct (join_with 32 (p0 :: pr)) as [|c0 cr] eqn:Ej.
        { apply (jn_nil_iff (p0 :: pr) Hpw) in Ej. discriminate. }
        rewrite <- Ej, map_app. reflexivity. }
      assert (Hfo : lines_ok (flush pw outW)).
      { destruct pw; cbn [flush]; [exact Ho|]. apply Forall_app. split; [exact Ho|constructor; [exact Hpw|constructor]]. }
      rewrite Hfl.
      destruct le.
      * apply (IH [] true (flush pw outW)); [constructor|exact Hfo].
      * replace (map (join_with 32) (flush pw outW) ++ [[]]) with (map (join_with 32) (flush pw outW ++ [[]]))
          by (rewrite map_app; reflexivity).
        apply (IH [] true (flush pw outW ++ [[]])); [constructor|].
        apply Forall_app. split; [exact Hfo|repeat constructor].
    + assert (Hne : fields line <> []).
      { intros H. apply all_space_iff in H. congruence. }
      rewrite (flow_words_flowW (fields line) pw outW (fields_ok line) Hpw).
      pose proof (flowW_ok (fields line) pw outW (fields_ok line) Hpw Ho) as Hok.
      rewrite (step_wordline maxw (pw, le, outW) (fields line) Hne).
      destruct (flowW maxw (fields line) pw outW) as [pw' outW']. destruct Hok as [Hp' Ho'].
      apply IH; assumption.
Qed.

Theorem reformat_is_G input :
  reformat_description input maxw = map (join_with 32) (G maxw (map fields (split_on 10 input))).
Proof.
  unfold reformat_description, G.
  apply (reformat_loop_run (split_on 10 input) [] true []); constructor.
Qed.

(* every word the machine holds or has emitted is a word of the input *)
Lemma run_ok : forall lines pw le outW, lines_ok lines -> Forall word_ok pw -> lines_ok outW ->
  let '(pw', _, outW') := run maxw (pw, le, outW) lines in Forall word_ok pw' /\ lines_ok outW'.
Proof.
  induction lines as [|l r IH]; intros pw le outW Hl Hpw Ho; cbn [run fold_left]; [auto|].
  inversion Hl as [|x y Hx Hr]; subst. fold (run maxw (step maxw (pw, le, outW) l) r).
  destruct l as [|w ws].
  - cbn [step]. assert (Hfo : lines_ok (flush pw outW)).
    { destruct pw; cbn [flush]; [exact Ho|]. apply Forall_app. split; [exact Ho|constructor; [exact Hpw|constructor]]. }
    destruct le; apply IH; auto; try constructor.
    apply Forall_app. split; [exact Hfo|repeat constructor].
  - rewrite step_wordline by discriminate.
    pose proof (flowW_ok (w :: ws) pw outW Hx Hpw Ho) as Hok.
    destruct (flowW maxw (w :: ws) pw outW) as [pw' outW']. destruct Hok. apply IH; assumption.
Qed.

Lemma G_ok lines : lines_ok lines -> lines_ok (G maxw lines).
Proof.
  intros H. unfold G. pose proof (run_ok lines [] true [] H) as Hr.
  destruct (run maxw init lines) as [[pw le] outW] eqn:E. unfold init in E. rewrite E in Hr.
  destruct Hr as [Hp Ho]; try constructor. cbn [finish]. destruct pw; cbn [flush]; [exact Ho|].
  apply Forall_app. split; [exact Ho|constructor; [exact Hp|constructor]].
Qed.

Lemma jn_no_nl ws : Forall word_ok ws -> no_nl (join_with 32 ws).
Proof.
  induction ws as [|w r IH]; intros H; [constructor|]. inversion H as [|x l [_ Hw] Hr]; subst.
  assert (Hwn : no_nl w).
  { eapply Forall_impl; [|exact Hw]. intros c Hc ->. rewrite is_space_10 in Hc. discriminate. }
  destruct r as [|w2 r2]; [exact Hwn|]. cbn [join_with]. apply Forall_app. split; [exact Hwn|].
  constructor; [discriminate|]. apply IH. exact Hr.
Qed.

(* ---- the theorem -------------------------------------------------------------------------------- *)
Theorem reflow_fixed_point input :
  let out := reformat_description input maxw in
  reformat_description (join_with 10 out) maxw = out.
Proof.
  cbv zeta. rewrite (reformat_is_G input). set (W := G maxw (map fields (split_on 10 input))).
  assert (HW : Forall (Forall word_ok) W).
  { apply G_ok. apply Forall_forall. intros l Hl. apply in_map_iff in Hl. destruct Hl as (x & <- & _). apply fields_ok. }
  rewrite reformat_is_G. f_equal.
  destruct W as [|l0 W'] eqn:EW.
  - cbn. reflexivity.
  - rewrite split_join.
    + rewrite map_map. rewrite (map_ext_in _ (fun x => x)), map_id.
      * rewrite <- EW. unfold W. apply G_fixed.
      * intros l Hl. apply fields_jn. apply (proj1 (Forall_forall _ _) HW). exact Hl.
    + discriminate.
    + apply Forall_forall. intros l Hl. apply in_map_iff in Hl. destruct Hl as (x & <- & Hx).
      apply jn_no_nl. apply (proj1 (Forall_forall _ _) HW). exact Hx.
Qed.
End Transport.

(* ====================================================================== *)
(* the re-flow keeps the words and the paragraph breaks                      *)
Section Paragraphs.
Variable maxw : Z.

(* paragraphs of a list of lines-as-word-lists: maximal runs of non-empty lines, words concatenated *)
Definition pflush (st : list (list (list N)) * list (list N)) : list (list (list N)) :=
  match snd st with [] => fst st | _ => fst st ++ [snd st] end.
Definition pstep (st : list (list (list N)) * list (list N)) (line : list (list N)) :=
  match line with
  | [] => (pflush st, [])
  | _ => (fst st, snd st ++ line)
  end.
Definition pstate (lines : list (list (list N))) := fold_left pstep lines ([], []).
Definition paras (lines : list (list (list N))) : list (list (list N)) := pflush (pstate lines).

Lemma pstate_app a b : pstate (a ++ b) = fold_left pstep b (pstate a).
Proof. unfold pstate. apply fold_left_app. Qed.

Lemma fold_pstep_nonempty : forall E st, Forall (fun l => l <> []) E ->
  fold_left pstep E st = (fst st, snd st ++ concat E).
Proof.
  induction E as [|l r IH]; intros st H; cbn [fold_left concat]; [rewrite app_nil_r; destruct st; reflexivity|].
  inversion H; subst. rewrite IH by assumption. destruct l as [|w ws]; [congruence|]. cbn [pstep fst snd].
  rewrite <- app_assoc. reflexivity.
Qed.

(* flowW only regroups words *)
Lemma flowW_words : forall ws pw out,
  let '(pw', out') := flowW maxw ws pw out in
  exists E, out' = out ++ E /\ Forall (fun l => l <> []) E /\ concat E ++ pw' = pw ++ ws.
Proof.
  induction ws as [|x r IH]; intros pw out; cbn [flowW].
  - exists []. rewrite !app_nil_r. auto.
  - destruct pw as [|p0 pr].
    + specialize (IH [x] out). destruct (flowW maxw r [x] out) as [pw' out']. destruct IH as (E & A & B & C).
      exists E. auto.
    + destruct (overflow maxw (p0 :: pr) x).
      * specialize (IH [x] (out ++ [p0 :: pr])). destruct (flowW maxw r [x] (out ++ [p0 :: pr])) as [pw' out'].
        destruct IH as (E & A & B & C). exists ((p0 :: pr) :: E). split; [rewrite A, <- app_assoc; reflexivity|].
        split; [constructor; [discriminate|exact B]|]. cbn [concat]. rewrite <- app_assoc, C. reflexivity.
      * specialize (IH ((p0 :: pr) ++ [x]) out). destruct (flowW maxw r ((p0 :: pr) ++ [x]) out) as [pw' out'].
        destruct IH as (E & A & B & C). exists E. split; [exact A|]. split; [exact B|]. rewrite C, <- app_assoc. reflexivity.
Qed.

(* the machine's output plus its pending words has the paragraph state of the lines read so far *)
Definition popen (out : list (list (list N))) (pw : list (list N)) := (fst (pstate out), snd (pstate out) ++ pw).

Definition pinv (s : list (list N) * bool * list (list (list N))) (L1 : list (list (list N))) : Prop :=
  let '(pw, le, out) := s in
  popen out pw = pstate L1 /\ (pw <> [] -> le = false) /\ (pw = [] -> le = true /\ snd (pstate L1) = []).

Lemma flowW_pending : forall ws pw out pw' out', ws <> [] -> flowW maxw ws pw out = (pw', out') -> pw' <> [].
Proof.
  induction ws as [|y ys IHws]; intros pw out pw' out' Hne Hf; [congruence|]. cbn [flowW] in Hf.
  destruct ys as [|z zs].
  - destruct pw as [|p0 pr]; cbn [flowW] in Hf.
    + injection Hf as <- _. discriminate.
    + destruct (overflow maxw (p0 :: pr) y); injection Hf as <- _; [discriminate|destruct pr; discriminate].
  - destruct pw as [|p0 pr]; [eapply IHws; [discriminate|exact Hf]|].
    destruct (overflow maxw (p0 :: pr) y); eapply IHws; try exact Hf; discriminate.
Qed.

Lemma pstate_snoc L1 line : pstate (L1 ++ [line]) = pstep (pstate L1) line.
Proof. rewrite pstate_app. reflexivity. Qed.

Lemma step_pinv s L1 line : pinv s L1 -> pinv (step maxw s line) (L1 ++ [line]).
Proof.
  destruct s as [[pw le] out]. intros (Hp & Hne & He). unfold popen in Hp.
  destruct line as [|x r].
  - cbn [step]. unfold pinv. rewrite pstate_snoc. cbn [pstep snd].
    split; [|split; [congruence|intros _; split; reflexivity]].
    unfold popen. rewrite app_nil_r. rewrite <- Hp. unfold pflush. cbn [fst snd].
    destruct pw as [|p0 pr].
    + destruct (He eq_refl) as [-> Hc]. cbn [flush]. rewrite app_nil_r. destruct (pstate out) as [d c]. cbn [fst snd].
      rewrite <- Hp in Hc. cbn in Hc. rewrite app_nil_r in Hc. subst c. reflexivity.
    + rewrite (Hne ltac:(discriminate)). cbn [flush]. rewrite !pstate_snoc.
      destruct (pstate out) as [d c]. cbn [pstep fst snd pflush].
      destruct (c ++ p0 :: pr) as [|y ys] eqn:E; [destruct c; discriminate|]. reflexivity.
  - rewrite step_wordline by discriminate.
    pose proof (flowW_words (x :: r) pw out) as Hw.
    destruct (flowW maxw (x :: r) pw out) as [pw' out'] eqn:Ef. destruct Hw as (E & A & B & C).
    assert (Hpw' : pw' <> []) by (eapply flowW_pending; [|exact Ef]; discriminate).
    unfold pinv. split; [|split; [reflexivity|contradiction]].
    unfold popen. rewrite pstate_snoc, A, pstate_app, (fold_pstep_nonempty E _ B). cbn [fst snd pstep].
    rewrite <- Hp. cbn [fst snd]. f_equal. rewrite <- !app_assoc. f_equal. exact C.
Qed.

Lemma run_pinv : forall L2 s L1, pinv s L1 -> pinv (run maxw s L2) (L1 ++ L2).
Proof.
  induction L2 as [|l r IH]; intros s L1 H; [rewrite app_nil_r; exact H|].
  cbn [run fold_left]. replace (L1 ++ l :: r) with ((L1 ++ [l]) ++ r) by (rewrite <- app_assoc; reflexivity).
  apply IH. apply step_pinv. exact H.
Qed.

(* the re-flow at word level keeps the paragraphs *)
Theorem paras_G lines : paras (G maxw lines) = paras lines.
Proof.
  unfold G. pose proof (run_pinv lines (init) [] ) as H. cbn [app] in H.
  assert (H0 : pinv init []) by (cbn; repeat split; congruence).
  specialize (H H0). destruct (run maxw init lines) as [[pw le] out]. destruct H as (Hp & _ & _).
  cbn [finish]. unfold paras. rewrite <- Hp. unfold popen. destruct pw as [|p0 pr]; cbn [flush].
  - rewrite app_nil_r. destruct (pstate out); reflexivity.
  - rewrite pstate_snoc. destruct (pstate out) as [d c]. cbn [pstep fst snd]. reflexivity.
Qed.
End Paragraphs.

(* at the level of the Go function: the lines it returns, joined as doDescription / popDescription do,
   have the paragraphs of the input *)
Theorem reflow_paras maxw input :
  paras (map fields (split_on 10 (join_with 10 (reformat_description input maxw)))) =
  paras (map fields (split_on 10 input)).
Proof.
  rewrite (reformat_is_G maxw input). set (L := map fields (split_on 10 input)).
  assert (HW : Forall (Forall word_ok) (G maxw L)).
  { apply G_ok. apply Forall_forall. intros l Hl. apply in_map_iff in Hl. destruct Hl as (x & <- & _). apply fields_ok. }
  rewrite <- (paras_G maxw L).
  destruct (G maxw L) as [|l0 W'] eqn:EW.
  - reflexivity.
  - rewrite split_join.
    + rewrite map_map. rewrite (map_ext_in _ (fun x => x)), map_id; [reflexivity|].
      intros l Hl. apply fields_jn. apply (proj1 (Forall_forall _ _) HW). exact Hl.
    + discriminate.
    + apply Forall_forall. intros l Hl. apply in_map_iff in Hl. destruct Hl as (x & <- & Hx).
      apply jn_no_nl. apply (proj1 (Forall_forall _ _) HW). exact Hx.
Qed.

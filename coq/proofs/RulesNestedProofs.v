(* RulesNestedProofs.v — C04 for inline (nested) schemas: the tree of messages the
   compiler model emits for a declaration tree reads back as the declared tree
   (names Outer_Inner, references by that name), for every tree in the fragment. *)
From Coq Require Import String List NArith ZArith Bool Lia.
From J5V.lib Require Import Outcome Strcase.
From J5V.model Require Import RulesDecl RulesWrite RulesRead RulesNested.
From J5V.proofs Require Import RulesProofs RulesReadProofs.
Import ListNotations.

(* ---- the reference does not matter for the fragment ---- *)
Lemma rt_fty_set_ref m n t : rt_fty m (set_ref_ty n t) = rt_fty m t.
Proof. destruct t, m; reflexivity. Qed.

Lemma rt_ok_set_ref n d : rt_ok (set_ref n d) = rt_ok d.
Proof.
  unfold rt_ok, set_ref. cbn [p_desc p_ty p_opt]. destruct (p_ty d); rewrite rt_fty_set_ref; reflexivity.
Qed.

Lemma rt_ok_resolve here f : rt_ok (resolve here f) = rt_ok (nf_prop f).
Proof. destruct f as [d [s|]]; cbn [resolve nf_prop]; [apply rt_ok_set_ref|reflexivity]. Qed.

(* ---- induction over declaration trees ---- *)
Section Ind.
  Variable Q : nschema -> Prop.
  Hypothesis step : forall k on desc fields,
    Forall (fun f => match f with NF _ (Some s) => Q s | NF _ None => True end) fields -> Q (NS k on desc fields).
  Fixpoint nschema_ind' (s : nschema) : Q s.
  Proof.
    destruct s as [k on desc fields]. apply step.
    revert fields. fix go 1. intros [|f r]; constructor.
    - destruct f as [d [s'|]]; [apply nschema_ind'|exact I].
    - apply go.
  Qed.
End Ind.

(* ---- the inner loops, named ---- *)
Definition write_inner (env : enum_env) (here : list str) : list nfield -> outcome (list mtree) :=
  fix go (fs : list nfield) : outcome (list mtree) :=
    match fs with
    | [] => Ok []
    | NF _ None :: r => go r
    | NF d (Some s') :: r =>
        if kind_matches (ns_kind s') (item_ty d)
        then obind (write_schema env here (inner_name d s') s') (fun m =>
             obind (go r) (fun ms => Ok (m :: ms)))
        else Err "inline schema of another kind than the field"
    end.
Definition read_inner (env : enum_env) (here : list str) : list mtree -> outcome (list rtree) :=
  fix go (ms : list mtree) : outcome (list rtree) :=
    match ms with
    | [] => Ok []
    | m' :: r' => obind (read_tree env here m') (fun t => obind (go r') (fun ts => Ok (t :: ts)))
    end.
Definition norm_inner (env : enum_env) (here : list str) : list nfield -> list rtree :=
  fix go (fs : list nfield) : list rtree :=
    match fs with
    | [] => []
    | NF _ None :: r => go r
    | NF d (Some s') :: r => norm_schema env here (inner_name d s') s' :: go r
    end.
Definition rt_inner : list nfield -> bool :=
  fix go (fs : list nfield) : bool :=
    match fs with
    | [] => true
    | NF d None :: r => rt_ok d && go r
    | NF d (Some s') :: r => rt_ok d && tree_rt s' && go r
    end.

Lemma write_schema_eq env path name k on desc fields :
  write_schema env path name (NS k on desc fields) =
  obind (write_root env (RD k name desc (map (resolve (path ++ [name])) fields))) (fun o =>
  obind (write_inner env (path ++ [name]) fields) (fun ms => Ok (MT o ms))).
Proof. reflexivity. Qed.

Lemma read_tree_eq env path o nested :
  read_tree env path (MT o nested) =
  obind (read_root env o) (fun r =>
  obind (read_inner env (path ++ [ro_name o]) nested)
        (fun ts => Ok (RT (RR (rr_kind r) (join_path 95 (path ++ [ro_name o])) (rr_desc r) (rr_props r)) ts))).
Proof. reflexivity. Qed.

Lemma norm_schema_eq env path name k on desc fields :
  norm_schema env path name (NS k on desc fields) =
  RT (RR k (join_path 95 (path ++ [name])) desc (norm_object env (map (resolve (path ++ [name])) fields)))
     (norm_inner env (path ++ [name]) fields).
Proof. reflexivity. Qed.

Lemma tree_rt_eq k on desc fields : tree_rt (NS k on desc fields) = desc_plain desc && rt_inner fields.
Proof. reflexivity. Qed.

Lemma rt_inner_props here fields : rt_inner fields = true -> forallb rt_ok (map (resolve here) fields) = true.
Proof.
  induction fields as [|[d [s|]] r IH]; intro H; [reflexivity| |]; cbn [rt_inner] in H; cbn [map forallb].
  - apply andb_true_iff in H as [H Hr]. apply andb_true_iff in H as [Hd _].
    rewrite (rt_ok_resolve here (NF d (Some s))). cbn [nf_prop]. rewrite Hd. exact (IH Hr).
  - apply andb_true_iff in H as [Hd Hr]. cbn [resolve]. rewrite Hd. exact (IH Hr).
Qed.

Section Tree.
Variable env : enum_env.
Hypothesis Hstd : zero_std env = true.

Definition reads_back (s : nschema) : Prop :=
  forall path name m, tree_rt s = true -> write_schema env path name s = Ok m ->
    read_tree env path m = Ok (norm_schema env path name s).

Lemma inner_reads_back here : forall fields ms,
  Forall (fun f => match f with NF _ (Some s) => reads_back s | NF _ None => True end) fields ->
  rt_inner fields = true -> write_inner env here fields = Ok ms ->
  read_inner env here ms = Ok (norm_inner env here fields).
Proof.
  induction fields as [|[d [s|]] r IH]; intros ms HQ Hrt Hw.
  - inversion Hw. reflexivity.
  - inversion HQ as [|? ? Hs Hr]; subst.
    cbn [rt_inner] in Hrt. apply andb_true_iff in Hrt as [Hrt Hrr]. apply andb_true_iff in Hrt as [_ Hts].
    cbn [write_inner] in Hw. destruct (kind_matches (ns_kind s) (item_ty d)); [|discriminate].
    apply obind_ok in Hw as [m [Hm Hw]]. apply obind_ok in Hw as [ms' [Hms Hw]]. inversion Hw; subst ms.
    cbn [read_inner norm_inner]. rewrite (Hs here (inner_name d s) m Hts Hm). cbn [obind].
    fold (read_inner env here). rewrite (IH ms' Hr Hrr Hms). reflexivity.
  - inversion HQ as [|? ? _ Hr]; subst.
    cbn [rt_inner] in Hrt. apply andb_true_iff in Hrt as [_ Hrr].
    cbn [write_inner] in Hw. cbn [norm_inner]. exact (IH ms Hr Hrr Hw).
Qed.

Theorem c04_tree : forall s, reads_back s.
Proof.
  apply nschema_ind'. intros k on desc fields HQ path name m Hrt Hw.
  rewrite tree_rt_eq in Hrt. apply andb_true_iff in Hrt as [Hdesc Hin].
  rewrite write_schema_eq in Hw. apply obind_ok in Hw as [o [Ho Hw]]. apply obind_ok in Hw as [ms [Hms Hw]].
  inversion Hw; subst m. rewrite read_tree_eq.
  assert (Hroot : rt_root (RD k name desc (map (resolve (path ++ [name])) fields)) = true).
  { unfold rt_root. cbn [rd_desc rd_props]. rewrite Hdesc. apply rt_inner_props. exact Hin. }
  rewrite (c04_root env _ o Hstd Hroot Ho). cbn [obind].
  assert (Hn : ro_name o = name).
  { unfold write_root in Ho. apply obind_ok in Ho as [os [_ Ho]]. inversion Ho. reflexivity. }
  rewrite Hn. rewrite (inner_reads_back (path ++ [name]) fields ms HQ Hin Hms). cbn [obind].
  rewrite norm_schema_eq. reflexivity.
Qed.

(* ---- the fragment is exact for trees ---- *)
Definition reads_back_only_if (s : nschema) : Prop :=
  forall path name m, write_schema env path name s = Ok m ->
    read_tree env path m = Ok (norm_schema env path name s) -> tree_rt s = true.

Lemma rt_props_inner here fields :
  forallb rt_ok (map (resolve here) fields) = true ->
  (forall f s, In f fields -> f = NF (nf_prop f) (Some s) -> tree_rt s = true) ->
  rt_inner fields = true.
Proof.
  induction fields as [|[d [s|]] r IH]; intros Hp Hs; [reflexivity| |]; cbn [map forallb] in Hp;
    apply andb_true_iff in Hp as [Hd Hr]; cbn [rt_inner].
  - rewrite (rt_ok_resolve here (NF d (Some s))) in Hd. cbn [nf_prop] in Hd. rewrite Hd.
    rewrite (Hs (NF d (Some s)) s (or_introl eq_refl) eq_refl). cbn [andb].
    apply IH; [exact Hr|]. intros f s0 Hin Hf. apply (Hs f s0); [right; exact Hin|exact Hf].
  - cbn [resolve] in Hd. rewrite Hd. cbn [andb].
    apply IH; [exact Hr|]. intros f s0 Hin Hf. apply (Hs f s0); [right; exact Hin|exact Hf].
Qed.

Lemma inner_only_if here : forall fields ms,
  Forall (fun f => match f with NF _ (Some s) => reads_back_only_if s | NF _ None => True end) fields ->
  write_inner env here fields = Ok ms ->
  read_inner env here ms = Ok (norm_inner env here fields) ->
  forall f s, In f fields -> f = NF (nf_prop f) (Some s) -> tree_rt s = true.
Proof.
  induction fields as [|[d [s|]] r IH]; intros ms HQ Hw Hr f s0 Hin Hf.
  - destruct Hin.
  - inversion HQ as [|? ? Hs Hrest]; subst.
    cbn [write_inner] in Hw. destruct (kind_matches (ns_kind s) (item_ty d)); [|discriminate].
    apply obind_ok in Hw as [m [Hm Hw]]. apply obind_ok in Hw as [ms' [Hms Hw]]. inversion Hw; subst ms.
    cbn [read_inner norm_inner] in Hr. fold (read_inner env here) in Hr.
    destruct (read_tree env here m) as [t| | |] eqn:Et; cbn [obind] in Hr; try discriminate.
    destruct (read_inner env here ms') as [ts| | |] eqn:Ets; cbn [obind] in Hr; try discriminate.
    injection Hr as Ht Hts.
    destruct Hin as [Heq|Hin].
    + subst f. cbn [nf_prop] in Hf. injection Hf as Hss. subst s0.
      apply (Hs here (inner_name d s) m Hm). rewrite Et, Ht. reflexivity.
    + apply (IH ms' Hrest Hms) with (f := f); [rewrite Ets, Hts; reflexivity|exact Hin|exact Hf].
  - inversion HQ as [|? ? _ Hrest]; subst. cbn [write_inner] in Hw. cbn [norm_inner] in Hr.
    destruct Hin as [Heq|Hin].
    + subst f. cbn [nf_prop] in Hf. discriminate Hf.
    + exact (IH ms Hrest Hw Hr f s0 Hin Hf).
Qed.

Theorem c04_tree_only_if : forall s, reads_back_only_if s.
Proof.
  apply nschema_ind'. intros k on desc fields HQ path name m Hw Hr.
  rewrite write_schema_eq in Hw. apply obind_ok in Hw as [o [Ho Hw]]. apply obind_ok in Hw as [ms [Hms Hw]].
  inversion Hw; subst m. rewrite read_tree_eq in Hr.
  assert (Hn : ro_name o = name).
  { unfold write_root in Ho. apply obind_ok in Ho as [os [_ Ho']]. inversion Ho'. reflexivity. }
  destruct (read_root env o) as [r| | |] eqn:Er; cbn [obind] in Hr; try discriminate.
  rewrite Hn in Hr.
  destruct (read_inner env (path ++ [name]) ms) as [ts| | |] eqn:Ets; cbn [obind] in Hr; try discriminate.
  rewrite norm_schema_eq in Hr. injection Hr as Hk Hd Hp Hts.
  assert (Hroot : rt_root (RD k name desc (map (resolve (path ++ [name])) fields)) = true).
  { apply (c04_root_exact env _ o Hstd Ho). rewrite Er. unfold norm_root, norm_object. cbn [rd_kind rd_name rd_desc rd_props].
    assert (Hrn : rr_name r = name).
    { unfold read_root in Er. destruct (ro_msgopt o); [|discriminate].
      apply obind_ok in Er as [ps [_ Er']]. inversion Er'. cbn [rr_name]. exact Hn. }
    destruct r as [rk rn rd rp]. cbn [rr_kind rr_name rr_desc rr_props] in *. subst. reflexivity. }
  unfold rt_root in Hroot. cbn [rd_desc rd_props] in Hroot. apply andb_true_iff in Hroot as [Hdesc Hprops].
  rewrite tree_rt_eq, Hdesc. cbn [andb].
  apply (rt_props_inner (path ++ [name])); [exact Hprops|].
  apply (inner_only_if (path ++ [name]) fields ms HQ Hms). rewrite Ets, Hts. reflexivity.
Qed.

Theorem c04_tree_exact s path name m :
  write_schema env path name s = Ok m ->
  (read_tree env path m = Ok (norm_schema env path name s) <-> tree_rt s = true).
Proof.
  intro Hw. split.
  - exact (c04_tree_only_if s path name m Hw).
  - intro H. exact (c04_tree s path name m H Hw).
Qed.

End Tree.

(* J5sExtBoolProofs.v — the boolean embedding test files_ext_b is sound: whenever it answers
   true, the old descriptors embed into the new ones in the sense of J5sEdit.files_ext. *)
From Coq Require Import String List NArith Bool Lia.
From J5V.lib Require Import Outcome Corr.
From J5V.model Require Import J5sAst Desc J5sWalk J5sEdit.
From J5V.proofs Require Import J5sProofs J5sLinkProofs.
Import ListNotations.
Local Open Scope N_scope.

Lemma and_true a c : a && c = true -> a = true /\ c = true.
Proof. apply andb_true_iff. Qed.

Lemma ptype_eqb_eq x y : ptype_eqb x y = true -> x = y.
Proof. destruct x, y; cbn; intros H; try discriminate; reflexivity. Qed.
Lemma plabel_eqb_eq x y : plabel_eqb x y = true -> x = y.
Proof. destruct x, y; cbn; intros H; try discriminate; reflexivity. Qed.
Lemma mkind_eqb_eq x y : mkind_eqb x y = true -> x = y.
Proof. destruct x, y; cbn; intros H; try discriminate; reflexivity. Qed.
Lemma verb_eqb_eq x y : verb_eqb x y = true -> x = y.
Proof. destruct x, y; cbn; intros H; try discriminate; reflexivity. Qed.
Lemma bool_eqb_eq x y : Bool.eqb x y = true -> x = y.
Proof. apply Bool.eqb_prop. Qed.

Lemma dfield_eqb_eq x y : dfield_eqb x y = true -> x = y.
Proof.
  unfold dfield_eqb. intros H. repeat (apply and_true in H; destruct H as [H ?]).
  destruct x, y. cbn in *.
  repeat match goal with
  | E : str_eqb _ _ = true |- _ => apply str_eqb_eq in E
  | E : (_ =? _) = true |- _ => apply N.eqb_eq in E
  | E : ptype_eqb _ _ = true |- _ => apply ptype_eqb_eq in E
  | E : plabel_eqb _ _ = true |- _ => apply plabel_eqb_eq in E
  | E : Bool.eqb _ _ = true |- _ => apply bool_eqb_eq in E
  end. subst. reflexivity.
Qed.

Lemma option_eqb_eq {A} (eqb : A -> A -> bool) (Heq : forall a c, eqb a c = true -> a = c) x y :
  option_eqb eqb x y = true -> x = y.
Proof. destruct x, y; cbn; intros H; try discriminate; [f_equal; apply Heq; exact H|reflexivity]. Qed.

Lemma dhttp_eqb_eq x y : dhttp_eqb x y = true -> x = y.
Proof.
  unfold dhttp_eqb. intros H. repeat (apply and_true in H; destruct H as [H ?]). destruct x, y. cbn in *.
  apply verb_eqb_eq in H. apply str_eqb_eq in H0, H1. subst. reflexivity.
Qed.

Lemma role_eqb_eq x y : role_eqb x y = true -> x = y.
Proof. destruct x, y; cbn; intros H; try discriminate; try reflexivity; apply str_eqb_eq in H; subst; reflexivity. Qed.

Lemma dmethod_eqb_eq x y : dmethod_eqb x y = true -> x = y.
Proof.
  unfold dmethod_eqb. intros H. repeat (apply and_true in H; destruct H as [H ?]). destruct x, y. cbn in *.
  apply str_eqb_eq in H, H1, H2. apply (option_eqb_eq _ dhttp_eqb_eq) in H0. subst. reflexivity.
Qed.

Lemma prefix_b_sound {A} (R : A -> A -> bool) (Heq : forall a c, R a c = true -> a = c) l : forall l',
  prefix_b R l l' = true -> prefix_of l l'.
Proof.
  induction l as [|a r IH]; intros l' H; [exists l'; reflexivity|].
  destruct l' as [|c r']; cbn in H; [discriminate|]. apply and_true in H. destruct H as [H1 H2].
  apply Heq in H1. subst c. destruct (IH _ H2) as [t ->]. exists t. reflexivity.
Qed.

Lemma sub_list_b_sound {A} (R : A -> A -> bool) (P : A -> A -> Prop) l : forall l',
  (forall a c, In a l -> R a c = true -> P a c) -> sub_list_b R l l' = true -> sub_list P l l'.
Proof.
  induction l as [|a r IH]; intros l' HP H; [constructor|].
  cbn [sub_list_b] in H. induction l' as [|c q IHq]; [discriminate|].
  destruct (R a c) eqn:E.
  - apply sl_keep; [apply HP; [left; reflexivity|exact E]|]. apply IH; [intros x y Hx; apply HP; right; exact Hx|exact H].
  - apply sl_skip. apply IHq. exact H.
Qed.

Lemma enum_ext_b_sound a c : enum_ext_b a c = true -> enum_ext a c.
Proof.
  unfold enum_ext_b, enum_ext. intros H. apply and_true in H. destruct H as [H1 H2]. apply str_eqb_eq in H1.
  split; [exact H1|]. eapply prefix_b_sound; [|exact H2].
  intros [p1 n1] [p2 n2] E. cbn in E. apply and_true in E. destruct E as [E1 E2].
  apply str_eqb_eq in E1. apply N.eqb_eq in E2. subst. reflexivity.
Qed.

Theorem msg_ext_b_sound : forall a c, msg_ext_b a c = true -> msg_ext a c.
Proof.
  induction a as [n k fs ms es IH] using dmsg_ind2. intros [n' k' fs' ms' es'] H.
  cbn [msg_ext_b] in H. repeat (apply and_true in H; destruct H as [H ?]).
  apply str_eqb_eq in H. apply mkind_eqb_eq in H3. subst n' k'. constructor.
  - eapply prefix_b_sound; [exact dfield_eqb_eq|eassumption].
  - eapply sub_list_b_sound; [|eassumption]. intros x y Hx Hxy. rewrite Forall_forall in IH. apply (IH x Hx). exact Hxy.
  - eapply sub_list_b_sound; [|eassumption]. intros x y _. apply enum_ext_b_sound.
Qed.

Lemma service_ext_b_sound a c : service_ext_b a c = true -> service_ext a c.
Proof.
  unfold service_ext_b, service_ext. intros H. repeat (apply and_true in H; destruct H as [H ?]).
  apply str_eqb_eq in H. split; [exact H|]. split.
  - eapply option_eqb_eq; [|exact H1]. intros [p1 r1] [p2 r2] E. cbn in E. apply and_true in E. destruct E as [E1 E2].
    apply str_eqb_eq in E1. apply role_eqb_eq in E2. subst. reflexivity.
  - eapply prefix_b_sound; [exact dmethod_eqb_eq|exact H0].
Qed.

Lemma file_ext_b_sound a c : file_ext_b a c = true -> file_ext a c.
Proof.
  unfold file_ext_b, file_ext. intros H. repeat (apply and_true in H; destruct H as [H ?]).
  apply str_eqb_eq in H, H3. repeat split; try assumption.
  - eapply sub_list_b_sound; [|eassumption]. intros x y _. apply msg_ext_b_sound.
  - eapply sub_list_b_sound; [|eassumption]. intros x y _. apply enum_ext_b_sound.
  - eapply sub_list_b_sound; [|eassumption]. intros x y _. apply service_ext_b_sound.
Qed.

Theorem files_ext_b_sound D D' : files_ext_b D D' = true -> files_ext D D'.
Proof.
  unfold files_ext_b, files_ext. apply sub_list_b_sound. intros a c _. apply file_ext_b_sound.
Qed.

(* BclPanicSitesProofs.v — every expression of the anchored files that can panic by itself (index, slice,
   single-value type assertion, integer division, explicit panic), as the translator enumerates them
   (gen/BclIndexGen.v), against the reviewed list below.  Each reviewed row says how the site is covered:
     model:<site>   an explicit Panic / WPanic outcome of the model, excluded by the named theorem;
     guard          the enclosing Go condition bounds the index (named), mirrored by the model's match;
     map            a map read (never panics);
     loop           index is the loop variable of a range / counted loop over the same slice;
     init           package initialisation over constant tables (runs before any input; the harness runs it);
     outside        a function ParseFile / Fmt / FmtDiffs / HumanString never call (named caller class).
   A new index / slice / assertion / division / panic in these files, or a moved one, changes the generated
   table and breaks [panic_capable_sites_reviewed] at build time: it has to be reviewed and, if reachable,
   given an explicit Panic arm in the model. *)
From Coq Require Import String List.
From J5V.gen Require BclIndexGen.
Import ListNotations.
Local Open Scope string_scope.

Definition reviewed_sites : list ((string * string * string * string) * string) := [
  (("parser/lexer.go", "Lexer.next", "index", "l.data[l.offset]"), "guard: if l.offset >= len(l.data) returns before; model next matches on rest");
  (("parser/lexer.go", "Lexer.peek", "index", "l.data[l.offset]"), "guard: same test; model peek = hd_error rest");
  (("parser/lexer.go", "Lexer.NextToken", "index", "operators[l.ch]"), "map");
  (("parser/token.go", "Token.String", "slice", "short[:17]"), "guard: len(short) > 20; model tok_string cuts with firstn under the same test (token_string_cut_present: kept <= threshold)");
  (("parser/token.go", "TokenType.String", "index", "tokens[tok]"), "guard: 0 <= tok && tok < len(tokens)");
  (("parser/token.go", "init", "index", "keywords[tokens[i]]"), "init");
  (("parser/token.go", "init", "index", "tokens[i]"), "init");
  (("parser/token.go", "init", "index", "operators[rune(tokens[i][0])]"), "init");
  (("parser/token.go", "init", "index", "tokens[i][0]"), "init: operator texts are non-empty (token_texts_present)");
  (("parser/token.go", "init", "index", "tokens[i]"), "init");
  (("parser/token.go", "asKeyword", "index", "keywords[ident]"), "map");
  (("parser/token.go", "IsKeyword", "index", "keywords[name]"), "map");
  (("parser/parser.go", "fragmentsToFile", "index", "fragments[len(fragments) - 1]"), "model:BclToFile.go_last, excluded by C11_to_file_index_in_bounds");
  (("parser/parser.go", "Walker.currentPos", "index", "w.tokens[w.offset - 1]"), "guard: if w.offset == 0 returns before; model current_pos matches on wprev");
  (("parser/parser.go", "Walker.popToken", "index", "ww.tokens[len(ww.tokens) - 1]"), "model:pop_token WPanic popToken, excluded by C11_parse_total");
  (("parser/parser.go", "Walker.popToken", "index", "ww.tokens[ww.offset]"), "guard: ww.offset >= len(ww.tokens) handled before");
  (("parser/parser.go", "Walker.peekType", "index", "ww.tokens[ww.offset + offset]"), "guard: ww.offset+offset >= len(ww.tokens) returns EOF; offset is 0 or 1");
  (("parser/parser.go", "Walker.popDescription", "index", "tokens[0]"), "loop: the loop body appends before its only exit, so tokens is non-empty; model pop_description_loop starts from the popped token");
  (("parser/parser.go", "Walker.popDescription", "index", "tokens[len(tokens) - 1]"), "loop: as above");
  (("parser/errors.go", "unexpectedTokenError.msg", "index", "e.expected[0]"), "guard: len(e.expected) == 1");
  (("parser/errors.go", "unexpectedTokenError.msg", "index", "expectSet[i]"), "loop");
  (("parser/expressions.go", "NewReference", "index", "idents[0]"), "model:pop_reference_loop WPanic NewReference, excluded by C11_parse_total");
  (("parser/expressions.go", "NewReference", "index", "idents[len(idents) - 1]"), "model: as above");
  (("parser/expressions.go", "Reference.Strings", "index", "out[i]"), "loop; outside: schema layer");
  (("parser/fmt.go", "FmtDiffs", "index", "merged[last]"), "guard: last >= 0 in the same condition (short-circuit &&; GoExpr evaluates it so: merge_diffs_agrees)");
  (("parser/fmt.go", "FmtDiffs", "index", "merged[last]"), "guard: inside the branch of the condition above");
  (("parser/fmt.go", "FmtDiffs", "index", "merged[last]"), "guard: as above");
  (("parser/fmt.go", "FmtDiffs", "index", "merged[last]"), "guard: as above");
  (("parser/fmt.go", "lineSet.rangeLines", "slice", "ls.lines[from:to]"), "model:range_lines Panic, excluded by C19_no_failure; evaluated from the table in range_lines_agrees");
  (("parser/fmt.go", "fmter.diffFile", "index", "ff[idx]"), "loop: idx < len(ff)");
  (("parser/fmt.go", "fmter.diffFile", "panic", "panic"), "default arm of the type switch over the five fragment types: diff_file_handles_every_fragment");
  (("parser/fmt.go", "fmter.multiLineToken", "index", "lines[idx]"), "loop");
  (("errpos/print.go", "ErrorsWithSource.Error", "index", "e.Errors[0]"), "guard: len(e.Errors) == 1");
  (("errpos/print.go", "humanString", "index", "lines[lineNum - 1]"), "model:context_loop go_index, excluded by C11_render_total");
  (("errpos/print.go", "humanString", "index", "lines[startLine - 1]"), "model:human_string go_index, excluded by C11_render_total");
  (("errpos/print.go", "humanString", "slice", "errLine[:startCol - 1]"), "model:human_string go_slice_to, excluded by C11_render_total");
  (("errpos/print.go", "replaceRunes", "index", "runes[i]"), "loop");
  (("errpos/print.go", "setFilenames", "index", "input[idx]"), "loop; outside: AddSourceFile (callers with a file name)");
  (("errpos/errors.go", "Errors.Error", "index", "e[0]"), "guard: len(e) > 0")
].

Lemma panic_capable_sites_reviewed : map fst reviewed_sites = BclIndexGen.panic_capable_sites.
Proof. vm_compute. reflexivity. Qed.

(* the sites covered by an explicit Panic outcome of the model: these eight *)
Definition is_model_site (r : (string * string * string * string) * string) : bool :=
  String.eqb (substring 0 6 (snd r)) "model:".
Lemma model_panic_sites : length (filter is_model_site reviewed_sites) = 8%nat.
Proof. vm_compute. reflexivity. Qed.

(* BclToFileProofs.v — fragmentsToFile's `fragments[len(fragments)-1]` is in bounds: a block can
   only be open after the loop if there was a fragment (an open header) to open it. *)
From Coq Require Import String List NArith ZArith Bool.
From J5V.lib Require Import Text Outcome.
From J5V.model Require Import BclLexer BclParser BclToFile.
Import ListNotations.

Lemma last_some_nonempty {A} (l : list A) : l <> [] -> exists x, last (map Some l) None = Some x.
Proof.
  induction l as [|a r IH]; intros H; [contradiction|].
  destruct r as [|b r']; [exists a; reflexivity|].
  destruct IH as [x Hx]; [discriminate|]. exists x. exact Hx.
Qed.

(* the open-block stack after the loop is non-empty only if it was non-empty before or there was a fragment *)
Lemma to_file_loop_stack : forall fs cur stack errs,
  snd (fst (to_file_loop fs cur stack errs)) <> [] -> stack <> [] \/ fs <> [].
Proof.
  intros fs cur stack errs H. destruct fs as [|f r]; [left; exact H|right; discriminate].
Qed.

Theorem go_last_in_bounds fs :
  snd (fst (to_file_loop fs [] [] [])) <> [] -> exists lf, go_last fs = Ok lf.
Proof.
  intros H. destruct (to_file_loop_stack fs [] [] [] H) as [E|E]; [contradiction E; reflexivity|].
  destruct (last_some_nonempty fs E) as [x Hx]. exists x. unfold go_last. rewrite Hx. reflexivity.
Qed.

(* the function with the explicit Panic arm never takes it, and is the totalised one *)
Theorem fragments_to_file_go_ok fs : fragments_to_file_go fs = Ok (fragments_to_file fs).
Proof.
  unfold fragments_to_file_go, fragments_to_file.
  pose proof (go_last_in_bounds fs) as H.
  destruct (to_file_loop fs [] [] []) as [[cur stack] errs]. cbn [fst snd] in H.
  destruct stack as [|hp st]; [reflexivity|].
  destruct H as [lf Hlf]; [discriminate|]. rewrite Hlf. cbn [obind].
  unfold go_last in Hlf. destruct (last (map Some fs) None) as [x|]; [|discriminate].
  injection Hlf as ->. reflexivity.
Qed.

Corollary fragments_to_file_no_panic fs : is_panic (fragments_to_file_go fs) = false.
Proof. rewrite fragments_to_file_go_ok. reflexivity. Qed.

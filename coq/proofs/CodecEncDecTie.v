(* CodecEncDecTie.v — the round trip stated over the decoder family's models (the ones tied to the
   Go decoder): scalar layer CodecDecScalar.scalar_from_go, tree decoder CodecDecTree.tr_decode.
   Part A: scalar_from_go reads back every token the encoder prints for a representable scalar
           (scalar_rt_ok for dsc_dec), under laws of the three library oracles.
   Part B: every successful run of this family's generic tree decoder (instantiated with
           scalar_from_go) is a successful run of tr_decode with the same result. *)
From Coq Require Import String List Arith NArith ZArith Bool Lia ZifyN ZifyNat ZifyBool.
From J5V.lib Require Import Outcome Json JsonPrint Base64 Civil Decimal Radix.
From J5V.model Require Import CodecTypes CodecEnc CodecEncSpec CodecEncDec.
From J5V.model Require CodecDecScalar CodecDec CodecDecTree.
From J5V.proofs Require Import CodecEncProofs CodecEncDecProofs CodecEncTotal.
Import ListNotations.
Local Open Scope N_scope.
Local Open Scope bool_scope.
Arguments Nat.sub : simpl never.

Module DS := J5V.model.CodecDecScalar.
Module DD := J5V.model.CodecDec.
Module DT := J5V.model.CodecDecTree.

(* the decoder family's scalar layer on a tree leaf *)
Definition dsc_dec (orc : DS.oracles) (k : scalar_kind) (j : jvalue) : outcome (option pval) :=
  DS.scalar_from_go orc k (DT.goval_of_json j).

(* laws of the three library functions the decoder family leaves uninterpreted *)
Definition pf_of (orc : DS.oracles) (is32 : bool) (s : bytes) : option N :=
  if is32 then snd (DS.o_float orc s) else fst (DS.o_float orc s).
Definition orc_float_ok (fmt_float : bool -> N -> bytes) (orc : DS.oracles) : Prop :=
  float_roundtrip fmt_float (pf_of orc).
Definition orc_time_ok (orc : DS.oracles) : Prop := time_parse_extends (DS.o_time orc).
(* decimal.NewFromString(s).String() is the normalised text of lib/Decimal, exponent within bounds *)
Definition orc_decimal_ok (orc : DS.oracles) : Prop :=
  forall s d, dec_normalise s = Some d ->
    exists ex, DS.o_decimal orc s = Some (d, ex) /\ (Z.abs ex <= 1000)%Z.

(* ================================================================ integers *)
Lemma digits_value_spec s : forall acc, forallb is_digit s = true ->
  DS.digits_value s acc = Some (of_digits_be 10 acc (map (fun c => c - 48) s)).
Proof.
  induction s as [|c r IH]; intros acc H; [reflexivity|].
  cbn [forallb] in H. apply andb_true_iff in H as [Hc Hr].
  cbn [DS.digits_value map]. rewrite Hc. rewrite IH by exact Hr. reflexivity.
Qed.

Lemma parse_N_sim s n : parse_N s = Some n -> DS.parse_unsigned s = Some n.
Proof.
  unfold parse_N, DS.parse_unsigned. destruct s as [|c r]; [discriminate|].
  destruct (forallb is_digit (c :: r)) eqn:E; [|discriminate]. intros [= <-].
  rewrite (digits_value_spec (c :: r) 0 E). reflexivity.
Qed.

Lemma parse_Z_sim s z : parse_Z s = Some z -> DS.parse_signed s = Some z.
Proof.
  unfold parse_Z, DS.parse_signed. destruct s as [|c r]; [discriminate|].
  destruct (c =? 45) eqn:E45.
  - apply N.eqb_eq in E45. subst c. cbn [N.eqb Pos.eqb].
    destruct (parse_N r) as [n|] eqn:En; [|discriminate]. cbn [option_map]. intros [= <-].
    rewrite (parse_N_sim _ _ En). reflexivity.
  - destruct (c =? 43) eqn:E43.
    + destruct (parse_N r) as [n|] eqn:En; [|discriminate]. cbn [option_map]. intros [= <-].
      rewrite (parse_N_sim _ _ En). reflexivity.
    + destruct (parse_N (c :: r)) as [n|] eqn:En; [|discriminate]. cbn [option_map]. intros [= <-].
      rewrite (parse_N_sim _ _ En). reflexivity.
Qed.

Lemma parse_signed_sim lo hi s z :
  CodecEncDec.parse_signed lo hi s = Some z -> DS.parse_int_bits lo hi s = Some z.
Proof.
  unfold CodecEncDec.parse_signed, DS.parse_int_bits. destruct (parse_Z s) as [w|] eqn:E; [|discriminate].
  rewrite (parse_Z_sim _ _ E). unfold in_rangeZ, DS.in_range. destruct ((lo <=? w)%Z && (w <=? hi)%Z); intros H; [exact H|discriminate].
Qed.

Lemma parse_unsigned_sim hi s z :
  CodecEncDec.parse_unsigned hi s = Some z -> DS.parse_uint_bits hi s = Some z.
Proof.
  unfold CodecEncDec.parse_unsigned, DS.parse_uint_bits. destruct (parse_N s) as [n|] eqn:E; [|discriminate].
  rewrite (parse_N_sim _ _ E). intros H. exact H.
Qed.

Lemma int_sim k j x : (k = KInt32 \/ k = KInt64 \/ k = KUint32 \/ k = KUint64) ->
  dec_int k j = Ok x -> DS.int_from_go k (DT.goval_of_json j) = Ok x.
Proof.
  intros Hk H. unfold dec_int in H. unfold DS.int_from_go.
  unfold DS.min_i64, DS.max_i64, DS.min_i32, DS.max_i32, DS.max_u32, DS.max_u64, CodecEncDec.max_u64 in *.
  destruct j as [| b | lit | s | l | l]; try discriminate; cbn [DT.goval_of_json].
  - (* number *)
    destruct Hk as [ -> | [ -> | [ -> | -> ] ] ]; cbv beta iota in *.
    + destruct (CodecEncDec.parse_signed _ _ lit) as [z|] eqn:E; [|discriminate].
      rewrite (parse_signed_sim _ _ _ _ E). exact H.
    + destruct (CodecEncDec.parse_signed _ _ lit) as [z|] eqn:E; [|discriminate].
      rewrite (parse_signed_sim _ _ _ _ E). exact H.
    + destruct (CodecEncDec.parse_signed _ _ lit) as [z|] eqn:E; [|discriminate].
      rewrite (parse_signed_sim _ _ _ _ E). exact H.
    + destruct (CodecEncDec.parse_unsigned _ lit) as [z|] eqn:E; [|discriminate].
      rewrite (parse_unsigned_sim _ _ _ E). exact H.
  - (* string *)
    destruct Hk as [ -> | [ -> | [ -> | -> ] ] ]; cbv beta iota in *.
    + destruct (CodecEncDec.parse_signed _ _ s) as [z|] eqn:E; [|discriminate].
      rewrite (parse_signed_sim _ _ _ _ E). exact H.
    + destruct (CodecEncDec.parse_signed _ _ s) as [z|] eqn:E; [|discriminate].
      rewrite (parse_signed_sim _ _ _ _ E). exact H.
    + destruct (CodecEncDec.parse_unsigned _ s) as [z|] eqn:E; [|discriminate].
      rewrite (parse_unsigned_sim _ _ _ E). exact H.
    + destruct (CodecEncDec.parse_unsigned _ s) as [z|] eqn:E; [|discriminate].
      rewrite (parse_unsigned_sim _ _ _ E). exact H.
Qed.

(* ================================================================ dates *)
Lemma split_sim s : forall cur, split_dash s cur = DS.split_on 45 s cur.
Proof. induction s as [|c r IH]; intros cur; [reflexivity|]. cbn [split_dash DS.split_on]. rewrite !IH. reflexivity. Qed.

Lemma atoi_sim s z : Civil.atoi s = Some z -> DS.atoi s = Some z.
Proof.
  unfold Civil.atoi, DS.atoi, DS.parse_int_bits. destruct (parse_Z s) as [w|] eqn:E; [|discriminate].
  rewrite (parse_Z_sim _ _ E). unfold DS.in_range, DS.min_i64, DS.max_i64, two63.
  destruct ((- (9223372036854775808) <=? w)%Z && (w <? 9223372036854775808)%Z) eqn:R; [|discriminate].
  intros [= <-]. replace ((- 9223372036854775808 <=? w)%Z && (w <=? 9223372036854775807)%Z) with true by lia.
  reflexivity.
Qed.

Lemma days_in_sim y m : DS.days_in y m = Civil.days_in m y.
Proof.
  unfold DS.days_in, Civil.days_in, DS.is_leap, Civil.is_leap.
  destruct (m =? 2)%Z eqn:E2.
  - replace ((m =? 4) || (m =? 6) || (m =? 9) || (m =? 11))%Z with false by lia. reflexivity.
  - destruct ((m =? 4) || (m =? 6) || (m =? 9) || (m =? 11))%Z; reflexivity.
Qed.

Lemma date_sim s y m d :
  Civil.date_from_string s = Some (y, m, d) -> DS.date_from_string s = Some (y, m, d).
Proof.
  unfold Civil.date_from_string, DS.date_from_string. rewrite split_sim.
  destruct (DS.split_on 45 s []) as [|a [|b [|c [|x t]]]]; try discriminate.
  destruct (Civil.atoi a) as [y0|] eqn:Ea; [|discriminate].
  destruct (Civil.atoi b) as [m0|] eqn:Eb; [|destruct (Civil.atoi c); discriminate].
  destruct (Civil.atoi c) as [d0|] eqn:Ec; [|discriminate].
  rewrite (atoi_sim _ _ Ea), (atoi_sim _ _ Eb), (atoi_sim _ _ Ec). rewrite days_in_sim.
  destruct ((0 <=? y0)%Z && (y0 <=? 9999)%Z && (1 <=? m0)%Z && (m0 <=? 12)%Z && (1 <=? d0)%Z && (d0 <=? Civil.days_in m0 y0)%Z) eqn:R;
    [|discriminate].
  intros [= <- <- <-]. pose proof (days_in_le m0 y0) as Hdi.
  replace ((y0 <? 0) || (9999 <? y0) || (m0 <? 1) || (12 <? m0) || (d0 <? 1) || (Civil.days_in m0 y0 <? d0))%Z with false by lia.
  unfold DS.wrap_i32.
  assert (Hy : (0 <= y0 <= 9999)%Z) by lia. assert (Hm : (1 <= m0 <= 12)%Z) by lia. assert (Hd : (1 <= d0 <= 31)%Z) by lia.
  rewrite !Z.mod_small by lia.
  replace (y0 <? 2147483648)%Z with true by lia. replace (m0 <? 2147483648)%Z with true by lia.
  replace (d0 <? 2147483648)%Z with true by lia. reflexivity.
Qed.

(* ================================================================ bytes *)
Lemma ds_b64_val_char d : d < 64 -> DS.b64_val (b64_char d) = Some d.
Proof.
  intros H. pose (P := fun d => match DS.b64_val (b64_char d) with Some x => x =? d | None => false end).
  assert (HP : P d = true) by (apply (forall_below P 64); [vm_compute; reflexivity|exact H]).
  unfold P in HP. destruct (DS.b64_val (b64_char d)) as [x|]; [|discriminate]. f_equal. lia.
Qed.

Lemma b64_go_quad s0 s1 s2 s3 r : s0 < 64 -> s1 < 64 -> s2 < 64 -> s3 < 64 ->
  DS.b64_go (b64_char s0 :: b64_char s1 :: b64_char s2 :: b64_char s3 :: r) [] =
  match DS.b64_go r [] with Some o => Some (DS.quantum_bytes [s0; s1; s2; s3] ++ o) | None => None end.
Proof.
  intros H0 H1 H2 H3. cbn [DS.b64_go]. rewrite !ds_b64_val_char by assumption. reflexivity.
Qed.

Lemma b64_go_encode bs : Forall is_byte bs -> DS.b64_go (b64_encode bs) [] = Some bs.
Proof.
  induction bs as [| a | a b | a b c r IH] using list_ind3; intros Hb.
  - reflexivity.
  - inversion Hb as [|? ? Ha _]; subst. unfold is_byte in Ha.
    destruct (sextets_lt a 0 0 Ha ltac:(lia) ltac:(lia)) as (S0 & _ & _ & _ & S1 & _).
    cbn [b64_encode DS.b64_go]. rewrite !ds_b64_val_char by assumption. cbn [app length N.of_nat].
    change (DS.b64_val 61) with (@None N). cbv iota. cbn [N.eqb Pos.of_succ_nat Pos.succ Pos.eqb].
    change (DS.is_crlf 61) with false. cbv iota. change (61 =? 61) with true. cbv iota.
    cbn [DS.skip_crlf]. change (DS.is_crlf 61) with false. cbv iota. change (61 =? 61) with true. cbv iota.
    cbn [DS.skip_crlf DS.quantum_bytes]. f_equal. f_equal. divlia.
  - inversion Hb as [|? ? Ha Hb']; subst. inversion Hb' as [|? ? Hbb _]; subst. unfold is_byte in *.
    destruct (sextets_lt a b 0 Ha Hbb ltac:(lia)) as (S0 & S1 & _ & _ & _ & S2).
    cbn [b64_encode DS.b64_go]. rewrite !ds_b64_val_char by assumption. cbn [app length N.of_nat].
    change (DS.b64_val 61) with (@None N). cbv iota. cbn [N.eqb Pos.of_succ_nat Pos.succ Pos.eqb].
    change (DS.is_crlf 61) with false. cbv iota. change (61 =? 61) with true. cbv iota.
    cbn [DS.skip_crlf DS.quantum_bytes]. f_equal. f_equal; [divlia|f_equal; divlia].
  - inversion Hb as [|? ? Ha Hb1]; subst. inversion Hb1 as [|? ? Hbb Hb2]; subst.
    inversion Hb2 as [|? ? Hc Hr]; subst. unfold is_byte in *.
    destruct (sextets_lt a b c Ha Hbb Hc) as (S0 & S1 & S2 & S3 & _ & _).
    cbn [b64_encode]. rewrite b64_go_quad by assumption. rewrite (IH Hr).
    cbn [DS.quantum_bytes app]. f_equal. f_equal; [divlia|f_equal; [divlia|f_equal; divlia]].
Qed.

Lemma map_url_id l : Forall b64_out_char l -> map DS.url_to_std l = l.
Proof.
  induction 1 as [|c r Hc Hr IH]; [reflexivity|]. cbn [map]. rewrite IH. f_equal.
  unfold DS.url_to_std. destruct Hc as (_ & _ & _ & H45 & H95).
  replace (c =? 45) with false by lia. replace (c =? 95) with false by lia. reflexivity.
Qed.

Lemma bytes_from_string_encode bs : Forall is_byte bs -> DS.bytes_from_string (b64_encode bs) = Some bs.
Proof.
  intros Hb. unfold DS.bytes_from_string. rewrite map_url_id by (apply b64_encode_chars; exact Hb).
  rewrite b64_encode_len.
  replace (N.of_nat (4 * ((length bs + 2) / 3)) mod 4) with 0.
  2:{ rewrite Nat2N.inj_mul. change (N.of_nat 4) with 4. rewrite N.mul_comm, N.mod_mul by lia. reflexivity. }
  cbn [N.eqb]. unfold DS.b64_std_decode. apply b64_go_encode. exact Hb.
Qed.

(* ================================================================ the scalar layer *)
Section ScalarTie.
  Variable fmt_float : bool -> N -> bytes.
  Variable orc : DS.oracles.
  Hypothesis Hdecimal : orc_decimal_ok orc.

  (* away from bytes the two scalar layers agree on every token this family's layer accepts *)
  Lemma scalar_sim k j x : k <> KBytes ->
    dec_scalar (pf_of orc) (DS.o_time orc) k j = Ok x -> dsc_dec orc k j = Ok x.
  Proof.
    intros Hk H. unfold dsc_dec. destruct k; cbn [dec_scalar] in H; cbn [DS.scalar_from_go].
    - apply int_sim; [tauto|exact H].
    - apply int_sim; [tauto|exact H].
    - apply int_sim; [tauto|exact H].
    - apply int_sim; [tauto|exact H].
    - unfold dec_float in H. unfold DS.float_from_go.
      destruct j as [| b | t | t | l | l]; try discriminate; cbn [DT.goval_of_json obind];
        unfold pf_of in H; destruct (snd (DS.o_float orc t)); try discriminate; exact H.
    - unfold dec_float in H. unfold DS.float_from_go.
      destruct j as [| b | t | t | l | l]; try discriminate; cbn [DT.goval_of_json obind];
        unfold pf_of in H; destruct (fst (DS.o_float orc t)); try discriminate; exact H.
    - destruct j; try discriminate; exact H.
    - destruct j; try discriminate; exact H.
    - congruence.
    - destruct j; try discriminate; exact H.
    - destruct j as [| b | t | s | l | l]; try discriminate. cbn [DT.goval_of_json].
      destruct (Civil.date_from_string s) as [[[y mo] d]|] eqn:E; [|discriminate].
      rewrite (date_sim _ _ _ _ E). exact H.
    - destruct j as [| b | s | s | l | l]; try discriminate; cbn [DT.goval_of_json];
        (destruct (dec_normalise s) as [d|] eqn:E; [|discriminate]);
        destruct (Hdecimal s d E) as (ex & -> & Hex);
        unfold DS.max_decimal_exponent; replace (1000 <? Z.abs ex)%Z with false by lia; exact H.
    - destruct j; try discriminate; exact H.
  Qed.

  Hypothesis Hfloat_ok : float_text_ok fmt_float.
  Hypothesis Hfloat : orc_float_ok fmt_float orc.
  Hypothesis Htime : orc_time_ok orc.

  Theorem scalar_rt_dec : scalar_rt_ok fmt_float (dsc_dec orc).
  Proof.
    intros k v Hrep.
    destruct (scalar_roundtrip fmt_float (pf_of orc) (DS.o_time orc) Hfloat_ok Hfloat Htime k v Hrep)
      as (J & (txt & Henc & Htxt) & Hw & Hnc & Hnn & v' & Hdec & Heq).
    exists J. split; [eauto|]. split; [exact Hw|]. split; [exact Hnc|]. split; [exact Hnn|].
    exists v'. split; [|exact Heq].
    assert (Hdecide : k = KBytes \/ k <> KBytes) by (destruct k; (left; reflexivity) || (right; discriminate)).
    destruct Hdecide as [->|Hk]; [|apply scalar_sim; assumption].
    (* bytes: the token is the padded standard encoding *)
    destruct v; try contradiction. cbn [rep_scalar] in Hrep. cbn [enc_scalar] in Henc.
    apply escape_ok in Henc as [Hv ->].
    assert (HJ : J = JStr (b64_encode s)).
    { assert (H1 : strict_parse (print J) = Some J) by (apply parse_print; exact Hw).
      rewrite <- Htxt in H1. rewrite parse_print in H1 by exact Hv. congruence. }
    subst J. unfold dsc_dec. cbn [DT.goval_of_json DS.scalar_from_go].
    rewrite bytes_from_string_encode by exact Hrep.
    cbn [dec_scalar] in Hdec. rewrite b64_lenient_encode in Hdec by exact Hrep. exact Hdec.
  Qed.
End ScalarTie.

(* ================================================================ Part B: structure *)
From J5V.proofs Require CodecDecTreeProofs CodecDecTreeUnfold.
Module TP := J5V.proofs.CodecDecTreeProofs.
Module TU := J5V.proofs.CodecDecTreeUnfold.

Lemma mem_b_sim x l : mem_b x l = DD.mem_bytes x l.
Proof. induction l as [|y r IH]; [reflexivity|]. cbn [mem_b DD.mem_bytes]. rewrite IH. reflexivity. Qed.

Lemma conflict_sim p m : CodecEncDec.oneof_conflict (p_path p) (p_siblings p) m = DD.oneof_conflict p m.
Proof.
  unfold DD.oneof_conflict. generalize (p_path p) as path. intros path. revert m.
  induction path as [|n rest IH]; intros m; [reflexivity|].
  destruct rest as [|n2 rest'].
  - reflexivity.
  - change (CodecEncDec.oneof_conflict (n :: n2 :: rest') (p_siblings p) m) with
      (match msg_get n m with Some (VMsg sub) => CodecEncDec.oneof_conflict (n2 :: rest') (p_siblings p) sub | _ => false end).
    change (DD.holder_lookup (n :: n2 :: rest') m) with
      (match msg_get n m with Some (VMsg sub) => DD.holder_lookup (n2 :: rest') sub | _ => None end).
    destruct (msg_get n m) as [[]|]; try reflexivity. apply IH.
Qed.

(* holder (this family) and with_holder (decoder family) walk the same way *)
Lemma holder_with {A} (c : A) path : forall m k (k' : N -> msg -> outcome (msg * A)) m',
  (forall n h x, k n h = Ok x -> k' n h = Ok (x, c)) ->
  holder path m k = Ok m' -> DD.with_holder path m k' = Ok (m', c).
Proof.
  induction path as [|n rest IH]; intros m k k' m' Hk H; [discriminate|].
  destruct rest as [|n2 rest'].
  - cbn [holder DD.with_holder] in *. apply Hk. exact H.
  - change (holder (n :: n2 :: rest') m k) with
      (let '(sub, m1) := msg_mutable [] n m in
       obind (holder (n2 :: rest') sub k) (fun sub' => Ok (msg_put n (VMsg sub') m1))) in H.
    change (DD.with_holder (n :: n2 :: rest') m k') with
      (let '(sub, m1) := msg_mutable [] n m in
       obind (DD.with_holder (n2 :: rest') sub k') (fun r => Ok (msg_put n (VMsg (fst r)) m1, snd r))).
    destruct (msg_mutable [] n m) as [sub m1].
    apply obind_ok in H as (sub' & Hs & H). injection H as <-.
    rewrite (IH sub k k' sub' Hk Hs). reflexivity.
Qed.

Lemma holder_with_fst path m k (k' : N -> msg -> outcome (msg * unit)) m' :
  (forall n h x, k n h = Ok x -> k' n h = Ok (x, tt)) ->
  holder path m k = Ok m' -> omap fst (DD.with_holder path m k') = Ok m'.
Proof. intros Hk H. rewrite (holder_with tt path m k k' m' Hk H). reflexivity. Qed.

Lemma oneof_post_sim props m found c r :
  CodecEncDec.oneof_post props m found c = Ok r -> DD.oneof_post props m found c = Ok r.
Proof.
  unfold CodecEncDec.oneof_post, DD.oneof_post. destruct found as [|k0 [|k1 t]].
  - cbn [length N.of_nat N.eqb]. destruct c as [c|]; [|intros H; exact H].
    destruct (find_prop props c) as [p|]; [|discriminate]. unfold DD.create_effect.
    destruct (p_path p) as [|n0 rest] eqn:Ep; [intros H; exact H|].
    destruct (p_ty p); intros H; (eapply holder_with_fst; [|exact H]; intros n h x [= <-]; reflexivity).
  - cbn [length N.of_nat Pos.of_succ_nat N.eqb N.ltb N.compare Pos.compare Pos.compare_cont].
    destruct c as [c|]; [|intros H; exact H]. cbn [DD.index0 obind]. intros H. exact H.
  - destruct c; discriminate.
Qed.

Definition dok (j : jvalue) : Prop := DT.jdepth j <= DD.max_scan_depth.

Lemma dok_members ms : dok (JObj ms) -> Forall (fun kv => dok (snd kv)) ms.
Proof.
  unfold dok. cbn [DT.jdepth]. induction ms as [|[k v] r IH]; intros H; constructor; cbn [fold_right snd] in *.
  - lia.
  - apply IH. lia.
Qed.

Lemma dok_items js : dok (JArr js) -> Forall dok js.
Proof.
  unfold dok. cbn [DT.jdepth]. induction js as [|v r IH]; intros H; constructor; cbn [fold_right] in *.
  - lia.
  - apply IH. lia.
Qed.

Lemma any_sim ms : Forall (fun kv => dok (snd kv)) ms -> forall val ty r,
  any_members ms val ty = Ok r -> DT.tr_any_body ms val ty = Ok r.
Proof.
  induction 1 as [|[k v] rest Hv Hr IH]; intros val ty r H; [exact H|].
  cbn [any_members] in H. cbn [DT.tr_any_body].
  change DD.type_key with txt_type. destruct (bytes_eqb k txt_type).
  - destruct v; try discriminate. apply IH. exact H.
  - destruct val; [discriminate|]. cbn [snd] in Hv. unfold dok in Hv.
    replace (DD.max_scan_depth <? DT.jdepth v) with false by lia. apply IH. exact H.
Qed.

Lemma find_prop_in props key q : find_prop props key = Some q -> In q props.
Proof.
  induction props as [|q0 r IH]; cbn [find_prop]; [discriminate|].
  destruct (bytes_eqb (p_json q0) key); intros H; [injection H as <-; left; reflexivity|right; apply IH; exact H].
Qed.


Section Sim.
  Variable orc : DS.oracles.
  Variable e : env.
  Hypothesis Henv : env_items_ok e.

  (* what the decoder family's token-level model stores for an Any payload *)
  Definition raw_dec (v : jvalue) : bytes := DD.canon_json (tokens_of v).

  Notation dv := (dec_value (dsc_dec orc) raw_dec true None e).
  Notation dm := (dec_member (dsc_dec orc) raw_dec true None e).
  Notation dms := (dec_members (dsc_dec orc) raw_dec true None e).
  Notation don := (dec_oneof (dsc_dec orc) raw_dec true None e).
  Notation dit := (dec_items (dsc_dec orc) raw_dec true None e).
  Notation den := (dec_entries (dsc_dec orc) raw_dec true None e).

  Definition dokm (ms : list (bytes * jvalue)) : Prop := Forall (fun kv => dok (snd kv)) ms.
  Definition props_ty_ok (props : list property) : Prop := forall p, In p props -> ty_ok (p_ty p) = true.

  Definition SV f := forall d p j m m' F, ty_ok (p_ty p) = true -> dok j -> dv f d p j m = Ok m' ->
    (DT.jsize j < F)%nat -> DT.tr_present orc e F d p j m = Ok m'.
  Definition SM f := forall d p j m seen r F, ty_ok (p_ty p) = true -> dok j -> dm f d p j m seen = Ok r ->
    (DT.jsize j < F)%nat -> DT.tr_member d (DT.tr_present orc e F (d + 1) p) p j m seen = Ok r.
  Definition SO f := forall d props ms m seen m' F, props_ty_ok props -> dokm ms ->
    dms f d props ms m seen = Ok m' -> (TP.msize ms < F)%nat -> DT.tr_object orc e F d props ms m seen = Ok m'.
  Definition SN f := forall d props ms m seen found c m' F, props_ty_ok props -> dokm ms ->
    don f d props ms m seen found c = Ok m' -> (TP.msize ms < F)%nat ->
    DT.tr_oneof orc e F d props ms m seen found c = Ok m'.
  Definition SA f := forall d it js acc l F, Forall dok js -> dit f d it js acc = Ok l ->
    (TP.lsize js < F)%nat -> DT.tr_array orc e F d it js acc = Ok l.
  Definition SE f := forall d it ms acc seen l F, dokm ms -> den f d it ms acc seen = Ok l ->
    (TP.msize ms < F)%nat -> DT.tr_map orc e F d it ms acc = Ok l.

  Lemma env_obj r ps : lookup e r = Some (SObject ps) -> props_ty_ok ps.
  Proof. intros H p Hp. apply (Henv r ps (or_introl H) p Hp). Qed.
  Lemma env_oneof r ps : lookup e r = Some (SOneof ps) -> props_ty_ok ps.
  Proof. intros H p Hp. apply (Henv r ps (or_intror H) p Hp). Qed.

  Lemma msize_cons k v r : TP.msize ((k, v) :: r) = (S (DT.jsize v) + TP.msize r)%nat.
  Proof. reflexivity. Qed.
  Lemma lsize_cons v r : TP.lsize (v :: r) = (DT.jsize v + TP.lsize r)%nat.
  Proof. reflexivity. Qed.

  Lemma sim_all : forall f, SV f /\ SM f /\ SO f /\ SN f /\ SA f /\ SE f.
  Proof.
    induction f as [|f (IHV & IHM & IHO & IHN & IHA & IHE)].
    - repeat split; intros until F; intros; discriminate.
    - assert (HV : SV (S f)).
      { intros d p j m m' F Hty Hd H HF. destruct F as [|F]; [lia|].
        rewrite dec_value_S in H. rewrite TU.tr_present_S.
        destruct (p_ty p) as [k|r|r|r|it|it|pb] eqn:Ety.
        - change (DT.is_container j) with (CodecEncDec.is_container j).
          destruct (CodecEncDec.is_container j); [discriminate|].
          apply obind_ok in H as (v & Hv & H). unfold dsc_dec in Hv. rewrite Hv. cbn [obind].
          eapply holder_with_fst; [|exact H]. intros n h x [= <-]. destruct v; reflexivity.
        - destruct j; try discriminate. destruct (lookup e r) as [[| |pre opts]|]; try discriminate.
          destruct (option_by_name pre opts s); [|discriminate].
          eapply holder_with_fst; [|exact H]. intros n h x [= <-]. reflexivity.
        - destruct j as [| | | | |ms]; try discriminate.
          destruct (lookup e r) as [[props| |]|] eqn:El; try discriminate.
          eapply holder_with_fst; [|exact H]. intros n h x Hx. cbv beta in Hx |- *.
          destruct (msg_mutable (p_siblings p) n h) as [sub h1].
          apply obind_ok in Hx as (sub' & Hs & Hx). injection Hx as <-.
          rewrite (IHO _ _ _ _ _ _ F (env_obj _ _ El) (dok_members _ Hd) Hs); [reflexivity|].
          rewrite TP.jsize_obj in HF. lia.
        - destruct j as [| | | | |ms]; try discriminate.
          destruct (lookup e r) as [[|props|]|] eqn:El; try discriminate.
          assert (HF' : (TP.msize ms < F)%nat) by (rewrite TP.jsize_obj in HF; lia).
          destruct (p_path p) as [|n0 rest] eqn:Ep.
          + apply (IHN _ _ _ _ _ _ _ _ F (env_oneof _ _ El) (dok_members _ Hd) H HF').
          + eapply holder_with_fst; [|exact H]. intros n h x Hx. cbv beta in Hx |- *.
            destruct (msg_mutable (p_siblings p) n h) as [sub h1].
            apply obind_ok in Hx as (sub' & Hs & Hx). injection Hx as <-.
            rewrite (IHN _ _ _ _ _ _ _ _ F (env_oneof _ _ El) (dok_members _ Hd) Hs HF'). reflexivity.
        - destruct j as [| | | |js|]; try discriminate.
          cbn [ty_ok] in Hty.
          assert (Hgoal : omap fst (DD.with_holder (p_path p) m (fun n h =>
                    let existing := match msg_get n h with Some (VList l) => l | _ => [] end in
                    obind (DT.tr_array orc e F d it js existing) (fun l =>
                      Ok (msg_set true (p_siblings p) n (VList l) h, tt)))) = Ok m').
          { eapply holder_with_fst; [|exact H]. intros n h x Hx. cbv beta zeta in Hx |- *.
            apply obind_ok in Hx as (l & Hl & Hx). injection Hx as <-.
            rewrite (IHA _ _ _ _ _ F (dok_items _ Hd) Hl); [reflexivity|].
            rewrite TP.jsize_arr in HF. lia. }
          destruct it; try discriminate; exact Hgoal.
        - destruct j as [| | | | |ms]; try discriminate.
          cbn [ty_ok] in Hty.
          assert (Hgoal : omap fst (DD.with_holder (p_path p) m (fun n h =>
                    let existing := match msg_get n h with Some (VMap l) => l | _ => [] end in
                    obind (DT.tr_map orc e F d it ms existing) (fun l =>
                      Ok (msg_set true (p_siblings p) n (VMap l) h, tt)))) = Ok m').
          { eapply holder_with_fst; [|exact H]. intros n h x Hx. cbv beta zeta in Hx |- *.
            apply obind_ok in Hx as (l & Hl & Hx). injection Hx as <-.
            rewrite (IHE _ _ _ _ _ _ F (dok_members _ Hd) Hl); [reflexivity|].
            rewrite TP.jsize_obj in HF. lia. }
          destruct it; try discriminate; exact Hgoal.
        - destruct j as [| | | | |ms]; try discriminate.
          eapply holder_with_fst; [|exact H]. intros n h x Hx. cbv beta in Hx |- *.
          destruct (msg_mutable (p_siblings p) n h) as [sub h1].
          apply obind_ok in Hx as (vt & Hvt & Hx).
          rewrite (any_sim ms (dok_members _ Hd) None None vt Hvt). cbn [obind].
          destruct (snd vt) as [tn|]; [|discriminate]. destruct (fst vt) as [v|]; [|discriminate].
          cbv beta iota in Hx. destruct pb; [discriminate|]. injection Hx as <-. reflexivity. }
      assert (HM : SM (S f)).
      { intros d p j m seen r F Hty Hd H HF. rewrite dec_member_S in H. unfold DT.tr_member.
        change DD.max_nesting_depth with max_nesting.
        destruct (max_nesting <? d + 1); [discriminate|].
        rewrite <- mem_b_sim, <- conflict_sim.
        destruct j; try exact H;
          (destruct (mem_b (p_json p) seen); [discriminate|]);
          (destruct (CodecEncDec.oneof_conflict (p_path p) (p_siblings p) m); [discriminate|]);
          apply obind_ok in H as (m' & Hm & H);
          rewrite (IHV _ _ _ _ _ F Hty Hd Hm HF); exact H. }
      assert (HO : SO (S f)).
      { intros d props ms m seen m' F Hprops Hd H HF. destruct F as [|F]; [lia|].
        rewrite dec_members_S in H. rewrite TU.tr_object_S.
        destruct ms as [|[k v] r]; [exact H|].
        destruct (find_prop props k) as [p|] eqn:Efp; [|discriminate].
        apply obind_ok in H as (ms' & Hm & H). inversion Hd as [|? ? Hdv Hdr]; subst. cbn [snd] in Hdv.
        rewrite msize_cons in HF.
        rewrite (IHM _ _ _ _ _ _ F (Hprops p (find_prop_in _ _ _ Efp)) Hdv Hm) by lia. cbn [obind].
        apply (IHO _ _ _ _ _ _ F Hprops Hdr H). lia. }
      assert (HN : SN (S f)).
      { intros d props ms m seen found c m' F Hprops Hd H HF. destruct F as [|F]; [lia|].
        rewrite dec_oneof_S in H. rewrite TU.tr_oneof_S.
        destruct ms as [|[k v] r]; [apply oneof_post_sim; exact H|].
        inversion Hd as [|? ? Hdv Hdr]; subst. cbn [snd] in Hdv. rewrite msize_cons in HF.
        change DD.type_key with txt_type. destruct (bytes_eqb k txt_type).
        - destruct v; try discriminate. apply (IHN _ _ _ _ _ _ _ _ F Hprops Hdr H). lia.
        - destruct (find_prop props k) as [p|] eqn:Efp; [|discriminate].
          apply obind_ok in H as (ms' & Hm & H).
          rewrite (IHM _ _ _ _ _ _ F (Hprops p (find_prop_in _ _ _ Efp)) Hdv Hm) by lia. cbn [obind].
          apply (IHN _ _ _ _ _ _ _ _ F Hprops Hdr H). lia. }
      assert (HA : SA (S f)).
      { intros d it js acc l F Hd H HF. destruct F as [|F]; [lia|].
        rewrite dec_items_S in H. rewrite TU.tr_array_S.
        destruct js as [|j r]; [exact H|].
        inversion Hd as [|? ? Hdv Hdr]; subst. rewrite lsize_cons in HF.
        pose proof (TP.jsize_pos j) as Hjp.
        destruct it as [k|ref|ref|ref|it'|it'|pb]; try discriminate.
        - change (DT.is_container j) with (CodecEncDec.is_container j).
          destruct (CodecEncDec.is_container j); [discriminate|].
          apply obind_ok in H as (v & Hv & H). unfold dsc_dec in Hv. rewrite Hv. cbn [obind].
          destruct v as [x|]; [|discriminate]. cbn [DD.list_append obind].
          apply (IHA _ _ _ _ _ F Hdr H). lia.
        - destruct j; try discriminate. cbn [DT.is_container].
          destruct (lookup e ref) as [[| |pre opts]|]; try discriminate.
          destruct (option_by_name pre opts s); [|discriminate].
          apply (IHA _ _ _ _ _ F Hdr H). lia.
        - destruct j as [| | | | |ms]; try discriminate.
          destruct (lookup e ref) as [[props| |]|] eqn:El; try discriminate.
          apply obind_ok in H as (sub & Hs & H).
          rewrite (IHO _ _ _ _ _ _ F (env_obj _ _ El) (dok_members _ Hdv) Hs) by (rewrite TP.jsize_obj in HF; lia).
          cbn [obind]. apply (IHA _ _ _ _ _ F Hdr H). lia.
        - destruct j as [| | | | |ms]; try discriminate.
          destruct (lookup e ref) as [[|props|]|] eqn:El; try discriminate.
          apply obind_ok in H as (sub & Hs & H).
          rewrite (IHN _ _ _ _ _ _ _ _ F (env_oneof _ _ El) (dok_members _ Hdv) Hs) by (rewrite TP.jsize_obj in HF; lia).
          cbn [obind]. apply (IHA _ _ _ _ _ F Hdr H). lia. }
      assert (HE : SE (S f)).
      { intros d it ms acc seen l F Hd H HF. destruct F as [|F]; [lia|].
        rewrite dec_entries_S in H. rewrite TU.tr_map_S.
        destruct ms as [|[key j] r]; [exact H|].
        inversion Hd as [|? ? Hdv Hdr]; subst. cbn [snd] in Hdv. rewrite msize_cons in HF.
        destruct it as [k|ref|ref|ref|it'|it'|pb]; try discriminate.
        - destruct (mem_b key seen); [discriminate|]. cbn [andb] in H.
          destruct (map_get key acc); [discriminate|].
          change (DT.is_container j) with (CodecEncDec.is_container j).
          destruct (CodecEncDec.is_container j); [discriminate|].
          apply obind_ok in H as (v & Hv & H). unfold dsc_dec in Hv. rewrite Hv. cbn [obind].
          destruct v as [x|]; [|discriminate]. cbn [DD.map_set_value obind].
          apply (IHE _ _ _ _ _ _ F Hdr H). lia.
        - destruct (mem_b key seen); [discriminate|]. cbn [andb] in H.
          destruct (map_get key acc); [discriminate|].
          destruct j; try discriminate.
          destruct (lookup e ref) as [[| |pre opts]|]; try discriminate.
          destruct (option_by_name pre opts s); [|discriminate].
          apply (IHE _ _ _ _ _ _ F Hdr H). lia.
        - destruct (map_get key acc); [discriminate|].
          destruct j as [| | | | |ms]; try discriminate.
          destruct (lookup e ref) as [[props| |]|] eqn:El; try discriminate.
          apply obind_ok in H as (sub & Hs & H).
          rewrite (IHO _ _ _ _ _ _ F (env_obj _ _ El) (dok_members _ Hdv) Hs) by (rewrite TP.jsize_obj in HF; lia).
          cbn [obind]. apply (IHE _ _ _ _ _ _ F Hdr H). lia.
        - destruct (map_get key acc); [discriminate|].
          destruct j as [| | | | |ms]; try discriminate.
          destruct (lookup e ref) as [[|props|]|] eqn:El; try discriminate.
          apply obind_ok in H as (sub & Hs & H).
          rewrite (IHN _ _ _ _ _ _ _ _ F (env_oneof _ _ El) (dok_members _ Hdv) Hs) by (rewrite TP.jsize_obj in HF; lia).
          cbn [obind]. apply (IHE _ _ _ _ _ _ F Hdr H). lia. }
      repeat split; assumption.
  Qed.

  (* every successful run of this family's tree decoder (scalar layer, Any payload spelling and map
     check of the decoder family) is a successful run of tr_decode, same result, with the fuel the
     refinement theorem decode_bytes_tree uses *)
  Theorem decode_tree_sim root J m' :
    dok J -> decode_tree (dsc_dec orc) raw_dec true None e root J = Ok m' ->
    DT.tr_decode orc e (S (DT.jsize J)) root J = Ok m'.
  Proof.
    unfold decode_tree, decode_tree_fuel, DT.tr_decode. intros Hd H.
    destruct (sim_all (3 * jsize J + 3)) as (_ & _ & HO & HN & _ & _).
    destruct (lookup e root) as [[ps|ps|]|] eqn:El; try discriminate.
    - destruct J as [| | | | |ms]; try discriminate.
      apply (HO _ _ _ _ _ _ _ (env_obj _ _ El) (dok_members _ Hd) H). rewrite TP.jsize_obj. lia.
    - destruct J as [| | | | |ms]; try discriminate.
      apply (HN _ _ _ _ _ _ _ _ _ (env_oneof _ _ El) (dok_members _ Hd) H). rewrite TP.jsize_obj. lia.
  Qed.
End Sim.

(* ================================================================ the composition *)
Lemma jnest_le_jdepth : forall j, N.of_nat (jnest j) <= DT.jdepth j.
Proof.
  apply json_ind2; try (intros; cbn; lia).
  - intros l Hl. cbn [jnest DT.jdepth].
    induction Hl as [|x r Hx Hr IH]; cbn [fold_right]; [lia|]. lia.
  - intros l Hl. cbn [jnest DT.jdepth].
    assert (H : N.of_nat (fold_right (fun kv a => Nat.max (jnest (snd kv)) a) 0%nat l) <=
                fold_right (fun kv a => N.max (DT.jdepth (snd kv)) a) 0 l).
    { induction Hl as [|x r Hx Hr IH]; cbn [fold_right]; [lia|]. lia. }
    lia.
Qed.

Lemma raw_dec_nonempty j : wfb j = true -> raw_dec j <> [].
Proof.
  intros Hw. unfold raw_dec, DD.canon_json.
  destruct j as [|b|lit|s|l|l]; cbn [tokens_of DD.print_tokens app].
  - discriminate.
  - destruct b; discriminate.
  - cbn [wfb] in Hw. destruct lit as [|c r]; [discriminate|]. discriminate.
  - discriminate.
  - discriminate.
  - discriminate.
Qed.

Section FullDec.
  Variable fmt_float : bool -> N -> bytes.
  Variable any_inner : bytes -> bytes -> outcome bytes.
  Variable orc : DS.oracles.
  Variable env : env.
  Hypothesis Hflat : oneofs_flat env.
  Hypothesis Hnames : oneof_names_ok env.
  Hypothesis Hitems : env_items_ok env.
  Hypothesis Hfloat_ok : float_text_ok fmt_float.
  Hypothesis Hfloat : orc_float_ok fmt_float orc.
  Hypothesis Htime : orc_time_ok orc.
  Hypothesis Hdecimal : orc_decimal_ok orc.
  Hypothesis Hinner : inner_ok any_inner.

  (* C01 over the decoder family's tree decoder (the function that proofs/CodecDecTreeProofs shows the
     token-level decoder model computes on the tokens of J) *)
  Theorem codec_full_dec root m : rep_root any_inner raw_dec None env root m ->
    exists txt J, encode fmt_float any_inner env root m = Ok txt /\ strict_parse txt = Some J /\
      (DT.jdepth J <= DD.max_scan_depth ->
       exists m', DT.tr_decode orc env (S (DT.jsize J)) root J = Ok m' /\
                  equiv_root any_inner raw_dec None env root m m').
  Proof.
    intros Hrep.
    destruct (codec_full fmt_float any_inner (dsc_dec orc) raw_dec None env Hflat
                (scalar_rt_dec fmt_float orc Hdecimal Hfloat_ok Hfloat Htime) Hnames Hinner
                raw_dec_nonempty true root m Hrep) as (txt & J & Henc & HJ & Hdec).
    exists txt, J. split; [exact Henc|]. split; [exact HJ|]. intros Hd.
    destruct Hdec as (m' & Hm' & Heq).
    { pose proof (jnest_le_jdepth J). unfold DD.max_scan_depth, max_nesting in *. lia. }
    exists m'. split; [|exact Heq]. apply decode_tree_sim; assumption.
  Qed.
End FullDec.

(* the oracle laws are jointly satisfiable (with the float text of C01_premises_satisfiable) *)
Definition inst_orc : DS.oracles :=
  DS.mkOracles (fun s => (parse_N s, parse_N s)) parse_rfc3339
               (fun s => match dec_normalise s with Some d => Some (d, 0%Z) | None => None end).
Lemma orc_premises_satisfiable :
  float_text_ok inst_fmt /\ orc_float_ok inst_fmt inst_orc /\ orc_time_ok inst_orc /\ orc_decimal_ok inst_orc.
Proof.
  destruct premises_satisfiable as (H1 & H2 & H3).
  split; [exact H1|]. split.
  - intros is32 bits Hb Hf. unfold pf_of, inst_orc. cbn [DS.o_float fst snd].
    specialize (H2 is32 bits Hb Hf). unfold inst_parse_float in H2. destruct is32; exact H2.
  - split; [exact H3|]. intros s d Hd. exists 0%Z. unfold inst_orc. cbn [DS.o_decimal]. rewrite Hd. split; [reflexivity|lia].
Qed.

(* ================================================================ down to the bytes *)
From J5V.proofs Require Import CodecEncLex.

Section FullBytes.
  Variable fmt_float : bool -> N -> bytes.
  Variable any_inner : bytes -> bytes -> outcome bytes.
  Variable orc : DS.oracles.
  Variable env : env.
  Hypothesis Hflat : oneofs_flat env.
  Hypothesis Hnames : oneof_names_ok env.
  Hypothesis Hitems : env_items_ok env.
  Hypothesis Hfloat_ok : float_text_ok fmt_float.
  Hypothesis Hfloat : orc_float_ok fmt_float orc.
  Hypothesis Htime : orc_time_ok orc.
  Hypothesis Hdecimal : orc_decimal_ok orc.
  Hypothesis Hinner : inner_ok any_inner.

  (* C01 on the encoder's TEXT, through the decoder family's byte-level model (tokenizer Json.lex,
     token-level decoder CodecDec.decode_bytes — the models tied to encoding/json and decoder.go by
     that family's correspondence streams) *)
  Theorem codec_full_bytes root m : rep_root any_inner raw_dec None env root m ->
    exists txt J, encode fmt_float any_inner env root m = Ok txt /\ txt = print J /\ wfb J = true /\
      (DT.jdepth J <= DD.max_scan_depth ->
       exists m', DD.decode_bytes orc env root txt = Ok m' /\ equiv_root any_inner raw_dec None env root m m').
  Proof.
    intros Hrep.
    destruct (encode_total fmt_float any_inner (dsc_dec orc) raw_dec None env Hflat
                (scalar_rt_dec fmt_float orc Hdecimal Hfloat_ok Hfloat Htime) root m Hrep) as (txt & Henc).
    destruct (codec_roundtrip_print fmt_float any_inner (dsc_dec orc) raw_dec raw_dec_nonempty true None env Hflat Hnames
                (scalar_rt_dec fmt_float orc Hdecimal Hfloat_ok Hfloat Htime) Hinner root m txt Hrep Henc)
      as (J & -> & Hw & Hdec).
    exists (print J), J. split; [exact Henc|]. split; [reflexivity|]. split; [exact Hw|]. intros Hd.
    destruct Hdec as (m' & Hm' & Heq).
    { pose proof (jnest_le_jdepth J). unfold DD.max_scan_depth, max_nesting in *. lia. }
    exists m'. split; [|exact Heq].
    rewrite (TP.decode_bytes_tree orc env root (print J) J [] false).
    - apply decode_tree_sim; assumption.
    - rewrite app_nil_r. apply lex_print. exact Hw.
  Qed.
End FullBytes.

(* ================================================================ the oracle laws from the decoder family's oracle models *)
From J5V.proofs Require CodecDecTime CodecDecTimeFast CodecDecDecimal.

(* time.Parse: that family models Go's general layout parser (go_time_parse, compared with the real
   function on every run) and proves that it extends the RFC 3339 fast path *)
Lemma orc_time_from_model orc : J5V.proofs.CodecDecTime.time_oracle_is_model orc -> orc_time_ok orc.
Proof. intros H s r Hp. apply (J5V.proofs.CodecDecTimeFast.oracle_extends_fast_path orc H s r Hp). Qed.

(* decimal.NewFromString: the oracle is lib/Decimal (compared with shopspring on every run) *)
Lemma orc_decimal_from_model orc : J5V.proofs.CodecDecDecimal.decimal_oracle_is_model orc -> orc_decimal_ok orc.
Proof.
  intros H s d Hd. unfold dec_normalise in Hd. specialize (H s).
  destruct (dec_parse s) as [[m e]|]; [|discriminate].
  unfold Decimal.max_decimal_exponent in Hd.
  destruct ((e <=? 1000)%Z && (- (1000) <=? e)%Z) eqn:E; [|discriminate]. injection Hd as <-.
  destruct H as (d & Ho & Hd). exists e. unfold DS.max_decimal_exponent in Hd.
  rewrite Hd in Ho by lia. split; [exact Ho|lia].
Qed.

(* CodecDecSpaceAll.v — white space at token boundaries, all at once (C03).
   Part 1: the induction of proofs/CodecEncLex.v (enc's file, not edited; its text re-run here) with the
   weaker side condition [rest_ok2]: what follows a printed value may ALSO start with a white-space byte.
   Result [lex_value] (this file): for every well-formed tree J, in every tokenizer state that allows a value,
   the tokenizer reads  print J ++ rest  as the tokens of J and continues on rest, for every rest that starts
   with ',' ']' '}' or white space, or is empty. *)
From Coq Require Import String List Arith NArith ZArith Bool Lia ZifyN ZifyNat ZifyBool.
From J5V.lib Require Import Outcome Json JsonPrint.
From J5V.proofs Require Import JsonLexProofs CodecEncLex.
Import ListNotations.
Local Open Scope N_scope.
Local Open Scope bool_scope.
Arguments Nat.sub : simpl never.

Definition rest_ok2 (rest : list N) : Prop :=
  match rest with
  | [] => True
  | c :: _ => c = 44 \/ c = 93 \/ c = 125 \/ c = 32 \/ c = 9 \/ c = 13 \/ c = 10
  end.

Lemma rest_ok2_no_digit rest : rest_ok2 rest -> no_digit_head rest.
Proof. destruct rest as [|c r]; [trivial|]. cbn. unfold is_digit. lia. Qed.

Lemma scan_exp_app s rest : num_exp s = true -> rest_ok2 rest -> scan_exp (s ++ rest) = Some (s, rest).
Proof.
  intros H Hr. destruct s as [|c r].
  - cbn [app]. destruct rest as [|c r]; [reflexivity|]. cbn in Hr. cbn [scan_exp].
    replace ((c =? 101) || (c =? 69)) with false by lia. reflexivity.
  - cbn [num_exp] in H. destruct ((c =? 101) || (c =? 69)) eqn:Ee; [|discriminate].
    cbn [app scan_exp]. rewrite Ee.
    set (r' := match r with sg :: t => if (sg =? 43) || (sg =? 45) then t else r | [] => r end) in H.
    destruct (span_digits r') as [d t] eqn:Es. destruct d as [|d0 d]; [discriminate|]. destruct t; [|discriminate].
    pose proof (span_digits_spec _ _ _ Es) as [Hr' _]. rewrite app_nil_r in Hr'.
    destruct r as [|sg t0].
    + unfold r' in *. discriminate.
    + cbn [app]. unfold r' in *. destruct ((sg =? 43) || (sg =? 45)) eqn:Esg.
      * rewrite take_digits_span, (span_digits_app _ rest _ _ Es (fun _ => rest_ok2_no_digit _ Hr)).
        cbn [app]. rewrite Hr'. reflexivity.
      * change (sg :: t0 ++ rest) with ((sg :: t0) ++ rest).
        rewrite take_digits_span, (span_digits_app _ rest _ _ Es (fun _ => rest_ok2_no_digit _ Hr)).
        cbn [app]. rewrite Hr'. reflexivity.
Qed.

Lemma scan_frac_exp_app s rest : num_frac s = true -> rest_ok2 rest ->
  exists f e, scan_frac (s ++ rest) = Some (f, e ++ rest) /\ scan_exp (e ++ rest) = Some (e, rest) /\ s = f ++ e.
Proof.
  intros H Hr. destruct s as [|c r].
  - exists [], []. cbn [app]. split; [|split; [apply (scan_exp_app [] rest eq_refl Hr)|reflexivity]].
    destruct rest as [|c r]; [reflexivity|]. cbn in Hr. cbn [scan_frac]. replace (c =? 46) with false by lia. reflexivity.
  - cbn [num_frac] in H. destruct (c =? 46) eqn:E46.
    + destruct (span_digits r) as [d t] eqn:Es. destruct d as [|d0 d]; [discriminate|].
      pose proof (span_digits_spec _ _ _ Es) as [Hrr _].
      exists (c :: d0 :: d), t. cbn [app scan_frac]. rewrite E46.
      assert (Hnd : t = [] -> no_digit_head rest) by (intros _; apply rest_ok2_no_digit; exact Hr).
      rewrite take_digits_span, (span_digits_app _ rest _ _ Es Hnd).
      split; [reflexivity|]. split; [apply scan_exp_app; assumption|]. rewrite Hrr. reflexivity.
    + exists [], (c :: r). cbn [app scan_frac]. rewrite E46. split; [reflexivity|].
      split; [apply (scan_exp_app (c :: r) rest H Hr)|reflexivity].
Qed.

Lemma scan_number_app lit rest : valid_number lit = true -> rest_ok2 rest ->
  scan_number (lit ++ rest) = Some (lit, rest).
Proof.
  intros H Hr. unfold valid_number in H. unfold scan_number.
  assert (Hbody : forall c r, (if c =? 48 then num_frac r
              else if is_digit c then num_frac (snd (span_digits r)) else false) = true ->
      exists i f e s2 s3, scan_int ((c :: r) ++ rest) = Some (i, s2) /\ scan_frac s2 = Some (f, s3) /\
                          scan_exp s3 = Some (e, rest) /\ c :: r = i ++ f ++ e).
  { clear H. intros c r H. cbn [app scan_int]. destruct (c =? 48) eqn:E0.
    - destruct (scan_frac_exp_app r rest H Hr) as (f & e & Hf & He & ->).
      exists [c], f, e, ((f ++ e) ++ rest), (e ++ rest). repeat split; assumption || reflexivity.
    - destruct (is_digit c) eqn:Ed; [|discriminate].
      replace (is_digit19 c) with true by (unfold is_digit, is_digit19 in *; lia).
      destruct (span_digits r) as [d t] eqn:Es. cbn [snd] in H.
      pose proof (span_digits_spec _ _ _ Es) as [Hrr _].
      destruct (scan_frac_exp_app t rest H Hr) as (f & e & Hf & He & Ht).
      assert (Hnd : t = [] -> no_digit_head rest) by (intros _; apply rest_ok2_no_digit; exact Hr).
      rewrite take_digits_span, (span_digits_app _ rest _ _ Es Hnd).
      exists (c :: d), f, e, (t ++ rest), (e ++ rest). repeat split; try assumption.
      rewrite Hrr, Ht. reflexivity. }
  destruct lit as [|c r]; [discriminate|]. destruct (c =? 45) eqn:E45.
  - destruct r as [|c2 r2]; [discriminate|]. cbn [app]. rewrite E45.
    change (c2 :: r2 ++ rest) with ((c2 :: r2) ++ rest).
    destruct (Hbody c2 r2 H) as (i & f & e & s2 & s3 & -> & -> & -> & ->). reflexivity.
  - cbn [app]. rewrite E45. change (c :: r ++ rest) with ((c :: r) ++ rest).
    destruct (Hbody c r H) as (i & f & e & s2 & s3 & -> & -> & -> & ->). reflexivity.
Qed.

(* ================================================================ the token machine *)
Lemma lex_go_fuel_plus k : forall f st stack s, (length s < f)%nat ->
  lex_go (f + k) st stack s = lex_go f st stack s.
Proof.
  induction k as [|k IH]; intros f st stack s H; [rewrite Nat.add_0_r; reflexivity|].
  rewrite Nat.add_succ_r. rewrite lex_go_fuel_enough by lia. apply IH. exact H.
Qed.

Lemma lex_go_fuel_any f1 f2 st stack s : (length s < f1)%nat -> (length s < f2)%nat ->
  lex_go f1 st stack s = lex_go f2 st stack s.
Proof.
  intros H1 H2. destruct (Nat.le_ge_cases f1 f2) as [H|H].
  - replace f2 with (f1 + (f2 - f1))%nat by lia. symmetry. apply lex_go_fuel_plus. exact H1.
  - replace f1 with (f2 + (f1 - f2))%nat by lia. apply lex_go_fuel_plus. exact H2.
Qed.

Lemma token_call_plain st stack c t : is_space c = false -> c <> 58 -> c <> 44 ->
  token_call st stack (c :: t) = token_at (negb (c =? 93) && negb (c =? 125)) st stack (c :: t).
Proof.
  intros Hs H1 H2. unfold token_call. rewrite skip_ws_head by exact Hs.
  replace (c =? 58) with false by lia. replace (c =? 44) with false by lia. reflexivity.
Qed.

Lemma token_call_comma_arr stack c t : is_space c = false ->
  token_call StArrComma stack (44 :: c :: t) = token_at true StArrValue stack (c :: t).
Proof.
  intros Hs. unfold token_call. change (skip_ws (44 :: c :: t)) with (44 :: c :: t). cbv beta iota.
  change (44 =? 58) with false. change (44 =? 44) with true. cbv iota. rewrite skip_ws_head by exact Hs. reflexivity.
Qed.

Lemma token_call_comma_obj stack c t : is_space c = false ->
  token_call StObjComma stack (44 :: c :: t) = token_at true StObjKey stack (c :: t).
Proof.
  intros Hs. unfold token_call. change (skip_ws (44 :: c :: t)) with (44 :: c :: t). cbv beta iota.
  change (44 =? 58) with false. change (44 =? 44) with true. cbv iota. rewrite skip_ws_head by exact Hs. reflexivity.
Qed.

Lemma token_call_colon stack c t : is_space c = false ->
  token_call StObjColon stack (58 :: c :: t) = token_at true StObjValue stack (c :: t).
Proof.
  intros Hs. unfold token_call. change (skip_ws (58 :: c :: t)) with (58 :: c :: t). cbv beta iota.
  change (58 =? 58) with true. cbv iota. rewrite skip_ws_head by exact Hs. reflexivity.
Qed.

(* what follows the first token *)
Definition after (m : bool) (f : nat) (st : tstate) (stack : list tstate) (s : bytes) : list token * bool :=
  match token_at m st stack s with
  | TokFail more => ([], more)
  | TokOk t st' stack' rest => let '(ts, more) := lex_go f st' stack' rest in (t :: ts, more)
  end.

Definition cont_of (f' : nat) (st : tstate) (stack : list tstate) (rest : bytes) (ts : list token) : list token * bool :=
  (ts ++ fst (lex_go f' st stack rest), snd (lex_go f' st stack rest)).

Lemma cont_cons f' st stack rest t ts :
  (let '(ts0, more) := cont_of f' st stack rest ts in (t :: ts0, more)) = cont_of f' st stack rest (t :: ts).
Proof. reflexivity. Qed.

Definition P_lex (J : jvalue) : Prop :=
  wfb J = true -> forall m f f' st stack rest,
    value_allowed st = true -> rest_ok2 rest ->
    (length (print J ++ rest) <= f)%nat -> (length rest < f')%nat ->
    after m f st stack (print J ++ rest) = cont_of f' (value_end st) stack rest (tokens_of J).

Lemma value_allowed_cases st : value_allowed st = true ->
  st = StTop \/ st = StArrStart \/ st = StArrValue \/ st = StObjValue.
Proof. destruct st; cbn; intros H; try discriminate; tauto. Qed.

(* a scalar literal: one token *)
Lemma after_literal m f f' st stack s tok rest c t :
  value_allowed st = true -> s = c :: t ->
  c <> 91 -> c <> 123 -> c <> 93 -> c <> 125 -> c <> 58 -> c <> 44 ->
  scan_literal s = Some (tok, rest) -> (length rest < f)%nat -> (length rest < f')%nat ->
  after m f st stack s = cont_of f' (value_end st) stack rest [tok].
Proof.
  intros Hv -> H1 H2 H3 H4 H5 H6 Hs Hf Hf'. unfold after, token_at.
  replace (c =? 91) with false by lia. replace (c =? 123) with false by lia.
  replace (c =? 93) with false by lia. replace (c =? 125) with false by lia.
  replace ((c =? 58) || (c =? 44)) with false by lia.
  destruct (value_allowed_cases st Hv) as [ -> | [ -> | [ -> | -> ] ] ]; cbn [value_allowed]; rewrite Hs;
    rewrite (lex_go_fuel_any f f' _ _ _ Hf Hf'); unfold cont_of;
    destruct (lex_go f' _ stack rest) as [ts more]; reflexivity.
Qed.

Lemma head_class_plain j c : head_class j c ->
  is_space c = false /\ c <> 58 /\ c <> 44 /\ c <> 93 /\ c <> 125.
Proof.
  destruct j as [|[]|lit|s|l|l]; cbn [head_class]; unfold is_space, is_digit; lia.
Qed.

Lemma print_nonempty_len j : wfb j = true -> (1 <= length (print j))%nat.
Proof. intros H. destruct (print_head j H) as (c & t & -> & _). cbn [length]. lia. Qed.

(* ---------------------------------------------------------------- arrays *)
Definition items_text (first : bool) (l : list jvalue) : bytes :=
  match l with [] => [] | _ => (if first then [] else [44]) ++ join 44 (map print l) end.
Definition arr_state (first : bool) : tstate := if first then StArrStart else StArrComma.

Lemma items_text_cons first x r :
  items_text first (x :: r) = (if first then [] else [44]) ++ print x ++ items_text false r.
Proof.
  unfold items_text. destruct r as [|y r']; cbn [map join app].
  - rewrite app_nil_r. reflexivity.
  - reflexivity.
Qed.

Lemma rest_ok2_items r rest : rest_ok2 (items_text false r ++ 93 :: rest).
Proof. destruct r; cbn; tauto. Qed.

Lemma after_close_arr first f f' up stack rest : (length rest < f)%nat -> (length rest < f')%nat ->
  lex_go (S f) (arr_state first) (up :: stack) (93 :: rest) = cont_of f' (value_end up) stack rest [TCloseArr].
Proof.
  intros Hf Hf'. rewrite lex_go_S. rewrite token_call_plain by (unfold is_space; lia).
  unfold token_at. change (93 =? 91) with false. change (93 =? 123) with false. change (93 =? 93) with true. cbv iota.
  destruct first; cbn [arr_state]; cbv iota; rewrite (lex_go_fuel_any f f' _ _ _ Hf Hf'); unfold cont_of;
    destruct (lex_go f' (value_end up) stack rest); reflexivity.
Qed.

Lemma lex_items l : Forall P_lex l -> forallb wfb l = true ->
  forall first f f' up stack rest, rest_ok2 rest ->
    (length (items_text first l ++ 93%N :: rest) < f)%nat -> (length rest < f')%nat ->
    lex_go f (arr_state first) (up :: stack) (items_text first l ++ 93 :: rest) =
    cont_of f' (value_end up) stack rest (flat_map tokens_of l ++ [TCloseArr]).
Proof.
  induction 1 as [|x r Hx Hr IH]; intros Hw first f f' up stack rest Hrest Hf Hf'.
  - cbn [items_text app] in *. destruct f as [|f]; [lia|]. cbn [length] in Hf.
    apply after_close_arr; lia.
  - cbn [forallb] in Hw. apply andb_true_iff in Hw as [Hwx Hwr].
    rewrite items_text_cons in *. destruct (print_head x Hwx) as (c & t & Hp & Hc).
    destruct (head_class_plain x c Hc) as (Hs & H58 & H44 & H93 & H125).
    set (rest' := items_text false r ++ 93 :: rest) in *.
    assert (Hrest' : rest_ok2 rest') by apply rest_ok2_items.
    destruct f as [|f]; [lia|]. rewrite lex_go_S.
    assert (Hstep : forall mm st0, value_allowed st0 = true -> value_end st0 = StArrComma ->
              (length (print x ++ rest') <= f)%nat ->
              after mm f st0 (up :: stack) (print x ++ rest') =
              cont_of f' (value_end up) stack rest (flat_map tokens_of (x :: r) ++ [TCloseArr])).
    { intros mm st0 Hva Hve Hlen.
      rewrite (Hx Hwx mm f f st0 (up :: stack) rest' Hva Hrest' Hlen) by (rewrite app_length in Hlen; pose proof (print_nonempty_len x Hwx); lia).
      rewrite Hve. unfold cont_of at 1.
      assert (Hl2 : (length (items_text false r ++ 93%N :: rest) < f)%nat)
        by (fold rest'; rewrite app_length in Hlen; pose proof (print_nonempty_len x Hwx); lia).
      pose proof (IH Hwr false f f' up stack rest Hrest Hl2 Hf') as HI. cbn [arr_state] in HI. fold rest' in HI.
      rewrite HI. unfold cont_of. cbn [fst snd flat_map]. rewrite <- !app_assoc. reflexivity. }
    destruct first; cbn [arr_state app] in *.
    + rewrite <- app_assoc in *. rewrite Hp in Hf |- *. cbn [app] in Hf |- *. rewrite token_call_plain by assumption.
      change (c :: t ++ items_text false r ++ 93 :: rest) with ((c :: t) ++ rest'). rewrite <- Hp. fold (after (negb (c =? 93) && negb (c =? 125)) f StArrStart (up :: stack) (print x ++ rest')).
      apply Hstep; [reflexivity|reflexivity|]. rewrite Hp. unfold rest'. cbn [app length] in *. lia.
    + rewrite <- app_assoc in *. rewrite Hp in Hf |- *. cbn [app] in Hf |- *. rewrite token_call_comma_arr by assumption.
      change (c :: t ++ items_text false r ++ 93 :: rest) with ((c :: t) ++ rest'). rewrite <- Hp. fold (after true f StArrValue (up :: stack) (print x ++ rest')).
      apply Hstep; [reflexivity|reflexivity|]. rewrite Hp. unfold rest'. cbn [app length] in *. lia.
Qed.

(* ---------------------------------------------------------------- objects *)
Definition members_text (first : bool) (ms : list (bytes * jvalue)) : bytes :=
  match ms with [] => [] | _ => (if first then [] else [44]) ++ join 44 (map member_text ms) end.
Definition obj_state (first : bool) : tstate := if first then StObjStart else StObjComma.

Lemma members_text_cons first kv r :
  members_text first (kv :: r) = (if first then [] else [44]) ++ member_text kv ++ members_text false r.
Proof.
  unfold members_text. destruct r as [|y r']; cbn [map join app].
  - rewrite app_nil_r. reflexivity.
  - reflexivity.
Qed.

Lemma rest_ok2_members r rest : rest_ok2 (members_text false r ++ 125 :: rest).
Proof. destruct r; cbn; tauto. Qed.

Lemma after_close_obj first f f' up stack rest : (length rest < f)%nat -> (length rest < f')%nat ->
  lex_go (S f) (obj_state first) (up :: stack) (125 :: rest) = cont_of f' (value_end up) stack rest [TCloseObj].
Proof.
  intros Hf Hf'. rewrite lex_go_S. rewrite token_call_plain by (unfold is_space; lia).
  unfold token_at. change (125 =? 91) with false. change (125 =? 123) with false. change (125 =? 93) with false.
  change (125 =? 125) with true. cbv iota.
  destruct first; cbn [obj_state]; cbv iota; rewrite (lex_go_fuel_any f f' _ _ _ Hf Hf'); unfold cont_of;
    destruct (lex_go f' (value_end up) stack rest); reflexivity.
Qed.

(* the key token *)
Lemma key_token m st stack k t : (st = StObjStart \/ st = StObjKey) -> valid_utf8 k = true ->
  token_at m st stack (34 :: esc_bytes k ++ 34 :: t) = TokOk (TStr k) StObjColon stack t.
Proof.
  intros Hst Hk. unfold token_at.
  change (34 =? 91) with false. change (34 =? 123) with false. change (34 =? 93) with false.
  change (34 =? 125) with false. change ((34 =? 58) || (34 =? 44)) with false. cbv iota.
  rewrite (scan_string_print k (proj1 (valid_utf8_iff k) Hk) t).
  destruct Hst as [-> | ->]; reflexivity.
Qed.

Lemma lex_members ms : Forall (fun kv => P_lex (snd kv)) ms ->
  forallb (fun kv => valid_utf8 (fst kv) && wfb (snd kv)) ms = true ->
  forall first f f' up stack rest, rest_ok2 rest ->
    (length (members_text first ms ++ 125%N :: rest) < f)%nat -> (length rest < f')%nat ->
    lex_go f (obj_state first) (up :: stack) (members_text first ms ++ 125 :: rest) =
    cont_of f' (value_end up) stack rest
      (flat_map (fun kv => TStr (fst kv) :: tokens_of (snd kv)) ms ++ [TCloseObj]).
Proof.
  induction 1 as [|[k v] r Hx Hr IH]; intros Hw first f f' up stack rest Hrest Hf Hf'.
  - cbn [members_text app] in *. destruct f as [|f]; [lia|]. cbn [length] in Hf.
    apply after_close_obj; lia.
  - cbn [forallb fst snd] in Hw, Hx. apply andb_true_iff in Hw as [Hwx Hwr]. apply andb_true_iff in Hwx as [Hk Hwv].
    rewrite members_text_cons in *. unfold member_text in *. cbn [fst snd] in *. unfold print_str in *.
    destruct (print_head v Hwv) as (c & t & Hp & Hc).
    destruct (head_class_plain v c Hc) as (Hs & H58 & H44 & H93 & H125).
    set (rest' := members_text false r ++ 125 :: rest) in *.
    assert (Hrest' : rest_ok2 rest') by apply rest_ok2_members.
    pose proof (print_nonempty_len v Hwv) as Hvl.
    (* everything after the key token *)
    assert (Hvalue : forall f1, (length (58%N :: print v ++ rest') < f1)%nat ->
              lex_go f1 StObjColon (up :: stack) (58 :: print v ++ rest') =
              cont_of f' (value_end up) stack rest
                (tokens_of v ++ flat_map (fun kv => TStr (fst kv) :: tokens_of (snd kv)) r ++ [TCloseObj])).
    { intros f1 Hf1. destruct f1 as [|f1]; [lia|]. rewrite lex_go_S.
      rewrite Hp. cbn [app]. rewrite token_call_colon by exact Hs.
      change (c :: t ++ rest') with ((c :: t) ++ rest'). rewrite <- Hp.
      fold (after true f1 StObjValue (up :: stack) (print v ++ rest')).
      cbn [length] in Hf1.
      rewrite (Hx Hwv true f1 f1 StObjValue (up :: stack) rest' eq_refl Hrest') by (rewrite ?app_length in *; lia).
      cbn [value_end]. unfold cont_of at 1.
      assert (Hl2 : (length (members_text false r ++ 125%N :: rest) < f1)%nat)
        by (fold rest'; rewrite app_length in Hf1; lia).
      pose proof (IH Hwr false f1 f' up stack rest Hrest Hl2 Hf') as HI. cbn [obj_state] in HI. fold rest' in HI.
      rewrite HI. unfold cont_of. cbn [fst snd]. rewrite <- !app_assoc. reflexivity. }
    destruct f as [|f]; [lia|]. rewrite lex_go_S.
    assert (Hfinish : forall mm st0, (st0 = StObjStart \/ st0 = StObjKey) ->
              (length (58%N :: print v ++ rest') < f)%nat ->
              match token_at mm st0 (up :: stack) (34 :: esc_bytes k ++ 34 :: 58 :: print v ++ rest') with
              | TokFail more => ([], more)
              | TokOk t0 st' stack' rest0 => let '(ts, more) := lex_go f st' stack' rest0 in (t0 :: ts, more)
              end = cont_of f' (value_end up) stack rest
                      (flat_map (fun kv => TStr (fst kv) :: tokens_of (snd kv)) ((k, v) :: r) ++ [TCloseObj])).
    { intros mm st0 Hst Hlen. rewrite (key_token mm st0 (up :: stack) k _ Hst Hk).
      rewrite (Hvalue f Hlen). unfold cont_of. cbn [fst snd flat_map app]. rewrite <- !app_assoc. reflexivity. }
    destruct first; cbn [obj_state app] in *.
    + rewrite <- ?app_assoc in *. cbn [app] in *. rewrite <- ?app_assoc in *. cbn [app] in *.
      rewrite token_call_plain by (unfold is_space; lia).
      apply Hfinish; [left; reflexivity|]. unfold rest'. cbn [length] in *. repeat (rewrite app_length in Hf; cbn [length] in Hf). repeat (rewrite app_length; cbn [length]). lia.
    + rewrite <- ?app_assoc in *. cbn [app] in *. rewrite <- ?app_assoc in *. cbn [app] in *.
      rewrite token_call_comma_obj by (unfold is_space; lia).
      apply Hfinish; [right; reflexivity|]. unfold rest'. cbn [length] in *. repeat (rewrite app_length in Hf; cbn [length] in Hf). repeat (rewrite app_length; cbn [length]). lia.
Qed.

(* ---------------------------------------------------------------- every value *)
Theorem lex_value : forall J, P_lex J.
Proof.
  apply json_ind2; unfold P_lex.
  - intros _ m f f' st stack rest Hv Hr Hf Hf'. cbn [print tokens_of app] in *.
    eapply after_literal; try eassumption; try reflexivity; try lia. cbn [length] in Hf. lia.
  - intros b _ m f f' st stack rest Hv Hr Hf Hf'. destruct b; cbn [print tokens_of app] in *;
      (eapply after_literal; try eassumption; try reflexivity; try lia); cbn [length] in Hf; lia.
  - intros lit Hw m f f' st stack rest Hv Hr Hf Hf'. cbn [wfb print tokens_of] in *.
    pose proof (valid_number_chars _ Hw) as [_ (c & r & Hl & Hc)].
    assert (Hlen : (length rest < f)%nat) by (rewrite app_length in Hf; subst lit; cbn [length] in Hf; lia).
    eapply (after_literal m f f' st stack (lit ++ rest) (TNum lit) rest c (r ++ rest)); try eassumption;
      try (subst lit; reflexivity); try (unfold is_digit in Hc; lia).
    unfold scan_literal. subst lit. cbn [app].
    replace (c =? 34) with false by (unfold is_digit in Hc; lia).
    replace (c =? 116) with false by (unfold is_digit in Hc; lia).
    replace (c =? 102) with false by (unfold is_digit in Hc; lia).
    replace (c =? 110) with false by (unfold is_digit in Hc; lia).
    replace ((c =? 45) || is_digit c) with true by (destruct Hc as [Hc|Hc]; [subst c; reflexivity|rewrite Hc; symmetry; apply orb_true_r]).
    change (c :: r ++ rest) with ((c :: r) ++ rest). rewrite (scan_number_app _ _ Hw Hr). reflexivity.
  - intros s Hw m f f' st stack rest Hv Hr Hf Hf'. cbn [wfb print tokens_of] in *. unfold print_str in *.
    assert (Hlen : (length rest < f)%nat) by (cbn [app length] in Hf; rewrite !app_length in Hf; cbn [length] in Hf; lia).
    eapply (after_literal m f f' st stack _ (TStr s) rest 34 _); try eassumption; try reflexivity; try lia.
    unfold scan_literal. cbn [app]. change (34 =? 34) with true. cbv iota. rewrite <- app_assoc. cbn [app].
    rewrite (scan_string_print s (proj1 (valid_utf8_iff s) Hw) rest). reflexivity.
  - intros l Hl Hw m f f' st stack rest Hv Hr Hf Hf'. cbn [wfb tokens_of] in *. rewrite print_arr in *.
    assert (Hit : join 44 (map print l) = items_text true l) by (destruct l; reflexivity).
    rewrite Hit in *.
    cbn [app] in *. rewrite <- app_assoc in *. cbn [app] in *.
    unfold after, token_at. change (91 =? 91) with true. cbv iota. rewrite Hv.
    cbn [length] in Hf.
    pose proof (lex_items l Hl Hw true f f' st stack rest Hr) as HI. cbn [arr_state] in HI.
    rewrite HI by lia. unfold cont_of. cbn [fst snd app]. reflexivity.
  - intros l Hl Hw m f f' st stack rest Hv Hr Hf Hf'. cbn [wfb tokens_of] in *. rewrite print_obj in *.
    assert (Hit : join 44 (map member_text l) = members_text true l) by (destruct l; reflexivity).
    rewrite Hit in *.
    cbn [app] in *. rewrite <- app_assoc in *. cbn [app] in *.
    unfold after, token_at. change (123 =? 91) with false. change (123 =? 123) with true. cbv iota. rewrite Hv.
    cbn [length] in Hf.
    pose proof (lex_members l Hl Hw true f f' st stack rest Hr) as HI. cbn [obj_state] in HI.
    rewrite HI by lia. unfold cont_of. cbn [fst snd app]. reflexivity.
Qed.


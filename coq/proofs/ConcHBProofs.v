(* ConcHBProofs.v — race freedom of the machine's events against the inductive happens-before of
   ConcHB.v; hb only relates earlier to later positions; without synchronisation events hb is
   program order, so the lock-free trace has a race in THAT sense too. *)
From Coq Require Import List NArith Bool Arith Lia.
From J5V.model Require Import Conc ConcRace ConcHB.
From J5V.proofs Require Import ConcRaceProofs.
Import ListNotations.

Lemma hb_lt tr i j : hb tr i j -> i < j.
Proof. induction 1; lia. Qed.

Lemma hb_defined tr i j : hb tr i j -> (exists e, nth_error tr i = Some e) /\ (exists e, nth_error tr j = Some e).
Proof. induction 1 as [i j ei ej _ Hi Hj _|r a t u _ Hr Ha|i j k _ [Hi _] _ [_ Hk]]; eauto. Qed.

(* the direct pattern of ConcRace.ordered (e1 ... Unlock by e1's goroutine ... Lock by e2's goroutine ... e2)
   is an instance: program order, the mutex rule, program order *)
Lemma ordered_hb tr i j e1 e2 :
  nth_error tr i = Some e1 -> nth_error tr j = Some e2 -> ordered tr i j e1 e2 -> hb tr i j.
Proof.
  intros Hi Hj (r & a & Hir & Hra & Haj & Hr & Ha).
  apply hb_trans with r; [apply (hb_po tr i r e1 (ERel (ev_tid e1))); auto|].
  apply hb_trans with a; [apply (hb_mutex tr r a (ev_tid e1) (ev_tid e2)); auto|].
  apply (hb_po tr a j (EAcq (ev_tid e2)) e2); auto.
Qed.

Lemma race_free_drf tr : race_free tr -> drf tr.
Proof. intros H i j e1 e2 Hlt Hi Hj Hc. apply (ordered_hb tr i j e1 e2 Hi Hj). exact (H i j e1 e2 Hlt Hi Hj Hc). Qed.

Theorem guarded_drf : C10_drf_statement Guarded.
Proof.
  intros pk k g calls sched Hok. destruct (guarded_race_free pk k g calls sched Hok) as [H1 H2].
  split; [apply race_free_drf; exact H1|exact H2].
Qed.

(* no Lock ever returns in the trace: happens-before is program order *)
Lemma hb_no_acquire tr i j : no_acquire tr = true -> hb tr i j ->
  exists ei ej, nth_error tr i = Some ei /\ nth_error tr j = Some ej /\ ev_tid ei = ev_tid ej.
Proof.
  intros Hn. induction 1 as [i j ei ej _ Hi Hj Ht|r a t u _ Hr Ha|i j k _ IH1 _ IH2].
  - eauto.
  - exfalso. unfold no_acquire in Hn. rewrite forallb_forall in Hn.
    specialize (Hn _ (nth_error_In _ _ Ha)). discriminate.
  - destruct IH1 as (ei & ej & Hi & Hj & E1). destruct IH2 as (ej' & ek & Hj' & Hk & E2).
    rewrite Hj in Hj'. injection Hj' as <-. exists ei, ek. repeat split; auto. congruence.
Qed.

Definition w1_trace : list event :=
  events Unguarded (fun _ => 0%N) 3 [(1%N, [2%N]); (2%N, [])] [[1%N]; [1%N]] [0; 0; 0; 1; 1].

Theorem unguarded_not_drf : ~ drf w1_trace.
Proof.
  intros H.
  assert (E : w1_trace =
              [EWr 0 LReg; ERd 0 LPkgs; EWr 0 LPkgs; ERd 0 (LSchemas 0); EWr 0 (LSchemas 0); EWr 0 LReg;
               EWr 1 LReg; ERd 1 LPkgs; EWr 1 LPkgs; ERd 1 (LSchemas 0); ERd 1 (LCell 0); ERd 1 LReg;
               EWr 1 LReg]) by (vm_compute; reflexivity).
  assert (Hh : hb w1_trace 5 6).
  { apply (H 5 6 (EWr 0 LReg) (EWr 1 LReg)); [lia|rewrite E; reflexivity|rewrite E; reflexivity|].
    split; [cbn; discriminate|]. exists LReg, true, true. repeat split; left; reflexivity. }
  destruct (hb_no_acquire w1_trace 5 6) as (ei & ej & Hi & Hj & Ht); [rewrite E; reflexivity|exact Hh|].
  rewrite E in Hi, Hj. cbn in Hi, Hj. injection Hi as <-. injection Hj as <-. discriminate.
Qed.

(* J5sStrictProofs.v — from the lenient contract (enum clause waived for enums whose first option
   names a zero value of its own) to the contract of the property text, for packages without
   such enums; and the exact class of enums for which the compiler's output violates the
   property text.  [plain_*]: boolean predicates on the SOURCE. *)
From Coq Require Import String List NArith Bool Lia.
From J5V.lib Require Import Outcome Corr.
From J5V.model Require Import J5sAst Desc J5sWalk J5sLink J5sConvert J5sContract J5sValid.
From J5V.proofs Require Import J5sProofs J5sContractProofs.
Import ListNotations.
Local Open Scope N_scope.

Section Strict.
Variables snake camel screaming : str -> str.

(* ------------------------------------------------------------------ one enum: exactness *)
Lemma enum_ok_strict name e de :
  named_zero screaming name e = false -> enum_ok screaming true name e de -> enum_ok screaming false name e de.
Proof. intros Hp [Hn H]. split; [exact Hn|]. intros _. apply H. intros _. exact Hp. Qed.

Lemma enum_ok_lenient name e de : enum_ok screaming false name e de -> enum_ok screaming true name e de.
Proof. intros [Hn H]. split; [exact Hn|]. intros _. apply H. intros E. discriminate E. Qed.

(* the compiler's enum satisfies the clause of the property text exactly when the first option
   does not name a zero value of its own *)
Theorem cv_enum_strict_iff name e :
  enum_ok screaming false name e (cv_enum screaming name e) <-> named_zero screaming name e = false.
Proof.
  split.
  - intros [_ H]. specialize (H (fun E => match Bool.diff_false_true E with end)).
    destruct H as (H0 & _ & _).
    unfold named_zero. unfold J5sConvert.cv_enum in H0.
    rewrite (enum_prefix_spec screaming) in H0.
    set (pfx := enum_pfx screaming name e) in *.
    destruct (e_opts e) as [|o r]; [reflexivity|].
    change (has_suffix unspecified o) with (has_suffix (b "UNSPECIFIED") o) in H0.
    destruct (has_suffix (b "UNSPECIFIED") o); [|reflexivity].
    cbn [andb]. apply negb_false_iff. unfold zero_spelled.
    cbn [en_vals nth_error] in H0. inversion H0 as [E].
    change (opt_value_name pfx o) with (value_name pfx o). rewrite E. apply str_eqb_refl.
  - intros Hp. apply enum_ok_strict; [exact Hp|]. apply (cv_enum_ok snake camel screaming).
Qed.

(* ------------------------------------------------------------------ plain sources *)
Fixpoint plain_field (pn : str) (f : field) {struct f} : bool :=
  match f with
  | FObjInline _ ps | FOneofInline _ ps => plain_props ps
  | FEnumInline e => negb (named_zero screaming (inline_type_name camel pn (e_name e)) e)
  | FArray it | FMap it => plain_field pn it
  | _ => true
  end
with plain_props (ps : props) {struct ps} : bool :=
  match ps with PNil => true | PCons p r => plain_property p && plain_props r end
with plain_property (p : property) {struct p} : bool :=
  match p with Property n _ _ f => plain_field n f end.

Fixpoint plain_nested (n : nested) {struct n} : bool :=
  match n with
  | NObject _ ps subs | NOneof _ ps subs => plain_props ps && plain_nesteds subs
  | NEnum e => negb (named_zero screaming (e_name e) e)
  end
with plain_nesteds (ns : nesteds) {struct ns} : bool :=
  match ns with NNil => true | NCons n r => plain_nested n && plain_nesteds r end.

Definition plain_method (m : method) : bool :=
  plain_props (m_request m) && match m_response m with Some ps => plain_props ps | None => true end.
Definition plain_tmsg (t : tmsg) : bool := plain_props (tm_fields t).
Definition plain_topic (t : topic) : bool :=
  match t with
  | TPublish _ msgs => forallb plain_tmsg msgs
  | TReqRes _ rq rp => forallb plain_tmsg rq && forallb plain_tmsg rp
  | TUpsert _ _ m | TEvent _ _ m => plain_tmsg m
  end.
Definition plain_element (e : element) : bool :=
  match e with
  | EObject nm ps subs => plain_nested (NObject nm ps subs)
  | EOneof nm ps subs => plain_nested (NOneof nm ps subs)
  | EEnum en => plain_nested (NEnum en)
  | EService s => forallb plain_method (sv_methods s)
  | ETopic t => plain_topic t
  end.
Definition plain_file (f : jfile) : bool := forallb plain_element (jf_elements f).
Definition plain_bundle (bd : bundle) : bool :=
  forallb (fun f => match f with BJ j => plain_file j | BP _ => true end) bd.

(* ------------------------------------------------------------------ lifting, bottom up *)
Lemma inline_strict :
  (forall f pn msgs enums, plain_field pn f = true ->
     inline_ok snake camel screaming true pn f msgs enums -> inline_ok snake camel screaming false pn f msgs enums) /\
  (forall ps msgs enums, plain_props ps = true ->
     props_inline_ok snake camel screaming true ps msgs enums -> props_inline_ok snake camel screaming false ps msgs enums) /\
  (forall p msgs enums, plain_property p = true ->
     property_inline_ok snake camel screaming true p msgs enums -> property_inline_ok snake camel screaming false p msgs enums).
Proof.
  apply ast_mutind.
  - intros s pn msgs enums _ H. exact H.
  - intros r pn msgs enums _ H. exact H.
  - intros nm ps IH pn msgs enums Hp H. cbn [J5sContract.inline_ok plain_field] in *.
    destruct H as (m & Hin & Hn & Hk & Hf & Hi & Hm & He). exists m.
    repeat (split; [assumption|]). split; [apply IH; assumption|]. split; assumption.
  - intros r pn msgs enums _ H. exact H.
  - intros nm ps IH pn msgs enums Hp H. cbn [J5sContract.inline_ok plain_field] in *.
    destruct H as (m & Hin & Hn & Hk & Hf & Hi & Hm & He). exists m.
    repeat (split; [assumption|]). split; [apply IH; assumption|]. split; assumption.
  - intros r pn msgs enums _ H. exact H.
  - intros e pn msgs enums Hp H. cbn [J5sContract.inline_ok plain_field] in *.
    destruct H as (de & Hin & Hok). exists de. split; [exact Hin|].
    apply enum_ok_strict; [apply negb_true_iff; exact Hp|exact Hok].
  - intros it IH pn msgs enums Hp H. cbn [J5sContract.inline_ok plain_field] in *. apply IH; assumption.
  - intros it IH pn msgs enums Hp H. cbn [J5sContract.inline_ok plain_field] in *. apply IH; assumption.
  - intros msgs enums _ _. exact I.
  - intros p IHp ps IHps msgs enums Hp H. cbn [J5sContract.props_inline_ok plain_props] in *.
    apply andb_true_iff in Hp. destruct Hp as [H1 H2]. destruct H as [A B].
    split; [apply IHp; assumption|apply IHps; assumption].
  - intros n rq op f IH msgs enums Hp H. cbn [J5sContract.property_inline_ok plain_property] in *.
    destruct H as [A B]. split; [apply IH; assumption|exact B].
Qed.

Lemma nested_strict :
  (forall n msgs enums, plain_nested n = true ->
     nested_ok snake camel screaming true n msgs enums -> nested_ok snake camel screaming false n msgs enums) /\
  (forall ns msgs enums, plain_nesteds ns = true ->
     nesteds_ok snake camel screaming true ns msgs enums -> nesteds_ok snake camel screaming false ns msgs enums).
Proof.
  apply nested_mutind.
  - intros nm ps subs IH msgs enums Hp H. cbn [J5sContract.nested_ok plain_nested] in *.
    apply andb_true_iff in Hp. destruct Hp as [H1 H2].
    destruct H as (m & Hin & Hn & Hk & Hf & Hi & Hs & Hm & He). exists m.
    repeat (split; [assumption|]). split; [apply (proj1 (proj2 inline_strict)); assumption|].
    split; [apply IH; assumption|]. split; assumption.
  - intros nm ps subs IH msgs enums Hp H. cbn [J5sContract.nested_ok plain_nested] in *.
    apply andb_true_iff in Hp. destruct Hp as [H1 H2].
    destruct H as (m & Hin & Hn & Hk & Hf & Hi & Hs & Hm & He). exists m.
    repeat (split; [assumption|]). split; [apply (proj1 (proj2 inline_strict)); assumption|].
    split; [apply IH; assumption|]. split; assumption.
  - intros e msgs enums Hp H. cbn [J5sContract.nested_ok plain_nested] in *.
    destruct H as (de & Hin & Hok). exists de. split; [exact Hin|].
    apply enum_ok_strict; [apply negb_true_iff; exact Hp|exact Hok].
  - intros msgs enums _ _. exact I.
  - intros n IHn r IHr msgs enums Hp H. cbn [J5sContract.nesteds_ok plain_nesteds] in *.
    apply andb_true_iff in Hp. destruct Hp as [H1 H2]. destruct H as [A B].
    split; [apply IHn; assumption|apply IHr; assumption].
Qed.

Lemma virtual_strict name virt decl m :
  plain_props (papp virt decl) = true ->
  virtual_ok snake camel screaming true name virt decl m -> virtual_ok snake camel screaming false name virt decl m.
Proof.
  intros Hp (Hn & Hk & Hf & Hi & Hm & He). unfold J5sContract.virtual_ok.
  repeat (split; [assumption|]). split; [apply (proj1 (proj2 inline_strict)); assumption|]. split; assumption.
Qed.

Lemma method_msgs_strict m ms :
  plain_method m = true ->
  method_msgs_ok snake camel screaming true m ms -> method_msgs_ok snake camel screaming false m ms.
Proof.
  unfold plain_method, J5sContract.method_msgs_ok. intros Hp H. apply andb_true_iff in Hp. destruct Hp as [H1 H2].
  destruct (m_response m) as [rs|].
  - destruct ms as [|rq [|rp [|x y]]]; try contradiction. destruct H as [A B].
    split; apply virtual_strict; assumption.
  - destruct ms as [|rq [|x y]]; try contradiction. apply virtual_strict; assumption.
Qed.

Lemma forall2_in_mono {A B} (R R' : A -> B -> Prop) l l' :
  (forall a c, In a l -> R a c -> R' a c) -> Forall2 R l l' -> Forall2 R' l l'.
Proof.
  intros Hm H. induction H as [|a c r s Hac Hrs IH]; constructor.
  - apply Hm; [left; reflexivity|exact Hac].
  - apply IH. intros x y Hin. apply Hm. right. exact Hin.
Qed.

Lemma zip3_in_mono {A B C} (R R' : A -> B -> C -> Prop) la lb lc :
  (forall a c d, In a la -> R a c d -> R' a c d) -> zip3 R la lb lc -> zip3 R' la lb lc.
Proof.
  intros Hm H. induction H as [|a c d ra rc rd Hacd Hr IH]; constructor.
  - apply Hm; [left; reflexivity|exact Hacd].
  - apply IH. intros x y z Hin. apply Hm. right. exact Hin.
Qed.

Lemma forallb_in {A} (p : A -> bool) l x : forallb p l = true -> In x l -> p x = true.
Proof. intros H Hin. rewrite forallb_forall in H. apply H. exact Hin. Qed.

Lemma service_strict spkg s ms ds :
  forallb plain_method (sv_methods s) = true ->
  service_linked_ok snake camel screaming true spkg s ms ds -> service_linked_ok snake camel screaming false spkg s ms ds.
Proof.
  intros Hp (Hn & Ht & Hm & mss & Hc & HF). unfold J5sContract.service_linked_ok.
  repeat (split; [assumption|]). exists mss. split; [exact Hc|].
  eapply forall2_in_mono; [|exact HF]. intros m x Hin. apply method_msgs_strict. eapply forallb_in; eassumption.
Qed.

Lemma topic_service_strict spkg tname topic_name rl virt l ms ds :
  (forall t, In t l -> plain_props (papp virt (tm_fields t)) = true) ->
  topic_service_linked_ok snake camel screaming true spkg tname topic_name rl virt l ms ds ->
  topic_service_linked_ok snake camel screaming false spkg tname topic_name rl virt l ms ds.
Proof.
  intros Hp (Hn & Ht & Hm & HF). unfold J5sContract.topic_service_linked_ok.
  repeat (split; [assumption|]).
  eapply forall2_in_mono; [|exact HF]. intros t m Hin. cbv beta. apply virtual_strict. apply Hp. exact Hin.
Qed.

Lemma plain_virt_request ps : plain_props (papp virt_request ps) = plain_props ps.
Proof. reflexivity. Qed.
Lemma plain_virt_upsert ps : plain_props (papp virt_upsert ps) = plain_props ps.
Proof. reflexivity. Qed.

Lemma topic_strict spkg t ms ss :
  plain_topic t = true ->
  topic_linked_ok snake camel screaming true spkg t ms ss -> topic_linked_ok snake camel screaming false spkg t ms ss.
Proof.
  intros Hp H. destruct t as [name msgs|name rq rp|name en m|name en m]; cbn [J5sContract.topic_linked_ok plain_topic] in *.
  - destruct H as (ds & Hs & Hok). exists ds. split; [exact Hs|]. apply topic_service_strict; [|exact Hok].
    intros t Hin. cbn [papp]. apply (forallb_in plain_tmsg msgs t Hp Hin).
  - apply andb_true_iff in Hp. destruct Hp as [H1 H2].
    destruct H as (ds1 & ds2 & ms1 & ms2 & Hs & Hm & A & B). exists ds1, ds2, ms1, ms2.
    split; [exact Hs|]. split; [exact Hm|]. split; (apply topic_service_strict; [|assumption]).
    + intros t Hin. rewrite plain_virt_request. apply (forallb_in plain_tmsg rq t H1 Hin).
    + intros t Hin. rewrite plain_virt_request. apply (forallb_in plain_tmsg rp t H2 Hin).
  - destruct H as (ds & Hs & Hok). exists ds. split; [exact Hs|]. apply topic_service_strict; [|exact Hok].
    intros t [<-|[]]. rewrite plain_virt_upsert. destruct (tm_name m); exact Hp.
  - destruct H as (ds & Hs & Hok). exists ds. split; [exact Hs|]. apply topic_service_strict; [|exact Hok].
    intros t [<-|[]]. exact Hp.
Qed.

Lemma in_file_services f s : In s (file_services f) -> In (EService s) (jf_elements f).
Proof.
  unfold file_services. intros H. apply in_flat_map in H. destruct H as (e & He & Hs).
  destruct e; cbn in Hs; try contradiction. destruct Hs as [<-|[]]. exact He.
Qed.
Lemma in_file_topics f t : In t (file_topics f) -> In (ETopic t) (jf_elements f).
Proof.
  unfold file_topics. intros H. apply in_flat_map in H. destruct H as (e & He & Hs).
  destruct e; cbn in Hs; try contradiction. destruct Hs as [<-|[]]. exact He.
Qed.

Lemma main_file_strict f df :
  plain_file f = true -> main_file_ok snake camel screaming true f df -> main_file_ok snake camel screaming false f df.
Proof.
  intros Hp (H1 & H2 & H3 & H4 & H5 & H6). unfold J5sContract.main_file_ok.
  repeat (split; [assumption|]). intros e He. specialize (H6 e He).
  pose proof (forallb_in plain_element _ e Hp He) as Hpe.
  destruct e as [nm ps subs|nm ps subs|en|s|t]; cbn [J5sContract.element_ok plain_element] in *; try exact I;
    apply (proj1 nested_strict); assumption.
Qed.

Lemma service_file_strict f df :
  plain_file f = true -> service_file_ok snake camel screaming true f df -> service_file_ok snake camel screaming false f df.
Proof.
  intros Hp (H1 & H2 & H3 & mss & Hc & Hz). unfold J5sContract.service_file_ok.
  repeat (split; [assumption|]). exists mss. split; [exact Hc|].
  eapply zip3_in_mono; [|exact Hz]. intros s ms ds Hin. apply service_strict.
  apply in_file_services in Hin. exact (forallb_in plain_element _ _ Hp Hin).
Qed.

Lemma topic_file_strict f df :
  plain_file f = true -> topic_file_ok snake camel screaming true f df -> topic_file_ok snake camel screaming false f df.
Proof.
  intros Hp (H1 & H2 & H3 & mss & sss & Hc & Hs & Hz). unfold J5sContract.topic_file_ok.
  repeat (split; [assumption|]). exists mss, sss. split; [exact Hc|]. split; [exact Hs|].
  eapply zip3_in_mono; [|exact Hz]. intros t ms ss Hin. apply topic_strict.
  apply in_file_topics in Hin. exact (forallb_in plain_element _ _ Hp Hin).
Qed.

(* a package without enums whose first option names a zero value of its own: the lenient
   contract is the contract of the property text *)
Theorem contract_strict_of_plain bd pkg D :
  plain_bundle bd = true ->
  package_contract_full snake camel screaming true bd pkg D -> package_contract_full snake camel screaming false bd pkg D.
Proof.
  intros Hp [Hall Honly]. split; [|exact Honly].
  intros f Hin Hpk. destruct (Hall f Hin Hpk) as ((df & Hd & Hm) & Hs & Ht).
  assert (Hpf : plain_file f = true) by exact (forallb_in _ bd (BJ f) Hp Hin).
  split; [exists df; split; [exact Hd|apply main_file_strict; assumption]|]. split.
  - intros Hne. destruct (Hs Hne) as (sf & Hsd & Hsok). exists sf. split; [exact Hsd|apply service_file_strict; assumption].
  - intros Hne. destruct (Ht Hne) as (tf & Htd & Htok). exists tf. split; [exact Htd|apply topic_file_strict; assumption].
Qed.

End Strict.

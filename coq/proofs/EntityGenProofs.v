(* EntityGenProofs.v — computed agreement between model/Entity.v and the tables that
   harness/cmd/gen_ent re-reads from /repo on every run (gen/EntityGen.v).  An edit of
   entity.go / topic.go / file.go / imports.go / go.mod that changes one of these tables
   breaks the named obligation below at make time. *)
From Coq Require Import String Ascii List NArith Bool.
From J5V.lib Require Import Outcome Strcase.
From J5V.model Require Import Entity.
From J5V.gen Require EntityGen.
Import ListNotations.
Local Open Scope string_scope.
Local Open Scope N_scope.

(* tables are compared as SETS of (function, literal) pairs: a reordering or a repeated call in
   entity.go does not break an obligation, a new / changed / missing literal does *)
Definition pair_eqb (a b : string * string) : bool := String.eqb (fst a) (fst b) && String.eqb (snd a) (snd b).
Definition pair_mem (l : list (string * string)) (p : string * string) : bool := existsb (pair_eqb p) l.
Definition same_pairs (a b : list (string * string)) : bool := forallb (pair_mem b) a && forallb (pair_mem a) b.

(* the order of [expand_with]: keys, data, status, state, event oneof, event, query,
   commands, publish topic, summary topics *)
Definition model_run_order : list string :=
  ["acceptKeys"; "acceptData"; "acceptStatus"; "acceptState"; "acceptEventOneof"; "acceptEvent";
   "acceptQuery"; "acceptCommands"; "acceptPublishTopic"; "acceptSummaryTopics"].
Lemma run_order_agrees : model_run_order = EntityGen.run_order.
Proof. vm_compute; reflexivity. Qed.

(* every name of a generated schema, at its definition and at each reference, is
   componentName(<literal>) — in particular State/EventType/Event are DEFINED through
   componentName (acceptState/acceptEventOneof/acceptEvent), which is what [state_msg],
   [event_type_msg], [event_msg] model, and no strcase call is applied to a concatenation
   (the pre-fix ToCamel(entity.Name + "State")) *)
Definition model_suffix_sites : list (string * string) :=
  [("acceptKeys", "Keys"); ("acceptData", "Data"); ("acceptStatus", "Status"); ("innerRef", "<non-literal>");
   ("acceptState", "Keys"); ("acceptState", "Status"); ("acceptState", "State"); ("acceptState", "Data");
   ("acceptEventOneof", "EventType");
   ("acceptEvent", "Keys"); ("acceptEvent", "Event"); ("acceptEvent", "EventType");
   ("acceptPublishTopic", "Keys"); ("acceptPublishTopic", "EventType"); ("acceptPublishTopic", "Data");
   ("acceptPublishTopic", "Status");
   ("acceptQuery", "State"); ("acceptQuery", "State"); ("acceptQuery", "Event"); ("acceptQuery", "Event")].
Lemma suffix_sites_agree : same_pairs model_suffix_sites EntityGen.suffix_sites = true.
Proof. vm_compute; reflexivity. Qed.
(* the six schemas are DEFINED through componentName in their own accept function *)
Lemma definition_sites_use_component_name :
  forallb (pair_mem EntityGen.suffix_sites)
    [("acceptKeys", "Keys"); ("acceptData", "Data"); ("acceptStatus", "Status");
     ("acceptState", "State"); ("acceptEventOneof", "EventType"); ("acceptEvent", "Event")] = true.
Proof. vm_compute; reflexivity. Qed.
Lemma no_camel_of_concatenation : EntityGen.camel_of_concat_sites = 0.
Proof. vm_compute; reflexivity. Qed.

Definition model_strcase_calls : list (string * string) :=
  [("componentName", "ToCamel"); ("componentName", "ToCamel"); ("fullName", "ToCamel"); ("run", "ToSnake");
   (* checkReservedNames (fix a5547b9): the entity's own response property ToSnake(ToLowerCamel(name)), the proto
      name ToSnake of a path key, the option ToSnake(ToLowerCamel(event)), the proto name ToSnake of a summary field *)
   ("checkReservedNames", "ToSnake"); ("checkReservedNames", "ToLowerCamel"); ("checkReservedNames", "ToSnake");
   ("checkReservedNames", "ToSnake"); ("checkReservedNames", "ToLowerCamel"); ("checkReservedNames", "ToSnake");
   ("acceptStatus", "ToScreamingSnake"); ("findStatus", "ToScreamingSnake");
   ("acceptEventOneof", "ToLowerCamel"); ("acceptCommands", "ToCamel");
   ("acceptSummaryTopics", "ToCamel"); ("acceptSummaryTopics", "ToCamel"); ("acceptSummaryTopics", "ToCamel");
   ("acceptPublishTopic", "ToCamel"); ("acceptPublishTopic", "ToCamel");
   ("acceptQuery", "ToCamel"); ("acceptQuery", "ToLowerCamel"); ("acceptQuery", "ToCamel");
   ("acceptQuery", "ToLowerCamel"); ("acceptQuery", "ToCamel"); ("acceptQuery", "ToCamel")].
Lemma strcase_calls_agree : same_pairs model_strcase_calls EntityGen.strcase_calls = true.
Proof. vm_compute; reflexivity. Qed.

Definition model_formats : list (string * string) :=
  [("fullName", "%s.%s"); ("acceptEventOneof", "%s.%s");
   ("acceptCommands", "%sCommand"); ("acceptCommands", "/%s/%s"); ("acceptCommands", "/%s/c");
   ("acceptSummaryTopics", "%sSummary"); ("acceptSummaryTopics", "%s%s");
   ("acceptSummaryTopics", "Publishes summary output of state for the %s entity");
   ("acceptPublishTopic", "%sPublish"); ("acceptPublishTopic", "%sEvent");
   ("acceptPublishTopic", "Publishes all events for the %s entity");
   ("acceptQuery", ":%s"); ("acceptQuery", ":%s"); ("acceptQuery", ":%s"); ("acceptQuery", ":%s");
   ("acceptQuery", "%sGet"); ("acceptQuery", "%sList"); ("acceptQuery", "%sEvents");
   ("acceptQuery", "/%s/q"); ("acceptQuery", "%sQuery")].
Lemma formats_agree : same_pairs model_formats EntityGen.sprintf_formats = true.
Proof. vm_compute; reflexivity. Qed.

(* acceptStatus (the enum prefix) and findStatus (default filters) use the same literal *)
Lemma status_literals_agree : EntityGen.status_literals = ["_STATUS_"].
Proof. vm_compute; reflexivity. Qed.

Definition model_property_names : list (string * string) :=
  [("acceptState", "status"); ("acceptState", "metadata"); ("acceptState", "keys"); ("acceptState", "data");
   ("acceptEvent", "metadata"); ("acceptEvent", "keys"); ("acceptEvent", "event");
   ("acceptPublishTopic", "metadata"); ("acceptPublishTopic", "keys"); ("acceptPublishTopic", "event");
   ("acceptPublishTopic", "data"); ("acceptPublishTopic", "status");
   ("acceptQuery", "page"); ("acceptQuery", "query"); ("acceptQuery", "page");
   ("acceptQuery", "page"); ("acceptQuery", "query"); ("acceptQuery", "events"); ("acceptQuery", "page");
   ("acceptQuery", "events")].
Lemma property_names_agree : same_pairs model_property_names EntityGen.property_names = true.
Proof. vm_compute; reflexivity. Qed.

Lemma entity_parts_agree :
  same_pairs EntityGen.entity_parts
             [("acceptKeys", "EntityPart_KEYS"); ("acceptData", "EntityPart_DATA");
              ("acceptState", "EntityPart_STATE"); ("acceptEvent", "EntityPart_EVENT")] = true.
Proof. vm_compute; reflexivity. Qed.

Lemma entity_name_is_snake : EntityGen.entity_name_function = "ToSnake".
Proof. vm_compute; reflexivity. Qed.
Lemma topic_formats_agree : EntityGen.topic_formats = ["%sMessage"; "%sTopic"].
Proof. vm_compute; reflexivity. Qed.

(* lib/Strcase.v models exactly this version, with the empty acronym table *)
Lemma strcase_version_agrees : EntityGen.strcase_version = "v0.3.0".
Proof. vm_compute; reflexivity. Qed.
Lemma no_acronyms_configured : EntityGen.configure_acronym_occurrences = 0.
Proof. vm_compute; reflexivity. Qed.

(* implicit imports: the model's table is the code's table (as sets) *)
Definition gen_implicit : list (bytes * bytes) :=
  map (fun p => (bs (fst p), bs (snd p))) EntityGen.implicit_imports.
Definition pair_in (l : list (bytes * bytes)) (p : bytes * bytes) : bool :=
  existsb (fun q => bytes_eqb (fst q) (fst p) && bytes_eqb (snd q) (snd p)) l.
Lemma implicit_imports_agree :
  forallb (pair_in gen_implicit) implicit_imports = true
  /\ forallb (pair_in implicit_imports) gen_implicit = true.
Proof. split; vm_compute; reflexivity. Qed.

(* every external schemaRefField in entity.go / topic.go is an implicit import *)
Lemma external_refs_are_implicit :
  forallb (fun t => match t with (_, p, s) =>
             match p with "" => true | _ => pair_in gen_implicit (bs p, bs s) end end)
          (EntityGen.schema_ref_fields ++ EntityGen.topic_ref_fields) = true.
Proof. vm_compute; reflexivity. Qed.

(* and the external references the model emits are exactly those of acceptState /
   acceptEvent / acceptPublishTopic / acceptQuery and the upsert arm of topic.go *)
Definition sample : entity :=
  mkE (bs "foo.v1") (bs "Foo") [] [mkK (mkU (bs "fooId") (KKey true None None) false false) false] []
      [bs "ACTIVE"] [mkEv (bs "Create") []] [] [mkS [] []] (Some (mkQ true [] false)) [].
Definition externals (cs : list component) : list (bytes * bytes) :=
  flat_map (fun f => match f_type f with
                     | TObject (c :: p) n => [(c :: p, n)]
                     | _ => [] end) (fields_of cs).
Definition gen_externals : list (bytes * bytes) :=
  flat_map (fun t => match t with (f, p, s) =>
     match p with "" => [] | _ =>
       if String.eqb f "acceptMultiReqResTopic" then [] else [(bs p, bs s)] end end)
     (EntityGen.schema_ref_fields ++ EntityGen.topic_ref_fields).
Lemma model_externals_agree :
  forallb (pair_in gen_externals) (externals (expand_with sample [])) = true
  /\ forallb (pair_in (externals (expand_with sample []))) gen_externals = true.
Proof. split; vm_compute; reflexivity. Qed.

(* ---- the tables above, DERIVED FROM THE MODEL ---------------------------------------------------------
   The lemmas so far compare the regenerated tables with tables typed into this file.  The ones
   below compute the same facts from [expand_with] on a probe declaration, so that the model (not
   a transcript of it) is what has to agree with entity.go. *)
Local Open Scope list_scope.
Definition probe : entity :=
  mkE (bs "foo.v1") (bs "Foo") [] [mkK (mkU (bs "fooId") (KKey true None None) false false) false] []
      [bs "ACTIVE"] [mkEv (bs "Create") []]
      [mkC None None [mkM (bs "DoIt") 2 (bs "x") [] (Some [])]]
      [mkS [] []] (Some (mkQ true [] false)) [].
Definition probe_cs : list component := expand_with probe [].

Fixpoint drop_prefix (p s : bytes) : option bytes :=
  match p, s with
  | [], _ => Some s
  | x :: p', y :: s' => if x =? y then drop_prefix p' s' else None
  | _ :: _, [] => None
  end.
Definition comp_name (c : component) : bytes :=
  match c with CMsg _ m => m_name m | CEnum n _ => n | CSvc _ s => sv_name s end.

(* fmt.Sprintf with one %s *)
Fixpoint sprintf1 (fmt : list ascii) (arg : bytes) : bytes :=
  match fmt with
  | [] => []
  | "%"%char :: "s"%char :: r => arg ++ map N_of_ascii r
  | c :: r => N_of_ascii c :: sprintf1 r arg
  end.
Definition fmt_of (f fmt : string) : bool := pair_mem EntityGen.sprintf_formats (f, fmt).
Definition lit_of (f lit : string) : bool := pair_mem EntityGen.suffix_sites (f, lit).

(* (1) run order: the i-th function of entityNode.run defines the i-th landmark of the model's output:
   the six schemas by the componentName literal that function uses, the services / topics by the
   Sprintf format that function uses *)
Definition landmark_names : list bytes :=
  flat_map (fun c => match c with
    | CMsg 0 m => [m_name m]
    | CEnum n _ => [n]
    | CSvc _ s => [sv_name s]
    | _ => [] end) probe_cs.
Definition expected_landmarks : list bytes :=
  let X := bs "Foo" in
  match EntityGen.run_order with
  | [f1; f2; f3; f4; f5; f6; f7; f8; f9; f10] =>
      let schema f lit := if lit_of f lit then [X ++ bs lit] else [] in
      let by_fmt f fmt suffix := if fmt_of f fmt then [sprintf1 (list_ascii_of_string fmt) X ++ bs suffix] else [] in
      schema f1 "Keys" ++ schema f2 "Data" ++ schema f3 "Status" ++ schema f4 "State"
      ++ schema f5 "EventType" ++ schema f6 "Event"
      ++ by_fmt f7 "%sQuery" "Service" ++ by_fmt f8 "%sCommand" "Service"
      ++ by_fmt f9 "%sPublish" "Topic" ++ by_fmt f10 "%sSummary" "Topic"
  | _ => []
  end.
Lemma run_order_from_model : landmark_names = expected_landmarks.
Proof. vm_compute; reflexivity. Qed.

(* (2) the literal property names each accept function writes are the names the model's
   message for that function carries *)
Definition lits_of (f : string) : list bytes :=
  flat_map (fun p => if String.eqb (fst p) f then [bs (snd p)] else []) EntityGen.property_names.
Definition same_names (a b : list bytes) : bool :=
  forallb (fun x => existsb (bytes_eqb x) b) a && forallb (fun x => existsb (bytes_eqb x) a) b.
Definition msg_named (n : string) : list bytes :=
  flat_map (fun c => match c with
    | CMsg _ m => if bytes_eqb (m_name m) (bs n) then map f_json (m_fields m) else []
    | _ => [] end) probe_cs.
Lemma property_names_from_model :
  same_names (msg_named "FooState") (lits_of "acceptState") = true
  /\ same_names (msg_named "FooEvent") (lits_of "acceptEvent") = true
  /\ same_names (msg_named "FooEventMessage") (lits_of "acceptPublishTopic") = true
  /\ same_names (filter (fun n => negb (bytes_eqb n (bs "fooId")) && negb (bytes_eqb n (bs "foo")))
                        (msg_named "FooGetRequest" ++ msg_named "FooGetResponse" ++ msg_named "FooListRequest"
                         ++ msg_named "FooListResponse" ++ msg_named "FooEventsRequest" ++ msg_named "FooEventsResponse"))
                (lits_of "acceptQuery") = true.
Proof. repeat split; vm_compute; reflexivity. Qed.

(* (3) names built with Sprintf: the model's name is the code's format applied to ToCamel(name) *)
Definition svc_methods (n : string) : list bytes :=
  flat_map (fun c => match c with
    | CSvc _ s => if bytes_eqb (sv_name s) (bs n) then map mt_name (sv_methods s) else []
    | _ => [] end) probe_cs.
Lemma formats_from_model :
  fmt_of "acceptQuery" "%sGet" && fmt_of "acceptQuery" "%sList" && fmt_of "acceptQuery" "%sEvents" = true
  /\ svc_methods "FooQueryService" =
       map (fun f => sprintf1 (list_ascii_of_string f) (bs "Foo")) ["%sGet"; "%sList"; "%sEvents"]
  /\ fmt_of "acceptPublishTopic" "%sEvent" = true
  /\ svc_methods "FooPublishTopic" = [sprintf1 (list_ascii_of_string "%sEvent") (bs "Foo")]
  /\ fmt_of "acceptQuery" "/%s/q" && fmt_of "acceptCommands" "/%s/c" = true
  /\ existsb (fun c => match c with
                       | CSvc _ s => existsb (fun m => has_prefix (sprintf1 (list_ascii_of_string "/%s/q") (base_url probe)) (mt_path m)) (sv_methods s)
                       | _ => false end) probe_cs = true
  /\ existsb (fun c => match c with
                       | CSvc _ s => existsb (fun m => has_prefix (sprintf1 (list_ascii_of_string "/%s/c") (base_url probe)) (mt_path m)) (sv_methods s)
                       | _ => false end) probe_cs = true.
Proof. repeat split; vm_compute; reflexivity. Qed.

(* (4) entity parts: the psm part numbers of the model's messages are the EntityPart constants the
   accept functions set (ENTITY_PART_KEYS = 1, STATE = 2, EVENT = 3, DATA = 4: schema.proto) *)
Definition part_number (s : string) : N :=
  if String.eqb s "EntityPart_KEYS" then 1 else if String.eqb s "EntityPart_STATE" then 2
  else if String.eqb s "EntityPart_EVENT" then 3 else if String.eqb s "EntityPart_DATA" then 4 else 0.
Definition model_parts : list (bytes * N) :=
  flat_map (fun c => match c with
    | CMsg _ m => match m_psm m with Some (_, p) => [(m_name m, p)] | None => [] end
    | _ => [] end) probe_cs.
Definition gen_parts : list (bytes * N) :=
  map (fun p => (bs "Foo" ++ match drop_prefix (bs "accept") (bs (fst p)) with Some s => s | None => [] end,
                 part_number (snd p))) EntityGen.entity_parts.
Lemma entity_parts_from_model :
  forallb (fun p => existsb (fun q => bytes_eqb (fst p) (fst q) && (snd p =? snd q)) gen_parts) model_parts = true
  /\ forallb (fun p => existsb (fun q => bytes_eqb (fst p) (fst q) && (snd p =? snd q)) model_parts) gen_parts = true.
Proof. split; vm_compute; reflexivity. Qed.

(* ======================================================================================================
   (5)-(8) (ent3): the REMAINING hand-typed tables, derived from the model.  A second probe whose names
   tell the four strcase functions apart; its components are cut into one segment per function of
   entityNode.run (by file and by the service that closes a group), and each regenerated table is
   compared with what [expand_with] / [client_view] / [default_filters] compute on the probe. *)
Definition probe2 : entity :=
  mkE (bs "acme.pkg.v1") (bs "fooBar_baz") []
      [mkK (mkU (bs "idOne") (KKey true None None) false false) false;
       mkK (mkU (bs "tenant_id") (KKey false None None) false false) true]
      [mkU (bs "name") (KScalar 9 (bs "string")) false false]
      [bs "ACTIVE"]
      [mkEv (bs "DoThing") [mkU (bs "note") (KScalar 9 (bs "string")) false false]]
      [mkC None None [mkM (bs "Touch") 2 (bs "t") [] (Some [])];
       mkC (Some (bs "Admin")) (Some (bs "adm")) [mkM (bs "Purge") 2 (bs "p") [] (Some [])]]
      [mkS [] []; mkS (bs "small_view") []]
      (Some (mkQ true [bs "ACTIVE"] false)) [].
Definition probe2_filters : list bytes :=
  match default_filters probe2 [bs "ACTIVE"] with Some l => l | None => [] end.
Definition probe2_cs : list component := expand_with probe2 probe2_filters.

(* the strcase function a table entry names, applied *)
Definition apply_fn (fn : string) (s : bytes) : bytes :=
  if String.eqb fn "ToCamel" then to_camel s
  else if String.eqb fn "ToLowerCamel" then to_lower_camel s
  else if String.eqb fn "ToSnake" then to_snake s
  else if String.eqb fn "ToScreamingSnake" then to_screaming_snake s
  else if String.eqb fn "ToKebab" then to_kebab s
  else [].
(* the strcase functions the code calls in function [f], without repetitions *)
Fixpoint dedup (l : list string) : list string :=
  match l with
  | [] => []
  | x :: r => if existsb (String.eqb x) r then dedup r else x :: dedup r
  end.
Definition fns_of (f : string) : list string :=
  dedup (flat_map (fun p => if String.eqb (fst p) f then [snd p] else []) EntityGen.strcase_calls).
Definition the_fn (f : string) : string := match fns_of f with [x] => x | _ => "" end.

(* fmt.Sprintf with two %s *)
Fixpoint sprintf2 (fmt : list ascii) (a b : bytes) : bytes :=
  match fmt with
  | [] => []
  | "%"%char :: "s"%char :: r => a ++ sprintf1 r b
  | c :: r => N_of_ascii c :: sprintf2 r a b
  end.
Definition sp1 (fmt : string) (a : bytes) : bytes := sprintf1 (list_ascii_of_string fmt) a.
Definition sp2 (fmt : string) (a b : bytes) : bytes := sprintf2 (list_ascii_of_string fmt) a b.

(* ---- segments: which components each function of run emits -------------------------------------------- *)
Definition in_file (file : N) (c : component) : bool :=
  match c with CMsg f _ => f =? file | CEnum _ _ => file =? 0 | CSvc f _ => f =? file end.
Definition is_svc (c : component) : bool := match c with CSvc _ _ => true | _ => false end.
(* up to and including the first service / everything after it *)
Fixpoint upto_svc (l : list component) : list component :=
  match l with [] => [] | c :: r => if is_svc c then [c] else c :: upto_svc r end.
Fixpoint after_svc (l : list component) : list component :=
  match l with [] => [] | c :: r => if is_svc c then r else after_svc r end.
Definition file_cs (file : N) : list component := filter (in_file file) probe2_cs.
Definition segment (i : nat) : list component :=
  match i with
  | 6%nat => upto_svc (file_cs 1)           (* acceptQuery *)
  | 7%nat => after_svc (file_cs 1)          (* acceptCommands *)
  | 8%nat => upto_svc (file_cs 2)           (* acceptPublishTopic *)
  | 9%nat => after_svc (file_cs 2)          (* acceptSummaryTopics *)
  | _ => match nth_error (file_cs 0) i with Some c => [c] | None => [] end
  end.
Lemma segments_cover : concat (map segment (seq 0 10)) = probe2_cs.
Proof. vm_compute; reflexivity. Qed.

(* ---- (5) componentName / innerRef literals ------------------------------------------------------------
   the names a segment DEFINES in the main package and the local schemas its fields REFER to, with the
   entity prefix removed, are exactly the literals the function passes to componentName / innerRef
   (references into a nested type, built with Sprintf("%s.%s"), are (7)'s) *)
Definition X2 : bytes := to_camel (e_name probe2).
Definition has_dot (s : bytes) : bool := existsb (fun c => c =? 46) s.
Definition local_ref (t : otype) : list bytes :=
  match t with
  | TObject [] n => [n] | TOneof [] n => [n] | TEnum [] n => [n]
  | _ => [] end.
Definition seg_names (seg : list component) : list bytes :=
  flat_map (fun c => match c with
    | CMsg 0 m => [m_name m] | CEnum n _ => [n] | _ => [] end) seg
  ++ filter (fun n => negb (has_dot n)) (flat_map (fun f => local_ref (f_type f)) (fields_of seg)).
Definition seg_suffixes (seg : list component) : list bytes :=
  flat_map (fun n => match drop_prefix X2 n with Some s => [s] | None => [n] end) (seg_names seg).
Definition suffix_lits (f : string) : list bytes :=
  flat_map (fun p => if String.eqb (fst p) f then [bs (snd p)] else []) EntityGen.suffix_sites.
Definition segment_matches (i : nat) : bool :=
  match nth_error EntityGen.run_order i with
  | Some f => same_names (seg_suffixes (segment i)) (suffix_lits f)
  | None => false
  end.
(* acceptCommands and acceptSummaryTopics call componentName nowhere and their segments refer to no
   generated schema; the other eight agree literal by literal *)
Lemma suffix_sites_from_model : forallb segment_matches (seq 0 10) = true.
Proof. vm_compute; reflexivity. Qed.

(* ---- (6) strcase calls ----------------------------------------------------------------------------------
   every name the model computes on the probe is the strcase function the code calls in that function,
   applied to the declared name; every function of entity.go with a strcase call is covered *)
Definition svc_named (n : bytes) : option osvc :=
  match flat_map (fun c => match c with CSvc _ s => if bytes_eqb (sv_name s) n then [s] else [] | _ => [] end) probe2_cs with
  | s :: _ => Some s | [] => None end.
Definition msg_fields2 (n : bytes) : list ofield :=
  flat_map (fun c => match c with CMsg _ m => if bytes_eqb (m_name m) n then m_fields m else [] | _ => [] end) probe2_cs.
Definition status_enum_values : list bytes :=
  flat_map (fun c => match c with CEnum _ vs => map fst vs | _ => [] end) (segment 2).
Definition the_status_literal : bytes := match EntityGen.status_literals with [l] => bs l | _ => [] end.
Definition nm := e_name probe2.
Definition topic_role_of (s : osvc) : N := match sv_ann s with STopic _ r _ => r | _ => 0 end.
Definition same_strings (a b : list string) : bool :=
  forallb (fun x => existsb (String.eqb x) b) a && forallb (fun x => existsb (String.eqb x) a) b.

Definition strcase_calls_from_model_stmt : Prop :=
  (* componentName: ToCamel(name) ++ ToCamel(suffix) *)
  fns_of "componentName" = ["ToCamel"]
  /\ component_name probe2 (bs "event_type") = apply_fn (the_fn "componentName") nm ++ apply_fn (the_fn "componentName") (bs "event_type")
  (* fullName: the entity name of the topics *)
  /\ full_name probe2 = sp2 "%s.%s" (e_pkg probe2) (apply_fn (the_fn "fullName") nm)
  (* file.go: entityNode.name, the annotation; run: the default base path *)
  /\ snake_name probe2 = apply_fn EntityGen.entity_name_function nm
  /\ base_url probe2 = bs "acme/pkg/v1/" ++ apply_fn (the_fn "run") nm
  (* acceptStatus / findStatus: prefix = fn(name) ++ "_STATUS_", for the enum values and the default filters *)
  /\ status_enum_values = [apply_fn (the_fn "acceptStatus") nm ++ the_status_literal ++ bs "UNSPECIFIED";
                           apply_fn (the_fn "acceptStatus") nm ++ the_status_literal ++ bs "ACTIVE"]
  /\ probe2_filters = [apply_fn (the_fn "findStatus") nm ++ the_status_literal ++ bs "ACTIVE"]
  (* acceptEventOneof: the option name *)
  /\ map f_json (msg_fields2 (X2 ++ bs "EventType")) = [apply_fn (the_fn "acceptEventOneof") (bs "DoThing")]
  (* acceptCommands: the default command service *)
  /\ (exists s, svc_named (sp1 "%sCommand" (apply_fn (the_fn "acceptCommands") nm) ++ bs "Service") = Some s
                /\ map mt_name (sv_methods s) = [bs "Touch"])
  (* acceptSummaryTopics: unnamed and named summaries *)
  /\ (exists s t, svc_named (to_camel (sp1 "%sSummary" (apply_fn (the_fn "acceptSummaryTopics") nm)) ++ bs "Topic") = Some s
        /\ svc_named (to_camel (sp2 "%s%s" (apply_fn (the_fn "acceptSummaryTopics") nm)
                                           (apply_fn (the_fn "acceptSummaryTopics") (bs "small_view"))) ++ bs "Topic") = Some t
        /\ topic_role_of s = 3 /\ topic_role_of t = 3)
  (* acceptPublishTopic *)
  /\ (exists s, svc_named (to_camel (sp1 "%sPublish" (apply_fn (the_fn "acceptPublishTopic") nm)) ++ bs "Topic") = Some s
        /\ map mt_name (sv_methods s) = [sp1 "%sEvent" (apply_fn (the_fn "acceptPublishTopic") nm)]
        /\ topic_role_of s = 4)
  (* acceptQuery: ToCamel(ent.name) for the service and its methods, ToLowerCamel(ent.name) for the
     entity's property in the Get / List responses *)
  /\ same_strings (fns_of "acceptQuery") ["ToCamel"; "ToLowerCamel"] = true
  /\ (exists s, svc_named (sp1 "%sQuery" (apply_fn "ToCamel" (snake_name probe2)) ++ bs "Service") = Some s
        /\ map mt_name (sv_methods s) = map (fun f => sp1 f (apply_fn "ToCamel" (snake_name probe2))) ["%sGet"; "%sList"; "%sEvents"]%string)
  /\ map f_json (firstn 1 (msg_fields2 (sp1 "%sGet" (apply_fn "ToCamel" (snake_name probe2)) ++ bs "Response")))
     = [apply_fn "ToLowerCamel" (snake_name probe2)]
  (* checkReservedNames: proto names ToSnake(..) and the two ToLowerCamel steps of the entity's own
     response property / an event's option *)
  /\ same_strings (fns_of "checkReservedNames") ["ToSnake"; "ToLowerCamel"] = true
  /\ own_response_name probe2 = apply_fn "ToSnake" (apply_fn "ToLowerCamel" (snake_name probe2))
  (* and no other function of entity.go calls strcase *)
  /\ same_strings (dedup (map fst EntityGen.strcase_calls))
       ["componentName"; "fullName"; "run"; "checkReservedNames"; "acceptStatus"; "findStatus"; "acceptEventOneof"; "acceptCommands";
        "acceptSummaryTopics"; "acceptPublishTopic"; "acceptQuery"] = true.
Lemma strcase_calls_from_model : strcase_calls_from_model_stmt.
Proof.
  unfold strcase_calls_from_model_stmt.
  repeat match goal with
         | |- _ /\ _ => split
         | |- exists _, _ => eexists
         end; vm_compute; reflexivity.
Qed.

(* ---- (7) Sprintf formats ------------------------------------------------------------------------------------
   every name / path the model builds is the code's format applied (the formats are looked up in the
   regenerated table by function; (3) and (6) cover %sGet %sList %sEvents %sEvent %sCommand %sSummary %s%s
   %sPublish %sQuery and fullName's %s.%s) *)
Definition fmt_in (f fmt : string) : bool := pair_mem EntityGen.sprintf_formats (f, fmt).
Definition method_paths (svc : bytes) : list bytes :=
  match svc_named svc with Some s => map mt_path (sv_methods s) | None => [] end.
Definition client_paths : list bytes := map snd (ce_query_methods (client_view probe2)).
Definition topic_fmt (i : nat) : string := nth i EntityGen.topic_formats "".

Definition formats_from_model2_stmt : Prop :=
  (* acceptEventOneof: the option refers to the type nested in the oneof, "%s.%s" of the two names *)
  fmt_in "acceptEventOneof" "%s.%s" = true
  /\ map f_type (msg_fields2 (X2 ++ bs "EventType")) = [TObject [] (sp2 "%s.%s" (X2 ++ bs "EventType") (bs "DoThing"))]
  (* acceptCommands: base path of the default / of a command with basePath *)
  /\ fmt_in "acceptCommands" "/%s/c" && fmt_in "acceptCommands" "/%s/%s" = true
  /\ method_paths (bs "FooBarBazCommandService") = [http_rule_path (path_join (sp1 "/%s/c" (base_url probe2)) (bs "t"))]
  /\ method_paths (bs "AdminCommandService") = [http_rule_path (path_join (sp2 "/%s/%s" (base_url probe2) (bs "adm")) (bs "p"))]
  (* acceptQuery: base path and the ":key" parts of the Get / List / Events paths (the client's view
     keeps the ":name" form) *)
  /\ fmt_in "acceptQuery" "/%s/q" && fmt_in "acceptQuery" ":%s" = true
  /\ client_paths =
       [path_join (sp1 "/%s/q" (base_url probe2)) (join [47] [sp1 ":%s" (bs "idOne"); sp1 ":%s" (bs "tenant_id")]);
        path_join (sp1 "/%s/q" (base_url probe2)) (join [47] [sp1 ":%s" (bs "tenant_id")]);
        path_join (sp1 "/%s/q" (base_url probe2)) (join [47] [sp1 ":%s" (bs "idOne"); sp1 ":%s" (bs "tenant_id"); bs "events"])]
  (* topic.go acceptTopic: message and service names of the publish and the two upsert topics *)
  /\ map comp_name (segment 8 ++ segment 9) =
       flat_map (fun mt => [sp1 (topic_fmt 0) (fst mt); sp1 (topic_fmt 1) (to_camel (snd mt))])
         [(X2 ++ bs "Event", X2 ++ bs "Publish"); (X2 ++ bs "Summary", X2 ++ bs "Summary");
          (X2 ++ bs "SmallView", X2 ++ bs "SmallView")]
  (* coverage: entity.go has no Sprintf format beyond the ones tied here, in (3) and in (6), and the two
     description texts of the topic messages *)
  /\ forallb (fun p => pair_mem
       [("fullName", "%s.%s"); ("acceptEventOneof", "%s.%s");
        ("acceptCommands", "%sCommand"); ("acceptCommands", "/%s/%s"); ("acceptCommands", "/%s/c");
        ("acceptSummaryTopics", "%sSummary"); ("acceptSummaryTopics", "%s%s");
        ("acceptSummaryTopics", "Publishes summary output of state for the %s entity");
        ("acceptPublishTopic", "%sPublish"); ("acceptPublishTopic", "%sEvent");
        ("acceptPublishTopic", "Publishes all events for the %s entity");
        ("acceptQuery", ":%s"); ("acceptQuery", "%sGet"); ("acceptQuery", "%sList"); ("acceptQuery", "%sEvents");
        ("acceptQuery", "/%s/q"); ("acceptQuery", "%sQuery")] p) EntityGen.sprintf_formats = true.
Lemma formats_from_model2 : formats_from_model2_stmt.
Proof. unfold formats_from_model2_stmt. repeat match goal with |- _ /\ _ => split end; vm_compute; reflexivity. Qed.

(* ---- (8) property names, for the second probe too (two keys, one of them a shard key) -------------------
   the literal `Name:` values of each accept function are the properties of that function's segment that
   the user did not declare *)
Definition user_names : list bytes := [bs "idOne"; bs "tenant_id"; bs "name"; bs "note"].
Definition seg_props (i : nat) : list bytes :=
  filter (fun n => negb (existsb (bytes_eqb n) user_names)
                   && negb (bytes_eqb n (to_lower_camel (snake_name probe2))))
         (flat_map (fun c => match c with CMsg _ m => map f_json (m_fields m) | _ => [] end) (segment i)).
Definition prop_lits (f : string) : list bytes :=
  flat_map (fun p => if String.eqb (fst p) f then [bs (snd p)] else []) EntityGen.property_names.
Lemma property_names_from_model2 :
  forallb (fun i => match nth_error EntityGen.run_order i with
                    | Some f => same_names (seg_props i) (prop_lits f)
                    | None => false end) [3; 5; 6; 8]%nat = true
  (* and no other function writes a literal property name *)
  /\ same_strings (dedup (map fst EntityGen.property_names))
                  (flat_map (fun i => match nth_error EntityGen.run_order i with Some f => [f] | None => [] end) [3; 5; 6; 8]%nat) = true.
Proof. split; vm_compute; reflexivity. Qed.

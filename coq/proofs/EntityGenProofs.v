(* EntityGenProofs.v — computed agreement between model/Entity.v and the tables that
   harness/cmd/gen_ent re-reads from /repo on every run (gen/EntityGen.v).  An edit of
   entity.go / topic.go / file.go / imports.go / go.mod that changes one of these tables
   breaks the named obligation below at make time. *)
From Coq Require Import String Ascii List NArith Bool.
From J5V.lib Require Import Outcome Strcase.
From J5V.model Require Import Entity.
From J5V.gen Require EntityGen.
Import ListNotations.
Local Open Scope string_scope.
Local Open Scope N_scope.

(* tables are compared as SETS of (function, literal) pairs: a reordering or a repeated call in
   entity.go does not break an obligation, a new / changed / missing literal does *)
Definition pair_eqb (a b : string * string) : bool := String.eqb (fst a) (fst b) && String.eqb (snd a) (snd b).
Definition pair_mem (l : list (string * string)) (p : string * string) : bool := existsb (pair_eqb p) l.
Definition same_pairs (a b : list (string * string)) : bool := forallb (pair_mem b) a && forallb (pair_mem a) b.

(* the order of [expand_with]: keys, data, status, state, event oneof, event, query,
   commands, publish topic, summary topics *)
Definition model_run_order : list string :=
  ["acceptKeys"; "acceptData"; "acceptStatus"; "acceptState"; "acceptEventOneof"; "acceptEvent";
   "acceptQuery"; "acceptCommands"; "acceptPublishTopic"; "acceptSummaryTopics"].
Lemma run_order_agrees : model_run_order = EntityGen.run_order.
Proof. vm_compute; reflexivity. Qed.

(* every name of a generated schema, at its definition and at each reference, is
   componentName(<literal>) — in particular State/EventType/Event are DEFINED through
   componentName (acceptState/acceptEventOneof/acceptEvent), which is what [state_msg],
   [event_type_msg], [event_msg] model, and no strcase call is applied to a concatenation
   (the pre-fix ToCamel(entity.Name + "State")) *)
Definition model_suffix_sites : list (string * string) :=
  [("acceptKeys", "Keys"); ("acceptData", "Data"); ("acceptStatus", "Status"); ("innerRef", "<non-literal>");
   ("acceptState", "Keys"); ("acceptState", "Status"); ("acceptState", "State"); ("acceptState", "Data");
   ("acceptEventOneof", "EventType");
   ("acceptEvent", "Keys"); ("acceptEvent", "Event"); ("acceptEvent", "EventType");
   ("acceptPublishTopic", "Keys"); ("acceptPublishTopic", "EventType"); ("acceptPublishTopic", "Data");
   ("acceptPublishTopic", "Status");
   ("acceptQuery", "State"); ("acceptQuery", "State"); ("acceptQuery", "Event"); ("acceptQuery", "Event")].
Lemma suffix_sites_agree : same_pairs model_suffix_sites EntityGen.suffix_sites = true.
Proof. vm_compute; reflexivity. Qed.
(* the six schemas are DEFINED through componentName in their own accept function *)
Lemma definition_sites_use_component_name :
  forallb (pair_mem EntityGen.suffix_sites)
    [("acceptKeys", "Keys"); ("acceptData", "Data"); ("acceptStatus", "Status");
     ("acceptState", "State"); ("acceptEventOneof", "EventType"); ("acceptEvent", "Event")] = true.
Proof. vm_compute; reflexivity. Qed.
Lemma no_camel_of_concatenation : EntityGen.camel_of_concat_sites = 0.
Proof. vm_compute; reflexivity. Qed.

Definition model_strcase_calls : list (string * string) :=
  [("componentName", "ToCamel"); ("componentName", "ToCamel"); ("fullName", "ToCamel"); ("run", "ToSnake");
   ("acceptStatus", "ToScreamingSnake"); ("findStatus", "ToScreamingSnake");
   ("acceptEventOneof", "ToLowerCamel"); ("acceptCommands", "ToCamel");
   ("acceptSummaryTopics", "ToCamel"); ("acceptSummaryTopics", "ToCamel"); ("acceptSummaryTopics", "ToCamel");
   ("acceptPublishTopic", "ToCamel"); ("acceptPublishTopic", "ToCamel");
   ("acceptQuery", "ToCamel"); ("acceptQuery", "ToLowerCamel"); ("acceptQuery", "ToCamel");
   ("acceptQuery", "ToLowerCamel"); ("acceptQuery", "ToCamel"); ("acceptQuery", "ToCamel")].
Lemma strcase_calls_agree : same_pairs model_strcase_calls EntityGen.strcase_calls = true.
Proof. vm_compute; reflexivity. Qed.

Definition model_formats : list (string * string) :=
  [("fullName", "%s.%s"); ("acceptEventOneof", "%s.%s");
   ("acceptCommands", "%sCommand"); ("acceptCommands", "/%s/%s"); ("acceptCommands", "/%s/c");
   ("acceptSummaryTopics", "%sSummary"); ("acceptSummaryTopics", "%s%s");
   ("acceptSummaryTopics", "Publishes summary output of state for the %s entity");
   ("acceptPublishTopic", "%sPublish"); ("acceptPublishTopic", "%sEvent");
   ("acceptPublishTopic", "Publishes all events for the %s entity");
   ("acceptQuery", ":%s"); ("acceptQuery", ":%s"); ("acceptQuery", ":%s"); ("acceptQuery", ":%s");
   ("acceptQuery", "%sGet"); ("acceptQuery", "%sList"); ("acceptQuery", "%sEvents");
   ("acceptQuery", "/%s/q"); ("acceptQuery", "%sQuery")].
Lemma formats_agree : same_pairs model_formats EntityGen.sprintf_formats = true.
Proof. vm_compute; reflexivity. Qed.

(* acceptStatus (the enum prefix) and findStatus (default filters) use the same literal *)
Lemma status_literals_agree : EntityGen.status_literals = ["_STATUS_"].
Proof. vm_compute; reflexivity. Qed.

Definition model_property_names : list (string * string) :=
  [("acceptState", "status"); ("acceptState", "metadata"); ("acceptState", "keys"); ("acceptState", "data");
   ("acceptEvent", "metadata"); ("acceptEvent", "keys"); ("acceptEvent", "event");
   ("acceptPublishTopic", "metadata"); ("acceptPublishTopic", "keys"); ("acceptPublishTopic", "event");
   ("acceptPublishTopic", "data"); ("acceptPublishTopic", "status");
   ("acceptQuery", "page"); ("acceptQuery", "query"); ("acceptQuery", "page");
   ("acceptQuery", "page"); ("acceptQuery", "query"); ("acceptQuery", "events"); ("acceptQuery", "page");
   ("acceptQuery", "events")].
Lemma property_names_agree : same_pairs model_property_names EntityGen.property_names = true.
Proof. vm_compute; reflexivity. Qed.

Lemma entity_parts_agree :
  same_pairs EntityGen.entity_parts
             [("acceptKeys", "EntityPart_KEYS"); ("acceptData", "EntityPart_DATA");
              ("acceptState", "EntityPart_STATE"); ("acceptEvent", "EntityPart_EVENT")] = true.
Proof. vm_compute; reflexivity. Qed.

Lemma entity_name_is_snake : EntityGen.entity_name_function = "ToSnake".
Proof. vm_compute; reflexivity. Qed.
Lemma topic_formats_agree : EntityGen.topic_formats = ["%sMessage"; "%sTopic"].
Proof. vm_compute; reflexivity. Qed.

(* lib/Strcase.v models exactly this version, with the empty acronym table *)
Lemma strcase_version_agrees : EntityGen.strcase_version = "v0.3.0".
Proof. vm_compute; reflexivity. Qed.
Lemma no_acronyms_configured : EntityGen.configure_acronym_occurrences = 0.
Proof. vm_compute; reflexivity. Qed.

(* implicit imports: the model's table is the code's table (as sets) *)
Definition gen_implicit : list (bytes * bytes) :=
  map (fun p => (bs (fst p), bs (snd p))) EntityGen.implicit_imports.
Definition pair_in (l : list (bytes * bytes)) (p : bytes * bytes) : bool :=
  existsb (fun q => bytes_eqb (fst q) (fst p) && bytes_eqb (snd q) (snd p)) l.
Lemma implicit_imports_agree :
  forallb (pair_in gen_implicit) implicit_imports = true
  /\ forallb (pair_in implicit_imports) gen_implicit = true.
Proof. split; vm_compute; reflexivity. Qed.

(* every external schemaRefField in entity.go / topic.go is an implicit import *)
Lemma external_refs_are_implicit :
  forallb (fun t => match t with (_, p, s) =>
             match p with "" => true | _ => pair_in gen_implicit (bs p, bs s) end end)
          (EntityGen.schema_ref_fields ++ EntityGen.topic_ref_fields) = true.
Proof. vm_compute; reflexivity. Qed.

(* and the external references the model emits are exactly those of acceptState /
   acceptEvent / acceptPublishTopic / acceptQuery and the upsert arm of topic.go *)
Definition sample : entity :=
  mkE (bs "foo.v1") (bs "Foo") [] [mkK (mkU (bs "fooId") (KKey true None None) false false) false] []
      [bs "ACTIVE"] [mkEv (bs "Create") []] [] [mkS [] []] (Some (mkQ true [])) [].
Definition externals (cs : list component) : list (bytes * bytes) :=
  flat_map (fun f => match f_type f with
                     | TObject (c :: p) n => [(c :: p, n)]
                     | _ => [] end) (fields_of cs).
Definition gen_externals : list (bytes * bytes) :=
  flat_map (fun t => match t with (f, p, s) =>
     match p with "" => [] | _ =>
       if String.eqb f "acceptMultiReqResTopic" then [] else [(bs p, bs s)] end end)
     (EntityGen.schema_ref_fields ++ EntityGen.topic_ref_fields).
Lemma model_externals_agree :
  forallb (pair_in gen_externals) (externals (expand_with sample [])) = true
  /\ forallb (pair_in (externals (expand_with sample []))) gen_externals = true.
Proof. split; vm_compute; reflexivity. Qed.

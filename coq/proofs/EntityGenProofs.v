(* EntityGenProofs.v — computed agreement between model/Entity.v and the tables that
   harness/cmd/gen_ent re-reads from /repo on every run (gen/EntityGen.v).  An edit of
   entity.go / topic.go / file.go / imports.go / go.mod that changes one of these tables
   breaks the named obligation below at make time. *)
From Coq Require Import String Ascii List NArith Bool.
From J5V.lib Require Import Outcome Strcase.
From J5V.model Require Import Entity.
From J5V.gen Require EntityGen.
Import ListNotations.
Local Open Scope string_scope.
Local Open Scope N_scope.

(* tables are compared as SETS of (function, literal) pairs: a reordering or a repeated call in
   entity.go does not break an obligation, a new / changed / missing literal does *)
Definition pair_eqb (a b : string * string) : bool := String.eqb (fst a) (fst b) && String.eqb (snd a) (snd b).
Definition pair_mem (l : list (string * string)) (p : string * string) : bool := existsb (pair_eqb p) l.
Definition same_pairs (a b : list (string * string)) : bool := forallb (pair_mem b) a && forallb (pair_mem a) b.

(* the order of [expand_with]: keys, data, status, state, event oneof, event, query,
   commands, publish topic, summary topics *)
Definition model_run_order : list string :=
  ["acceptKeys"; "acceptData"; "acceptStatus"; "acceptState"; "acceptEventOneof"; "acceptEvent";
   "acceptQuery"; "acceptCommands"; "acceptPublishTopic"; "acceptSummaryTopics"].
Lemma run_order_agrees : model_run_order = EntityGen.run_order.
Proof. vm_compute; reflexivity. Qed.

(* every name of a generated schema, at its definition and at each reference, is
   componentName(<literal>) — in particular State/EventType/Event are DEFINED through
   componentName (acceptState/acceptEventOneof/acceptEvent), which is what [state_msg],
   [event_type_msg], [event_msg] model, and no strcase call is applied to a concatenation
   (the pre-fix ToCamel(entity.Name + "State")) *)
Definition model_suffix_sites : list (string * string) :=
  [("acceptKeys", "Keys"); ("acceptData", "Data"); ("acceptStatus", "Status"); ("innerRef", "<non-literal>");
   ("acceptState", "Keys"); ("acceptState", "Status"); ("acceptState", "State"); ("acceptState", "Data");
   ("acceptEventOneof", "EventType");
   ("acceptEvent", "Keys"); ("acceptEvent", "Event"); ("acceptEvent", "EventType");
   ("acceptPublishTopic", "Keys"); ("acceptPublishTopic", "EventType"); ("acceptPublishTopic", "Data");
   ("acceptPublishTopic", "Status");
   ("acceptQuery", "State"); ("acceptQuery", "State"); ("acceptQuery", "Event"); ("acceptQuery", "Event")].
Lemma suffix_sites_agree : same_pairs model_suffix_sites EntityGen.suffix_sites = true.
Proof. vm_compute; reflexivity. Qed.
(* the six schemas are DEFINED through componentName in their own accept function *)
Lemma definition_sites_use_component_name :
  forallb (pair_mem EntityGen.suffix_sites)
    [("acceptKeys", "Keys"); ("acceptData", "Data"); ("acceptStatus", "Status");
     ("acceptState", "State"); ("acceptEventOneof", "EventType"); ("acceptEvent", "Event")] = true.
Proof. vm_compute; reflexivity. Qed.
Lemma no_camel_of_concatenation : EntityGen.camel_of_concat_sites = 0.
Proof. vm_compute; reflexivity. Qed.

Definition model_strcase_calls : list (string * string) :=
  [("componentName", "ToCamel"); ("componentName", "ToCamel"); ("fullName", "ToCamel"); ("run", "ToSnake");
   ("acceptStatus", "ToScreamingSnake"); ("findStatus", "ToScreamingSnake");
   ("acceptEventOneof", "ToLowerCamel"); ("acceptCommands", "ToCamel");
   ("acceptSummaryTopics", "ToCamel"); ("acceptSummaryTopics", "ToCamel"); ("acceptSummaryTopics", "ToCamel");
   ("acceptPublishTopic", "ToCamel"); ("acceptPublishTopic", "ToCamel");
   ("acceptQuery", "ToCamel"); ("acceptQuery", "ToLowerCamel"); ("acceptQuery", "ToCamel");
   ("acceptQuery", "ToLowerCamel"); ("acceptQuery", "ToCamel"); ("acceptQuery", "ToCamel")].
Lemma strcase_calls_agree : same_pairs model_strcase_calls EntityGen.strcase_calls = true.
Proof. vm_compute; reflexivity. Qed.

Definition model_formats : list (string * string) :=
  [("fullName", "%s.%s"); ("acceptEventOneof", "%s.%s");
   ("acceptCommands", "%sCommand"); ("acceptCommands", "/%s/%s"); ("acceptCommands", "/%s/c");
   ("acceptSummaryTopics", "%sSummary"); ("acceptSummaryTopics", "%s%s");
   ("acceptSummaryTopics", "Publishes summary output of state for the %s entity");
   ("acceptPublishTopic", "%sPublish"); ("acceptPublishTopic", "%sEvent");
   ("acceptPublishTopic", "Publishes all events for the %s entity");
   ("acceptQuery", ":%s"); ("acceptQuery", ":%s"); ("acceptQuery", ":%s"); ("acceptQuery", ":%s");
   ("acceptQuery", "%sGet"); ("acceptQuery", "%sList"); ("acceptQuery", "%sEvents");
   ("acceptQuery", "/%s/q"); ("acceptQuery", "%sQuery")].
Lemma formats_agree : same_pairs model_formats EntityGen.sprintf_formats = true.
Proof. vm_compute; reflexivity. Qed.

(* acceptStatus (the enum prefix) and findStatus (default filters) use the same literal *)
Lemma status_literals_agree : EntityGen.status_literals = ["_STATUS_"].
Proof. vm_compute; reflexivity. Qed.

Definition model_property_names : list (string * string) :=
  [("acceptState", "status"); ("acceptState", "metadata"); ("acceptState", "keys"); ("acceptState", "data");
   ("acceptEvent", "metadata"); ("acceptEvent", "keys"); ("acceptEvent", "event");
   ("acceptPublishTopic", "metadata"); ("acceptPublishTopic", "keys"); ("acceptPublishTopic", "event");
   ("acceptPublishTopic", "data"); ("acceptPublishTopic", "status");
   ("acceptQuery", "page"); ("acceptQuery", "query"); ("acceptQuery", "page");
   ("acceptQuery", "page"); ("acceptQuery", "query"); ("acceptQuery", "events"); ("acceptQuery", "page");
   ("acceptQuery", "events")].
Lemma property_names_agree : same_pairs model_property_names EntityGen.property_names = true.
Proof. vm_compute; reflexivity. Qed.

Lemma entity_parts_agree :
  same_pairs EntityGen.entity_parts
             [("acceptKeys", "EntityPart_KEYS"); ("acceptData", "EntityPart_DATA");
              ("acceptState", "EntityPart_STATE"); ("acceptEvent", "EntityPart_EVENT")] = true.
Proof. vm_compute; reflexivity. Qed.

Lemma entity_name_is_snake : EntityGen.entity_name_function = "ToSnake".
Proof. vm_compute; reflexivity. Qed.
Lemma topic_formats_agree : EntityGen.topic_formats = ["%sMessage"; "%sTopic"].
Proof. vm_compute; reflexivity. Qed.

(* lib/Strcase.v models exactly this version, with the empty acronym table *)
Lemma strcase_version_agrees : EntityGen.strcase_version = "v0.3.0".
Proof. vm_compute; reflexivity. Qed.
Lemma no_acronyms_configured : EntityGen.configure_acronym_occurrences = 0.
Proof. vm_compute; reflexivity. Qed.

(* implicit imports: the model's table is the code's table (as sets) *)
Definition gen_implicit : list (bytes * bytes) :=
  map (fun p => (bs (fst p), bs (snd p))) EntityGen.implicit_imports.
Definition pair_in (l : list (bytes * bytes)) (p : bytes * bytes) : bool :=
  existsb (fun q => bytes_eqb (fst q) (fst p) && bytes_eqb (snd q) (snd p)) l.
Lemma implicit_imports_agree :
  forallb (pair_in gen_implicit) implicit_imports = true
  /\ forallb (pair_in implicit_imports) gen_implicit = true.
Proof. split; vm_compute; reflexivity. Qed.

(* every external schemaRefField in entity.go / topic.go is an implicit import *)
Lemma external_refs_are_implicit :
  forallb (fun t => match t with (_, p, s) =>
             match p with "" => true | _ => pair_in gen_implicit (bs p, bs s) end end)
          (EntityGen.schema_ref_fields ++ EntityGen.topic_ref_fields) = true.
Proof. vm_compute; reflexivity. Qed.

(* and the external references the model emits are exactly those of acceptState /
   acceptEvent / acceptPublishTopic / acceptQuery and the upsert arm of topic.go *)
Definition sample : entity :=
  mkE (bs "foo.v1") (bs "Foo") [] [mkK (mkU (bs "fooId") (KKey true None None) false false) false] []
      [bs "ACTIVE"] [mkEv (bs "Create") []] [] [mkS [] []] (Some (mkQ true [] false)) [].
Definition externals (cs : list component) : list (bytes * bytes) :=
  flat_map (fun f => match f_type f with
                     | TObject (c :: p) n => [(c :: p, n)]
                     | _ => [] end) (fields_of cs).
Definition gen_externals : list (bytes * bytes) :=
  flat_map (fun t => match t with (f, p, s) =>
     match p with "" => [] | _ =>
       if String.eqb f "acceptMultiReqResTopic" then [] else [(bs p, bs s)] end end)
     (EntityGen.schema_ref_fields ++ EntityGen.topic_ref_fields).
Lemma model_externals_agree :
  forallb (pair_in gen_externals) (externals (expand_with sample [])) = true
  /\ forallb (pair_in (externals (expand_with sample []))) gen_externals = true.
Proof. split; vm_compute; reflexivity. Qed.

(* ---- the tables above, DERIVED FROM THE MODEL ---------------------------------------------------------
   The lemmas so far compare the regenerated tables with tables typed into this file.  The ones
   below compute the same facts from [expand_with] on a probe declaration, so that the model (not
   a transcript of it) is what has to agree with entity.go. *)
Local Open Scope list_scope.
Definition probe : entity :=
  mkE (bs "foo.v1") (bs "Foo") [] [mkK (mkU (bs "fooId") (KKey true None None) false false) false] []
      [bs "ACTIVE"] [mkEv (bs "Create") []]
      [mkC None None [mkM (bs "DoIt") 2 (bs "x") [] (Some [])]]
      [mkS [] []] (Some (mkQ true [] false)) [].
Definition probe_cs : list component := expand_with probe [].

Fixpoint drop_prefix (p s : bytes) : option bytes :=
  match p, s with
  | [], _ => Some s
  | x :: p', y :: s' => if x =? y then drop_prefix p' s' else None
  | _ :: _, [] => None
  end.
Definition comp_name (c : component) : bytes :=
  match c with CMsg _ m => m_name m | CEnum n _ => n | CSvc _ s => sv_name s end.

(* fmt.Sprintf with one %s *)
Fixpoint sprintf1 (fmt : list ascii) (arg : bytes) : bytes :=
  match fmt with
  | [] => []
  | "%"%char :: "s"%char :: r => arg ++ map N_of_ascii r
  | c :: r => N_of_ascii c :: sprintf1 r arg
  end.
Definition fmt_of (f fmt : string) : bool := pair_mem EntityGen.sprintf_formats (f, fmt).
Definition lit_of (f lit : string) : bool := pair_mem EntityGen.suffix_sites (f, lit).

(* (1) run order: the i-th function of entityNode.run defines the i-th landmark of the model's output:
   the six schemas by the componentName literal that function uses, the services / topics by the
   Sprintf format that function uses *)
Definition landmark_names : list bytes :=
  flat_map (fun c => match c with
    | CMsg 0 m => [m_name m]
    | CEnum n _ => [n]
    | CSvc _ s => [sv_name s]
    | _ => [] end) probe_cs.
Definition expected_landmarks : list bytes :=
  let X := bs "Foo" in
  match EntityGen.run_order with
  | [f1; f2; f3; f4; f5; f6; f7; f8; f9; f10] =>
      let schema f lit := if lit_of f lit then [X ++ bs lit] else [] in
      let by_fmt f fmt suffix := if fmt_of f fmt then [sprintf1 (list_ascii_of_string fmt) X ++ bs suffix] else [] in
      schema f1 "Keys" ++ schema f2 "Data" ++ schema f3 "Status" ++ schema f4 "State"
      ++ schema f5 "EventType" ++ schema f6 "Event"
      ++ by_fmt f7 "%sQuery" "Service" ++ by_fmt f8 "%sCommand" "Service"
      ++ by_fmt f9 "%sPublish" "Topic" ++ by_fmt f10 "%sSummary" "Topic"
  | _ => []
  end.
Lemma run_order_from_model : landmark_names = expected_landmarks.
Proof. vm_compute; reflexivity. Qed.

(* (2) the literal property names each accept function writes are the names the model's
   message for that function carries *)
Definition lits_of (f : string) : list bytes :=
  flat_map (fun p => if String.eqb (fst p) f then [bs (snd p)] else []) EntityGen.property_names.
Definition same_names (a b : list bytes) : bool :=
  forallb (fun x => existsb (bytes_eqb x) b) a && forallb (fun x => existsb (bytes_eqb x) a) b.
Definition msg_named (n : string) : list bytes :=
  flat_map (fun c => match c with
    | CMsg _ m => if bytes_eqb (m_name m) (bs n) then map f_json (m_fields m) else []
    | _ => [] end) probe_cs.
Lemma property_names_from_model :
  same_names (msg_named "FooState") (lits_of "acceptState") = true
  /\ same_names (msg_named "FooEvent") (lits_of "acceptEvent") = true
  /\ same_names (msg_named "FooEventMessage") (lits_of "acceptPublishTopic") = true
  /\ same_names (filter (fun n => negb (bytes_eqb n (bs "fooId")) && negb (bytes_eqb n (bs "foo")))
                        (msg_named "FooGetRequest" ++ msg_named "FooGetResponse" ++ msg_named "FooListRequest"
                         ++ msg_named "FooListResponse" ++ msg_named "FooEventsRequest" ++ msg_named "FooEventsResponse"))
                (lits_of "acceptQuery") = true.
Proof. repeat split; vm_compute; reflexivity. Qed.

(* (3) names built with Sprintf: the model's name is the code's format applied to ToCamel(name) *)
Definition svc_methods (n : string) : list bytes :=
  flat_map (fun c => match c with
    | CSvc _ s => if bytes_eqb (sv_name s) (bs n) then map mt_name (sv_methods s) else []
    | _ => [] end) probe_cs.
Lemma formats_from_model :
  fmt_of "acceptQuery" "%sGet" && fmt_of "acceptQuery" "%sList" && fmt_of "acceptQuery" "%sEvents" = true
  /\ svc_methods "FooQueryService" =
       map (fun f => sprintf1 (list_ascii_of_string f) (bs "Foo")) ["%sGet"; "%sList"; "%sEvents"]
  /\ fmt_of "acceptPublishTopic" "%sEvent" = true
  /\ svc_methods "FooPublishTopic" = [sprintf1 (list_ascii_of_string "%sEvent") (bs "Foo")]
  /\ fmt_of "acceptQuery" "/%s/q" && fmt_of "acceptCommands" "/%s/c" = true
  /\ existsb (fun c => match c with
                       | CSvc _ s => existsb (fun m => has_prefix (sprintf1 (list_ascii_of_string "/%s/q") (base_url probe)) (mt_path m)) (sv_methods s)
                       | _ => false end) probe_cs = true
  /\ existsb (fun c => match c with
                       | CSvc _ s => existsb (fun m => has_prefix (sprintf1 (list_ascii_of_string "/%s/c") (base_url probe)) (mt_path m)) (sv_methods s)
                       | _ => false end) probe_cs = true.
Proof. repeat split; vm_compute; reflexivity. Qed.

(* (4) entity parts: the psm part numbers of the model's messages are the EntityPart constants the
   accept functions set (ENTITY_PART_KEYS = 1, STATE = 2, EVENT = 3, DATA = 4: schema.proto) *)
Definition part_number (s : string) : N :=
  if String.eqb s "EntityPart_KEYS" then 1 else if String.eqb s "EntityPart_STATE" then 2
  else if String.eqb s "EntityPart_EVENT" then 3 else if String.eqb s "EntityPart_DATA" then 4 else 0.
Definition model_parts : list (bytes * N) :=
  flat_map (fun c => match c with
    | CMsg _ m => match m_psm m with Some (_, p) => [(m_name m, p)] | None => [] end
    | _ => [] end) probe_cs.
Definition gen_parts : list (bytes * N) :=
  map (fun p => (bs "Foo" ++ match drop_prefix (bs "accept") (bs (fst p)) with Some s => s | None => [] end,
                 part_number (snd p))) EntityGen.entity_parts.
Lemma entity_parts_from_model :
  forallb (fun p => existsb (fun q => bytes_eqb (fst p) (fst q) && (snd p =? snd q)) gen_parts) model_parts = true
  /\ forallb (fun p => existsb (fun q => bytes_eqb (fst p) (fst q) && (snd p =? snd q)) model_parts) gen_parts = true.
Proof. split; vm_compute; reflexivity. Qed.

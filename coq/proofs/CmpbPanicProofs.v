(* CmpbPanicProofs.v — the explicit panic( calls of the anchored compiler/printer files (gen/PanicGen.v)
   against the model's Panic sites. *)
From Coq Require Import String List.
From J5V.gen Require PanicGen.
Import ListNotations.
Local Open Scope string_scope.

(* ------------------------------------------------------------ explicit panic( calls *)
(* A CENSUS, not a reachability argument: every explicit panic( call of the scanned packages (gen/PanicGen.v)
   is listed; only the two ModelSite rows have Coq content behind them. A new panic( in Go breaks
   [panic_sites_agree]. Implicit panics (nil dereference, failed type assertion, index out of range) are not
   counted anywhere. *)
Inductive panic_class :=
| ModelSite (site : string)    (* a Panic outcome of model/CmpbFields.v: C07_compile_field_total shows it unreachable IN THE MODEL *)
| Explored (why : string).     (* NOT modelled: no theorem; reached, if at all, only under recover() in the correspondence / oracle
                                  streams. The text is a review note, not a proof. *)

Definition model_panic_sites : list ((string * string * string * string) * panic_class) :=
  [ (("j5convert", "builders.go", "fileContext.ensureImport", """empty alias"""),
      ModelSite "ensureImport: empty alias");
    (("j5convert", "builders.go", "fileContext.ensureImport", """invalid import path "" + importPath"),
      ModelSite "ensureImport: invalid import path");
    (("j5reflect", "property_set.go", "propSet.buildValue", "fmt.Sprintf(""Reflection Bug: field %s is not valid"", walkField.FullName())"),
      Explored "lib/j5reflect, used by the BCL walker to write into SourceFile: C18/C06 territory; malformed + semantic streams");
    (("j5reflect", "property_set.go", "copyReflect", "fmt.Sprintf(""CopyReflect: field %s not found in %s"", fd.FullName(), b.Descriptor().FullName())"),
      Explored "lib/j5reflect copy between equal message types");
    (("j5reflect", "protoval.go", "newProtoPair", """msg is nil/invalid"""),
      Explored "lib/j5reflect constructor guard");
    (("j5reflect", "protoval.go", "newProtoPair", """field is nil"""),
      Explored "lib/j5reflect constructor guard");
    (("j5reflect", "type_any.go", "anyFieldFactory.buildField", "fmt.Sprintf(""unsupported Any type %s"", valueType)"),
      Explored "lib/j5reflect: an Any field whose message is neither j5 Any nor google Any");
    (("j5reflect", "type_array.go", "newLeafArrayField", """list value is nil for leaf"""),
      Explored "lib/j5reflect array factory guard");
    (("optionreflect", "walk.go", "walkOptionMap", """map value is message, not supported"""),
      Explored "printer: an option field of type map<_, message>; the only map-valued option the converter emits is (j5.ext.v1.enum_value).info : map<string,string>; every printed file goes through safePrint");
    (("optionreflect", "walk.go", "walkOptionScalar", """unexpected scalar"""),
      Explored "printer: marshalSingular covers every scalar kind; message/group kinds are dispatched to walkOptionMessage before");
    (("parser", "fmt.go", "fmter.diffFile", "fmt.Sprintf(""FMT unknown statement %T"", stmt)"),
      Explored "formatter, not on the compile path (C09/C19)");
    (("protoprint", "options.go", "optionFullName", "err.Error()"),
      Explored "printer: contextRefName has no error return path");
    (("protoprint", "options.go", "parseOption", "fmt.Sprintf(""unexpected type %v"", root.FieldType)"),
      Explored "printer: WalkOptionField returns one of the three FieldType constants");
    (("walker", "walk_context.go", "walkContext.WrapErr", """WrapErr called with nil error"""),
      Explored "BCL walker (C07 anchor file, not modelled): callers pass non-nil errors; malformed + semantic streams") ].

Definition pkey := (string * string * string * string)%type.
Definition pkey_eqb (a b : pkey) : bool :=
  match a, b with
  | (a1, a2, a3, a4), (b1, b2, b3, b4) => String.eqb a1 b1 && String.eqb a2 b2 && String.eqb a3 b3 && String.eqb a4 b4
  end.
Definition pkeys_subset (a b : list pkey) : bool := forallb (fun k => existsb (pkey_eqb k) b) a.
Definition panic_sites_same_set : bool :=
  pkeys_subset (map fst model_panic_sites) PanicGen.sites && pkeys_subset PanicGen.sites (map fst model_panic_sites).
Lemma panic_sites_agree : panic_sites_same_set = true.
Proof. vm_compute. reflexivity. Qed.

(* ------------------------------------------------------------ the unmodelled BCL walker: reviewed census *)
From J5V.gen Require WalkerGen.
From J5V.model Require Import CmpbWalker.
(* every syntactic panic source go/types sees in internal/bcl/parse.go and internal/bcl/internal/walker/...
   (gen/WalkerGen.v) has a review note in model/CmpbWalker.v and every note still has its row; the
   functions the crash stream must execute exist.  A new index / dereference / panic( in the walker breaks
   this lemma until it is reviewed; a reviewed function the stream stops executing breaks the CWalkCov case. *)
Lemma walker_sites_agree : walker_sites_same_set = true.
Proof. vm_compute. reflexivity. Qed.
Lemma walker_required_funcs_exist : required_funcs_exist = true.
Proof. vm_compute. reflexivity. Qed.
(* the walker rows of the explicit-panic census are among the reviewed rows *)
Lemma walker_panic_rows_reviewed :
  forallb (fun r => match r with (p, f, fn, arg) =>
     orb (negb (String.eqb p "walker")) (existsb (wkey_eqb (p, f, fn, "panic", arg)) (map fst walker_reviewed)) end)
    PanicGen.sites = true.
Proof. vm_compute. reflexivity. Qed.

(* ------------------------------------------------------------ the SourceNode paths of sourcewalk *)
From J5V.gen Require SourcewalkGen.
(* The front-end model computes an error's position from the PATH of the SourceNode it is reported on
   (model/CmpbFront.v child_span); the harness feeds it the paths sourcewalk builds:
     root object    elements.<i>.object.object[.def.properties.<j>]      (the `object` segment TWICE: file.go takes
                    source.child("object") and then passes source.child("object") to newObjectNode — the second
                    one does not exist in the location tree, which makes everything below a root object virtual)
     root oneof     elements.<i>.oneof.oneof[.def.properties.<j>]
     enum / service / topic / entity   elements.<i>.<kind>
     service method elements.<i>.service.methods.<j>.request                (ServiceMethodNode.Source is the request node)
     type reference <property>.schema[.array.items | .map.itemSchema].<kind>.ref
   This lemma pins the child(...) calls those paths were read from, with their multiplicities: a repair of the
   doubled segment, or a renamed segment, breaks it and says the paths of the harness must follow. *)
Definition ckey := (string * string * list string)%type.
Fixpoint strs_eqb (x y : list string) : bool :=
  match x, y with
  | [], [] => true
  | a :: x', b :: y' => andb (String.eqb a b) (strs_eqb x' y')
  | _, _ => false
  end.
Definition ckey_eqb (a b : ckey) : bool :=
  match a, b with
  | (f1, g1, l1), (f2, g2, l2) => andb (andb (String.eqb f1 f2) (String.eqb g1 g2)) (strs_eqb l1 l2)
  end.
Definition ccount (k : ckey) : nat := length (filter (ckey_eqb k) SourcewalkGen.child_calls).
Definition path_calls_needed : list (ckey * nat) :=
  [ (("file.go", "FileNode.RangeRootElements", ["elements"; "#"]), 1);
    (("file.go", "FileNode.RangeRootElements", ["object"]), 2);
    (("file.go", "FileNode.RangeRootElements", ["oneof"]), 2);
    (("file.go", "FileNode.RangeRootElements", ["enum"]), 1);
    (("file.go", "FileNode.RangeRootElements", ["entity"]), 1);
    (("file.go", "FileNode.RangeRootElements", ["topic"]), 1);
    (("file.go", "FileNode.RangeRootElements", ["service"]), 1);
    (("schema.go", "newObjectNode", ["def"]), 1);
    (("schema.go", "newOneofNode", ["def"]), 1);
    (("schema.go", "mapProperties", ["#"; "..."]), 1);
    (("schema.go", "mapProperties", ["#"]), 1);
    (("property.go", "propertyNode.accept", ["schema"]), 1);
    (("property.go", "buildFieldNode", ["array"; "items"]), 1);
    (("property.go", "buildFieldNode", ["map"; "itemSchema"]), 1);
    (("property.go", "replaceNestedObject", ["ref"]), 1);
    (("property.go", "replaceNestedOneof", ["ref"]), 1);
    (("property.go", "replaceNestedEnum", ["ref"]), 1);
    (("service.go", "serviceBuilder.accept", ["methods"; "#"]), 1);
    (("service.go", "serviceBuilder.accept", ["request"]), 2) ].
Definition sourcewalk_paths_agree : bool :=
  forallb (fun kn => Nat.eqb (ccount (fst kn)) (snd kn)) path_calls_needed.
Lemma sourcewalk_paths_agree_holds : sourcewalk_paths_agree = true.
Proof. vm_compute. reflexivity. Qed.

(* CmpbPanicProofs.v — the explicit panic( calls of the anchored compiler/printer files (gen/PanicGen.v)
   against the model's Panic sites. *)
From Coq Require Import String List.
From J5V.gen Require PanicGen.
Import ListNotations.
Local Open Scope string_scope.

(* ------------------------------------------------------------ explicit panic( calls *)
(* every explicit panic( of the anchored compiler/printer files is either a Panic site of the model
   or is listed here with the reason it lies outside the modelled paths; a new panic( in Go breaks
   [panic_sites_agree] *)
Inductive panic_class :=
| ModelSite (site : string)          (* a Panic outcome of model/CmpbFields.v, shown unreachable by C07_compile_field_total *)
| Outside (why : string).            (* printer-side / guarded: explored by the declaration and print streams under recover() *)

Definition model_panic_sites : list ((string * string * string * string) * panic_class) :=
  [ (("j5convert", "builders.go", "fileContext.ensureImport", """empty alias"""),
      ModelSite "ensureImport: empty alias");
    (("j5convert", "builders.go", "fileContext.ensureImport", """invalid import path "" + importPath"),
      ModelSite "ensureImport: invalid import path");
    (("optionreflect", "walk.go", "walkOptionMap", """map value is message, not supported"""),
      Outside "printer: only for an option field of type map<_, message>; the only map-valued option the converter emits is (j5.ext.v1.enum_value).info : map<string,string>");
    (("optionreflect", "walk.go", "walkOptionScalar", """unexpected scalar"""),
      Outside "printer: marshalSingular covers every scalar kind; message/group kinds are dispatched to walkOptionMessage before");
    (("protoprint", "options.go", "optionFullName", "err.Error()"),
      Outside "printer: contextRefName has no error return path");
    (("protoprint", "options.go", "parseOption", "fmt.Sprintf(""unexpected type %v"", root.FieldType)"),
      Outside "printer: WalkOptionField returns one of the three FieldType constants") ].

Definition pkey := (string * string * string * string)%type.
Definition pkey_eqb (a b : pkey) : bool :=
  match a, b with
  | (a1, a2, a3, a4), (b1, b2, b3, b4) => String.eqb a1 b1 && String.eqb a2 b2 && String.eqb a3 b3 && String.eqb a4 b4
  end.
Definition pkeys_subset (a b : list pkey) : bool := forallb (fun k => existsb (pkey_eqb k) b) a.
Definition panic_sites_same_set : bool :=
  pkeys_subset (map fst model_panic_sites) PanicGen.sites && pkeys_subset PanicGen.sites (map fst model_panic_sites).
Lemma panic_sites_agree : panic_sites_same_set = true.
Proof. vm_compute. reflexivity. Qed.

(* RulesViewProofs.v — the decoder RulesView.view_field reads a field descriptor by
   its content: it does not look at source positions, and looks options up by their
   extension name (exactly one occurrence), so it is invariant under the
   equivalence C05_file_equiv establishes between a descriptor and its printed and
   re-parsed form. *)
From Coq Require Import String List NArith ZArith Bool Lia Permutation.
From J5V.lib Require Import Outcome.
From J5V.model Require Import RulesDecl RulesWrite RulesRead ProtoPrintLit ProtoPrint ProtoPrintFile ProtoParseFile.
From J5V.model Require Import RulesView.
From J5V.proofs Require Import ProtoPrintFileSortProofs ProtoPrintFileSemProofs ProtoPrintFileFullProofs.
Import ListNotations.

Lemma filter_perm {A} (p : A -> bool) l m : Permutation l m -> Permutation (filter p l) (filter p m).
Proof.
  induction 1 as [|x l m H IH|x y l|l m n H1 IH1 H2 IH2]; cbn [filter].
  - constructor.
  - destruct (p x); [constructor; exact IH|exact IH].
  - destruct (p x), (p y); try apply Permutation_refl. apply perm_swap.
  - eapply perm_trans; eassumption.
Qed.

Lemma Forall2_length {A B} (R : A -> B -> Prop) l l' : Forall2 R l l' -> length l = length l'.
Proof. induction 1; cbn; congruence. Qed.

Lemma filter_forall2 (q : qname) l l' :
  Forall2 opt_equiv l l' ->
  Forall2 opt_equiv (filter (fun o => qname_eqb (o_full o) q) l) (filter (fun o => qname_eqb (o_full o) q) l').
Proof.
  induction 1 as [|a b r r' Hab Hr IH]; [constructor|]. cbn [filter].
  destruct Hab as [Hf Hrest]. rewrite <- Hf.
  destruct (qname_eqb (o_full a) q); [constructor; [split; assumption|exact IH]|exact IH].
Qed.

Lemma filtered_equiv (q : qname) l l' :
  opts_equiv l l' ->
  exists m, Permutation (filter (fun o => qname_eqb (o_full o) q) l) m /\
            Forall2 opt_equiv m (filter (fun o => qname_eqb (o_full o) q) l').
Proof.
  intros [m [Hp Hf]]. exists (filter (fun o => qname_eqb (o_full o) q) m).
  split; [apply filter_perm; exact Hp|apply filter_forall2; exact Hf].
Qed.

Lemma the_opt_equiv full l l' : opts_equiv l l' -> the_opt full l = the_opt full l'.
Proof.
  intro H. unfold the_opt. destruct (filtered_equiv (map bs full) l l' H) as [m [Hp Hf]].
  set (x := filter _ l) in *. set (y := filter _ l') in *.
  pose proof (Permutation_length Hp) as Hl1. pose proof (Forall2_length _ _ _ Hf) as Hl2.
  destruct x as [|a [|a2 x']].
  - destruct m; [|discriminate]. destruct y; [reflexivity|discriminate].
  - apply Permutation_length_1_inv in Hp. subst m. inversion Hf as [|? b ? ? Hab Hr]; subst.
    inversion Hr; subst. destruct Hab as [_ [_ Hv]]. rewrite Hv. reflexivity.
  - destruct y as [|b [|b2 y']]; [cbn in *; lia|cbn in *; lia|reflexivity].
Qed.

Lemma existsb_filter {A} (p : A -> bool) l : existsb p l = negb (match filter p l with [] => true | _ => false end).
Proof. induction l as [|x r IH]; [reflexivity|]. cbn [existsb filter]. destruct (p x); [reflexivity|exact IH]. Qed.

Lemma has_opt_equiv full l l' : opts_equiv l l' -> has_opt full l = has_opt full l'.
Proof.
  intro H. unfold has_opt. rewrite !existsb_filter. destruct (filtered_equiv (map bs full) l l' H) as [m [Hp Hf]].
  set (x := filter _ l) in *. set (y := filter _ l') in *.
  pose proof (Permutation_length Hp) as Hl1. pose proof (Forall2_length _ _ _ Hf) as Hl2.
  destruct x, y; try reflexivity; cbn in *; lia.
Qed.

(* the decoder depends on the content of the field only *)
Theorem view_field_content f f' : field_equiv f f' -> view_field f = view_field f'.
Proof.
  intros [Hc [Hl [Ht [Hn [Hnum [Hj Ho]]]]]]. unfold view_field.
  rewrite Hc, Hl, Ht, Hn, Hnum, Hj.
  rewrite !(the_opt_equiv _ _ _ Ho), !(has_opt_equiv _ _ _ Ho). reflexivity.
Qed.

(* ProtoPrintBytesLayoutMsgProofs.v — C05 byte level, the layout test as a lemma for declarations WITHOUT options: field lines
   (labels, dotted type names with or without the leading dot), oneofs, messages nested to any depth, enums; the file
   theorem and the byte-level round trip for that fragment. Continuation of ProtoPrintBytesLayoutEnumProofs.v. *)
From Coq Require Import String List NArith ZArith Bool Lia.
From J5V.lib Require Import Outcome Corr.
From J5V.model Require Import ProtoPrintLit ProtoPrint ProtoLex ProtoLayout ProtoPrintCorr ProtoPrintFile
  ProtoPrintFileErase ProtoPrintBytes.
From J5V.proofs Require Import ProtoLexProofs ProtoPrintBytesLayoutProofs ProtoPrintBytesLayoutEnumProofs.
Import ListNotations.
Local Open Scope N_scope.

Lemma items_ok_sp t l : items_ok ((t, [32]) :: l) = tok_ok t && items_ok l.
Proof. cbn [items_ok fst snd]. change (forallb is_ws [32]) with true. destruct (tok_ok t); reflexivity. Qed.

Lemma dot_items_sp_ok l : items_ok l = true ->
  forall q, forallb is_ident q = true -> items_ok (dot_items q [32] ++ l) = true.
Proof.
  intros Hl. induction q as [|b r IH]; intro H; [exact Hl|].
  cbn [forallb] in H. apply andb_prop in H. destruct H as [Hb Hr]. cbn [dot_items]. destruct r as [|b2 r'].
  - cbn [app]. rewrite items_ok_cons2, items_ok_sp, Hl. destruct (ident_head b Hb) as (d & y & Eb & Hd).
    cbn [fst tok_text tok_ok]. rewrite Hb, Eb. cbn [boundary head_is]. rewrite Hd. reflexivity.
  - specialize (IH Hr). cbn [app]. cbn [dot_items] in IH.
    destruct r' as [|b3 r'']; cbn [app] in IH |- *;
      (apply step_dot_ident; [exact Hb|exists 46, []; split; reflexivity|exact IH]).
Qed.

Lemma qname_items_sp_ok l : items_ok l = true ->
  forall q, forallb is_ident q = true -> items_ok (qname_items q [32] ++ l) = true.
Proof.
  intros Hl [|a r] H; [exact Hl|]. cbn [forallb] in H. apply andb_prop in H. destruct H as [Ha Hr].
  cbn [qname_items]. destruct r as [|b r'].
  - cbn [app]. rewrite items_ok_sp, Hl. cbn [tok_ok]. rewrite Ha. reflexivity.
  - assert (Hd := dot_items_sp_ok l Hl (b :: r') Hr). cbn [dot_items] in Hd |- *.
    destruct r' as [|b3 r'']; cbn [app] in Hd |- *; rewrite items_ok_cons2;
      (apply andb_true_intro; split; [|exact Hd]);
      cbn [fst tok_text punct_char tok_ok boundary head_is]; rewrite Ha; reflexivity.
Qed.

Definition pn_items (p : printed_name) (last : list N) : list item :=
  if pn_abs p then dot_items (pn_name p) last else qname_items (pn_name p) last.

Lemma pn_items_tokens p last : map fst (pn_items p last) = emit_pn p.
Proof. unfold pn_items, emit_pn. destruct (pn_abs p); [apply dot_items_tokens|apply qname_items_tokens]. Qed.

Lemma pn_items_text p last : pn_name p <> [] -> items_text (pn_items p last) = printed_text p ++ last.
Proof.
  intro H. unfold pn_items, printed_text. destruct (pn_abs p); [rewrite dot_items_text by exact H; reflexivity|apply qname_items_text; exact H].
Qed.

Lemma pn_items_sp_ok p l : items_ok l = true -> forallb is_ident (pn_name p) = true -> items_ok (pn_items p [32] ++ l) = true.
Proof. intros Hl H. unfold pn_items. destruct (pn_abs p); [apply dot_items_sp_ok|apply qname_items_sp_ok]; assumption. Qed.

Definition label_items (l : label) : list item :=
  match l with LNone => [] | LRepeated => [(TIdent kw_repeated, [32])] | LOptional => [(TIdent kw_optional, [32])] end.

Definition field_ok (f : sfield) : bool :=
  is_nil_l (sf_opts f) && is_ident (sf_name f) && tok_ok (TLit (print_uint (sf_num f)))
  && match sf_type f with
     | SNamed p => negb (is_nil_l (pn_name p)) && forallb is_ident (pn_name p)
     | SMap _ _ => false
     end.

Lemma T_field ind f : field_ok f = true -> T (emit_field (erase_sfield f)) (wr_field ind f).
Proof.
  unfold field_ok. intro H. apply andb_prop in H. destruct H as [H Ht]. apply andb_prop in H. destruct H as [H Hl].
  apply andb_prop in H. destruct H as [Ho Hn].
  destruct f as [c lab ty n num o]. cbn [sf_opts sf_name sf_num sf_type sf_label] in *.
  destruct o as [|o1 o]; [|discriminate]. destruct ty as [p|k v]; [|discriminate].
  apply andb_prop in Ht. destruct Ht as [Hne Hp].
  assert (Hq : pn_name p <> []) by (destruct (pn_name p); [discriminate|discriminate]).
  unfold wr_field, wr_field_style. cbn [sf_opts sf_name sf_num sf_type sf_label]. apply T_wp.
  apply (Lline_items _ _ (label_items lab ++ pn_items p [32] ++ [(TIdent n, [32]); (TEq, [32]); (TLit (print_uint num), []); (TSemi, [])])).
  - unfold emit_field, erase_sfield. cbn [sf_cm sf_label sf_type sf_name sf_num sf_opts emit_cmt no_cmt c_det c_lead map app emit_bracket emit_stype].
    rewrite !map_app, pn_items_tokens. destruct lab; reflexivity.
  - rewrite !items_text_app, (pn_items_text p [32] Hq). unfold stype_text.
    destruct lab; cbn; rewrite <- ?app_assoc; cbn; rewrite <- ?app_assoc; reflexivity.
  - assert (H4 : items_ok [(TIdent n, [32]); (TEq, [32]); (TLit (print_uint num), []); (TSemi, [])] = true).
    { cbn [items_ok fst snd forallb tok_text punct_char]. rewrite Hl, boundary_semi. cbn [tok_ok]. rewrite Hn. reflexivity. }
    pose proof (pn_items_sp_ok p _ H4 Hp) as H5.
    destruct lab; cbn [label_items app]; [exact H5|rewrite items_ok_sp, H5; reflexivity|rewrite items_ok_sp, H5; reflexivity].
Qed.

(* ---------------------------------------------------------------- elements, any nesting depth, no options *)
Fixpoint elem_ok (e : selem) : bool :=
  match e with
  | SField f => field_ok f
  | SOneof _ n [] fs => is_ident n && forallb field_ok fs
  | SMsg _ n [] body =>
      is_ident n && (fix go (l : list selem) : bool := match l with [] => true | x :: r => elem_ok x && go r end) body
  | SEnum _ n [] vs => is_ident n && forallb value_ok vs
  | _ => false
  end.

Lemma wr_body_fold ind : forall l w,
  (fix go (l : list selem) (w : wst) {struct l} : wst :=
     match l with [] => w | x :: r => go r (wr_elem ind x w) end) l w = wfold (wr_elem ind) l w.
Proof. induction l as [|x r IH]; intro w; [reflexivity|]. unfold wfold. cbn [fold_left]. apply IH. Qed.

Lemma wr_msg_unfold ind c n o body w :
  wr_elem ind (SMsg c n o body) w
  = wgap (wr_section ind kw_message n o (is_nil_l body) (wfold (wr_elem (S ind)) body) w).
Proof.
  cbn [wr_elem]. f_equal; unfold wr_section; destruct o; destruct (is_nil_l body); rewrite ?wr_body_fold; reflexivity.
Qed.

Lemma emit_msg_unfold c n o body :
  emit_elem (SMsg c n o body) = emit_block c kw_message n o (flat_map emit_elem body).
Proof.
  cbn [emit_elem]. unfold emit_block.
  repeat f_equal; try (induction body as [|x r IH]; [reflexivity|cbn [flat_map]; rewrite <- IH; reflexivity]).
Qed.

Lemma erase_msg_unfold c n o body : erase_selem (SMsg c n o body) = SMsg no_cmt n o (map erase_selem body).
Proof. cbn [erase_selem]. f_equal; try (induction body as [|x r IH]; [reflexivity|cbn [map]; rewrite <- IH; reflexivity]). Qed.

Lemma T_elem : forall e ind, elem_ok e = true -> T (emit_elem (erase_selem e)) (wr_elem ind e).
Proof.
  fix IH 1. intros [f|c n o fs|c n o body|c n o vs|c n o ms] ind H.
  - cbn [elem_ok] in H. cbn [erase_selem emit_elem wr_elem]. exact (T_field ind f H).
  - destruct o as [|o1 o]; [|discriminate]. cbn [elem_ok] in H. apply andb_prop in H. destruct H as [Hn Hf].
    intros ts0 w HW. cbn [wr_elem erase_selem emit_elem]. unfold emit_block. cbn [emit_cmt c_det c_lead no_cmt map flat_map app].
    refine (W_eq _ _ _ (app_nil_r _) (T_wgap _ _ _)). rewrite flat_map_map'.
    assert (HT : T (flat_map (fun f => emit_field (erase_sfield f)) fs) (wfold (wr_field (S ind)) fs)).
    { apply T_wfold. intros f Hin. apply T_field. rewrite forallb_forall in Hf. exact (Hf f Hin). }
    refine (T_section ind kw_oneof n (is_nil_l fs) _ _ eq_refl Hn HT _ _ _ HW).
    destruct fs; [reflexivity|discriminate].
  - destruct o as [|o1 o]; [|discriminate]. cbn [elem_ok] in H. apply andb_prop in H. destruct H as [Hn Hb].
    intros ts0 w HW. rewrite wr_msg_unfold, erase_msg_unfold, emit_msg_unfold. unfold emit_block.
    cbn [emit_cmt c_det c_lead no_cmt map flat_map app].
    refine (W_eq _ _ _ (app_nil_r _) (T_wgap _ _ _)). rewrite flat_map_map'.
    assert (HT : T (flat_map (fun e => emit_elem (erase_selem e)) body) (wfold (wr_elem (S ind)) body)).
    { revert Hb. induction body as [|x r IHr]; intro Hb; [exact T_id|].
      apply andb_prop in Hb. destruct Hb as [Hx Hr]. cbn [flat_map]. unfold wfold. cbn [fold_left].
      apply (T_comp _ _ (wr_elem (S ind) x) (wfold (wr_elem (S ind)) r)); [exact (IH x (S ind) Hx)|exact (IHr Hr)]. }
    refine (T_section ind kw_message n (is_nil_l body) _ _ eq_refl Hn HT _ _ _ HW).
    destruct body; [reflexivity|discriminate].
  - apply T_enum_elem. destruct o as [|o1 o]; [exact H|discriminate].
  - discriminate.
Qed.

(* files whose declarations are messages (fields with labels and dotted type names, oneofs, nested messages and
   enums to any depth) and enums, without options, map fields, services and extend blocks *)
Theorem render_plain_layout gen s : s_exts s = [] -> forallb elem_ok (s_body s) = true -> header_ok gen s = true ->
  is_layout (emit_file (erase_sfile s)) (render_sfile gen s) = true.
Proof.
  intros Hx Hb H. pose proof (header_W gen s H) as HW.
  assert (HT : T (flat_map (fun e => emit_elem (erase_selem e)) (s_body s)) (wfold (wr_elem 0) (s_body s))).
  { apply T_wfold. intros e Hin. apply T_elem. rewrite forallb_forall in Hb. exact (Hb e Hin). }
  pose proof (HT _ _ HW) as HW2. specialize (HW2 [] [] eq_refl). rewrite !app_nil_r in HW2.
  unfold render_sfile, emit_file, erase_sfile. cbn [s_pkg s_imports s_fopts s_exts s_body]. rewrite Hx. cbv zeta.
  cbn [map flat_map]. unfold wfold at 2. cbn [fold_left].
  rewrite emit_elems_flat, flat_map_map'.
  unfold write_header, header_tokens in HW2. cbv zeta in HW2.
  cbn [app] in HW2 |- *. rewrite <- ?app_assoc in HW2. rewrite <- ?app_assoc. cbn [app] in HW2 |- *. exact HW2.
Qed.

From J5V.model Require Import ProtoParseFile ProtoPrintFileWf.
From J5V.proofs Require Import ProtoPrintBytesEraseProofs ProtoPrintFileFullProofs ProtoPrintFileTextProofs
  ProtoPrintFileXProofs ProtoPrintBytesProofs.
From J5V.proofs Require ProtoPrintFileExample ProtoPrintFileWfProofs.

Definition plain_fragment_b (gen : list N) (imp : xsymtab) (D : dfile) : bool :=
  let s := lay_file (to_symtab (dfile_symtab imp D)) D in
  unlocated_b D && is_nil_l (s_exts s) && forallb elem_ok (s_body s) && header_ok gen s.

Theorem bytes_layout_plain gen imp D : plain_fragment_b gen imp D = true ->
  is_layout (print_file_tokens (to_symtab (dfile_symtab imp D)) D) (render_bytes gen imp D) = true.
Proof.
  unfold plain_fragment_b. cbv zeta. intro H. apply andb_prop in H. destruct H as [H Hh]. apply andb_prop in H. destruct H as [H Hb].
  apply andb_prop in H. destruct H as [Hu Hx].
  assert (Hx' : s_exts (lay_file (to_symtab (dfile_symtab imp D)) D) = [])
    by (destruct (s_exts (lay_file (to_symtab (dfile_symtab imp D)) D)); [reflexivity|discriminate]).
  unfold print_file_tokens, render_bytes.
  rewrite <- (lay_file_unlocated _ D Hu) at 1. exact (render_plain_layout gen _ Hx' Hb Hh).
Qed.

Lemma plain_fragment_modelled gen imp D : plain_fragment_b gen imp D = true -> bytes_modelled_b gen imp D = true.
Proof.
  intro H. pose proof (bytes_layout_plain gen imp D H) as HL.
  unfold plain_fragment_b in H. cbv zeta in H. apply andb_prop in H. destruct H as [H Hh]. apply andb_prop in H. destruct H as [H _].
  apply andb_prop in H. destruct H as [Hu _].
  unfold bytes_modelled_b. rewrite Hu. rewrite (print_tokens_unlocated _ D Hu), HL.
  unfold header_ok in Hh. apply andb_prop in Hh. destruct Hh as [Hh _]. apply andb_prop in Hh. destruct Hh as [Hh _].
  apply andb_prop in Hh. destruct Hh as [Hh _]. apply andb_prop in Hh. destruct Hh as [Hg _]. rewrite Hg. reflexivity.
Qed.

(* the byte-level round trip, no computed layout test *)
Theorem bytes_roundtrip_plain gen imp D : wf_dfile imp D -> plain_fragment_b gen imp D = true ->
  let text := render_bytes gen imp D in
  scan_text text = Some (print_file_tokens (to_symtab (dfile_symtab imp D)) D)
  /\ exists D0, read_text imp text = Some (erase_dfile D0) /\ desc_equiv D D0 /\ wf_dfile imp D0.
Proof.
  intros Hw H. cbv zeta. pose proof (plain_fragment_modelled gen imp D H) as Hm.
  split; [exact (scan_render_bytes_tokens gen imp D Hm)|].
  destruct (bytes_roundtrip_subclass gen imp D Hw Hm) as (_ & D0 & Hr & He & Hw0 & _).
  exists D0. auto.
Qed.

Module ExPlain.
Import ProtoPrintFileExample.
Definition m_plain : delem :=
  DMsg (kk 0 0) no_cmt (b "Foo") [] [DField f_bar; DOneof (kk 0 0) no_cmt (b "pick") [] [f_a]; m_bar; e_kind].
Definition ex_plain_file : dfile :=
  {| d_pkg := pkg_t; d_imports := [b "google/protobuf/empty.proto"];
     d_fopts := [(b "go_package", TLit (print_string_lit (b "example.com/t/v1")))]; d_exts := [];
     d_body := [m_plain; DEnum (kk 0 0) no_cmt (b "Empty") [] []] |}.
Lemma ex_plain_wf : wf_dfile ex_imp ex_plain_file.
Proof. apply ProtoPrintFileWfProofs.wf_dfile_b_sound. vm_compute. reflexivity. Qed.
Lemma ex_plain_fragment : plain_fragment_b (sb "verif") ex_imp ex_plain_file = true.
Proof. vm_compute. reflexivity. Qed.
End ExPlain.

Theorem example_plain :
  wf_dfile ProtoPrintFileExample.ex_imp ExPlain.ex_plain_file
  /\ plain_fragment_b (sb "verif") ProtoPrintFileExample.ex_imp ExPlain.ex_plain_file = true.
Proof. split; [exact ExPlain.ex_plain_wf|exact ExPlain.ex_plain_fragment]. Qed.

(* CodecDecStored.v — C03 exactness clause at document level: "every non-null member is stored".
   On the tree reading: each non-null member of an accepted object is decoded (never skipped),
   a scalar member's field holds exactly the converted value at the end of the decode (nothing a
   later member does can disturb it), array elements and map entries are all there, in order. *)
From Coq Require Import String List NArith ZArith Bool Lia ZifyN ZifyNat ZifyBool.
From J5V.lib Require Import Outcome Json.
From J5V.model Require Import CodecTypes CodecDecScalar CodecDec CodecDecTree.
From J5V.proofs Require Import CodecDecProofs CodecDecTreeUnfold.
Import ListNotations.
Local Open Scope N_scope.

(* ================================================================ message algebra *)
Lemma msg_get_put_other x n v m : x <> n -> msg_get x (msg_put n v m) = msg_get x m.
Proof.
  intros Hx. induction m as [|[k w] r IH]; cbn.
  - replace (n =? x) with false by (symmetry; apply N.eqb_neq; lia). reflexivity.
  - destruct (k =? n) eqn:E1.
    + apply N.eqb_eq in E1. subst k. cbn.
      replace (n =? x) with false by (symmetry; apply N.eqb_neq; lia). reflexivity.
    + destruct (n <? k) eqn:E2; cbn.
      * replace (n =? x) with false by (symmetry; apply N.eqb_neq; lia). reflexivity.
      * destruct (k =? x); [reflexivity|exact IH].
Qed.

Lemma msg_get_put_same n v m : msg_get n (msg_put n v m) = Some v.
Proof.
  induction m as [|[k w] r IH]; cbn.
  - rewrite N.eqb_refl. reflexivity.
  - destruct (k =? n) eqn:E1; cbn.
    + rewrite N.eqb_refl. reflexivity.
    + destruct (n <? k); cbn; [rewrite N.eqb_refl; reflexivity|]. rewrite E1. exact IH.
Qed.

Lemma msg_get_del_other x n m : x <> n -> msg_get x (msg_del n m) = msg_get x m.
Proof.
  intros Hx. induction m as [|[k w] r IH]; cbn; [reflexivity|].
  destruct (k =? n) eqn:E1.
  - apply N.eqb_eq in E1. subst k.
    replace (n =? x) with false by (symmetry; apply N.eqb_neq; lia). exact IH.
  - cbn. destruct (k =? x); [reflexivity|exact IH].
Qed.

Lemma msg_get_del_same n m : msg_get n (msg_del n m) = None.
Proof.
  induction m as [|[k w] r IH]; cbn; [reflexivity|].
  destruct (k =? n) eqn:E1; [exact IH|]. cbn. rewrite E1. exact IH.
Qed.

Lemma msg_get_clear_all_other x ns : forall m, ~ In x ns -> msg_get x (msg_clear_all ns m) = msg_get x m.
Proof.
  unfold msg_clear_all. induction ns as [|n r IH]; intros m Hx; cbn; [reflexivity|].
  rewrite IH by (intros H; apply Hx; right; exact H).
  apply msg_get_del_other. intros ->. apply Hx. left. reflexivity.
Qed.

(* Message.Set touches the field itself and the other members of its oneof, nothing else *)
Lemma msg_get_set_other x explicit sib n v m :
  x <> n -> ~ In x sib -> msg_get x (msg_set explicit sib n v m) = msg_get x m.
Proof.
  intros Hx Hs. unfold msg_set.
  assert (D : msg_get x (msg_del n m) = msg_get x m) by (apply msg_get_del_other; exact Hx).
  assert (P : msg_get x (msg_put n v (msg_clear_all sib m)) = msg_get x m)
    by (rewrite msg_get_put_other by exact Hx; apply msg_get_clear_all_other; exact Hs).
  destruct v as [| | | | | | |l|l]; try (destruct (negb explicit && _); assumption).
  - destruct l; [exact D|]. destruct (negb explicit && _); assumption.
  - destruct l; [exact D|]. destruct (negb explicit && _); assumption.
Qed.

(* what Message.Set leaves in the field itself: nothing for an implicit-presence zero or an empty
   list / map, otherwise the value *)
Definition stored_form (explicit : bool) (v : pval) : option pval :=
  match v with
  | VList [] | VMap [] => None
  | _ => if negb explicit && is_zero v then None else Some v
  end.

Lemma msg_get_set_same explicit sib n v m :
  msg_get n (msg_set explicit sib n v m) = stored_form explicit v.
Proof.
  unfold msg_set, stored_form.
  destruct v as [| | | | | | |l|l];
    try (destruct (negb explicit && _); [apply msg_get_del_same | apply msg_get_put_same]).
  - destruct l; [apply msg_get_del_same|]. cbn [is_zero]. rewrite andb_false_r. apply msg_get_put_same.
  - destruct l; [apply msg_get_del_same|]. cbn [is_zero]. rewrite andb_false_r. apply msg_get_put_same.
Qed.

Lemma msg_get_mutable_other x sib n m :
  x <> n -> ~ In x sib -> msg_get x (snd (msg_mutable sib n m)) = msg_get x m.
Proof.
  intros Hx Hs. unfold msg_mutable.
  destruct (msg_get n m) as [[]|]; cbn [snd]; try reflexivity;
    (rewrite msg_get_put_other by exact Hx; apply msg_get_clear_all_other; exact Hs).
Qed.

(* ================================================================ paths *)
(* the value at a proto path (through sub-messages) *)
Fixpoint get_path (path : list N) (m : msg) : option pval :=
  match path with
  | [] => None
  | [n] => msg_get n m
  | n :: rest =>
    match msg_get n m with
    | Some (VMsg sub) => get_path rest sub
    | _ => None
    end
  end.

Lemma get_path_cons2 n n2 r m :
  get_path (n :: n2 :: r) m = match msg_get n m with Some (VMsg s) => get_path (n2 :: r) s | _ => None end.
Proof. reflexivity. Qed.

(* [indep p q sib]: the path p leaves the path q before q's end, or at q's last step towards a
   field that is neither q's field nor one of its oneof siblings *)
Fixpoint indep (p q : list N) (sib : list N) : Prop :=
  match p, q with
  | x :: p', [y] => x <> y /\ ~ In x sib
  | x :: p', y :: q' => x <> y \/ (x = y /\ indep p' q' sib)
  | _, _ => False
  end.

(* with_holder on path q: whatever the continuation does to q's final field and its siblings,
   a path independent of q reads the same value afterwards *)
Lemma with_holder_frame {A} (q : list N) sib (k : N -> msg -> outcome (msg * A)) :
  (forall n h h' a, k n h = Ok (h', a) -> forall x, x <> n -> ~ In x sib -> msg_get x h' = msg_get x h) ->
  forall p m m' a, indep p q sib -> with_holder q m k = Ok (m', a) -> get_path p m' = get_path p m.
Proof.
  intros Hk. induction q as [|y q' IH]; intros p m m' a Hi H; [destruct p; contradiction|].
  destruct q' as [|y2 q''].
  - (* last step *)
    destruct p as [|x p']; [contradiction|]. cbn [indep] in Hi. destruct Hi as [Hxy Hsib].
    cbn [with_holder] in H.
    assert (G : msg_get x m' = msg_get x m) by (eapply Hk; eassumption).
    destruct p' as [|x2 p'']; cbn [get_path]; rewrite G; reflexivity.
  - destruct p as [|x p']; [contradiction|].
    change (with_holder (y :: y2 :: q'') m k) with
      (let '(sub, m1) := msg_mutable [] y m in
       obind (with_holder (y2 :: q'') sub k) (fun r => Ok (msg_put y (VMsg (fst r)) m1, snd r))) in H.
    destruct (msg_mutable [] y m) as [sub m1] eqn:Em.
    destruct (with_holder (y2 :: q'') sub k) as [[sub' a']| | |] eqn:Ew; try discriminate.
    cbn [obind fst snd] in H. inversion H; subst m' a; clear H.
    assert (Hm1 : forall z, z <> y -> msg_get z m1 = msg_get z m).
    { intros z Hz. replace m1 with (snd (msg_mutable [] y m)) by (rewrite Em; reflexivity).
      apply msg_get_mutable_other; [exact Hz | intros []]. }
    cbn [indep] in Hi. destruct Hi as [Hxy | [Hxy Hi]].
    + assert (G : msg_get x (msg_put y (VMsg sub') m1) = msg_get x m)
        by (rewrite msg_get_put_other by exact Hxy; apply Hm1; exact Hxy).
      destruct p' as [|x2 p'']; cbn [get_path]; rewrite G; reflexivity.
    + subst x.
      assert (Hsub : msg_get y m = Some (VMsg sub) \/ (sub = [] /\ forall s0, msg_get y m <> Some (VMsg s0))).
      { unfold msg_mutable in Em. destruct (msg_get y m) as [[]|]; inversion Em; subst;
          try (right; split; [reflexivity|intros s0 Hc; discriminate]). left. reflexivity. }
      destruct p' as [|x2 p'']; [destruct q''; contradiction|].
      rewrite !get_path_cons2. rewrite msg_get_put_same.
      rewrite (IH (x2 :: p'') sub sub' a' Hi Ew).
      destruct Hsub as [Hs | [Hs Hn]].
      * rewrite Hs. reflexivity.
      * subst sub. destruct (msg_get y m) as [[]|] eqn:Eg; try (destruct p''; reflexivity).
        exfalso. eapply Hn. reflexivity.
Qed.

(* ... and q's own final field holds what the continuation left there *)
Lemma with_holder_own {A} (q : list N) (k : N -> msg -> outcome (msg * A)) :
  q <> [] ->
  forall m m' a, with_holder q m k = Ok (m', a) ->
  exists n h h', last q 0 = n /\ k n h = Ok (h', a) /\ get_path q m' = msg_get n h'.
Proof.
  intros Hq. induction q as [|y q' IH]; [congruence|]. intros m m' a H.
  destruct q' as [|y2 q''].
  - cbn [with_holder] in H. exists y, m, m'. repeat split; assumption.
  - change (with_holder (y :: y2 :: q'') m k) with
      (let '(sub, m1) := msg_mutable [] y m in
       obind (with_holder (y2 :: q'') sub k) (fun r => Ok (msg_put y (VMsg (fst r)) m1, snd r))) in H.
    destruct (msg_mutable [] y m) as [sub m1].
    destruct (with_holder (y2 :: q'') sub k) as [[sub' a']| | |] eqn:Ew; try discriminate.
    cbn [obind fst snd] in H. inversion H; subst m' a; clear H.
    destruct (IH ltac:(discriminate) sub sub' a' Ew) as (n & h & h' & Hl & Hk & Hg).
    exists n, h, h'. repeat split; try assumption.
    change (get_path (y :: y2 :: q'') (msg_put y (VMsg sub') m1)) with
      (match msg_get y (msg_put y (VMsg sub') m1) with Some (VMsg s0) => get_path (y2 :: q'') s0 | _ => None end).
    rewrite msg_get_put_same. exact Hg.
Qed.

(* ================================================================ frame: a member's decode leaves independent fields alone *)
Section Stored.
  Variable orc : oracles.
  Variable e : env.

  Lemma omap_fst_ok {A} (o : outcome (msg * A)) m' : omap fst o = Ok m' -> exists a, o = Ok (m', a).
  Proof. destruct o as [[m0 a]| | |]; cbn; intros H; inversion H; subst. eauto. Qed.

  (* a property with a proto path: only its own field (and the siblings of that field) change *)
  Lemma tr_present_frame f d q v m m' :
    p_path q <> [] -> tr_present orc e f d q v m = Ok m' ->
    forall p, indep p (p_path q) (p_siblings q) -> get_path p m' = get_path p m.
  Proof.
    intros Hq H p Hi. destruct f as [|f]; [discriminate|]. rewrite tr_present_S in H.
    assert (W : forall (k : N -> msg -> outcome (msg * unit)),
               (forall n h h' a, k n h = Ok (h', a) -> forall x, x <> n -> ~ In x (p_siblings q) -> msg_get x h' = msg_get x h) ->
               omap fst (with_holder (p_path q) m k) = Ok m' -> get_path p m' = get_path p m).
    { intros k Hk Hw. apply omap_fst_ok in Hw. destruct Hw as [a Hw].
      eapply with_holder_frame; eassumption. }
    destruct (p_ty q) as [k|ref|ref|ref|item|item|pb].
    - destruct (is_container v); [discriminate|].
      destruct (scalar_from_go orc k (goval_of_json v)) as [x| | |]; try discriminate. cbn [obind] in H.
      eapply W; [|exact H]. intros n h h' a Hk x0 Hx Hs.
      destruct x; injection Hk as Hh _; subst h'; [apply msg_get_set_other | apply msg_get_del_other]; assumption.
    - destruct v; try discriminate. destruct (lookup e ref) as [[| |prefix opts]|]; try discriminate.
      destruct (option_by_name prefix opts s); [|discriminate].
      eapply W; [|exact H]. intros n h h' a Hk x0 Hx Hs. injection Hk as Hh _; subst h'.
      exact (msg_get_set_other x0 (p_explicit q) (p_siblings q) n (VEnum z) h Hx Hs).
    - destruct v; try discriminate. destruct (lookup e ref) as [[props| |]|]; try discriminate.
      eapply W; [|exact H]. intros n h h' a Hk x0 Hx Hs. cbv beta in Hk.
      destruct (msg_mutable (p_siblings q) n h) as [sub h1] eqn:Em.
      destruct (tr_object orc e f d props members sub []); try discriminate. cbn [obind] in Hk. injection Hk as Hh _; subst h'.
      rewrite msg_get_put_other by exact Hx.
      replace h1 with (snd (msg_mutable (p_siblings q) n h)) by (rewrite Em; reflexivity).
      apply msg_get_mutable_other; assumption.
    - destruct v; try discriminate. destruct (lookup e ref) as [[|props|]|]; try discriminate.
      destruct (p_path q) as [|n0 path0] eqn:Ep; [congruence|].
      eapply W; [|exact H]. intros n h h' a Hk x0 Hx Hs. cbv beta in Hk.
      destruct (msg_mutable (p_siblings q) n h) as [sub h1] eqn:Em.
      destruct (tr_oneof orc e f d props members sub [] [] None); try discriminate. cbn [obind] in Hk. injection Hk as Hh _; subst h'.
      rewrite msg_get_put_other by exact Hx.
      replace h1 with (snd (msg_mutable (p_siblings q) n h)) by (rewrite Em; reflexivity).
      apply msg_get_mutable_other; assumption.
    - destruct v; try discriminate.
      assert (G : forall l, omap fst (with_holder (p_path q) m (fun n h =>
                   let existing := match msg_get n h with Some (VList l0) => l0 | _ => [] end in
                   obind (tr_array orc e f d item l existing) (fun l1 =>
                     Ok (msg_set true (p_siblings q) n (VList l1) h, tt)))) = Ok m' ->
                 get_path p m' = get_path p m).
      { intros l Hw. eapply W; [|exact Hw]. intros n h h' a Hk x0 Hx Hs. cbv beta zeta in Hk.
        destruct (tr_array orc e f d item l _) as [l1| | |]; try discriminate. cbn [obind] in Hk. injection Hk as Hh _; subst h'.
        exact (msg_get_set_other x0 true (p_siblings q) n (VList l1) h Hx Hs). }
      destruct item; try discriminate; eapply G; exact H.
    - destruct v; try discriminate.
      assert (G : forall l, omap fst (with_holder (p_path q) m (fun n h =>
                   let existing := match msg_get n h with Some (VMap l0) => l0 | _ => [] end in
                   obind (tr_map orc e f d item l existing) (fun l1 =>
                     Ok (msg_set true (p_siblings q) n (VMap l1) h, tt)))) = Ok m' ->
                 get_path p m' = get_path p m).
      { intros l Hw. eapply W; [|exact Hw]. intros n h h' a Hk x0 Hx Hs. cbv beta zeta in Hk.
        destruct (tr_map orc e f d item l _) as [l1| | |]; try discriminate. cbn [obind] in Hk. injection Hk as Hh _; subst h'.
        exact (msg_get_set_other x0 true (p_siblings q) n (VMap l1) h Hx Hs). }
      destruct item; try discriminate; eapply G; exact H.
    - destruct v; try discriminate.
      eapply W; [|exact H]. intros n h h' a Hk x0 Hx Hs. cbv beta in Hk.
      destruct (msg_mutable (p_siblings q) n h) as [sub h1] eqn:Em.
      destruct (tr_any_body members None None) as [[value ty]| | |]; try discriminate. cbn [obind fst snd] in Hk.
      destruct ty; try discriminate. destruct value; try discriminate. destruct pb; try discriminate.
      injection Hk as Hh _; subst h'. rewrite msg_get_put_other by exact Hx.
      replace h1 with (snd (msg_mutable (p_siblings q) n h)) by (rewrite Em; reflexivity).
      apply msg_get_mutable_other; assumption.
  Qed.

  (* ---------------------------------------------------------------- own field of a scalar member *)
  Definition stored_scalar (p : property) (x : option pval) : option pval :=
    match x with
    | None => None
    | Some v => stored_form (p_explicit p) v
    end.

  Lemma scalar_member_own f d p k v m m1 :
    p_ty p = FScalar k -> p_path p <> [] -> tr_present orc e f d p v m = Ok m1 ->
    exists x, scalar_from_go orc k (goval_of_json v) = Ok x /\ get_path (p_path p) m1 = stored_scalar p x.
  Proof.
    intros Hk Hq H. destruct f as [|f]; [discriminate|]. rewrite tr_present_S in H. rewrite Hk in H.
    destruct (is_container v); [discriminate|].
    destruct (scalar_from_go orc k (goval_of_json v)) as [x| | |]; try discriminate. cbn [obind] in H.
    exists x. split; [reflexivity|].
    apply omap_fst_ok in H. destruct H as [a H].
    destruct (with_holder_own (p_path p) _ Hq m m1 a H) as (n & h & h' & _ & Hkk & Hg).
    rewrite Hg. cbv beta in Hkk. destruct x as [val|]; injection Hkk as Hh _; subst h'; cbn [stored_scalar].
    - apply msg_get_set_same.
    - apply msg_get_del_same.
  Qed.

  (* ---------------------------------------------------------------- frame through property sets *)
  (* the path p is independent of everything a decode of property q may write *)
  Definition indep_prop (p : list N) (q : property) : Prop :=
    match p_path q with
    | [] =>
      match p_ty q with
      | FOneof ref =>
        match lookup e ref with
        | Some (SOneof ps) => Forall (fun q' => p_path q' <> [] /\ indep p (p_path q') (p_siblings q')) ps
        | _ => True
        end
      | _ => True
      end
    | path => indep p path (p_siblings q)
    end.

  Lemma find_prop_In props key q : find_prop props key = Some q -> In q props /\ bytes_eqb (p_json q) key = true.
  Proof.
    induction props as [|q0 r IH]; cbn; [discriminate|].
    destruct (bytes_eqb (p_json q0) key) eqn:E; intros H.
    - inversion H; subst. split; [left; reflexivity|exact E].
    - destruct (IH H) as [Hin Hj]. split; [right; exact Hin|exact Hj].
  Qed.

  Lemma create_effect_frame q m m' p :
    p_path q <> [] -> indep p (p_path q) (p_siblings q) -> create_effect q m = Ok m' -> get_path p m' = get_path p m.
  Proof.
    intros Hq Hi H. unfold create_effect in H. destruct (p_path q) as [|n0 path0] eqn:Ep; [congruence|].
    assert (W : forall (k : N -> msg -> outcome (msg * unit)),
               (forall n h h' a, k n h = Ok (h', a) -> forall x, x <> n -> ~ In x (p_siblings q) -> msg_get x h' = msg_get x h) ->
               omap fst (with_holder (n0 :: path0) m k) = Ok m' -> get_path p m' = get_path p m).
    { intros k Hk Hw. apply omap_fst_ok in Hw. destruct Hw as [a Hw]. eapply with_holder_frame; eassumption. }
    destruct (p_ty q); (eapply W; [|exact H]); intros n h h' a Hk x Hx Hs; cbv beta in Hk;
      injection Hk as Hh _; subst h'; try reflexivity; apply msg_get_mutable_other; assumption.
  Qed.

  Lemma tr_member_frame d q v m seen m' seen' p (dp : jvalue -> msg -> outcome msg) :
    (forall m0 m1, dp v m0 = Ok m1 -> get_path p m1 = get_path p m0) ->
    tr_member d dp q v m seen = Ok (m', seen') -> get_path p m' = get_path p m.
  Proof.
    intros Hdp H. unfold tr_member in H. destruct (max_nesting_depth <? d + 1)%N; [discriminate|].
    destruct v; try (inversion H; subst; reflexivity);
      (destruct (mem_bytes (p_json q) seen); [discriminate|]);
      (destruct (oneof_conflict q m); [discriminate|]);
      match type of H with context[dp ?v m] => destruct (dp v m) as [m1| | |] eqn:E end; try discriminate;
      cbn [obind] in H; inversion H; subst; eapply Hdp; exact E.
  Qed.

  (* the body of an (exposed) oneof whose arms all have proto paths independent of p *)
  Lemma tr_oneof_frame p ps : Forall (fun q' => p_path q' <> [] /\ indep p (p_path q') (p_siblings q')) ps ->
    forall f d ms m seen found c m', tr_oneof orc e f d ps ms m seen found c = Ok m' -> get_path p m' = get_path p m.
  Proof.
    intros Hps. induction f as [|f IH]; intros d ms m seen found c m' H; [discriminate|].
    rewrite tr_oneof_S in H. destruct ms as [|[key v] r].
    - unfold oneof_post in H. destruct (N.of_nat (length found) =? 0)%N.
      + destruct c as [cn|]; [|inversion H; reflexivity].
        destruct (find_prop ps cn) as [q|] eqn:Eq; [|discriminate].
        destruct (find_prop_In _ _ _ Eq) as [Hin _].
        rewrite Forall_forall in Hps. destruct (Hps q Hin) as [Hq Hi].
        eapply create_effect_frame; eassumption.
      + destruct (1 <? N.of_nat (length found))%N; [discriminate|].
        destruct c as [cn|]; [|inversion H; reflexivity].
        destruct (index0 found) as [k0| | |]; try discriminate. cbn [obind] in H.
        destruct (bytes_eqb k0 cn); inversion H; reflexivity.
    - destruct (bytes_eqb key type_key).
      + destruct v; try discriminate. eapply IH. exact H.
      + destruct (find_prop ps key) as [q|] eqn:Eq; [|discriminate].
        destruct (find_prop_In _ _ _ Eq) as [Hin _].
        pose proof Hps as Hps'. rewrite Forall_forall in Hps'. destruct (Hps' q Hin) as [Hq Hi].
        destruct (tr_member d (tr_present orc e f (d + 1) q) q v m seen) as [[m1 seen1]| | |] eqn:Em; try discriminate.
        cbn [obind fst snd] in H.
        rewrite (IH _ _ _ _ _ _ _ H).
        eapply tr_member_frame; [|exact Em]. intros m0 m2 Hd. eapply tr_present_frame; eassumption.
  Qed.

  (* one member's decode, for any property (exposed oneofs included) *)
  Lemma tr_present_frame_any f d q v m m' p :
    indep_prop p q -> tr_present orc e f d q v m = Ok m' -> get_path p m' = get_path p m.
  Proof.
    intros Hi H. unfold indep_prop in Hi.
    destruct (p_path q) as [|n0 path0] eqn:Ep.
    - destruct f as [|f]; [discriminate|]. rewrite tr_present_S in H.
      destruct (p_ty q) as [k|ref|ref|ref|item|item|pb].
      + (* a scalar without a proto path: with_holder fails *)
        destruct (is_container v); [discriminate|].
        destruct (scalar_from_go orc k (goval_of_json v)); try discriminate. cbn [obind] in H. rewrite Ep in H. discriminate.
      + destruct v; try discriminate. destruct (lookup e ref) as [[| |prefix opts]|]; try discriminate.
        destruct (option_by_name prefix opts s); [|discriminate]. rewrite Ep in H. discriminate.
      + destruct v; try discriminate. destruct (lookup e ref) as [[props| |]|]; try discriminate.
        rewrite Ep in H. discriminate.
      + destruct v; try discriminate. destruct (lookup e ref) as [[|ps|]|]; try discriminate.
        rewrite Ep in H. eapply tr_oneof_frame; eassumption.
      + destruct v; try discriminate. rewrite Ep in H. destruct item; discriminate.
      + destruct v; try discriminate. rewrite Ep in H. destruct item; discriminate.
      + destruct v; try discriminate. rewrite Ep in H. discriminate.
    - eapply tr_present_frame; [rewrite Ep; discriminate | exact H | rewrite Ep; exact Hi].
  Qed.

  (* an object body all of whose properties are independent of p *)
  Lemma tr_object_frame p props : (forall q, In q props -> indep_prop p q) ->
    forall f d ms m seen m', tr_object orc e f d props ms m seen = Ok m' -> get_path p m' = get_path p m.
  Proof.
    intros Hps. induction f as [|f IH]; intros d ms m seen m' H; [discriminate|].
    rewrite tr_object_S in H. destruct ms as [|[key v] r]; [inversion H; reflexivity|].
    destruct (find_prop props key) as [q|] eqn:Eq; [|discriminate].
    destruct (find_prop_In _ _ _ Eq) as [Hin _].
    destruct (tr_member d (tr_present orc e f (d + 1) q) q v m seen) as [[m1 seen1]| | |] eqn:Em; try discriminate.
    cbn [obind fst snd] in H. rewrite (IH _ _ _ _ _ H).
    eapply tr_member_frame; [|exact Em]. intros m0 m2 Hd. eapply tr_present_frame_any; [apply Hps; exact Hin | exact Hd].
  Qed.
End Stored.

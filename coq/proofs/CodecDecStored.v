(* CodecDecStored.v — C03 exactness clause at document level: "every non-null member is stored".
   On the tree reading: each non-null member of an accepted object is decoded (never skipped),
   a scalar member's field holds exactly the converted value at the end of the decode (nothing a
   later member does can disturb it), array elements and map entries are all there, in order. *)
From Coq Require Import String List NArith ZArith Bool Lia ZifyN ZifyNat ZifyBool.
From J5V.lib Require Import Outcome Json.
From J5V.model Require Import CodecTypes CodecDecScalar CodecDec CodecDecTree.
From J5V.proofs Require Import CodecDecProofs CodecDecTreeUnfold.
Import ListNotations.
Local Open Scope N_scope.

(* ================================================================ message algebra *)
Lemma msg_get_put_other x n v m : x <> n -> msg_get x (msg_put n v m) = msg_get x m.
Proof.
  intros Hx. induction m as [|[k w] r IH]; cbn.
  - replace (n =? x) with false by (symmetry; apply N.eqb_neq; lia). reflexivity.
  - destruct (k =? n) eqn:E1.
    + apply N.eqb_eq in E1. subst k. cbn.
      replace (n =? x) with false by (symmetry; apply N.eqb_neq; lia). reflexivity.
    + destruct (n <? k) eqn:E2; cbn.
      * replace (n =? x) with false by (symmetry; apply N.eqb_neq; lia). reflexivity.
      * destruct (k =? x); [reflexivity|exact IH].
Qed.

Lemma msg_get_put_same n v m : msg_get n (msg_put n v m) = Some v.
Proof.
  induction m as [|[k w] r IH]; cbn.
  - rewrite N.eqb_refl. reflexivity.
  - destruct (k =? n) eqn:E1; cbn.
    + rewrite N.eqb_refl. reflexivity.
    + destruct (n <? k); cbn; [rewrite N.eqb_refl; reflexivity|]. rewrite E1. exact IH.
Qed.

Lemma msg_get_del_other x n m : x <> n -> msg_get x (msg_del n m) = msg_get x m.
Proof.
  intros Hx. induction m as [|[k w] r IH]; cbn; [reflexivity|].
  destruct (k =? n) eqn:E1.
  - apply N.eqb_eq in E1. subst k.
    replace (n =? x) with false by (symmetry; apply N.eqb_neq; lia). exact IH.
  - cbn. destruct (k =? x); [reflexivity|exact IH].
Qed.

Lemma msg_get_del_same n m : msg_get n (msg_del n m) = None.
Proof.
  induction m as [|[k w] r IH]; cbn; [reflexivity|].
  destruct (k =? n) eqn:E1; [exact IH|]. cbn. rewrite E1. exact IH.
Qed.

Lemma msg_get_clear_all_other x ns : forall m, ~ In x ns -> msg_get x (msg_clear_all ns m) = msg_get x m.
Proof.
  unfold msg_clear_all. induction ns as [|n r IH]; intros m Hx; cbn; [reflexivity|].
  rewrite IH by (intros H; apply Hx; right; exact H).
  apply msg_get_del_other. intros ->. apply Hx. left. reflexivity.
Qed.

(* Message.Set touches the field itself and the other members of its oneof, nothing else *)
Lemma msg_get_set_other x explicit sib n v m :
  x <> n -> ~ In x sib -> msg_get x (msg_set explicit sib n v m) = msg_get x m.
Proof.
  intros Hx Hs. unfold msg_set.
  assert (D : msg_get x (msg_del n m) = msg_get x m) by (apply msg_get_del_other; exact Hx).
  assert (P : msg_get x (msg_put n v (msg_clear_all sib m)) = msg_get x m)
    by (rewrite msg_get_put_other by exact Hx; apply msg_get_clear_all_other; exact Hs).
  destruct v as [| | | | | | |l|l]; try (destruct (negb explicit && _); assumption).
  - destruct l; [exact D|]. destruct (negb explicit && _); assumption.
  - destruct l; [exact D|]. destruct (negb explicit && _); assumption.
Qed.

(* what Message.Set leaves in the field itself: nothing for an implicit-presence zero or an empty
   list / map, otherwise the value *)
Definition stored_form (explicit : bool) (v : pval) : option pval :=
  match v with
  | VList [] | VMap [] => None
  | _ => if negb explicit && is_zero v then None else Some v
  end.

Lemma msg_get_set_same explicit sib n v m :
  msg_get n (msg_set explicit sib n v m) = stored_form explicit v.
Proof.
  unfold msg_set, stored_form.
  destruct v as [| | | | | | |l|l];
    try (destruct (negb explicit && _); [apply msg_get_del_same | apply msg_get_put_same]).
  - destruct l; [apply msg_get_del_same|]. cbn [is_zero]. rewrite andb_false_r. apply msg_get_put_same.
  - destruct l; [apply msg_get_del_same|]. cbn [is_zero]. rewrite andb_false_r. apply msg_get_put_same.
Qed.

Lemma msg_get_mutable_other x sib n m :
  x <> n -> ~ In x sib -> msg_get x (snd (msg_mutable sib n m)) = msg_get x m.
Proof.
  intros Hx Hs. unfold msg_mutable.
  destruct (msg_get n m) as [[]|]; cbn [snd]; try reflexivity;
    (rewrite msg_get_put_other by exact Hx; apply msg_get_clear_all_other; exact Hs).
Qed.

(* ================================================================ paths *)
(* the value at a proto path (through sub-messages) *)
Fixpoint get_path (path : list N) (m : msg) : option pval :=
  match path with
  | [] => None
  | [n] => msg_get n m
  | n :: rest =>
    match msg_get n m with
    | Some (VMsg sub) => get_path rest sub
    | _ => None
    end
  end.

Lemma get_path_cons2 n n2 r m :
  get_path (n :: n2 :: r) m = match msg_get n m with Some (VMsg s) => get_path (n2 :: r) s | _ => None end.
Proof. reflexivity. Qed.

(* [indep p q sib]: the path p leaves the path q before q's end, or at q's last step towards a
   field that is neither q's field nor one of its oneof siblings *)
Fixpoint indep (p q : list N) (sib : list N) : Prop :=
  match p, q with
  | x :: p', [y] => x <> y /\ ~ In x sib
  | x :: p', y :: q' => x <> y \/ (x = y /\ indep p' q' sib)
  | _, _ => False
  end.

(* with_holder on path q: whatever the continuation does to q's final field and its siblings,
   a path independent of q reads the same value afterwards *)
Lemma with_holder_frame {A} (q : list N) sib (k : N -> msg -> outcome (msg * A)) :
  (forall n h h' a, k n h = Ok (h', a) -> forall x, x <> n -> ~ In x sib -> msg_get x h' = msg_get x h) ->
  forall p m m' a, indep p q sib -> with_holder q m k = Ok (m', a) -> get_path p m' = get_path p m.
Proof.
  intros Hk. induction q as [|y q' IH]; intros p m m' a Hi H; [destruct p; contradiction|].
  destruct q' as [|y2 q''].
  - (* last step *)
    destruct p as [|x p']; [contradiction|]. cbn [indep] in Hi. destruct Hi as [Hxy Hsib].
    cbn [with_holder] in H.
    assert (G : msg_get x m' = msg_get x m) by (eapply Hk; eassumption).
    destruct p' as [|x2 p'']; cbn [get_path]; rewrite G; reflexivity.
  - destruct p as [|x p']; [contradiction|].
    change (with_holder (y :: y2 :: q'') m k) with
      (let '(sub, m1) := msg_mutable [] y m in
       obind (with_holder (y2 :: q'') sub k) (fun r => Ok (msg_put y (VMsg (fst r)) m1, snd r))) in H.
    destruct (msg_mutable [] y m) as [sub m1] eqn:Em.
    destruct (with_holder (y2 :: q'') sub k) as [[sub' a']| | |] eqn:Ew; try discriminate.
    cbn [obind fst snd] in H. inversion H; subst m' a; clear H.
    assert (Hm1 : forall z, z <> y -> msg_get z m1 = msg_get z m).
    { intros z Hz. replace m1 with (snd (msg_mutable [] y m)) by (rewrite Em; reflexivity).
      apply msg_get_mutable_other; [exact Hz | intros []]. }
    cbn [indep] in Hi. destruct Hi as [Hxy | [Hxy Hi]].
    + assert (G : msg_get x (msg_put y (VMsg sub') m1) = msg_get x m)
        by (rewrite msg_get_put_other by exact Hxy; apply Hm1; exact Hxy).
      destruct p' as [|x2 p'']; cbn [get_path]; rewrite G; reflexivity.
    + subst x.
      assert (Hsub : msg_get y m = Some (VMsg sub) \/ (sub = [] /\ forall s0, msg_get y m <> Some (VMsg s0))).
      { unfold msg_mutable in Em. destruct (msg_get y m) as [[]|]; inversion Em; subst;
          try (right; split; [reflexivity|intros s0 Hc; discriminate]). left. reflexivity. }
      destruct p' as [|x2 p'']; [destruct q''; contradiction|].
      rewrite !get_path_cons2. rewrite msg_get_put_same.
      rewrite (IH (x2 :: p'') sub sub' a' Hi Ew).
      destruct Hsub as [Hs | [Hs Hn]].
      * rewrite Hs. reflexivity.
      * subst sub. destruct (msg_get y m) as [[]|] eqn:Eg; try (destruct p''; reflexivity).
        exfalso. eapply Hn. reflexivity.
Qed.

Lemma msg_get_del_none x n m : msg_get x m = None -> msg_get x (msg_del n m) = None.
Proof.
  induction m as [|[k w] r IH]; cbn; [reflexivity|].
  destruct (k =? x) eqn:E; [discriminate|]. intros H. destruct (k =? n); [apply IH; exact H|].
  cbn. rewrite E. apply IH. exact H.
Qed.

Lemma msg_get_clear_all_none x ns : forall m, msg_get x m = None -> msg_get x (msg_clear_all ns m) = None.
Proof.
  unfold msg_clear_all. induction ns as [|n r IH]; intros m H; cbn; [exact H|].
  apply IH. apply msg_get_del_none. exact H.
Qed.

(* clearing the siblings does not change a field that is not a sibling, nor one that is absent *)
Lemma msg_get_clear_all_abs x ns m : (~ In x ns \/ msg_get x m = None) -> msg_get x (msg_clear_all ns m) = msg_get x m.
Proof.
  intros [H | H]; [apply msg_get_clear_all_other; exact H|].
  rewrite H. apply msg_get_clear_all_none. exact H.
Qed.

Lemma msg_get_set_abs x explicit sib n v m :
  x <> n -> (~ In x sib \/ msg_get x m = None) -> msg_get x (msg_set explicit sib n v m) = msg_get x m.
Proof.
  intros Hx Hs. unfold msg_set.
  assert (D : msg_get x (msg_del n m) = msg_get x m) by (apply msg_get_del_other; exact Hx).
  assert (P : msg_get x (msg_put n v (msg_clear_all sib m)) = msg_get x m)
    by (rewrite msg_get_put_other by exact Hx; apply msg_get_clear_all_abs; exact Hs).
  destruct v as [| | | | | | |l|l]; try (destruct (negb explicit && _); assumption).
  - destruct l; [exact D|]. destruct (negb explicit && _); assumption.
  - destruct l; [exact D|]. destruct (negb explicit && _); assumption.
Qed.

Lemma msg_get_mutable_abs x sib n m :
  x <> n -> (~ In x sib \/ msg_get x m = None) -> msg_get x (snd (msg_mutable sib n m)) = msg_get x m.
Proof.
  intros Hx Hs. unfold msg_mutable.
  destruct (msg_get n m) as [[]|]; cbn [snd]; try reflexivity;
    (rewrite msg_get_put_other by exact Hx; apply msg_get_clear_all_abs; exact Hs).
Qed.

(* the siblings of q's final field are absent from the message that holds it (when that message
   exists): what property.CreateField's oneofConflict has checked *)
Definition sib_absent (q sib : list N) (m : msg) : Prop :=
  match holder_lookup q m with
  | Some (h, _) => forall s0, In s0 sib -> msg_get s0 h = None
  | None => True
  end.

(* with_holder on path q when q's siblings are absent: every path that diverges from q anywhere reads
   the same value afterwards, oneof siblings included *)
Lemma with_holder_frame_abs {A} (q : list N) sib (k : N -> msg -> outcome (msg * A)) :
  (forall n h h' a, k n h = Ok (h', a) -> forall x, x <> n -> (~ In x sib \/ msg_get x h = None) ->
                    msg_get x h' = msg_get x h) ->
  forall p m m' a, indep p q [] -> sib_absent q sib m -> with_holder q m k = Ok (m', a) ->
                   get_path p m' = get_path p m.
Proof.
  intros Hk. induction q as [|y q' IH]; intros p m m' a Hi Habs H; [destruct p; contradiction|].
  destruct q' as [|y2 q''].
  - destruct p as [|x p']; [contradiction|]. cbn [indep] in Hi. destruct Hi as [Hxy _].
    cbn [with_holder] in H. unfold sib_absent in Habs. cbn [holder_lookup] in Habs.
    assert (G : msg_get x m' = msg_get x m).
    { eapply Hk; [exact H | exact Hxy |].
      destruct (in_dec N.eq_dec x sib) as [Hin | Hnin]; [right; apply Habs; exact Hin | left; exact Hnin]. }
    destruct p' as [|x2 p'']; cbn [get_path]; rewrite G; reflexivity.
  - destruct p as [|x p']; [contradiction|].
    change (with_holder (y :: y2 :: q'') m k) with
      (let '(sub, m1) := msg_mutable [] y m in
       obind (with_holder (y2 :: q'') sub k) (fun r => Ok (msg_put y (VMsg (fst r)) m1, snd r))) in H.
    destruct (msg_mutable [] y m) as [sub m1] eqn:Em.
    destruct (with_holder (y2 :: q'') sub k) as [[sub' a']| | |] eqn:Ew; try discriminate.
    cbn [obind fst snd] in H. inversion H; subst m' a; clear H.
    assert (Hm1 : forall z, z <> y -> msg_get z m1 = msg_get z m).
    { intros z Hz. replace m1 with (snd (msg_mutable [] y m)) by (rewrite Em; reflexivity).
      apply msg_get_mutable_other; [exact Hz | intros []]. }
    assert (Hsub : msg_get y m = Some (VMsg sub) \/ (sub = [] /\ forall s0, msg_get y m <> Some (VMsg s0))).
    { unfold msg_mutable in Em. destruct (msg_get y m) as [[]|]; inversion Em; subst;
        try (right; split; [reflexivity|intros s0 Hc; discriminate]). left. reflexivity. }
    assert (Habs' : sib_absent (y2 :: q'') sib sub).
    { unfold sib_absent in *. destruct Hsub as [Hs | [Hs Hn]].
      - change (holder_lookup (y :: y2 :: q'') m) with
          (match msg_get y m with Some (VMsg s1) => holder_lookup (y2 :: q'') s1 | _ => None end) in Habs.
        rewrite Hs in Habs. exact Habs.
      - subst sub. destruct q'' as [|y3 q3]; cbn [holder_lookup]; [intros s0 _; reflexivity|]. cbn. exact I. }
    cbn [indep] in Hi. destruct Hi as [Hxy | [Hxy Hi]].
    + assert (G : msg_get x (msg_put y (VMsg sub') m1) = msg_get x m)
        by (rewrite msg_get_put_other by exact Hxy; apply Hm1; exact Hxy).
      destruct p' as [|x2 p'']; cbn [get_path]; rewrite G; reflexivity.
    + subst x.
      destruct p' as [|x2 p'']; [destruct q''; contradiction|].
      rewrite !get_path_cons2. rewrite msg_get_put_same.
      rewrite (IH (x2 :: p'') sub sub' a' Hi Habs' Ew).
      destruct Hsub as [Hs | [Hs Hn]].
      * rewrite Hs. reflexivity.
      * subst sub. destruct (msg_get y m) as [[]|] eqn:Eg; try (destruct p''; reflexivity).
        exfalso. eapply Hn. reflexivity.
Qed.

(* ... and q's own final field holds what the continuation left there *)
Lemma with_holder_own {A} (q : list N) (k : N -> msg -> outcome (msg * A)) :
  q <> [] ->
  forall m m' a, with_holder q m k = Ok (m', a) ->
  exists n h h', last q 0 = n /\ k n h = Ok (h', a) /\ get_path q m' = msg_get n h'.
Proof.
  intros Hq. induction q as [|y q' IH]; [congruence|]. intros m m' a H.
  destruct q' as [|y2 q''].
  - cbn [with_holder] in H. exists y, m, m'. repeat split; assumption.
  - change (with_holder (y :: y2 :: q'') m k) with
      (let '(sub, m1) := msg_mutable [] y m in
       obind (with_holder (y2 :: q'') sub k) (fun r => Ok (msg_put y (VMsg (fst r)) m1, snd r))) in H.
    destruct (msg_mutable [] y m) as [sub m1].
    destruct (with_holder (y2 :: q'') sub k) as [[sub' a']| | |] eqn:Ew; try discriminate.
    cbn [obind fst snd] in H. inversion H; subst m' a; clear H.
    destruct (IH ltac:(discriminate) sub sub' a' Ew) as (n & h & h' & Hl & Hk & Hg).
    exists n, h, h'. repeat split; try assumption.
    change (get_path (y :: y2 :: q'') (msg_put y (VMsg sub') m1)) with
      (match msg_get y (msg_put y (VMsg sub') m1) with Some (VMsg s0) => get_path (y2 :: q'') s0 | _ => None end).
    rewrite msg_get_put_same. exact Hg.
Qed.

(* ================================================================ frame: a member's decode leaves independent fields alone *)
Section Stored.
  Variable orc : oracles.
  Variable e : env.

  Lemma omap_fst_ok {A} (o : outcome (msg * A)) m' : omap fst o = Ok m' -> exists a, o = Ok (m', a).
  Proof. destruct o as [[m0 a]| | |]; cbn; intros H; inversion H; subst. eauto. Qed.

  (* a property with a proto path: only its own field (and the siblings of that field) change *)
  Lemma tr_present_frame f d q v m m' :
    p_path q <> [] -> tr_present orc e f d q v m = Ok m' ->
    forall p, indep p (p_path q) (p_siblings q) -> get_path p m' = get_path p m.
  Proof.
    intros Hq H p Hi. destruct f as [|f]; [discriminate|]. rewrite tr_present_S in H.
    assert (W : forall (k : N -> msg -> outcome (msg * unit)),
               (forall n h h' a, k n h = Ok (h', a) -> forall x, x <> n -> ~ In x (p_siblings q) -> msg_get x h' = msg_get x h) ->
               omap fst (with_holder (p_path q) m k) = Ok m' -> get_path p m' = get_path p m).
    { intros k Hk Hw. apply omap_fst_ok in Hw. destruct Hw as [a Hw].
      eapply with_holder_frame; eassumption. }
    destruct (p_ty q) as [k|ref|ref|ref|item|item|pb].
    - destruct (is_container v); [discriminate|].
      destruct (scalar_from_go orc k (goval_of_json v)) as [x| | |]; try discriminate. cbn [obind] in H.
      eapply W; [|exact H]. intros n h h' a Hk x0 Hx Hs.
      destruct x; injection Hk as Hh _; subst h'; [apply msg_get_set_other | apply msg_get_del_other]; assumption.
    - destruct v; try discriminate. destruct (lookup e ref) as [[| |prefix opts]|]; try discriminate.
      destruct (option_by_name prefix opts s); [|discriminate].
      eapply W; [|exact H]. intros n h h' a Hk x0 Hx Hs. injection Hk as Hh _; subst h'.
      exact (msg_get_set_other x0 (p_explicit q) (p_siblings q) n (VEnum z) h Hx Hs).
    - destruct v; try discriminate. destruct (lookup e ref) as [[props| |]|]; try discriminate.
      eapply W; [|exact H]. intros n h h' a Hk x0 Hx Hs. cbv beta in Hk.
      destruct (msg_mutable (p_siblings q) n h) as [sub h1] eqn:Em.
      destruct (tr_object orc e f d props members sub []); try discriminate. cbn [obind] in Hk. injection Hk as Hh _; subst h'.
      rewrite msg_get_put_other by exact Hx.
      replace h1 with (snd (msg_mutable (p_siblings q) n h)) by (rewrite Em; reflexivity).
      apply msg_get_mutable_other; assumption.
    - destruct v; try discriminate. destruct (lookup e ref) as [[|props|]|]; try discriminate.
      destruct (p_path q) as [|n0 path0] eqn:Ep; [congruence|].
      eapply W; [|exact H]. intros n h h' a Hk x0 Hx Hs. cbv beta in Hk.
      destruct (msg_mutable (p_siblings q) n h) as [sub h1] eqn:Em.
      destruct (tr_oneof orc e f d props members sub [] [] None); try discriminate. cbn [obind] in Hk. injection Hk as Hh _; subst h'.
      rewrite msg_get_put_other by exact Hx.
      replace h1 with (snd (msg_mutable (p_siblings q) n h)) by (rewrite Em; reflexivity).
      apply msg_get_mutable_other; assumption.
    - destruct v; try discriminate.
      assert (G : forall l, omap fst (with_holder (p_path q) m (fun n h =>
                   let existing := match msg_get n h with Some (VList l0) => l0 | _ => [] end in
                   obind (tr_array orc e f d item l existing) (fun l1 =>
                     Ok (msg_set true (p_siblings q) n (VList l1) h, tt)))) = Ok m' ->
                 get_path p m' = get_path p m).
      { intros l Hw. eapply W; [|exact Hw]. intros n h h' a Hk x0 Hx Hs. cbv beta zeta in Hk.
        destruct (tr_array orc e f d item l _) as [l1| | |]; try discriminate. cbn [obind] in Hk. injection Hk as Hh _; subst h'.
        exact (msg_get_set_other x0 true (p_siblings q) n (VList l1) h Hx Hs). }
      destruct item; try discriminate; eapply G; exact H.
    - destruct v; try discriminate.
      assert (G : forall l, omap fst (with_holder (p_path q) m (fun n h =>
                   let existing := match msg_get n h with Some (VMap l0) => l0 | _ => [] end in
                   obind (tr_map orc e f d item l existing) (fun l1 =>
                     Ok (msg_set true (p_siblings q) n (VMap l1) h, tt)))) = Ok m' ->
                 get_path p m' = get_path p m).
      { intros l Hw. eapply W; [|exact Hw]. intros n h h' a Hk x0 Hx Hs. cbv beta zeta in Hk.
        destruct (tr_map orc e f d item l _) as [l1| | |]; try discriminate. cbn [obind] in Hk. injection Hk as Hh _; subst h'.
        exact (msg_get_set_other x0 true (p_siblings q) n (VMap l1) h Hx Hs). }
      destruct item; try discriminate; eapply G; exact H.
    - destruct v; try discriminate.
      eapply W; [|exact H]. intros n h h' a Hk x0 Hx Hs. cbv beta in Hk.
      destruct (msg_mutable (p_siblings q) n h) as [sub h1] eqn:Em.
      destruct (tr_any_body members None None) as [[value ty]| | |]; try discriminate. cbn [obind fst snd] in Hk.
      destruct ty; try discriminate. destruct value; try discriminate. destruct pb; try discriminate.
      injection Hk as Hh _; subst h'. rewrite msg_get_put_other by exact Hx.
      replace h1 with (snd (msg_mutable (p_siblings q) n h)) by (rewrite Em; reflexivity).
      apply msg_get_mutable_other; assumption.
  Qed.

  (* a property with a proto path whose oneof siblings are absent (CreateField has checked): a path
     that diverges from it anywhere reads the same afterwards *)
  Lemma tr_present_frame_abs f d q v m m' :
    p_path q <> [] -> oneof_conflict q m = false -> tr_present orc e f d q v m = Ok m' ->
    forall p, indep p (p_path q) [] -> get_path p m' = get_path p m.
  Proof.
    intros Hq Hc H p Hi. destruct f as [|f]; [discriminate|]. rewrite tr_present_S in H.
    assert (Habs : sib_absent (p_path q) (p_siblings q) m).
    { unfold sib_absent. unfold oneof_conflict in Hc. destruct (holder_lookup (p_path q) m) as [[h0 n0]|]; [|exact I].
      intros s0 Hs0. destruct (msg_get s0 h0) eqn:Eg; [|reflexivity]. exfalso.
      assert (existsb (fun s1 => msg_has s1 h0) (p_siblings q) = true)
        by (apply existsb_exists; exists s0; split; [exact Hs0 | unfold msg_has; rewrite Eg; reflexivity]).
      congruence. }
    assert (W : forall (k : N -> msg -> outcome (msg * unit)),
               (forall n h h' a, k n h = Ok (h', a) -> forall x, x <> n -> (~ In x (p_siblings q) \/ msg_get x h = None) -> msg_get x h' = msg_get x h) ->
               omap fst (with_holder (p_path q) m k) = Ok m' -> get_path p m' = get_path p m).
    { intros k Hk Hw. apply omap_fst_ok in Hw. destruct Hw as [a Hw].
      eapply with_holder_frame_abs; eassumption. }
    destruct (p_ty q) as [k|ref|ref|ref|item|item|pb].
    - destruct (is_container v); [discriminate|].
      destruct (scalar_from_go orc k (goval_of_json v)) as [x| | |]; try discriminate. cbn [obind] in H.
      eapply W; [|exact H]. intros n h h' a Hk x0 Hx Hs.
      destruct x; injection Hk as Hh _; subst h'; [apply msg_get_set_abs | apply msg_get_del_other]; assumption.
    - destruct v; try discriminate. destruct (lookup e ref) as [[| |prefix opts]|]; try discriminate.
      destruct (option_by_name prefix opts s); [|discriminate].
      eapply W; [|exact H]. intros n h h' a Hk x0 Hx Hs. injection Hk as Hh _; subst h'.
      exact (msg_get_set_abs x0 (p_explicit q) (p_siblings q) n (VEnum z) h Hx Hs).
    - destruct v; try discriminate. destruct (lookup e ref) as [[props| |]|]; try discriminate.
      eapply W; [|exact H]. intros n h h' a Hk x0 Hx Hs. cbv beta in Hk.
      destruct (msg_mutable (p_siblings q) n h) as [sub h1] eqn:Em.
      destruct (tr_object orc e f d props members sub []); try discriminate. cbn [obind] in Hk. injection Hk as Hh _; subst h'.
      rewrite msg_get_put_other by exact Hx.
      replace h1 with (snd (msg_mutable (p_siblings q) n h)) by (rewrite Em; reflexivity).
      apply msg_get_mutable_abs; assumption.
    - destruct v; try discriminate. destruct (lookup e ref) as [[|props|]|]; try discriminate.
      destruct (p_path q) as [|n0 path0] eqn:Ep; [congruence|].
      eapply W; [|exact H]. intros n h h' a Hk x0 Hx Hs. cbv beta in Hk.
      destruct (msg_mutable (p_siblings q) n h) as [sub h1] eqn:Em.
      destruct (tr_oneof orc e f d props members sub [] [] None); try discriminate. cbn [obind] in Hk. injection Hk as Hh _; subst h'.
      rewrite msg_get_put_other by exact Hx.
      replace h1 with (snd (msg_mutable (p_siblings q) n h)) by (rewrite Em; reflexivity).
      apply msg_get_mutable_abs; assumption.
    - destruct v; try discriminate.
      assert (G : forall l, omap fst (with_holder (p_path q) m (fun n h =>
                   let existing := match msg_get n h with Some (VList l0) => l0 | _ => [] end in
                   obind (tr_array orc e f d item l existing) (fun l1 =>
                     Ok (msg_set true (p_siblings q) n (VList l1) h, tt)))) = Ok m' ->
                 get_path p m' = get_path p m).
      { intros l Hw. eapply W; [|exact Hw]. intros n h h' a Hk x0 Hx Hs. cbv beta zeta in Hk.
        destruct (tr_array orc e f d item l _) as [l1| | |]; try discriminate. cbn [obind] in Hk. injection Hk as Hh _; subst h'.
        exact (msg_get_set_abs x0 true (p_siblings q) n (VList l1) h Hx Hs). }
      destruct item; try discriminate; eapply G; exact H.
    - destruct v; try discriminate.
      assert (G : forall l, omap fst (with_holder (p_path q) m (fun n h =>
                   let existing := match msg_get n h with Some (VMap l0) => l0 | _ => [] end in
                   obind (tr_map orc e f d item l existing) (fun l1 =>
                     Ok (msg_set true (p_siblings q) n (VMap l1) h, tt)))) = Ok m' ->
                 get_path p m' = get_path p m).
      { intros l Hw. eapply W; [|exact Hw]. intros n h h' a Hk x0 Hx Hs. cbv beta zeta in Hk.
        destruct (tr_map orc e f d item l _) as [l1| | |]; try discriminate. cbn [obind] in Hk. injection Hk as Hh _; subst h'.
        exact (msg_get_set_abs x0 true (p_siblings q) n (VMap l1) h Hx Hs). }
      destruct item; try discriminate; eapply G; exact H.
    - destruct v; try discriminate.
      eapply W; [|exact H]. intros n h h' a Hk x0 Hx Hs. cbv beta in Hk.
      destruct (msg_mutable (p_siblings q) n h) as [sub h1] eqn:Em.
      destruct (tr_any_body members None None) as [[value ty]| | |]; try discriminate. cbn [obind fst snd] in Hk.
      destruct ty; try discriminate. destruct value; try discriminate. destruct pb; try discriminate.
      injection Hk as Hh _; subst h'. rewrite msg_get_put_other by exact Hx.
      replace h1 with (snd (msg_mutable (p_siblings q) n h)) by (rewrite Em; reflexivity).
      apply msg_get_mutable_abs; assumption.
  Qed.

  (* ---------------------------------------------------------------- own field of a scalar member *)
  Definition stored_scalar (p : property) (x : option pval) : option pval :=
    match x with
    | None => None
    | Some v => stored_form (p_explicit p) v
    end.

  Lemma scalar_member_own f d p k v m m1 :
    p_ty p = FScalar k -> p_path p <> [] -> tr_present orc e f d p v m = Ok m1 ->
    exists x, scalar_from_go orc k (goval_of_json v) = Ok x /\ get_path (p_path p) m1 = stored_scalar p x.
  Proof.
    intros Hk Hq H. destruct f as [|f]; [discriminate|]. rewrite tr_present_S in H. rewrite Hk in H.
    destruct (is_container v); [discriminate|].
    destruct (scalar_from_go orc k (goval_of_json v)) as [x| | |]; try discriminate. cbn [obind] in H.
    exists x. split; [reflexivity|].
    apply omap_fst_ok in H. destruct H as [a H].
    destruct (with_holder_own (p_path p) _ Hq m m1 a H) as (n & h & h' & _ & Hkk & Hg).
    rewrite Hg. cbv beta in Hkk. destruct x as [val|]; injection Hkk as Hh _; subst h'; cbn [stored_scalar].
    - apply msg_get_set_same.
    - apply msg_get_del_same.
  Qed.

  (* ---------------------------------------------------------------- frame through property sets *)
  (* the path p is independent of everything a decode of property q may write *)
  Definition indep_prop (p : list N) (q : property) : Prop :=
    match p_path q with
    | [] =>
      match p_ty q with
      | FOneof ref =>
        match lookup e ref with
        | Some (SOneof ps) => Forall (fun q' => p_path q' <> [] /\ indep p (p_path q') (p_siblings q')) ps
        | _ => True
        end
      | _ => True
      end
    | path => indep p path []     (* siblings: CreateField's conflict check has made sure they are absent *)
    end.

  Lemma find_prop_In props key q : find_prop props key = Some q -> In q props /\ bytes_eqb (p_json q) key = true.
  Proof.
    induction props as [|q0 r IH]; cbn; [discriminate|].
    destruct (bytes_eqb (p_json q0) key) eqn:E; intros H.
    - inversion H; subst. split; [left; reflexivity|exact E].
    - destruct (IH H) as [Hin Hj]. split; [right; exact Hin|exact Hj].
  Qed.

  Lemma create_effect_frame q m m' p :
    p_path q <> [] -> indep p (p_path q) (p_siblings q) -> create_effect q m = Ok m' -> get_path p m' = get_path p m.
  Proof.
    intros Hq Hi H. unfold create_effect in H. destruct (p_path q) as [|n0 path0] eqn:Ep; [congruence|].
    assert (W : forall (k : N -> msg -> outcome (msg * unit)),
               (forall n h h' a, k n h = Ok (h', a) -> forall x, x <> n -> ~ In x (p_siblings q) -> msg_get x h' = msg_get x h) ->
               omap fst (with_holder (n0 :: path0) m k) = Ok m' -> get_path p m' = get_path p m).
    { intros k Hk Hw. apply omap_fst_ok in Hw. destruct Hw as [a Hw]. eapply with_holder_frame; eassumption. }
    destruct (p_ty q); (eapply W; [|exact H]); intros n h h' a Hk x Hx Hs; cbv beta in Hk;
      injection Hk as Hh _; subst h'; try reflexivity; apply msg_get_mutable_other; assumption.
  Qed.

  Lemma tr_member_frame d q v m seen m' seen' p (dp : jvalue -> msg -> outcome msg) :
    (forall m0 m1, oneof_conflict q m0 = false -> dp v m0 = Ok m1 -> get_path p m1 = get_path p m0) ->
    tr_member d dp q v m seen = Ok (m', seen') -> get_path p m' = get_path p m.
  Proof.
    intros Hdp H. unfold tr_member in H. destruct (max_nesting_depth <? d + 1)%N; [discriminate|].
    destruct v; try (inversion H; subst; reflexivity);
      (destruct (mem_bytes (p_json q) seen); [discriminate|]);
      (destruct (oneof_conflict q m) eqn:Ec; [discriminate|]);
      match type of H with context[dp ?v m] => destruct (dp v m) as [m1| | |] eqn:E end; try discriminate;
      cbn [obind] in H; inversion H; subst; (eapply Hdp; [exact Ec | exact E]).
  Qed.

  (* the body of an (exposed) oneof whose arms all have proto paths independent of p *)
  Lemma tr_oneof_frame p ps : Forall (fun q' => p_path q' <> [] /\ indep p (p_path q') (p_siblings q')) ps ->
    forall f d ms m seen found c m', tr_oneof orc e f d ps ms m seen found c = Ok m' -> get_path p m' = get_path p m.
  Proof.
    intros Hps. induction f as [|f IH]; intros d ms m seen found c m' H; [discriminate|].
    rewrite tr_oneof_S in H. destruct ms as [|[key v] r].
    - unfold oneof_post in H. destruct (N.of_nat (length found) =? 0)%N.
      + destruct c as [cn|]; [|inversion H; reflexivity].
        destruct (find_prop ps cn) as [q|] eqn:Eq; [|discriminate].
        destruct (find_prop_In _ _ _ Eq) as [Hin _].
        rewrite Forall_forall in Hps. destruct (Hps q Hin) as [Hq Hi].
        eapply create_effect_frame; eassumption.
      + destruct (1 <? N.of_nat (length found))%N; [discriminate|].
        destruct c as [cn|]; [|inversion H; reflexivity].
        destruct (index0 found) as [k0| | |]; try discriminate. cbn [obind] in H.
        destruct (bytes_eqb k0 cn); inversion H; reflexivity.
    - destruct (bytes_eqb key type_key).
      + destruct v; try discriminate. eapply IH. exact H.
      + destruct (find_prop ps key) as [q|] eqn:Eq; [|discriminate].
        destruct (find_prop_In _ _ _ Eq) as [Hin _].
        pose proof Hps as Hps'. rewrite Forall_forall in Hps'. destruct (Hps' q Hin) as [Hq Hi].
        destruct (tr_member d (tr_present orc e f (d + 1) q) q v m seen) as [[m1 seen1]| | |] eqn:Em; try discriminate.
        cbn [obind fst snd] in H.
        rewrite (IH _ _ _ _ _ _ _ H).
        eapply tr_member_frame; [|exact Em]. intros m0 m2 _ Hd. eapply tr_present_frame; eassumption.
  Qed.

  (* one member's decode, for any property (exposed oneofs included) *)
  Lemma tr_present_frame_any f d q v m m' p :
    indep_prop p q -> oneof_conflict q m = false -> tr_present orc e f d q v m = Ok m' -> get_path p m' = get_path p m.
  Proof.
    intros Hi Hc H. unfold indep_prop in Hi.
    destruct (p_path q) as [|n0 path0] eqn:Ep.
    - destruct f as [|f]; [discriminate|]. rewrite tr_present_S in H.
      destruct (p_ty q) as [k|ref|ref|ref|item|item|pb].
      + (* a scalar without a proto path: with_holder fails *)
        destruct (is_container v); [discriminate|].
        destruct (scalar_from_go orc k (goval_of_json v)); try discriminate. cbn [obind] in H. rewrite Ep in H. discriminate.
      + destruct v; try discriminate. destruct (lookup e ref) as [[| |prefix opts]|]; try discriminate.
        destruct (option_by_name prefix opts s); [|discriminate]. rewrite Ep in H. discriminate.
      + destruct v; try discriminate. destruct (lookup e ref) as [[props| |]|]; try discriminate.
        rewrite Ep in H. discriminate.
      + destruct v; try discriminate. destruct (lookup e ref) as [[|ps|]|]; try discriminate.
        rewrite Ep in H. eapply tr_oneof_frame; eassumption.
      + destruct v; try discriminate. rewrite Ep in H. destruct item; discriminate.
      + destruct v; try discriminate. rewrite Ep in H. destruct item; discriminate.
      + destruct v; try discriminate. rewrite Ep in H. discriminate.
    - eapply tr_present_frame_abs; [rewrite Ep; discriminate | exact Hc | exact H | rewrite Ep; exact Hi].
  Qed.

  (* an object body all of whose properties are independent of p *)
  Lemma tr_object_frame p props : (forall q, In q props -> indep_prop p q) ->
    forall f d ms m seen m', tr_object orc e f d props ms m seen = Ok m' -> get_path p m' = get_path p m.
  Proof.
    intros Hps. induction f as [|f IH]; intros d ms m seen m' H; [discriminate|].
    rewrite tr_object_S in H. destruct ms as [|[key v] r]; [inversion H; reflexivity|].
    destruct (find_prop props key) as [q|] eqn:Eq; [|discriminate].
    destruct (find_prop_In _ _ _ Eq) as [Hin _].
    destruct (tr_member d (tr_present orc e f (d + 1) q) q v m seen) as [[m1 seen1]| | |] eqn:Em; try discriminate.
    cbn [obind fst snd] in H. rewrite (IH _ _ _ _ _ H).
    eapply tr_member_frame; [|exact Em]. intros m0 m2 Hc Hd. eapply tr_present_frame_any; [apply Hps; exact Hin | exact Hc | exact Hd].
  Qed.

  (* ---------------------------------------------------------------- every non-null scalar member is stored *)
  Lemma bytes_eqb_eq a : forall b, bytes_eqb a b = true <-> a = b.
  Proof.
    induction a as [|x r IH]; intros [|y s]; cbn; split; intros H; try reflexivity; try discriminate.
    - apply andb_prop in H. destruct H as [H1 H2]. apply N.eqb_eq in H1. apply IH in H2. subst. reflexivity.
    - inversion H; subst. rewrite N.eqb_refl. cbn. apply IH. reflexivity.
  Qed.

  Lemma mem_bytes_differ a b seen : mem_bytes a seen = true -> mem_bytes b seen = false -> bytes_eqb a b = false.
  Proof.
    intros Ha Hb. destruct (bytes_eqb a b) eqn:E; [|reflexivity].
    apply bytes_eqb_eq in E. subst. congruence.
  Qed.

  (* distinct properties of a set write to independent places *)
  Definition props_separate (props : list property) : Prop :=
    forall q1 q2, In q1 props -> In q2 props -> bytes_eqb (p_json q1) (p_json q2) = false ->
                  p_path q1 <> [] -> indep_prop (p_path q1) q2.

  (* once a member's property has its value, the rest of the object body leaves its field alone *)
  Lemma tail_preserves props p : props_separate props -> In p props -> p_path p <> [] ->
    forall f d ms m seen m', mem_bytes (p_json p) seen = true ->
    tr_object orc e f d props ms m seen = Ok m' -> get_path (p_path p) m' = get_path (p_path p) m.
  Proof.
    intros Hsep Hin Hq. induction f as [|f IH]; intros d ms m seen m' Hseen H; [discriminate|].
    rewrite tr_object_S in H. destruct ms as [|[key v] r]; [inversion H; reflexivity|].
    destruct (find_prop props key) as [q|] eqn:Eq; [|discriminate].
    destruct (find_prop_In _ _ _ Eq) as [Hinq _].
    destruct (tr_member d (tr_present orc e f (d + 1) q) q v m seen) as [[m1 seen1]| | |] eqn:Em; try discriminate.
    cbn [obind fst snd] in H.
    assert (Hs1 : mem_bytes (p_json p) seen1 = true /\ get_path (p_path p) m1 = get_path (p_path p) m).
    { unfold tr_member in Em. destruct (max_nesting_depth <? d + 1)%N; [discriminate|].
      destruct v; try (inversion Em; subst; split; [exact Hseen|reflexivity]);
        (destruct (mem_bytes (p_json q) seen) eqn:Eqs; [discriminate|]);
        (destruct (oneof_conflict q m) eqn:Ecf; [discriminate|]);
        match type of Em with context[tr_present orc e f (d + 1) q ?v m] =>
          destruct (tr_present orc e f (d + 1) q v m) as [m2| | |] eqn:Ep end; try discriminate;
        cbn [obind] in Em; inversion Em; subst;
        (split; [cbn [mem_bytes]; rewrite Hseen; apply orb_true_r |
                 (eapply tr_present_frame_any; [|exact Ecf|exact Ep]);
                 apply Hsep; try assumption; eapply mem_bytes_differ; eassumption]). }
    destruct Hs1 as [Hs1 Hg1]. rewrite (IH _ _ _ _ _ Hs1 H). exact Hg1.
  Qed.

  Theorem scalar_member_stored props : props_separate props ->
    forall f d ms m seen m', tr_object orc e f d props ms m seen = Ok m' ->
    forall key v p k, In (key, v) ms -> v <> JNull -> find_prop props key = Some p ->
      p_ty p = FScalar k -> p_path p <> [] ->
      exists x, scalar_from_go orc k (goval_of_json v) = Ok x /\ get_path (p_path p) m' = stored_scalar p x.
  Proof.
    intros Hsep. induction f as [|f IH]; intros d ms m seen m' H key v p k Hin Hv Hp Hk Hq; [discriminate|].
    rewrite tr_object_S in H. destruct ms as [|[key0 v0] r]; [contradiction|].
    destruct (find_prop props key0) as [q|] eqn:Eq; [|discriminate].
    destruct (tr_member d (tr_present orc e f (d + 1) q) q v0 m seen) as [[m1 seen1]| | |] eqn:Em; try discriminate.
    cbn [obind fst snd] in H.
    destruct Hin as [Heq | Hin]; [|eapply IH; eassumption].
    inversion Heq; subst key0 v0; clear Heq. rewrite Hp in Eq. inversion Eq; subst q; clear Eq.
    destruct (find_prop_In _ _ _ Hp) as [Hinp _].
    unfold tr_member in Em. destruct (max_nesting_depth <? d + 1)%N; [discriminate|].
    assert (G : exists m2, tr_present orc e f (d + 1) p v m = Ok m2 /\ m1 = m2 /\ seen1 = p_json p :: seen).
    { destruct v; try congruence;
        (destruct (mem_bytes (p_json p) seen); [discriminate|]);
        (destruct (oneof_conflict p m); [discriminate|]);
        match type of Em with context[tr_present orc e f (d + 1) p ?v m] =>
          destruct (tr_present orc e f (d + 1) p v m) as [m2| | |] eqn:Ep end; try discriminate;
        cbn [obind] in Em; inversion Em; subst; eauto. }
    destruct G as (m2 & Ep & -> & ->).
    destruct (scalar_member_own f (d + 1) p k v m m2 Hk Hq Ep) as (x & Hx & Hg).
    exists x. split; [exact Hx|].
    rewrite (tail_preserves props p Hsep Hinp Hq f d r m2 (p_json p :: seen) m'); [exact Hg | | exact H].
    cbn [mem_bytes]. replace (bytes_eqb (p_json p) (p_json p)) with true; [reflexivity|].
    symmetry. apply bytes_eqb_eq. reflexivity.
  Qed.

  (* ---------------------------------------------------------------- arrays: every element, in order *)
  Theorem array_elements_stored k : forall f d js acc l,
    tr_array orc e f d (FScalar k) js acc = Ok l ->
    exists vals, l = acc ++ vals /\
      Forall2 (fun j x => is_container j = false /\ scalar_from_go orc k (goval_of_json j) = Ok (Some x)) js vals.
  Proof.
    induction f as [|f IH]; intros d js acc l H; [discriminate|].
    rewrite tr_array_S in H. destruct js as [|v r].
    - inversion H; subst. exists []. split; [rewrite app_nil_r; reflexivity|constructor].
    - destruct (is_container v) eqn:Ec; [discriminate|].
      destruct (scalar_from_go orc k (goval_of_json v)) as [[x|]| | |] eqn:Es; try discriminate.
      cbn [obind list_append] in H. apply IH in H. destruct H as (vals & -> & HF).
      exists (x :: vals). split; [rewrite <- app_assoc; reflexivity|]. constructor; [split; assumption|exact HF].
  Qed.

  (* the own field of an array-of-scalars member: the list of all converted elements *)
  Lemma array_member_own f d p k v m m1 :
    p_ty p = FArray (FScalar k) -> p_path p <> [] -> tr_present orc e f d p v m = Ok m1 ->
    exists js l, v = JArr js /\ get_path (p_path p) m1 = stored_form true (VList l) /\
      exists base vals, l = base ++ vals /\
        Forall2 (fun j x => is_container j = false /\ scalar_from_go orc k (goval_of_json j) = Ok (Some x)) js vals.
  Proof.
    intros Hk Hq H. destruct f as [|f]; [discriminate|]. rewrite tr_present_S in H. rewrite Hk in H.
    destruct v as [| | | |js|]; try discriminate. exists js.
    apply omap_fst_ok in H. destruct H as [a H].
    destruct (with_holder_own (p_path p) _ Hq m m1 a H) as (n & h & h' & _ & Hkk & Hg).
    cbv beta zeta in Hkk.
    destruct (tr_array orc e f d (FScalar k) js _) as [l| | |] eqn:Ea; try discriminate.
    cbn [obind] in Hkk. injection Hkk as Hh _. subst h'.
    exists l. split; [reflexivity|]. split.
    - rewrite Hg. exact (msg_get_set_same true (p_siblings p) n (VList l) h).
    - apply array_elements_stored in Ea. destruct Ea as (vals & -> & HF). eauto.
  Qed.

  (* ---------------------------------------------------------------- maps: every entry, keys as written *)
  Lemma map_set_fresh key v acc : map_get key acc = None -> map_set key v acc = acc ++ [(key, v)].
  Proof.
    induction acc as [|[k w] r IH]; cbn; [reflexivity|].
    destruct (bytes_eqb k key); [discriminate|]. intros H. rewrite IH by exact H. reflexivity.
  Qed.

  Theorem map_entries_stored k : forall f d ms acc l,
    tr_map orc e f d (FScalar k) ms acc = Ok l ->
    exists vals, l = acc ++ vals /\
      Forall2 (fun kv kx => fst kx = fst kv /\ is_container (snd kv) = false /\
                            scalar_from_go orc k (goval_of_json (snd kv)) = Ok (Some (snd kx))) ms vals.
  Proof.
    induction f as [|f IH]; intros d ms acc l H; [discriminate|].
    rewrite tr_map_S in H. destruct ms as [|[key v] r].
    - inversion H; subst. exists []. split; [rewrite app_nil_r; reflexivity|constructor].
    - destruct (map_get key acc) eqn:Eg; [discriminate|].
      destruct (is_container v) eqn:Ec; [discriminate|].
      destruct (scalar_from_go orc k (goval_of_json v)) as [[x|]| | |] eqn:Es; try discriminate.
      cbn [obind map_set_value] in H. rewrite (map_set_fresh key x acc Eg) in H.
      apply IH in H. destruct H as (vals & -> & HF).
      exists ((key, x) :: vals). split; [rewrite <- app_assoc; reflexivity|].
      constructor; [cbn; repeat split; assumption|exact HF].
  Qed.

  (* arrays of objects: one sub-message per element, each the decode of that element, in order *)
  Theorem array_objects_stored ref props : lookup e ref = Some (SObject props) ->
    forall f d js acc l, tr_array orc e f d (FObject ref) js acc = Ok l ->
    exists subs, l = acc ++ map VMsg subs /\
      Forall2 (fun j sub => exists ms f', j = JObj ms /\ tr_object orc e f' d props ms [] [] = Ok sub) js subs.
  Proof.
    intros Hl. induction f as [|f IH]; intros d js acc l H; [discriminate|].
    rewrite tr_array_S in H. destruct js as [|v r].
    - inversion H; subst. exists []. split; [rewrite app_nil_r; reflexivity|constructor].
    - rewrite Hl in H. destruct v as [| | | | |ms]; try discriminate.
      destruct (tr_object orc e f d props ms [] []) as [sub| | |] eqn:Eo; try discriminate.
      cbn [obind] in H. apply IH in H. destruct H as (subs & -> & HF).
      exists (sub :: subs). split; [rewrite <- app_assoc; reflexivity|].
      constructor; [eauto|exact HF].
  Qed.

  (* ---------------------------------------------------------------- nested objects: the sub-message is the decode of the sub-object *)
  Lemma object_member_own f d p ref v m m1 :
    p_ty p = FObject ref -> p_path p <> [] -> tr_present orc e f d p v m = Ok m1 ->
    exists ms props sub0 sub' f', v = JObj ms /\ lookup e ref = Some (SObject props) /\
      tr_object orc e f' d props ms sub0 [] = Ok sub' /\ get_path (p_path p) m1 = Some (VMsg sub').
  Proof.
    intros Hk Hq H. destruct f as [|f]; [discriminate|]. rewrite tr_present_S in H. rewrite Hk in H.
    destruct v as [| | | | |ms]; try discriminate.
    destruct (lookup e ref) as [[props| |]|] eqn:El; try discriminate.
    apply omap_fst_ok in H. destruct H as [a H].
    destruct (with_holder_own (p_path p) _ Hq m m1 a H) as (n & h & h' & _ & Hkk & Hg).
    cbv beta in Hkk. destruct (msg_mutable (p_siblings p) n h) as [sub0 h1].
    destruct (tr_object orc e f d props ms sub0 []) as [sub'| | |] eqn:Eo; try discriminate.
    cbn [obind] in Hkk. injection Hkk as Hh _. subst h'.
    exists ms, props, sub0, sub', f. repeat split; try assumption.
    rewrite Hg. apply msg_get_put_same.
  Qed.

  (* ---------------------------------------------------------------- any member: decoded, and what it stored is kept *)
  Theorem member_survives props : props_separate props ->
    forall f d ms m seen m', tr_object orc e f d props ms m seen = Ok m' ->
    forall key v p, In (key, v) ms -> v <> JNull -> find_prop props key = Some p -> p_path p <> [] ->
    exists f0 m0 m1, tr_present orc e f0 (d + 1) p v m0 = Ok m1 /\
                     get_path (p_path p) m' = get_path (p_path p) m1.
  Proof.
    intros Hsep. induction f as [|f IH]; intros d ms m seen m' H key v p Hin Hv Hp Hq; [discriminate|].
    rewrite tr_object_S in H. destruct ms as [|[key0 v0] r]; [contradiction|].
    destruct (find_prop props key0) as [q|] eqn:Eq; [|discriminate].
    destruct (tr_member d (tr_present orc e f (d + 1) q) q v0 m seen) as [[m1 seen1]| | |] eqn:Em; try discriminate.
    cbn [obind fst snd] in H.
    destruct Hin as [Heq | Hin]; [|eapply IH; eassumption].
    inversion Heq; subst key0 v0; clear Heq. rewrite Hp in Eq. inversion Eq; subst q; clear Eq.
    destruct (find_prop_In _ _ _ Hp) as [Hinp _].
    unfold tr_member in Em. destruct (max_nesting_depth <? d + 1)%N; [discriminate|].
    assert (G : exists m2, tr_present orc e f (d + 1) p v m = Ok m2 /\ m1 = m2 /\ seen1 = p_json p :: seen).
    { destruct v; try congruence;
        (destruct (mem_bytes (p_json p) seen); [discriminate|]);
        (destruct (oneof_conflict p m); [discriminate|]);
        match type of Em with context[tr_present orc e f (d + 1) p ?v m] =>
          destruct (tr_present orc e f (d + 1) p v m) as [m2| | |] eqn:Ep end; try discriminate;
        cbn [obind] in Em; inversion Em; subst; eauto. }
    destruct G as (m2 & Ep & -> & ->).
    exists f, m, m2. split; [exact Ep|].
    apply (tail_preserves props p Hsep Hinp Hq f d r m2 (p_json p :: seen) m'); [|exact H].
    cbn [mem_bytes]. replace (bytes_eqb (p_json p) (p_json p)) with true; [reflexivity|].
    symmetry. apply bytes_eqb_eq. reflexivity.
  Qed.
End Stored.

(* ---------------------------------------------------------------- the schema condition is decidable *)
Lemma indep_b_sound p : forall q sib, indep_b p q sib = true -> indep p q sib.
Proof.
  induction p as [|x p' IH]; intros q sib H; [destruct q; discriminate|].
  destruct q as [|y q']; [discriminate|]. destruct q' as [|y2 q''].
  - cbn in H. apply andb_prop in H. destruct H as [H1 H2]. cbn. split.
    + intros ->. rewrite N.eqb_refl in H1. discriminate.
    + intros Hin. assert (existsb (N.eqb x) sib = true) by (apply existsb_exists; exists x; split; [exact Hin|apply N.eqb_refl]).
      rewrite H in H2. discriminate.
  - change (indep_b (x :: p') (y :: y2 :: q'') sib) with (negb (x =? y)%N || indep_b p' (y2 :: q'') sib) in H.
    change (indep (x :: p') (y :: y2 :: q'') sib) with (x <> y \/ (x = y /\ indep p' (y2 :: q'') sib)).
    destruct (x =? y)%N eqn:E.
    + apply N.eqb_eq in E. subst. cbn [negb orb] in H. right. split; [reflexivity|]. apply IH. exact H.
    + left. apply N.eqb_neq. exact E.
Qed.

Lemma props_separate_b_sound e props : props_separate_b e props = true -> props_separate e props.
Proof.
  intros H q1 q2 H1 H2 Hne Hq. unfold props_separate_b in H.
  rewrite forallb_forall in H. specialize (H q1 H1). rewrite forallb_forall in H. specialize (H q2 H2).
  rewrite Hne in H. cbn [orb] in H.
  destruct (p_path q1) as [|n1 r1] eqn:E1; [congruence|].
  unfold indep_prop_b in H. unfold indep_prop.
  destruct (p_path q2) as [|n2 r2] eqn:E2.
  - destruct (p_ty q2); try exact I. destruct (lookup e ref) as [[| ps |]|]; try exact I.
    rewrite forallb_forall in H. apply Forall_forall. intros q' Hq'. specialize (H q' Hq').
    destruct (p_path q') as [|n3 r3] eqn:E3; [discriminate|]. split; [discriminate|].
    apply indep_b_sound. exact H.
  - apply indep_b_sound. exact H.
Qed.

(* ---------------------------------------------------------------- document level, byte level *)
From J5V.proofs Require Import CodecDecTreeProofs.

(* JSONToProto succeeded on a document that the tokenizer reads as the object ms: every non-null
   member of the root object was decoded by its property's decoder, and the field it wrote is
   unchanged in the final message *)
Theorem document_members_stored orc e root props bs ms rest me m' :
  lookup e root = Some (SObject props) -> props_separate e props ->
  lex bs = (tokens_of (JObj ms) ++ rest, me) ->
  decode_bytes orc e root bs = Ok m' ->
  forall key v p, In (key, v) ms -> v <> JNull -> find_prop props key = Some p -> p_path p <> [] ->
  exists f0 m0 m1, tr_present orc e f0 1 p v m0 = Ok m1 /\ get_path (p_path p) m' = get_path (p_path p) m1.
Proof.
  intros Hl Hsep Hlex Hd key v p Hin Hv Hp Hq.
  rewrite (decode_bytes_tree orc e root bs (JObj ms) rest me Hlex) in Hd.
  unfold tr_decode in Hd. rewrite Hl in Hd.
  exact (member_survives orc e props Hsep _ 0%N ms [] [] m' Hd key v p Hin Hv Hp Hq).
Qed.

Theorem document_scalars_stored orc e root props bs ms rest me m' :
  lookup e root = Some (SObject props) -> props_separate e props ->
  lex bs = (tokens_of (JObj ms) ++ rest, me) ->
  decode_bytes orc e root bs = Ok m' ->
  forall key v p k, In (key, v) ms -> v <> JNull -> find_prop props key = Some p ->
    p_ty p = FScalar k -> p_path p <> [] ->
    exists x, scalar_from_go orc k (goval_of_json v) = Ok x /\ get_path (p_path p) m' = stored_scalar p x.
Proof.
  intros Hl Hsep Hlex Hd key v p k Hin Hv Hp Hk Hq.
  rewrite (decode_bytes_tree orc e root bs (JObj ms) rest me Hlex) in Hd.
  unfold tr_decode in Hd. rewrite Hl in Hd.
  exact (scalar_member_stored orc e props Hsep _ 0%N ms [] [] m' Hd key v p k Hin Hv Hp Hk Hq).
Qed.

(* CmpbComposeProofs.v — CompilePackage as a whole (model/CmpbOrder.v compile_and_link): loading with the
   package cache composed with linking with the SearchResult.Linked cache.  The link phase looks files up in
   whatever packages are loaded ([lookup_in pc]); under the package-cache invariant that is a restriction of
   the lookup the bundle alone determines ([spec_lookup]), and linking through a restriction returns what
   linking through the full lookup returns. *)
From Coq Require Import String List NArith Arith Bool Permutation Lia.
From J5V.model Require Import CmpbOrder.
From J5V.proofs Require Import CmpbOrderProofs.
Import ListNotations.

Lemma map_fst_combine_eq {A B} : forall (l : list A) (l' : list B), length l = length l' -> map fst (combine l l') = l.
Proof. induction l as [|a r IH]; intros [|b r'] H; cbn in *; try discriminate; [reflexivity|]. f_equal. apply IH. lia. Qed.
Lemma map_snd_combine_eq {A B} : forall (l : list A) (l' : list B), length l = length l' -> map snd (combine l l') = l'.
Proof. induction l as [|a r IH]; intros [|b r'] H; cbn in *; try discriminate; [reflexivity|]. f_equal. apply IH. lia. Qed.

(* ---- linking through a sub-lookup *)
Section LinkSub.
  Context {D L : Type}.
  Variable lookup1 lookup2 : bytes -> option D.
  Variable deps_of : D -> list bytes.
  Variable link1 : D -> list L -> L.
  Hypothesis Hsub : forall n d, lookup1 n = Some d -> lookup2 n = Some d.

  Notation ok2 := (link_cache_ok lookup2 deps_of link1).
  Notation spec2 := (spec_link lookup2 deps_of link1).
  Notation list2 := (spec_list lookup2 deps_of link1).

  Lemma link_loop_sub fuel :
    (forall c n c' l, ok2 c -> link_file lookup1 deps_of link1 fuel c n = Some (c', l) -> (exists f, spec2 f n = Some l) /\ ok2 c') ->
    forall ds c ls0 c' ls', ok2 c ->
      fold_left (link_step lookup1 deps_of link1 fuel) ds (Some (c, ls0)) = Some (c', ls') ->
      exists f ls, ls' = ls0 ++ ls /\ list2 f ds = Some ls /\ ok2 c'.
  Proof.
    intro IH. induction ds as [|d r IHd]; intros c ls0 c' ls' Hc Hf; cbn [fold_left] in Hf.
    - inversion Hf; subst. exists 0%nat, []. rewrite app_nil_r. split; [reflexivity|split; [reflexivity|exact Hc]].
    - cbn [link_step] in Hf. destruct (link_file lookup1 deps_of link1 fuel c d) as [[c1 l]|] eqn:El;
        [|rewrite link_step_none in Hf; discriminate].
      destruct (IH _ _ _ _ Hc El) as [[f1 Hs1] Hc1].
      destruct (IHd _ _ _ _ Hc1 Hf) as [f2 [ls [E [Hs2 Hc']]]].
      exists (Nat.max f1 f2), (l :: ls). split; [rewrite E, <- app_assoc; reflexivity|]. split; [|exact Hc'].
      cbn [spec_list fold_right]. fold (list2 (Nat.max f1 f2) r).
      rewrite (spec_link_mono _ _ _ _ _ _ Hs1 _ (Nat.le_max_l _ _)).
      rewrite (spec_list_mono _ _ _ _ _ _ Hs2 _ (Nat.le_max_r _ _)). reflexivity.
  Qed.

  Theorem link_file_sub : forall fuel c n c' l,
    ok2 c -> link_file lookup1 deps_of link1 fuel c n = Some (c', l) -> (exists f, spec2 f n = Some l) /\ ok2 c'.
  Proof.
    induction fuel as [|fuel IH]; intros c n c' l Hc Hl.
    - cbn [link_file] in Hl. destruct (map_get n c) as [l0|] eqn:G; [|discriminate].
      inversion Hl; subst. split; [apply (proj2 Hc); exact G|exact Hc].
    - cbn [link_file] in Hl. destruct (map_get n c) as [l0|] eqn:G.
      { inversion Hl; subst. split; [apply (proj2 Hc); exact G|exact Hc]. }
      destruct (lookup1 n) as [d|] eqn:Ed; [|discriminate].
      fold (link_step lookup1 deps_of link1 fuel) in Hl.
      destruct (fold_left (link_step lookup1 deps_of link1 fuel) (deps_of d) (Some (c, []))) as [[c1 ls]|] eqn:Ef; [|discriminate].
      destruct (link_loop_sub fuel IH _ _ _ _ _ Hc Ef) as [f [ls' [E [Hs Hc1]]]]. cbn [app] in E. subst ls'.
      inversion Hl; subst.
      assert (Hn : spec2 (S f) n = Some (link1 d ls)) by (rewrite spec_link_unfold, (Hsub _ _ Ed), Hs; reflexivity).
      split; [eauto|]. apply (link_cache_ok_set _ _ _ _ _ _ (S f)); assumption.
  Qed.

  Theorem link_all_sub : forall fuel names c c' ls,
    ok2 c -> link_all lookup1 deps_of link1 fuel c names = Some (c', ls) -> (exists f, list2 f names = Some ls) /\ ok2 c'.
  Proof.
    intros fuel. induction names as [|n r IH]; intros c c' ls Hc H; cbn [link_all] in H.
    - inversion H; subst. split; [exists 0%nat; reflexivity|exact Hc].
    - destruct (link_file lookup1 deps_of link1 fuel c n) as [[c1 l]|] eqn:El; [|discriminate].
      destruct (link_file_sub _ _ _ _ _ Hc El) as [[f1 Hs1] Hc1].
      destruct (link_all lookup1 deps_of link1 fuel c1 r) as [[c2 lr]|] eqn:Er; [|discriminate]. inversion H; subst.
      destruct (IH _ _ _ Hc1 Er) as [[f2 Hs2] Hc2]. split; [|exact Hc2].
      exists (Nat.max f1 f2). cbn [spec_list fold_right]. fold (list2 (Nat.max f1 f2) r).
      rewrite (spec_link_mono _ _ _ _ _ _ Hs1 _ (Nat.le_max_l _ _)).
      rewrite (spec_list_mono _ _ _ _ _ _ Hs2 _ (Nat.le_max_r _ _)). reflexivity.
  Qed.
End LinkSub.

(* ---- load composed with link *)
Section Compose.
  Context {F D L : Type}.
  Variable convert : env -> @srcfile F -> bytes -> D.
  Variable owner : bytes -> bytes.
  Variable is_local : bytes -> bool.
  Variable ext_file : bytes -> option D.
  Variable deps_of : D -> list bytes.
  Variable link1 : D -> list L -> L.

  (* findFileByPath as the bundle (and the dependency set) alone determine it *)
  Definition spec_lookup (b : @bundle F) (path : bytes) : option D :=
    if is_local path then map_get path (p_files (spec_pkg convert b (owner path))) else ext_file path.

  Lemma lookup_in_sub b pc : cache_ok convert b pc ->
    forall n d, lookup_in owner is_local ext_file pc n = Some d -> spec_lookup b n = Some d.
  Proof.
    intros [_ Hc] n d H. unfold lookup_in in H. unfold spec_lookup. destruct (is_local n); [|exact H].
    destruct (map_get (owner n) pc) as [p|] eqn:G; [|discriminate].
    rewrite <- (Hc _ _ G). exact H.
  Qed.

  Definition both_ok (b : @bundle F) (pc : list (bytes * @pkg D)) (lc : list (bytes * L)) : Prop :=
    cache_ok convert b pc /\ link_cache_ok (spec_lookup b) deps_of link1 lc.

  (* one CompilePackage call: whatever the two caches held (consistently), whatever the orders, what comes back
     is the package's file names (sorted) with what linking each yields through the bundle's own lookup, and
     both caches stay consistent *)
  Theorem compile_and_link_spec : forall lf rd rf,
    (forall n l, Permutation (lf n l) l) -> (forall n l, Permutation (rd n l) l) -> (forall n l, Permutation (rf n l) l) ->
    forall b, valid b -> forall fuel lfuel pc lc n pc' lc' out, both_ok b pc lc ->
      compile_and_link convert lf rd rf owner is_local ext_file deps_of link1 fuel lfuel b pc lc n = Some (pc', lc', out) ->
      both_ok b pc' lc'
      /\ map fst out = map fst (p_files (spec_pkg convert b n))
      /\ exists f, spec_list (spec_lookup b) deps_of link1 f (map fst (p_files (spec_pkg convert b n))) = Some (map snd out).
  Proof.
    intros lf rd rf P1 P2 P3 b Hv fuel lfuel pc lc n pc' lc' out [Hpc Hlc] H.
    unfold compile_and_link in H.
    destruct (compile_package convert lf rd rf fuel b pc n) as [[pc1 files]|] eqn:Ec; [|discriminate].
    destruct (compile_package_spec convert lf rd rf P1 P2 P3 b Hv _ _ _ _ _ Hpc Ec) as [Ef Hpc1]. subst files.
    destruct (link_all (lookup_in owner is_local ext_file pc1) deps_of link1 lfuel lc (map fst (p_files (spec_pkg convert b n)))) as [[lc1 ls]|] eqn:El; [|discriminate].
    inversion H; subst.
    destruct (link_all_sub (lookup_in owner is_local ext_file pc') (spec_lookup b) deps_of link1 (lookup_in_sub b pc' Hpc1) _ _ _ _ _ Hlc El) as [[f Hs] Hlc1].
    assert (Hlen : length ls = length (map fst (p_files (spec_pkg convert b n)))).
    { clear -Hs. revert ls Hs. induction (map fst (p_files (spec_pkg convert b n))) as [|x r IH]; intros ls Hs; cbn [spec_list fold_right] in Hs.
      - inversion Hs. reflexivity.
      - fold (spec_list (spec_lookup b) deps_of link1 f r) in Hs.
        destruct (spec_link (spec_lookup b) deps_of link1 f x); [|discriminate].
        destruct (spec_list (spec_lookup b) deps_of link1 f r) as [lr|]; [|discriminate]. inversion Hs; subst. cbn. f_equal. apply IH. reflexivity. }
    split; [split; assumption|]. split.
    - apply map_fst_combine_eq. symmetry. exact Hlen.
    - exists f. rewrite map_snd_combine_eq; [exact Hs|symmetry; exact Hlen].
  Qed.

  (* determinism of the whole call: any two consistent cache pairs (fresh = both empty), any orders, any fuels *)
  Theorem compile_and_link_deterministic : forall lf1 rd1 rf1 lf2 rd2 rf2,
    (forall n l, Permutation (lf1 n l) l) -> (forall n l, Permutation (rd1 n l) l) -> (forall n l, Permutation (rf1 n l) l) ->
    (forall n l, Permutation (lf2 n l) l) -> (forall n l, Permutation (rd2 n l) l) -> (forall n l, Permutation (rf2 n l) l) ->
    forall b, valid b -> forall f1 l1 f2 l2 pc1 lc1 pc2 lc2 n r1 r2 o1 o2 s1 s2,
      both_ok b pc1 lc1 -> both_ok b pc2 lc2 ->
      compile_and_link convert lf1 rd1 rf1 owner is_local ext_file deps_of link1 f1 l1 b pc1 lc1 n = Some (r1, s1, o1) ->
      compile_and_link convert lf2 rd2 rf2 owner is_local ext_file deps_of link1 f2 l2 b pc2 lc2 n = Some (r2, s2, o2) ->
      o1 = o2.
  Proof.
    intros lf1 rd1 rf1 lf2 rd2 rf2 P1 P2 P3 P4 P5 P6 b Hv f1 l1 f2 l2 pc1 lc1 pc2 lc2 n r1 r2 o1 o2 s1 s2 H1 H2 E1 E2.
    destruct (compile_and_link_spec lf1 rd1 rf1 P1 P2 P3 b Hv _ _ _ _ _ _ _ _ H1 E1) as (_ & N1 & g1 & S1).
    destruct (compile_and_link_spec lf2 rd2 rf2 P4 P5 P6 b Hv _ _ _ _ _ _ _ _ H2 E2) as (_ & N2 & g2 & S2).
    pose proof (spec_list_functional _ _ _ _ _ _ _ _ S1 S2) as Es.
    clear -N1 N2 Es. rewrite <- N2 in N1. clear N2.
    revert o2 N1 Es. induction o1 as [|[a x] r IH]; intros [|[c y] s] N E; cbn in *; try discriminate; [reflexivity|].
    inversion N; inversion E; subst. f_equal. apply IH; assumption.
  Qed.

  (* a history of calls keeps both caches consistent, whatever happened in it *)
  Lemma compile_link_seq_ok : forall lf rd rf,
    (forall n l, Permutation (lf n l) l) -> (forall n l, Permutation (rd n l) l) -> (forall n l, Permutation (rf n l) l) ->
    forall b, valid b -> forall fuel lfuel calls pc lc, both_ok b pc lc ->
      both_ok b (fst (compile_link_seq convert lf rd rf owner is_local ext_file deps_of link1 fuel lfuel b pc lc calls))
                (snd (compile_link_seq convert lf rd rf owner is_local ext_file deps_of link1 fuel lfuel b pc lc calls)).
  Proof.
    intros lf rd rf P1 P2 P3 b Hv fuel lfuel. induction calls as [|n r IH]; intros pc lc Hok; cbn [compile_link_seq]; [exact Hok|].
    destruct (compile_and_link convert lf rd rf owner is_local ext_file deps_of link1 fuel lfuel b pc lc n) as [[[pc1 lc1] o]|] eqn:E.
    - apply IH. exact (proj1 (compile_and_link_spec lf rd rf P1 P2 P3 b Hv _ _ _ _ _ _ _ _ Hok E)).
    - apply IH. exact Hok.
  Qed.
  Lemma both_ok_nil b : both_ok b [] [].
  Proof. split; [apply cache_ok_nil|apply link_cache_ok_nil]. Qed.

  (* the C14 statement for CompilePackage as a whole: the same bundle, ANY file-listing / map-iteration orders, ANY
     fuels, ANY histories of earlier CompilePackage calls on the PackageSet (fresh = empty history), both caches
     (loaded packages, linked files) in play: two calls that return, return the same linked files in the same order *)
  Theorem compile_package_linked_deterministic : forall lf1 rd1 rf1 lf2 rd2 rf2,
    (forall n l, Permutation (lf1 n l) l) -> (forall n l, Permutation (rd1 n l) l) -> (forall n l, Permutation (rf1 n l) l) ->
    (forall n l, Permutation (lf2 n l) l) -> (forall n l, Permutation (rd2 n l) l) -> (forall n l, Permutation (rf2 n l) l) ->
    forall b, valid b -> forall f1 l1 f2 l2 earlier1 earlier2 n r1 r2 s1 s2 o1 o2,
      let h1 := compile_link_seq convert lf1 rd1 rf1 owner is_local ext_file deps_of link1 f1 l1 b [] [] earlier1 in
      let h2 := compile_link_seq convert lf2 rd2 rf2 owner is_local ext_file deps_of link1 f2 l2 b [] [] earlier2 in
      compile_and_link convert lf1 rd1 rf1 owner is_local ext_file deps_of link1 f1 l1 b (fst h1) (snd h1) n = Some (r1, s1, o1) ->
      compile_and_link convert lf2 rd2 rf2 owner is_local ext_file deps_of link1 f2 l2 b (fst h2) (snd h2) n = Some (r2, s2, o2) ->
      o1 = o2.
  Proof.
    intros lf1 rd1 rf1 lf2 rd2 rf2 P1 P2 P3 P4 P5 P6 b Hv f1 l1 f2 l2 e1 e2 n r1 r2 s1 s2 o1 o2 h1 h2 E1 E2.
    eapply (compile_and_link_deterministic lf1 rd1 rf1 lf2 rd2 rf2 P1 P2 P3 P4 P5 P6 b Hv); [| |exact E1|exact E2].
    - apply compile_link_seq_ok; try assumption. apply both_ok_nil.
    - apply compile_link_seq_ok; try assumption. apply both_ok_nil.
  Qed.
End Compose.

(* ---- totality of the link phase: when the import relation between files is well founded (a rank that decreases
   along Dependency lists) and every imported file can be found, linking returns with more fuel than the rank.
   (The Go code needs no fuel: it recurses along the same relation and reports a circular file import.) *)
Section LinkTotal.
  Context {D L : Type}.
  Variable lookup : bytes -> option D.
  Variable deps_of : D -> list bytes.
  Variable link1 : D -> list L -> L.
  Variable rank : bytes -> nat.
  Hypothesis Hwf : forall n d, lookup n = Some d -> forall dep, In dep (deps_of d) -> lookup dep <> None /\ (rank dep < rank n)%nat.

  Lemma link_deps_total fuel :
    (forall c n, lookup n <> None -> (rank n < fuel)%nat -> exists c' l, link_file lookup deps_of link1 fuel c n = Some (c', l)) ->
    forall ds c ls, (forall dep, In dep ds -> lookup dep <> None /\ (rank dep < fuel)%nat) ->
      exists c' ls', fold_left (link_step lookup deps_of link1 fuel) ds (Some (c, ls)) = Some (c', ls').
  Proof.
    intro IH. induction ds as [|d r IHd]; intros c ls Hd; cbn [fold_left]; [eauto|].
    destruct (Hd d (or_introl eq_refl)) as [Hl Hr].
    destruct (IH c d Hl Hr) as [c1 [l E]]. cbn [link_step]. rewrite E.
    apply IHd. intros dep Hin. apply Hd. right. exact Hin.
  Qed.

  Theorem link_file_total : forall fuel c n, lookup n <> None -> (rank n < fuel)%nat ->
    exists c' l, link_file lookup deps_of link1 fuel c n = Some (c', l).
  Proof.
    induction fuel as [|fuel IH]; intros c n Hl Hr; [lia|].
    cbn [link_file]. destruct (map_get n c) as [l0|]; [eauto|].
    destruct (lookup n) as [d|] eqn:Ed; [|contradiction].
    fold (link_step lookup deps_of link1 fuel).
    destruct (link_deps_total fuel (fun c n => IH c n) (deps_of d) c []) as [c1 [ls E]].
    { intros dep Hin. destruct (Hwf n d Ed dep Hin) as [H1 H2]. split; [exact H1|lia]. }
    rewrite E. eauto.
  Qed.

  Theorem link_all_total : forall fuel names c, (forall n, In n names -> lookup n <> None /\ (rank n < fuel)%nat) ->
    exists c' ls, link_all lookup deps_of link1 fuel c names = Some (c', ls).
  Proof.
    intros fuel. induction names as [|n r IH]; intros c Hn; cbn [link_all]; [eauto|].
    destruct (Hn n (or_introl eq_refl)) as [Hl Hr].
    destruct (link_file_total fuel c n Hl Hr) as [c1 [l E]]. rewrite E.
    destruct (IH c1 (fun x Hx => Hn x (or_intror Hx))) as [c2 [ls E2]]. rewrite E2. eauto.
  Qed.
End LinkTotal.

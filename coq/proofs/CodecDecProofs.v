(* CodecDecProofs.v — lemmas about the decoder model (C06: totality). *)
From Coq Require Import String List NArith ZArith Bool Lia ZifyN ZifyNat ZifyBool.
From J5V.lib Require Import Outcome Json.
From J5V.model Require Import CodecTypes CodecDecScalar CodecDec.
From J5V.gen Require SwitchGen.
Import ListNotations.

(* ================================================================ agreement with the Go source
   The tables below are read from /repo's Go AST by harness/cmd/gen_codecdec on every run. *)
Lemma gen_value_arms_agree : model_value_arms = SwitchGen.value_arms.
Proof. vm_compute. reflexivity. Qed.
Lemma gen_number_assert_agree : model_number_assert = SwitchGen.number_assert.
Proof. vm_compute. reflexivity. Qed.
Lemma gen_decode_value_arms_agree : model_decode_value_arms = SwitchGen.decode_value_arms.
Proof. vm_compute. reflexivity. Qed.
Lemma gen_null_handling_agree : model_null_handling = SwitchGen.null_handling.
Proof. vm_compute. reflexivity. Qed.
Lemma gen_oneof_type_only_returns_agree : model_oneof_type_only_returns = SwitchGen.oneof_type_only_returns.
Proof. vm_compute. reflexivity. Qed.
Lemma gen_append_guard_agree : model_append_go_value_guarded = SwitchGen.append_go_value_guarded.
Proof. vm_compute. reflexivity. Qed.
Lemma gen_map_set_guard_agree : model_map_set_go_value_guarded = SwitchGen.map_set_go_value_guarded.
Proof. vm_compute. reflexivity. Qed.
Lemma gen_int_string_err_agree : model_int_string_err_returned = SwitchGen.int_string_err_returned.
Proof. vm_compute. reflexivity. Qed.
Lemma gen_uint64_number_agree : model_uint64_number_parse_uint = SwitchGen.uint64_number_parse_uint.
Proof. vm_compute. reflexivity. Qed.
Lemma gen_enum_exact_first_agree : model_enum_exact_match_first = SwitchGen.enum_exact_match_first.
Proof. vm_compute. reflexivity. Qed.
Lemma gen_date_validates_agree : model_date_validates_calendar = SwitchGen.date_validates_calendar.
Proof. vm_compute. reflexivity. Qed.
Lemma gen_depth_guard_agree : model_decode_value_depth_guard = SwitchGen.decode_value_depth_guard /\ max_nesting_depth = SwitchGen.max_nesting_depth.
Proof. vm_compute. split; reflexivity. Qed.
Lemma gen_decimal_exponent_agree : max_decimal_exponent = SwitchGen.max_decimal_exponent /\ model_decimal_exponent_guard = SwitchGen.decimal_exponent_guard.
Proof. vm_compute. split; reflexivity. Qed.
Lemma gen_oneof_conflict_agree : model_create_field_checks_oneof = SwitchGen.create_field_checks_oneof.
Proof. vm_compute. reflexivity. Qed.
Lemma gen_leaf_map_dup_agree : model_leaf_map_dup_key_rejected = SwitchGen.leaf_map_dup_key_rejected.
Proof. vm_compute. reflexivity. Qed.
Lemma gen_value_kind_checked_agree : model_value_kind_checked = SwitchGen.value_kind_checked.
Proof. vm_compute. reflexivity. Qed.

(* every explicit panic( the translator finds in the decoder's files has been reviewed *)
Definition site_eqb (a b : string * string * string) : bool :=
  String.eqb (fst (fst a)) (fst (fst b)) && String.eqb (snd (fst a)) (snd (fst b)) && String.eqb (snd a) (snd b).
Lemma gen_panic_sites_reviewed :
  forallb (fun s => existsb (fun r => site_eqb s (fst r)) reviewed_panic_sites) SwitchGen.panic_sites = true.
Proof. vm_compute. reflexivity. Qed.

(* every unchecked type assertion the translator finds in the decoder's files has been reviewed *)
Lemma gen_type_assertions_reviewed :
  forallb (fun s => existsb (fun r => site_eqb s (fst r)) reviewed_type_assertions) SwitchGen.unchecked_type_assertions = true.
Proof. vm_compute. reflexivity. Qed.

(* the outer switch of scalarReflectFromGo has an arm for every kind the model converts, and no arm
   the model does not know (\"Any\": a scalar schema of type any is never built by the reflector) *)
Lemma gen_scalar_kinds_agree :
  forallb (fun k => existsb (String.eqb (kind_group k)) SwitchGen.scalar_kinds) all_scalar_kinds = true /\
  forallb (fun s => String.eqb s "Any" || String.eqb s "default" ||
                    existsb (fun k => String.eqb (kind_group k) s) all_scalar_kinds) SwitchGen.scalar_kinds = true.
Proof. vm_compute. split; reflexivity. Qed.

Lemma gen_set_value_clears_agree : model_set_value_clears_invalid = SwitchGen.set_value_clears_invalid.
Proof. vm_compute. reflexivity. Qed.

(* the model's behaviour per dynamic type is the one the generated switch table describes:
   a Go type is handled (no type error) exactly when the kind's switch has an arm for it
   (json.Number additionally through the plain assertion of the integer arm), and nil yields
   an invalid Value with a nil error exactly where there is a `case nil` *)
Definition number_handled_by_table (k : scalar_kind) : bool :=
  has_arm SwitchGen.value_arms k "json.Number" || existsb (String.eqb (kind_group k)) SwitchGen.number_assert.
Lemma switch_table_describes_model :
  forallb (fun k =>
    Bool.eqb (handles k (GStr [])) (has_arm SwitchGen.value_arms k "string") &&
    Bool.eqb (handles k (GBool true)) (has_arm SwitchGen.value_arms k "bool") &&
    Bool.eqb (handles k (GNum [48%N])) (number_handled_by_table k) &&
    Bool.eqb (handles k GNil) (has_arm SwitchGen.value_arms k "nil") &&
    Bool.eqb (nil_gives_invalid k) (has_arm SwitchGen.value_arms k "nil")) all_scalar_kinds = true.
Proof. vm_compute. reflexivity. Qed.

(* ================================================================ totality *)
Definition safe {A} (o : outcome A) : Prop :=
  match o with Panic _ | OutOfFuel => False | _ => True end.

(* safe, and on success the remaining tokens are no more than [n] *)
Definition okish {A} (n : nat) (o : outcome (A * list token)) : Prop :=
  match o with
  | Ok (_, ts') => (length ts' <= n)%nat
  | Err _ => True
  | Panic _ | OutOfFuel => False
  end.

Lemma okish_safe {A} n (o : outcome (A * list token)) : okish n o -> safe o.
Proof. destruct o as [[? ?]| | |]; cbn; auto. Qed.

Lemma okish_mono {A} n n' (o : outcome (A * list token)) : (n <= n')%nat -> okish n o -> okish n' o.
Proof. destruct o as [[? ?]| | |]; cbn; auto. lia. Qed.

Lemma okish_bind {A B} n n' (o : outcome (A * list token)) (k : A * list token -> outcome (B * list token)) :
  okish n' o ->
  (forall a ts', (length ts' <= n')%nat -> okish n (k (a, ts'))) ->
  okish n (obind o k).
Proof. destruct o as [[a ts']| | |]; cbn; intros Ho Hk; auto; contradiction. Qed.

Lemma safe_bind {A B} (o : outcome A) (k : A -> outcome B) (Q : outcome B -> Prop) :
  (forall c, Q (Err c)) -> safe o -> (forall a, o = Ok a -> Q (k a)) -> Q (obind o k).
Proof. destruct o; cbn; intros HE HS HK; auto; contradiction. Qed.

Lemma okish_err {A} n c : @okish A n (Err c).
Proof. exact I. Qed.
Lemma safe_err {A} c : @safe A (Err c).
Proof. exact I. Qed.
#[local] Hint Resolve okish_err safe_err : core.

Lemma next_token_spec ts : safe (next_token ts) /\
  forall t r, next_token ts = Ok (t, r) -> ts = t :: r.
Proof. destruct ts; cbn; split; auto; intros; congruence. Qed.

Lemma expect_spec d ts : safe (expect d ts) /\
  forall r, expect d ts = Ok r -> ts = d :: r \/ (exists t, ts = t :: r).
Proof.
  destruct ts as [|t r]; cbn; split; auto; try congruence.
  - destruct (token_eqb t d); exact I.
  - intros r' H. destruct (token_eqb t d); inversion H; subst. right. eauto.
Qed.

Lemma expect_len d ts r : expect d ts = Ok r -> length ts = S (length r).
Proof.
  destruct ts as [|t r']; cbn; try congruence.
  destruct (token_eqb t d); intros H; inversion H; subst; reflexivity.
Qed.

Lemma next_token_len ts t r : next_token ts = Ok (t, r) -> length ts = S (length r).
Proof. destruct ts; cbn; intros H; inversion H; subst; reflexivity. Qed.

(* ---------------------------------------------------------------- scalars *)
Lemma int_from_go_safe k v : safe (int_from_go k v).
Proof.
  destruct k, v; cbn; auto;
    repeat match goal with
           | |- context[match ?c with Some _ => _ | None => _ end] => destruct c
           | |- context[if ?c then _ else _] => destruct c
           end; cbn; auto.
Qed.

Lemma float_from_go_safe orc k v : safe (float_from_go orc k v).
Proof.
  unfold float_from_go. apply safe_bind; auto.
  - destruct v; cbn; auto.
  - intros a _. destruct k; cbn; auto;
      match goal with |- context[match ?c with Some _ => _ | None => _ end] => destruct c end; cbn; auto.
Qed.

Lemma scalar_from_go_safe orc k v : safe (scalar_from_go orc k v).
Proof.
  destruct k; cbn [scalar_from_go];
    try apply int_from_go_safe; try apply float_from_go_safe;
    destruct v; cbn; auto;
    repeat match goal with
           | |- context[match ?c with Some _ => _ | None => _ end] => destruct c
           | |- context[let '(_, _) := ?c in _] => destruct c
           | |- context[if ?c then _ else _] => destruct c
           end; cbn; auto.
Qed.

(* the guards in front of the two protoreflect panic sites *)
Lemma append_go_value_safe orc k t l : safe (append_go_value orc k t l).
Proof.
  unfold append_go_value. apply safe_bind; auto using scalar_from_go_safe.
  intros [x|] _; cbn; auto.
Qed.

Lemma map_set_go_value_safe orc k key t es : safe (map_set_go_value orc k key t es).
Proof.
  unfold map_set_go_value. apply safe_bind; auto using scalar_from_go_safe.
  intros [x|] _; cbn; auto.
Qed.

(* ---------------------------------------------------------------- with_holder *)
Lemma with_holder_safe {A} path m (k : N -> msg -> outcome (msg * A)) :
  (forall n h, safe (k n h)) -> safe (with_holder path m k).
Proof.
  intros Hk. revert m. induction path as [|n rest IH]; intros m; cbn; auto.
  destruct rest as [|n2 rest']; [apply Hk|].
  destruct (msg_mutable [] n m) as [sub m1].
  apply safe_bind; auto. intros; exact I.
Qed.

Lemma with_holder_okish path m N0 (k : N -> msg -> outcome (msg * list token)) :
  (forall n h, okish N0 (k n h)) -> okish N0 (with_holder path m k).
Proof.
  intros Hk. revert m. induction path as [|n rest IH]; intros m; cbn; auto.
  destruct rest as [|n2 rest']; [apply Hk|].
  destruct (msg_mutable [] n m) as [sub m1].
  specialize (IH sub). destruct (with_holder (n2 :: rest') sub k) as [[m' ts']| | |]; cbn in *; auto.
Qed.

Lemma create_effect_safe p m : safe (create_effect p m).
Proof.
  unfold create_effect. destruct (p_path p) as [|n l]; [exact I|].
  destruct (p_ty p); unfold omap; apply safe_bind; auto; try (intros; exact I);
    apply with_holder_safe; intros; exact I.
Qed.

(* the index site of decodeOneofInner is reached only with exactly one found key *)
Lemma oneof_post_safe props m found constrain : safe (oneof_post props m found constrain).
Proof.
  unfold oneof_post.
  destruct found as [|k0 [|k1 rest]]; cbn.
  - destruct constrain; cbn; auto. destruct (find_prop props b); cbn; auto using create_effect_safe.
  - destruct constrain; cbn; auto. destruct (bytes_eqb k0 b); cbn; auto.
  - replace (1 <? N.pos (Pos.succ (Pos.of_succ_nat (length rest))))%N with true; cbn; auto.
    symmetry. apply N.ltb_lt. lia.
Qed.

(* ---------------------------------------------------------------- the recursive descent *)
#[local] Arguments split_value : simpl never.
#[local] Arguments oneof_post : simpl never.
#[local] Arguments scalar_from_go : simpl never.
#[local] Arguments append_go_value : simpl never.
#[local] Arguments map_set_go_value : simpl never.
#[local] Arguments with_holder : simpl never.
#[local] Arguments member_with : simpl never.
Section Totality.
  Variable orc : oracles.
  Variable e : env.
  Variable me : bool.

  (* everything below one level of fuel *)
  Definition level_ok (f : nat) : Prop :=
    (forall d p ts m, (length ts < f)%nat -> okish (length ts) (decode_present orc e me f d p ts m)) /\
    (forall d props ts m seen, (length ts < f)%nat -> okish (length ts) (object_body orc e me f d props ts m seen)) /\
    (forall d props ts m seen found c, (length ts < f)%nat -> okish (length ts) (oneof_body orc e me f d props ts m seen found c)) /\
    (forall d item ts acc, (length ts < f)%nat -> okish (length ts) (array_items orc e me f d item ts acc)) /\
    (forall d item ts acc, (length ts < f)%nat -> okish (length ts) (map_items orc e me f d item ts acc)).

  Lemma any_body_ok f : forall ts value ty, (length ts < f)%nat ->
    match any_body me f ts value ty with
    | Ok (_, _, ts') => (length ts' <= length ts)%nat
    | Err _ => True
    | _ => False
    end.
  Proof.
    induction f as [|f IH]; intros ts value ty Hlen; [lia|].
    cbn [any_body]. destruct (has_more me ts); [|lia].
    destruct ts as [|t r]; cbn; auto.
    destruct t; auto.
    destruct (bytes_eqb s type_key).
    - destruct r as [|t2 r2]; cbn; auto. destruct t2; auto.
      specialize (IH r2 value (Some s0)). cbn in Hlen.
      destruct (any_body me f r2 value (Some s0)) as [[[ov oty] orest]| | |]; cbn in *; auto; try (apply IH; lia).
      assert (length orest <= length r2)%nat by (apply IH; lia). lia.
    - destruct value; auto.
      destruct (split_value r) as [[[vtoks rst] dpth]|] eqn:Es; auto.
      destruct (max_scan_depth <? dpth)%N; auto.
      assert (Hr : (length rst <= length r)%nat).
      { clear -Es. unfold split_value in Es.
        assert (G : forall ts d mx acc v1 r1 d1,
                   split_go ts d mx acc = Some (v1, r1, d1) -> (length r1 <= length ts)%nat).
        { induction ts as [|t ts IHts]; intros d mx acc v1 r1 d1 H; cbn in H; [discriminate|].
          destruct t;
            try (destruct (d =? 0)%N; [inversion H; subst; cbn; lia | apply IHts in H; cbn; lia]);
            try (apply IHts in H; cbn; lia);
            try (destruct (d =? 0)%N; [discriminate|];
                 destruct (d =? 1)%N; [inversion H; subst; cbn; lia | apply IHts in H; cbn; lia]). }
        eapply G; eauto. }
      specialize (IH rst (Some vtoks) ty). cbn in Hlen.
      destruct (any_body me f rst (Some vtoks) ty) as [[[ov oty] orest]| | |]; cbn in *; auto; try (apply IH; lia).
      assert (length orest <= length rst)%nat by (apply IH; lia). lia.
  Qed.

  Ltac use_len :=
    repeat match goal with
           | H : next_token _ = Ok (_, _) |- _ => apply next_token_len in H
           | H : expect _ _ = Ok _ |- _ => apply expect_len in H
           end.

  Lemma member_with_bind {B} f d p ts m seen n
        (dp : list token -> msg -> outcome (msg * list token))
        (k : msg * list token * list bytes -> outcome (B * list token)) :
    (forall ts m, (length ts < f)%nat -> okish (length ts) (dp ts m)) ->
    (length ts < f)%nat ->
    (forall m' ts' seen', (length ts' <= length ts)%nat -> okish n (k (m', ts', seen'))) ->
    okish n (obind (member_with d dp p ts m seen) k).
  Proof.
    intros Hdp Hlen Hk. unfold member_with.
    destruct (max_nesting_depth <? d + 1)%N; [exact I|].
    destruct ts as [|t r]; [exact I|].
    assert (G : okish n (obind (if mem_bytes (p_json p) seen then Err "field is already set"%string
                       else if oneof_conflict p m then Err "conflicts with another member of the same proto oneof"%string
                       else obind (dp (t :: r) m) (fun r0 => Ok (fst r0, snd r0, p_json p :: seen))) k)).
    { destruct (mem_bytes (p_json p) seen); [exact I|].
      destruct (oneof_conflict p m); [exact I|].
      specialize (Hdp (t :: r) m Hlen).
      destruct (dp (t :: r) m) as [[m' ts']| | |]; cbn in *; auto. }
    destruct t; auto. cbn [obind]. apply Hk. cbn. lia.
  Qed.

  Lemma any_body_bind {B} f ts n (k : option (list token) * option bytes * list token -> outcome (B * list token)) :
    (length ts < f)%nat ->
    (forall v ty ts', (length ts' <= length ts)%nat -> okish n (k (v, ty, ts'))) ->
    okish n (obind (any_body me f ts None None) k).
  Proof.
    intros Hlen Hk. pose proof (any_body_ok f ts None None Hlen) as H.
    destruct (any_body me f ts None None) as [[[v ty] ts']| | |]; cbn [obind]; auto; try contradiction.
  Qed.

  Ltac tok_step := apply safe_bind; [auto | apply next_token_spec | intros [? ?] ?; cbn [fst snd]; use_len].
  Ltac exp_step := apply safe_bind; [auto | apply expect_spec | intros ? ?; use_len].

  Lemma level_step f : level_ok f -> level_ok (S f).
  Proof.
    intros (Hdp & Hob & Hoo & Har & Hmp).
    (* decode_present *)
    assert (Hdp' : forall d p ts m, (length ts < S f)%nat -> okish (length ts) (decode_present orc e me (S f) d p ts m)).
    { intros d p ts m Hlen. cbn [decode_present]. destruct (p_ty p) as [k|ref|ref|ref|item|item|pb].
      - (* scalar *)
        tok_step. destruct (is_delim t); auto.
        apply safe_bind; auto using scalar_from_go_safe. intros v _.
        apply safe_bind; auto.
        + apply with_holder_safe. intros; destruct v; exact I.
        + intros [m' u] _. cbn. lia.
      - (* enum *)
        tok_step. destruct t; auto. destruct (lookup e ref) as [[| |prefix opts]|]; auto.
        destruct (option_by_name prefix opts s); auto.
        apply safe_bind; auto.
        + apply with_holder_safe. intros; exact I.
        + intros [m' u] _. cbn. lia.
      - (* object *)
        exp_step. destruct (lookup e ref) as [[props| |]|]; auto.
        apply with_holder_okish. intros n h. destruct (msg_mutable (p_siblings p) n h) as [sub h1].
        eapply okish_bind; [apply Hob; lia|]. intros m' r' Hb. cbn [fst snd].
        exp_step. cbn. lia.
      - (* oneof *)
        exp_step. destruct (lookup e ref) as [[|props|]|]; auto.
        destruct (p_path p) as [|n0 path0] eqn:Ep.
        + eapply okish_bind; [apply Hoo; lia|]. intros m' r' Hb. cbn [fst snd].
          exp_step. cbn. lia.
        + apply with_holder_okish. intros n h. destruct (msg_mutable (p_siblings p) n h) as [sub h1].
          eapply okish_bind; [apply Hoo; lia|]. intros m' r' Hb. cbn [fst snd].
          exp_step. cbn. lia.
      - (* array *)
        exp_step.
        assert (G : okish (length ts) (with_holder (p_path p) m (fun n h =>
                     let existing := match msg_get n h with Some (VList l) => l | _ => [] end in
                     obind (array_items orc e me f d item a existing) (fun lr =>
                       obind (expect TCloseArr (snd lr)) (fun r2 =>
                         Ok (msg_set true (p_siblings p) n (VList (fst lr)) h, r2)))))).
        { apply with_holder_okish. intros n h. cbn zeta.
          eapply okish_bind; [apply Har; lia|]. intros l' r' Hb. cbn [fst snd].
          exp_step. cbn. lia. }
        destruct item; auto.
      - (* map *)
        exp_step.
        assert (G : okish (length ts) (with_holder (p_path p) m (fun n h =>
                     let existing := match msg_get n h with Some (VMap l) => l | _ => [] end in
                     obind (map_items orc e me f d item a existing) (fun lr =>
                       obind (expect TCloseObj (snd lr)) (fun r2 =>
                         Ok (msg_set true (p_siblings p) n (VMap (fst lr)) h, r2)))))).
        { apply with_holder_okish. intros n h. cbn zeta.
          eapply okish_bind; [apply Hmp; lia|]. intros l' r' Hb. cbn [fst snd].
          exp_step. cbn. lia. }
        destruct item; auto.
      - (* any *)
        exp_step.
        apply with_holder_okish. intros n h. destruct (msg_mutable (p_siblings p) n h) as [sub h1].
        apply any_body_bind; [lia|]. intros value ty rest Hb.
        destruct ty; auto. destruct value; auto. destruct pb; auto.
        exp_step. cbn. lia. }
    (* object_body *)
    assert (Hob' : forall d props ts m seen, (length ts < S f)%nat -> okish (length ts) (object_body orc e me (S f) d props ts m seen)).
    { intros d props ts m seen Hlen. cbn [object_body]. destruct (has_more me ts); [|cbn; lia].
      tok_step. destruct t; auto. destruct (find_prop props s) as [p|]; auto.
      eapply member_with_bind; [apply Hdp | lia |]. intros m' rest seen' Hm.
      eapply okish_mono; [|apply Hob]; lia. }
    (* oneof_body *)
    assert (Hoo' : forall d props ts m seen found c, (length ts < S f)%nat -> okish (length ts) (oneof_body orc e me (S f) d props ts m seen found c)).
    { intros d props ts m seen found c Hlen. cbn [oneof_body]. destruct (has_more me ts).
      - tok_step. destruct t; auto. destruct (bytes_eqb s type_key).
        + tok_step. destruct t; auto. eapply okish_mono; [|apply Hoo]; lia.
        + destruct (find_prop props s) as [p|]; auto.
          eapply member_with_bind; [apply Hdp | lia |]. intros m' rest seen' Hm.
          eapply okish_mono; [|apply Hoo]; lia.
      - apply safe_bind; auto using oneof_post_safe. intros m' _. cbn. lia. }
    (* array_items *)
    assert (Har' : forall d item ts acc, (length ts < S f)%nat -> okish (length ts) (array_items orc e me (S f) d item ts acc)).
    { intros d item ts acc Hlen. cbn [array_items]. destruct (has_more me ts); [|cbn; lia].
      destruct item as [k|ref|ref|ref|it|it|pb]; auto.
      - tok_step. destruct (is_delim t); auto.
        apply safe_bind; auto using append_go_value_safe. intros acc' _.
        eapply okish_mono; [|apply Har]; lia.
      - tok_step. destruct (is_delim t); auto. destruct t; auto.
        destruct (lookup e ref) as [[| |prefix opts]|]; auto.
        destruct (option_by_name prefix opts s); auto. cbn [list_append obind].
        eapply okish_mono; [|apply Har]; lia.
      - destruct (lookup e ref) as [[props| |]|]; auto.
        exp_step.
        eapply okish_bind; [apply Hob; lia|]. intros m' r' Hb. cbn [fst snd].
        exp_step. eapply okish_mono; [|apply Har]; lia.
      - destruct (lookup e ref) as [[|props|]|]; auto.
        exp_step.
        eapply okish_bind; [apply Hoo; lia|]. intros m' r' Hb. cbn [fst snd].
        exp_step. eapply okish_mono; [|apply Har]; lia. }
    (* map_items *)
    assert (Hmp' : forall d item ts acc, (length ts < S f)%nat -> okish (length ts) (map_items orc e me (S f) d item ts acc)).
    { intros d item ts acc Hlen. cbn [map_items]. destruct (has_more me ts); [|cbn; lia].
      tok_step. destruct t; auto.
      destruct item as [k|ref|ref|ref|it|it|pb]; auto.
      - destruct (map_get s acc); auto.
        tok_step. destruct (is_delim t); auto.
        apply safe_bind; auto using map_set_go_value_safe. intros acc' _.
        eapply okish_mono; [|apply Hmp]; lia.
      - destruct (map_get s acc); auto.
        tok_step. destruct t; auto.
        destruct (lookup e ref) as [[| |prefix opts]|]; auto.
        destruct (option_by_name prefix opts s0); auto. cbn [map_set_value obind].
        eapply okish_mono; [|apply Hmp]; lia.
      - destruct (map_get s acc); auto.
        destruct (lookup e ref) as [[props| |]|]; auto.
        exp_step.
        eapply okish_bind; [apply Hob; lia|]. intros m' r' Hb. cbn [fst snd].
        exp_step. eapply okish_mono; [|apply Hmp]; lia.
      - destruct (map_get s acc); auto.
        destruct (lookup e ref) as [[|props|]|]; auto.
        exp_step.
        eapply okish_bind; [apply Hoo; lia|]. intros m' r' Hb. cbn [fst snd].
        exp_step. eapply okish_mono; [|apply Hmp]; lia. }
    repeat split; assumption.
  Qed.

  Lemma level_all f : level_ok f.
  Proof.
    induction f as [|f IH]; [|apply level_step; exact IH].
    repeat split; intros; lia.
  Qed.

  (* Codec.JSONToProto on any token stream: never a panic, and any fuel above the token count suffices *)
  Lemma decode_tokens_safe_fuel fuel root ts : (length ts < fuel)%nat -> safe (decode_tokens orc e me fuel root ts).
  Proof.
    intros Hfuel. unfold decode_tokens. destruct (lookup e root) as [[props|props|]|]; try exact I.
    - apply safe_bind; auto; [apply expect_spec|]. intros r Hr. apply expect_len in Hr.
      destruct (level_all fuel) as (_ & Hob & _).
      assert (Hb := Hob 0%N props r [] [] ltac:(lia)).
      destruct (object_body orc e me fuel 0 props r [] []) as [[m' r']| | |]; cbn [okish] in Hb; try contradiction; [|exact I].
      cbn [obind fst snd]. apply safe_bind; auto; [apply expect_spec|]. intros; exact I.
    - apply safe_bind; auto; [apply expect_spec|]. intros r Hr. apply expect_len in Hr.
      destruct (level_all fuel) as (_ & _ & Hoo & _).
      assert (Hb := Hoo 0%N props r [] [] [] None ltac:(lia)).
      destruct (oneof_body orc e me fuel 0 props r [] [] [] None) as [[m' r']| | |]; cbn [okish] in Hb; try contradiction; [|exact I].
      cbn [obind fst snd]. apply safe_bind; auto; [apply expect_spec|]. intros; exact I.
  Qed.

  Lemma decode_tokens_safe root ts : safe (decode_tokens orc e me (S (length ts)) root ts).
  Proof. apply decode_tokens_safe_fuel. lia. Qed.
End Totality.

Lemma safe_iff {A} (o : outcome A) : safe o <-> is_panic o = false /\ o <> OutOfFuel.
Proof. destruct o; cbn; split; intros H; try tauto; try (split; congruence); destruct H; congruence. Qed.

Theorem decode_tokens_total orc e me root ts :
  is_panic (decode_tokens orc e me (S (length ts)) root ts) = false /\
  decode_tokens orc e me (S (length ts)) root ts <> OutOfFuel.
Proof. apply safe_iff, decode_tokens_safe. Qed.

Theorem decode_bytes_total orc e root bs :
  is_panic (decode_bytes orc e root bs) = false /\ decode_bytes orc e root bs <> OutOfFuel.
Proof.
  unfold decode_bytes. destruct (lex bs) as [ts me]. apply decode_tokens_total.
Qed.

(* ---------------------------------------------------------------- the whole call: descent + end of input *)
Lemma decode_tokens_fst orc e me fuel root ts :
  decode_tokens orc e me fuel root ts = omap fst (decode_tokens_rest orc e me fuel root ts).
Proof.
  unfold decode_tokens, decode_tokens_rest, omap.
  destruct (lookup e root) as [[props|props|]|]; try reflexivity.
  - destruct (expect TOpenObj ts) as [r| | |]; try reflexivity. cbn [obind].
    destruct (object_body orc e me fuel 0 props r [] []) as [sr| | |]; try reflexivity. cbn [obind].
    destruct (expect TCloseObj (snd sr)); reflexivity.
  - destruct (expect TOpenObj ts) as [r| | |]; try reflexivity. cbn [obind].
    destruct (oneof_body orc e me fuel 0 props r [] [] [] None) as [sr| | |]; try reflexivity. cbn [obind].
    destruct (expect TCloseObj (snd sr)); reflexivity.
Qed.

(* JSONToProto = the descent, then the end-of-input check: an accepted document is one whose descent
   succeeds, nothing follows its root value and the tokenizer stopped at io.EOF *)
Definition doc_end_ok (orc : oracles) (e : env) (root bs : bytes) : bool :=
  let '(ts, me) := lex bs in
  match decode_tokens_rest orc e me (S (length ts)) root ts with
  | Ok (_, []) => lex_at_eof bs
  | _ => false
  end.

Lemma decode_document_ok orc e root bs m :
  decode_document orc e root bs = Ok m <->
  decode_bytes orc e root bs = Ok m /\ doc_end_ok orc e root bs = true.
Proof.
  unfold decode_document, decode_bytes, doc_end_ok. destruct (lex bs) as [ts me].
  rewrite decode_tokens_fst. unfold omap.
  destruct (decode_tokens_rest orc e me (S (length ts)) root ts) as [[m0 r]| | |]; cbn [obind fst snd];
    try (split; [discriminate | intros [H _]; discriminate]).
  unfold end_of_input. destruct r as [|t r]; [destruct (lex_at_eof bs)|]; cbn [obind];
    split; try discriminate; try (intros [_ H]; discriminate); intros H; try (destruct H as [H _]); auto.
Qed.

(* a rejected descent is a rejected document; trailing data turns an accepted descent into an error *)
Lemma decode_document_err orc e root bs c :
  decode_bytes orc e root bs = Err c -> exists c', decode_document orc e root bs = Err c'.
Proof.
  unfold decode_document, decode_bytes. destruct (lex bs) as [ts me].
  rewrite decode_tokens_fst. unfold omap.
  destruct (decode_tokens_rest orc e me (S (length ts)) root ts) as [[m0 r]| | |]; cbn [obind fst snd];
    try discriminate. intros H. eauto.
Qed.

Theorem trailing_data_rejected orc e root bs :
  doc_end_ok orc e root bs = false -> is_ok (decode_document orc e root bs) = false.
Proof.
  intros H. destruct (decode_document orc e root bs) as [m| | |] eqn:E; try reflexivity.
  apply decode_document_ok in E. destruct E as [_ E]. congruence.
Qed.

Theorem decode_document_total orc e root bs :
  is_panic (decode_document orc e root bs) = false /\ decode_document orc e root bs <> OutOfFuel.
Proof.
  destruct (decode_bytes_total orc e root bs) as [Hp Hf].
  unfold decode_document, decode_bytes in *. destruct (lex bs) as [ts me].
  rewrite decode_tokens_fst in Hp, Hf. unfold omap in *.
  destruct (decode_tokens_rest orc e me (S (length ts)) root ts) as [[m0 r]| | |]; cbn [obind fst snd] in *;
    try (split; [assumption | assumption]).
  unfold end_of_input. destruct r; [destruct (lex_at_eof bs)|]; cbn [obind]; split; try reflexivity; discriminate.
Qed.

Theorem append_go_value_no_panic orc k t l : is_panic (append_go_value orc k t l) = false.
Proof. apply safe_iff, append_go_value_safe. Qed.
Theorem map_set_go_value_no_panic orc k key t es : is_panic (map_set_go_value orc k key t es) = false.
Proof. apply safe_iff, map_set_go_value_safe. Qed.
Theorem oneof_post_no_panic props m found constrain : is_panic (oneof_post props m found constrain) = false.
Proof. apply safe_iff, oneof_post_safe. Qed.

(* the nesting of property values is bounded by a constant, whatever the input *)
Theorem nesting_bounded d dp p ts m seen :
  (max_nesting_depth <= d)%N -> member_with d dp p ts m seen = Err "exceeded max depth"%string.
Proof.
  intros H. unfold member_with.
  replace (max_nesting_depth <? d + 1)%N with true; [reflexivity|].
  symmetry. apply N.ltb_lt. lia.
Qed.

(* the fuel, i.e. the bound on the decoder's recursion, in terms of the input: a document of n bytes has
   at most n tokens (JsonLexProofs.lex_length), so n + 1 suffices *)
From J5V.proofs Require Import JsonLexProofs.
Theorem decode_fuel_in_bytes orc e root bs :
  (length (fst (lex bs)) <= length bs)%nat /\
  is_panic (decode_tokens orc e (snd (lex bs)) (S (length bs)) root (fst (lex bs))) = false /\
  decode_tokens orc e (snd (lex bs)) (S (length bs)) root (fst (lex bs)) <> OutOfFuel.
Proof.
  pose proof (lex_length bs) as Hl. split; [exact Hl|].
  apply safe_iff. apply decode_tokens_safe_fuel. lia.
Qed.

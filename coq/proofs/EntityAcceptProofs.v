(* EntityAcceptProofs.v — ACCEPTANCE for property C17: every declaration in the quantifier
   (EntitySpec.in_quantifier) that does not use a field name the expansion adds itself
   (EntitySpec.reserved_free) is accepted by the model of the compiler:
     the parser's validation, the walker, the conversion (references, optional/required, path
     parameters) and the link step (no symbol defined twice in any scope).
   Together with EntitySpecProofs.full_partial this gives the full statement of C17 for all
   declarations without reserved names. *)
From Coq Require Import String Ascii List NArith Bool Lia ZifyN ZifyNat ZifyBool.
From J5V.lib Require Import Outcome Strcase.
From J5V.model Require Import Entity.
From J5V.proofs Require Import StrcaseProofs EntityProofs EntitySpec EntitySpecProofs EntityListProofs EntityFieldTypes.
Import ListNotations.
Local Open Scope bool_scope.
Local Open Scope N_scope.

(* ---- all conjuncts of the quantifier ---------------------------------------------------------- *)
Record quantified (e : entity) : Prop := mkQd {
  q_enums : sp_enums_ok e = true;
  q_name : name_ok (e_name e) = true;
  q_pkg : pkg_ok (e_pkg e) = true;
  q_base : (is_nil (e_base_url e) || (rel_path_ok (e_base_url e) && is_nil (colon_params (e_base_url e)))) = true;
  q_keys_wf : fields_wf (map k_def (e_keys e)) = true;
  q_keys_ref : forallb (ref_ok e) (map k_def (e_keys e)) = true;
  q_data_wf : fields_wf (e_data e) = true;
  q_data_ref : forallb (ref_ok e) (e_data e) = true;
  q_status_ne : e_status e <> [];
  q_events : forallb (fun ev => type_name_ok (ev_name ev) && fields_wf (ev_fields ev) && forallb (ref_ok e) (ev_fields ev))
                     (e_events e) = true;
  q_event_opts : nodup_bytes (map (fun ev => to_snake (to_lower_camel (ev_name ev))) (e_events e)) = true;
  q_commands : forallb (fun c => match c_name c with Some n => name_ok n | None => true end
                       && match c_base c with Some b => rel_path_ok b && is_nil (colon_params b) | None => true end
                       && forallb (method_wf e) (c_methods c)
                       && nodup_bytes (map md_name (c_methods c))) (e_commands e) = true;
  q_summaries : forallb (fun s => (is_nil (s_name s) || name_ok (s_name s)) && fields_wf (s_fields s)
                       && forallb (ref_ok e) (s_fields s)) (e_summaries e) = true;
  q_summary_names : nodup_bytes (map s_name (e_summaries e)) = true;
  q_schemas : forallb (fun s => name_ok (schema_name s) && fields_wf (schema_fields s) && forallb (ref_ok e) (schema_fields s))
                      (e_schemas e) = true;
  q_main : nodup_bytes (sp_main_scope e) = true;
  q_service : nodup_bytes (sp_service_scope e) = true;
  q_topic : nodup_bytes (sp_topic_scope e) = true;
  q_no_list : list_settings e = false;
  q_filters : match e_query e with
              | Some q => forallb (fun f => existsb (bytes_eqb f) (e_status e)) (q_default_status q)
              | None => true
              end = true }.

(* ---- the package scopes are duplicate-free: DERIVED from the user's names being distinct ------------------- *)
Lemma NoDup_map_app_head : forall (c : bytes) (l : list bytes), NoDup l -> NoDup (map (app c) l).
Proof.
  intros c l H. induction H as [|x l Hn _ IH]; cbn; constructor; [|exact IH].
  intros Hin. apply in_map_iff in Hin. destruct Hin as [y [Hy Hin]]. apply app_inv_head in Hy. now subst.
Qed.

Lemma NoDup_of_map : forall {A B} (f : A -> B) l, NoDup (map f l) -> NoDup l.
Proof.
  intros A B f l. induction l as [|x l IH]; intros H; [constructor|]. cbn in H. inversion H as [|? ? Hn Hd]; subst.
  constructor; [|now apply IH]. intros Hin. apply Hn. now apply in_map.
Qed.

Lemma has_prefix_split : forall p x, has_prefix p x = true -> exists t, x = p ++ t.
Proof.
  induction p as [|c p IH]; intros x H; [now exists x|]. destruct x as [|y x]; [discriminate|].
  cbn in H. apply andb_true_iff in H. destruct H as [Hc Hp]. apply N.eqb_eq in Hc. subst y.
  destruct (IH x Hp) as [t ->]. now exists t.
Qed.

Lemma alnum_no_underscore : forall x, forallb alnum x = true -> ~ In 95 x.
Proof. intros x H Hin. rewrite forallb_forall in H. specialize (H 95 Hin). discriminate. Qed.

(* every value of the status enum carries the prefix <SCREAMING>_STATUS_ *)
Lemma sp_value_name_prefix : forall p s, has_prefix p (sp_value_name p s) = true.
Proof. intros p s. unfold sp_value_name. destruct (has_prefix p s) eqn:E; [exact E|apply has_prefix_app]. Qed.
Lemma enum_values_prefixed : forall p l n0 v, In v (sp_enum_values_n p l n0) -> has_prefix p v = true.
Proof.
  intros p [|s r] n0 v H; cbn [sp_enum_values_n] in H.
  - destruct H as [<-|[]]. apply has_prefix_app.
  - destruct (sp_explicit_zero p s && (n0 =? 0)).
    + apply in_map_iff in H. destruct H as [o [<- _]]. apply sp_value_name_prefix.
    + destruct H as [<-|H]; [apply has_prefix_app|]. apply in_map_iff in H. destruct H as [o [<- _]]. apply sp_value_name_prefix.
Qed.

(* the status values are pairwise distinct because their protobuf canonical names are (sp_enums_ok) *)
Lemma status_values_nodup : forall e, sp_enums_ok e = true ->
  NoDup (sp_enum_values_n (sp_status_prefix e) (e_status e) (sp_first_number e)).
Proof.
  intros e H. unfold sp_enums_ok in H. apply andb_true_iff in H. destruct H as [H _].
  apply andb_true_iff in H. destruct H as [H _]. unfold sp_canonical_distinct in H.
  apply nodup_bytes_NoDup in H. now apply NoDup_of_map in H.
Qed.

Lemma NoDup_insert_mid : forall {A} (a b c : list A),
  NoDup (a ++ c) -> NoDup b -> (forall x, In x (a ++ c) -> ~ In x b) -> NoDup (a ++ b ++ c).
Proof.
  induction a as [|x a IH]; intros b c Hac Hb Hd; cbn [app] in *.
  - apply NoDup_app_intro; [exact Hb|exact Hac|]. intros y Hy Hin. exact (Hd y Hin Hy).
  - inversion Hac as [|? ? Hn Hac']; subst. constructor.
    + intros Hin. apply in_app_or in Hin. destruct Hin as [Hin|Hin]; [apply Hn; apply in_or_app; now left|].
      apply in_app_or in Hin. destruct Hin as [Hin|Hin]; [exact (Hd x (or_introl eq_refl) Hin)|].
      apply Hn. apply in_or_app. now right.
    + apply IH; [exact Hac'|exact Hb|]. intros y Hy. apply Hd. now right.
Qed.

Lemma generated_main_nodup : forall e, sp_enums_ok e = true -> NoDup (sp_main_generated e).
Proof.
  intros e He. unfold sp_main_generated.
  set (vals := sp_enum_values_n (sp_status_prefix e) (e_status e) (sp_first_number e)).
  assert (Hsix : NoDup (map (app (sp_camel e)) [bs "Keys"; bs "Data"; bs "Status"; bs "State"; bs "EventType"; bs "Event"])).
  { apply NoDup_map_app_head. apply nodup_bytes_NoDup. vm_compute. reflexivity. }
  assert (Hv : NoDup vals) by (now apply status_values_nodup).
  assert (Hdis : forall x, In x (map (app (sp_camel e)) [bs "Keys"; bs "Data"; bs "Status"; bs "State"; bs "EventType"; bs "Event"]) -> ~ In x vals).
  { intros x Hx Hin. pose proof (enum_values_prefixed _ _ _ _ Hin) as Hp. destruct (has_prefix_split _ _ Hp) as [t ->].
    apply in_map_iff in Hx. destruct Hx as [sfx [Hx Hs]].
    assert (Ha : forallb alnum (sp_camel e ++ sfx) = true).
    { rewrite forallb_app. unfold sp_camel. rewrite to_camel_alnum. cbn [andb].
      destruct Hs as [<-|[<-|[<-|[<-|[<-|[<-|[]]]]]]]; reflexivity. }
    rewrite Hx in Ha. apply (alnum_no_underscore _ Ha). apply in_or_app. left.
    unfold sp_status_prefix. apply in_or_app. right. cbn. auto. }
  cbn [map] in Hsix, Hdis. unfold sp_name.
  (* [K;D;S] ++ vals ++ [St;ET;Ev]: the values inserted into the six names *)
  apply (NoDup_insert_mid [sp_camel e ++ bs "Keys"; sp_camel e ++ bs "Data"; sp_camel e ++ bs "Status"] vals
                          [sp_camel e ++ bs "State"; sp_camel e ++ bs "EventType"; sp_camel e ++ bs "Event"]);
    [exact Hsix|exact Hv|exact Hdis].
Qed.

Lemma generated_service_nodup : forall e, NoDup (sp_service_generated e).
Proof.
  intros e. unfold sp_service_generated.
  change (NoDup (map (app (sp_query_prefix e)) [bs "GetRequest"; bs "GetResponse"; bs "ListRequest"; bs "ListResponse";
                                                bs "EventsRequest"; bs "EventsResponse"; bs "QueryService"])).
  apply NoDup_map_app_head. apply nodup_bytes_NoDup. vm_compute. reflexivity.
Qed.

Lemma last_app_nonempty : forall (a b : bytes) d, b <> [] -> last (a ++ b) d = last b d.
Proof.
  induction a as [|x a IH]; intros b d Hb; [reflexivity|]. cbn [app]. rewrite <- (IH b d Hb).
  destruct (a ++ b) eqn:E; [|reflexivity]. apply app_eq_nil in E. destruct E as [_ E]. contradiction.
Qed.

Lemma generated_topic_nodup : forall e, NoDup (sp_topic_generated e).
Proof.
  intros e. unfold sp_topic_generated. constructor; [|repeat constructor; intros []].
  intros [E|[]]. assert (L : last (to_camel (sp_camel e ++ bs "Publish") ++ bs "Topic") 0 = last (sp_camel e ++ bs "EventMessage") 0) by (now rewrite E).
  rewrite !last_app_nonempty in L by discriminate. vm_compute in L. discriminate.
Qed.

Lemma disjoint_bytes_spec : forall a b, disjoint_bytes a b = true -> forall x, In x a -> ~ In x b.
Proof.
  intros a b H x Hx Hin. unfold disjoint_bytes in H. rewrite forallb_forall in H. specialize (H x Hx).
  apply negb_true_iff in H. apply existsb_bytes_In in Hin. congruence.
Qed.

Lemma scope_of_parts : forall gen user, NoDup gen -> nodup_bytes user = true -> disjoint_bytes user gen = true ->
  nodup_bytes (gen ++ user) = true.
Proof.
  intros gen user Hg Hu Hd. apply nodup_bytes_NoDup. apply NoDup_app_intro; [exact Hg|now apply nodup_bytes_NoDup|].
  intros x Hx Hin. exact (disjoint_bytes_spec _ _ Hd x Hin Hx).
Qed.

Theorem main_scope_distinct : forall e, sp_enums_ok e = true ->
  nodup_bytes (sp_main_user e) = true -> disjoint_bytes (sp_main_user e) (sp_main_generated e) = true ->
  nodup_bytes (sp_main_scope e) = true.
Proof.
  intros e He Hu Hd.
  replace (sp_main_scope e) with (sp_main_generated e ++ sp_main_user e)
    by (unfold sp_main_scope, sp_main_generated, sp_main_user; rewrite <- !app_assoc; reflexivity).
  apply scope_of_parts; [now apply generated_main_nodup|exact Hu|exact Hd].
Qed.
Theorem service_scope_distinct : forall e,
  nodup_bytes (sp_service_user e) = true -> disjoint_bytes (sp_service_user e) (sp_service_generated e) = true ->
  nodup_bytes (sp_service_scope e) = true.
Proof. intros e Hu Hd. exact (scope_of_parts _ _ (generated_service_nodup e) Hu Hd). Qed.
Theorem topic_scope_distinct : forall e,
  nodup_bytes (sp_topic_user e) = true -> disjoint_bytes (sp_topic_user e) (sp_topic_generated e) = true ->
  nodup_bytes (sp_topic_scope e) = true.
Proof. intros e Hu Hd. exact (scope_of_parts _ _ (generated_topic_nodup e) Hu Hd). Qed.

Lemma quantified_of : forall e, in_quantifier e = true -> quantified e.
Proof.
  intros e H. unfold in_quantifier in H.
  repeat match type of H with
         | (_ && _) = true => apply andb_true_iff in H; let H' := fresh "Q" in destruct H as [H H']
         end.
  match goal with U : user_names_ok e = true |- _ =>
    unfold user_names_ok in U;
    repeat match type of U with
           | (_ && _) = true => apply andb_true_iff in U; let U' := fresh "U" in destruct U as [U U']
           end
  end.
  constructor; try assumption.
  - intros E. rewrite E in *. discriminate.
  - apply main_scope_distinct; assumption.
  - apply service_scope_distinct; assumption.
  - apply topic_scope_distinct; assumption.
  - now apply negb_true_iff.
Qed.

(* ---- the walker accepts ----------------------------------------------------------------------- *)
Lemma default_filters_total : forall e l,
  forallb (fun f => existsb (bytes_eqb f) (e_status e)) l = true -> exists fl, default_filters e l = Some fl.
Proof.
  intros e l. induction l as [|f l IH]; intros H; [exists []; reflexivity|].
  cbn [forallb] in H. apply andb_true_iff in H. destruct H as [Hf Hl].
  destruct (IH Hl) as [t Ht]. cbn [default_filters]. unfold find_status. rewrite Hf, Ht. eexists. reflexivity.
Qed.

Lemma expand_accepts : forall e, quantified e -> exists fl, expand e = Ok (expand_with e fl).
Proof.
  intros e Q. unfold expand.
  assert (H : exists fl, default_filters e (match e_query e with Some q => q_default_status q | None => [] end) = Some fl).
  { pose proof (q_filters e Q) as Hf. destruct (e_query e) as [q|]; [now apply default_filters_total|exists []; reflexivity]. }
  destruct H as [fl ->]. rewrite (q_summary_names e Q). exists fl. reflexivity.
Qed.

(* ---- every user field is well formed and its references resolve --------------------------------- *)
Lemma fields_wf_all : forall fs u, fields_wf fs = true -> In u fs -> ufield_wf u = true.
Proof.
  intros fs u H Hin. unfold fields_wf in H. apply andb_true_iff in H. destruct H as [H _].
  rewrite forallb_forall in H. now apply H.
Qed.

Lemma method_fields : forall e m u, method_wf e m = true ->
  In u (md_request m ++ match md_response m with Some r => r | None => [] end) ->
  ufield_wf u = true /\ ref_ok e u = true.
Proof.
  intros e m u H Hin. unfold method_wf in H.
  repeat match type of H with
         | (_ && _) = true => apply andb_true_iff in H; let H' := fresh "M" in destruct H as [H H']
         end.
  apply in_app_or in Hin. destruct Hin as [Hin|Hin].
  - split; [exact (fields_wf_all _ _ M2 Hin)|]. rewrite forallb_forall in M1. now apply M1.
  - destruct (md_response m) as [r|]; [|destruct Hin]. apply andb_true_iff in M0. destruct M0 as [W R].
    split; [exact (fields_wf_all _ _ W Hin)|]. rewrite forallb_forall in R. now apply R.
Qed.

Lemma all_ufields_ok : forall e u, quantified e -> In u (all_ufields e) ->
  ufield_wf u = true /\ ref_ok e u = true.
Proof.
  intros e u Q Hin. unfold all_ufields in Hin.
  repeat (apply in_app_or in Hin; destruct Hin as [Hin|Hin]).
  - split; [exact (fields_wf_all _ _ (q_keys_wf e Q) Hin)|].
    pose proof (q_keys_ref e Q) as H. rewrite forallb_forall in H. now apply H.
  - split; [exact (fields_wf_all _ _ (q_data_wf e Q) Hin)|].
    pose proof (q_data_ref e Q) as H. rewrite forallb_forall in H. now apply H.
  - apply in_flat_map in Hin. destruct Hin as [ev [Hev Hu]].
    pose proof (q_events e Q) as H. rewrite forallb_forall in H. specialize (H ev Hev).
    apply andb_true_iff in H. destruct H as [H R]. apply andb_true_iff in H. destruct H as [_ W].
    split; [exact (fields_wf_all _ _ W Hu)|]. rewrite forallb_forall in R. now apply R.
  - apply in_flat_map in Hin. destruct Hin as [c [Hc Hu]]. apply in_flat_map in Hu. destruct Hu as [m [Hm Hu]].
    pose proof (q_commands e Q) as H. rewrite forallb_forall in H. specialize (H c Hc).
    apply andb_true_iff in H. destruct H as [H _]. apply andb_true_iff in H. destruct H as [_ H].
    rewrite forallb_forall in H. exact (method_fields e m u (H m Hm) Hu).
  - apply in_flat_map in Hin. destruct Hin as [s [Hs Hu]].
    pose proof (q_summaries e Q) as H. rewrite forallb_forall in H. specialize (H s Hs).
    apply andb_true_iff in H. destruct H as [H R]. apply andb_true_iff in H. destruct H as [_ W].
    split; [exact (fields_wf_all _ _ W Hu)|]. rewrite forallb_forall in R. now apply R.
  - apply in_flat_map in Hin. destruct Hin as [s [Hs Hu]].
    pose proof (q_schemas e Q) as H. rewrite forallb_forall in H. specialize (H s Hs).
    apply andb_true_iff in H. destruct H as [H R]. apply andb_true_iff in H. destruct H as [_ W].
    split; [exact (fields_wf_all _ _ W Hu)|]. rewrite forallb_forall in R. now apply R.
Qed.

Lemma sfields_ok : forall fs, forallb sfield_wf fs = true -> forallb sfield_ok fs = true.
Proof.
  intros fs H. apply forallb_forall. intros x Hx. rewrite forallb_forall in H. specialize (H x Hx).
  unfold sfield_wf in H. apply andb_true_iff in H. destruct H as [_ H]. exact H.
Qed.

(* ---- tree-form inline schemas: what well-formedness gives, by nested induction ----------------------------- *)
Lemma tfield_wf_parts : forall n k r o d, tfield_wf (TF n k r o d) = true ->
  name_ok n = true /\ (o && r) = false
  /\ match k with
     | TKInline k' _ fs os =>
         if k' =? 2 then fs = [] /\ forallb name_ok os = true
         else (k' <? 2) = true /\ forallb tfield_wf fs = true /\ nodup_bytes (sp_tscope k' fs) = true
              /\ tmembers_singular k' fs = true
     | _ => True
     end.
Proof.
  intros n k r o d H. cbn [tfield_wf] in H. apply andb_true_iff in H. destruct H as [H Hk].
  apply andb_true_iff in H. destruct H as [Hn Hor]. apply negb_true_iff in Hor.
  split; [exact Hn|]. split; [exact Hor|]. destruct k as [i|i|i|k' c fs os]; try exact I.
  destruct (k' =? 2).
  - apply andb_true_iff in Hk. destruct Hk as [Hf Ho]. split; [destruct fs; [reflexivity|discriminate]|exact Ho].
  - apply andb_true_iff in Hk. destruct Hk as [Hk H4]. apply andb_true_iff in Hk. destruct Hk as [Hk H3].
    apply andb_true_iff in Hk. destruct Hk as [H1 H2]. auto.
Qed.

Lemma tfield_wf_ok : forall t, tfield_wf t = true -> tfield_ok t = true.
Proof.
  fix IH 1. intros [n k r o d] H. destruct (tfield_wf_parts n k r o d H) as [_ [Hor Hk]].
  cbn [tfield_ok]. rewrite Hor. cbn [negb andb]. destruct k as [i|i|i|k' c fs os]; try reflexivity.
  destruct (k' =? 2).
  - destruct Hk as [-> _]. reflexivity.
  - destruct Hk as [_ [Hf _]]. clear H. revert fs Hf. fix IHl 1. intros [|x rest] Hf; [reflexivity|].
    cbn [forallb] in *. apply andb_true_iff in Hf. destruct Hf as [Hx Hr]. rewrite (IH x Hx). exact (IHl rest Hr).
Qed.

Lemma tfields_wf_ok : forall fs, forallb tfield_wf fs = true -> forallb tfield_ok fs = true.
Proof.
  intros fs H. apply forallb_forall. intros x Hx. rewrite forallb_forall in H. now apply tfield_wf_ok, H.
Qed.

Lemma tree_wf_parts : forall k fs, tree_wf k fs = true ->
  (k <? 2) = true /\ forallb tfield_wf fs = true /\ nodup_bytes (sp_tscope k fs) = true /\ tmembers_singular k fs = true.
Proof.
  intros k fs H. unfold tree_wf in H. apply andb_true_iff in H. destruct H as [H H4].
  apply andb_true_iff in H. destruct H as [H H3]. apply andb_true_iff in H. destruct H as [H1 H2]. auto.
Qed.

Lemma fields_ok_holds : forall e, quantified e -> fields_ok e = true.
Proof.
  intros e Q. unfold fields_ok. apply forallb_forall. intros u Hu.
  destruct (all_ufields_ok e u Q Hu) as [W _]. destruct (ufield_wf_parts u W) as [_ [Wi W3]].
  unfold ufield_ok. rewrite W3. cbn [negb andb]. unfold inline_wf in Wi.
  destruct (uf_kind u) as [pt j|m|m|m|p f t|tn j|i|i|sfs|sfs|os|tk tfs]; try reflexivity;
    try (apply andb_true_iff in Wi; destruct Wi as [Wi _]; now apply sfields_ok).
  destruct (tree_wf_parts tk tfs Wi) as [_ [Hf _]]. now apply tfields_wf_ok.
Qed.

(* what a schema of the block defines *)
Lemma defined_schema : forall e fl s, In s (e_schemas e) ->
  In (match s with SEnum _ _ => true | _ => false end, schema_name s) (defined (expand_with e fl)).
Proof.
  intros e fl s Hs. unfold expand_with. rewrite !defined_app. repeat (apply in_or_app; right).
  unfold defined. apply in_flat_map. exists (schema_component s). split; [now apply in_map|].
  destruct s; cbn; auto.
Qed.

Lemma existsb_schema : forall (p : eschema -> bool) l, existsb p l = true -> exists s, In s l /\ p s = true.
Proof. intros p l H. apply existsb_exists in H. exact H. Qed.

Lemma names_object_defined : forall e fl n, names_object e n = true -> In (false, n) (defined (expand_with e fl)).
Proof.
  intros e fl n H. unfold names_object in H. apply orb_true_iff in H. destruct H as [H|H].
  - apply orb_true_iff in H. destruct H as [H|H].
    + apply existsb_schema in H. destruct H as [s [Hs Hp]]. destruct s as [m fs|m fs|m os]; try discriminate.
      apply bytes_eqb_eq in Hp. subst m. exact (defined_schema e fl _ Hs).
    + apply bytes_eqb_eq in H. subst n. apply in_defined_head. rewrite <- cn_keys. cbn. auto.
  - apply bytes_eqb_eq in H. subst n. apply in_defined_head. rewrite <- cn_data. cbn. auto.
Qed.
Lemma names_oneof_defined : forall e fl n, names_oneof e n = true -> In (false, n) (defined (expand_with e fl)).
Proof.
  intros e fl n H. unfold names_oneof in H. apply existsb_schema in H. destruct H as [s [Hs Hp]].
  destruct s as [m fs|m fs|m os]; try discriminate. apply bytes_eqb_eq in Hp. subst m. exact (defined_schema e fl _ Hs).
Qed.
Lemma names_enum_defined : forall e fl n, names_enum e n = true -> In (true, n) (defined (expand_with e fl)).
Proof.
  intros e fl n H. unfold names_enum in H. apply existsb_schema in H. destruct H as [s [Hs Hp]].
  destruct s as [m fs|m fs|m os]; try discriminate. apply bytes_eqb_eq in Hp. subst m. exact (defined_schema e fl _ Hs).
Qed.

Lemma item_resolves : forall e fl i, item_ref_ok e i = true ->
  ref_resolves (defined (expand_with e fl)) (otype_of_item i) = true.
Proof.
  intros e fl [pt k|tn k|n|n|n] H; try reflexivity; cbn [otype_of_item ref_resolves]; apply resolves_local.
  - now apply names_object_defined.
  - now apply names_oneof_defined.
  - now apply names_enum_defined.
Qed.

Lemma sfields_resolve : forall e fl fs, forallb (fun s => item_ref_ok e (sf_kind s)) fs = true ->
  forallb (fun s => ref_resolves (defined (expand_with e fl)) (otype_of_item (sf_kind s))) fs = true.
Proof.
  intros e fl fs H. apply forallb_forall. intros x Hx. rewrite forallb_forall in H. now apply item_resolves, H.
Qed.

Lemma tfield_ref_resolves : forall e fl t, tfield_ref_ok e t = true ->
  tfield_resolves (defined (expand_with e fl)) t = true.
Proof.
  intros e fl. fix IH 1. intros [n k r o d]. destruct k as [i|i|i|k c fs os]; cbn [tfield_ref_ok tfield_resolves]; intros H.
  - now apply item_resolves.
  - now apply item_resolves.
  - now apply item_resolves.
  - revert fs H. fix IHl 1. intros [|x rest] H; [reflexivity|]. cbn [forallb] in *.
    apply andb_true_iff in H. destruct H as [Hx Hr]. rewrite (IH x Hx). exact (IHl rest Hr).
Qed.

Lemma ref_ok_resolves : forall e fl u, ref_ok e u = true ->
  resolves (defined (expand_with e fl)) (of_ufield u) = true.
Proof.
  intros e fl [n k r o] H. unfold ref_ok in H. cbn [uf_kind] in H. unfold resolves, field_resolves, of_ufield. cbn [uf_kind].
  destruct k as [pt j|m|m|m|p f t|tn j|i|i|sfs|sfs|os|tk tfs];
    cbn [f_type f_inline ref_resolves il_fields forallb andb]; rewrite ?inline_type_resolves; rewrite ?andb_true_r; try reflexivity.
  - apply resolves_local. now apply names_object_defined.
  - apply resolves_local. now apply names_oneof_defined.
  - apply resolves_local. now apply names_enum_defined.
  - now apply item_resolves.
  - now apply item_resolves.
  - cbn [andb]. now apply sfields_resolve.
  - cbn [andb]. now apply sfields_resolve.
Qed.

(* the references inside the user's tree-form inline schemas resolve *)
Lemma trees_ok_holds : forall e fl, quantified e -> trees_ok e (defined (expand_with e fl)) = true.
Proof.
  intros e fl Q. unfold trees_ok. apply forallb_forall. intros u Hu.
  destruct (all_ufields_ok e u Q Hu) as [_ R]. unfold ref_ok in R. unfold tree_of, of_ufield.
  destruct (uf_kind u) as [pt j|m|m|m|p f t|tn j|i|i|sfs|sfs|os|tk tfs]; try reflexivity.
  cbn [f_inline il_tree]. apply forallb_forall. intros x Hx. rewrite forallb_forall in R.
  now apply tfield_ref_resolves, R.
Qed.

Lemma closed_holds : forall e fl, quantified e -> closed (expand_with e fl) = true.
Proof.
  intros e fl Q. apply expand_closed. unfold user_refs_ok. apply forallb_forall. intros u Hu.
  destruct (all_ufields_ok e u Q Hu) as [_ R]. now apply ref_ok_resolves.
Qed.

(* ---- path parameters are request fields ------------------------------------------------------------ *)
(* the ":name" parts of path.Join(base, rel) are those of the non-empty segments of base and rel *)
Lemma path_params_clean : forall s, path_params (clean_path s) = flat_map param_of (segments s).
Proof.
  intros s. unfold clean_path, path_params. destruct (segments s) as [|p l] eqn:E; [reflexivity|].
  change ([47] ++ join [47] (p :: l)) with ([] ++ 47 :: join [47] (p :: l)).
  rewrite split_slash_app_slash. cbn [split_slash rev flat_map param_of app].
  rewrite split_join; [reflexivity|discriminate|].
  pose proof (segments_seg_ok s) as H. rewrite E in H. eapply Forall_impl; [|exact H].
  intros q Hq. unfold seg_ok in Hq. apply andb_true_iff in Hq. tauto.
Qed.

Lemma path_params_join : forall base rel,
  path_params (path_join base rel) = flat_map param_of (segments base) ++ flat_map param_of (segments rel).
Proof.
  intros base rel. unfold path_join. destruct rel as [|c r].
  - rewrite path_params_clean. cbn. now rewrite app_nil_r.
  - rewrite path_params_clean, segments_app_slash. apply flat_map_app.
Qed.

Lemma plain_param_of : forall l, Forall (fun p => plain_seg p = true) l -> flat_map param_of l = [].
Proof.
  induction 1 as [|p l H _ IH]; [reflexivity|]. cbn [flat_map]. rewrite IH, app_nil_r.
  destruct p as [|c n]; [reflexivity|]. cbn in H. apply andb_true_iff in H. destruct H as [H _].
  apply negb_true_iff in H. cbn [param_of]. now rewrite H.
Qed.

Lemma colon_params_segments : forall p, flat_map param_of (segments p) = colon_params p.
Proof.
  intros p. unfold segments, colon_params. induction (split_slash [] p) as [|s l IH]; [reflexivity|].
  cbn [filter flat_map]. destruct s as [|c n].
  - cbn. exact IH.
  - cbn [is_nil negb flat_map]. rewrite IH. f_equal. cbn [param_of].
    destruct (N.eqb_spec c 58) as [->|Hne]; [reflexivity|].
    destruct c as [|q]; [reflexivity|]. destruct q as [q|q|]; try reflexivity;
      repeat (destruct q as [q|q|]; try reflexivity); congruence.
Qed.

(* the base URL of the entity: plain segments only *)
Lemma base_url_plain : forall e, quantified e ->
  Forall (fun p => plain_seg p = true) (split_slash [] (base_url e)).
Proof.
  intros e Q. unfold base_url. destruct (e_base_url e) as [|c r] eqn:E.
  - apply default_base_segments; [exact (q_name e Q)|exact (q_pkg e Q)].
  - pose proof (q_base e Q) as Hb. rewrite E in Hb. cbn [is_nil orb] in Hb.
    apply andb_true_iff in Hb. destruct Hb as [H1 H2].
    apply override_base_segments; [exact H1|]. destruct (colon_params (c :: r)); [reflexivity|discriminate].
Qed.

Lemma segments_plain : forall s, Forall (fun p => plain_seg p = true) (split_slash [] s) ->
  Forall (fun p => plain_seg p = true) (segments s).
Proof. intros s H. unfold segments. now apply Forall_filter. Qed.

Lemma command_base_plain : forall e c, quantified e -> In c (e_commands e) ->
  Forall (fun p => plain_seg p = true) (segments (command_base e c)).
Proof.
  intros e c Q Hc. apply segments_plain. unfold command_base.
  pose proof (q_commands e Q) as H. rewrite forallb_forall in H. specialize (H c Hc).
  apply andb_true_iff in H. destruct H as [H _]. apply andb_true_iff in H. destruct H as [H _].
  apply andb_true_iff in H. destruct H as [_ Hb].
  destruct (c_base c) as [b|].
  - change ([47] ++ base_url e ++ [47] ++ b) with ([] ++ 47 :: (base_url e ++ 47 :: b)).
    rewrite !split_slash_app_slash. apply Forall_app. split; [repeat constructor|].
    apply Forall_app. split; [now apply base_url_plain|].
    apply andb_true_iff in Hb. destruct Hb as [H1 H2]. apply override_base_segments; [exact H1|].
    destruct (colon_params b); [reflexivity|discriminate].
  - change ([47] ++ base_url e ++ bs "/c") with ([] ++ 47 :: (base_url e ++ 47 :: bs "c")).
    rewrite !split_slash_app_slash. apply Forall_app. split; [repeat constructor|].
    apply Forall_app. split; [now apply base_url_plain|repeat constructor].
Qed.

Lemma command_params_holds : forall e, quantified e -> command_params_ok e = true.
Proof.
  intros e Q. unfold command_params_ok. apply forallb_forall. intros c Hc. apply forallb_forall. intros m Hm.
  unfold params_ok. rewrite path_params_join, (plain_param_of _ (command_base_plain e c Q Hc)). cbn [app].
  rewrite colon_params_segments.
  pose proof (q_commands e Q) as H. rewrite forallb_forall in H. specialize (H c Hc).
  apply andb_true_iff in H. destruct H as [H _]. apply andb_true_iff in H. destruct H as [_ H].
  rewrite forallb_forall in H. specialize (H m Hm). unfold method_wf in H.
  apply andb_true_iff in H. destruct H as [_ H]. exact H.
Qed.

Lemma key_seg_ok_all : forall e, quantified e -> forall u, In u (map k_def (e_keys e)) -> key_seg_ok u = true.
Proof.
  intros e Q u Hu. pose proof (fields_wf_all _ _ (q_keys_wf e Q) Hu) as W.
  destruct (ufield_wf_parts u W) as [W' _]. clear W. rename W' into W.
  unfold name_ok in W. apply andb_true_iff in W. destruct W as [Hi _].
  unfold key_seg_ok. destruct (ident_no_colon_slash _ Hi) as [_ ->].
  destruct (ident_no_colon_slash _ (to_snake_ident _ Hi)) as [_ ->]. reflexivity.
Qed.

Lemma keys_params_ok : forall e ks tail extra, quantified e ->
  (forall u, In u ks -> In u (map k_def (e_keys e))) ->
  tail = [] \/ tail = [bs "events"] ->
  params_ok (map uf_name ks ++ extra) (path_join (query_base e) (join [47] (key_path ks ++ tail))) = true.
Proof.
  intros e ks tail extra Q Hks Ht. unfold params_ok. rewrite path_params_join.
  assert (Hb : Forall (fun p => plain_seg p = true) (segments (query_base e))).
  { apply segments_plain. unfold query_base.
    change ([47] ++ base_url e ++ bs "/q") with ([] ++ 47 :: (base_url e ++ 47 :: bs "q")).
    rewrite !split_slash_app_slash. apply Forall_app. split; [repeat constructor|].
    apply Forall_app. split; [now apply base_url_plain|repeat constructor]. }
  rewrite (plain_param_of _ Hb). cbn [app].
  assert (Hparts : Forall (fun p => seg_ok p = true) (key_path ks ++ tail)).
  { apply Forall_app. split; [|destruct Ht as [->| ->]; repeat constructor].
    apply key_path_seg_ok. apply Forall_forall. intros u Hu.
    pose proof (key_seg_ok_all e Q u (Hks u Hu)) as H. unfold key_seg_ok in H. apply andb_true_iff in H. tauto. }
  assert (Eseg : segments (join [47] (key_path ks ++ tail)) = key_path ks ++ tail).
  { destruct (key_path ks ++ tail) as [|p l] eqn:E; [reflexivity|]. apply segments_join; [discriminate|exact Hparts]. }
  rewrite Eseg, flat_map_app, params_key_path.
  assert (Et : flat_map param_of tail = []) by (destruct Ht as [->| ->]; reflexivity).
  rewrite Et, app_nil_r. apply forallb_forall. intros p Hp.
  apply existsb_exists. exists p. split; [apply in_or_app; now left|apply bytes_eqb_refl].
Qed.

Lemma query_params_holds : forall e, quantified e -> query_params_ok e = true.
Proof.
  intros e Q. unfold query_params_ok. fold (query_base e).
  pose proof (keys_params_ok e (get_keys e) [] [] Q (get_keys_incl e) (or_introl eq_refl)) as H1.
  pose proof (keys_params_ok e (list_keys e) [] [bs "page"; bs "query"] Q (list_keys_incl e) (or_introl eq_refl)) as H2.
  pose proof (keys_params_ok e (get_keys e) [bs "events"] [bs "page"; bs "query"] Q (get_keys_incl e) (or_intror eq_refl)) as H3.
  repeat rewrite app_nil_r in H1. repeat rewrite app_nil_r in H2.
  apply andb_true_iff. split; [apply andb_true_iff; split|]; [exact H1|exact H2|exact H3].
Qed.

(* ---- conversion succeeds ------------------------------------------------------------------------------ *)
Theorem convert_accepts : forall e, quantified e -> exists fl, convert e = Ok (expand_with e fl).
Proof.
  intros e Q. destruct (expand_accepts e Q) as [fl Hx]. exists fl. unfold convert. rewrite Hx.
  rewrite (closed_holds e fl Q), (trees_ok_holds e fl Q), (fields_ok_holds e Q), (query_params_holds e Q), (command_params_holds e Q), (q_no_list e Q).
  reflexivity.
Qed.

(* ======================= the link step ================================================================ *)
(* ---- sub-sequences ------------------------------------------------------------------------------------ *)
Inductive Sub {A} : list A -> list A -> Prop :=
| Sub_nil : Sub [] []
| Sub_skip : forall x a b, Sub a b -> Sub a (x :: b)
| Sub_keep : forall x a b, Sub a b -> Sub (x :: a) (x :: b).

Lemma Sub_refl : forall {A} (l : list A), Sub l l.
Proof. induction l; [constructor|apply Sub_keep; assumption]. Qed.
Lemma Sub_filter : forall {A} (q : A -> bool) l, Sub (filter q l) l.
Proof. induction l as [|x l IH]; [constructor|]. cbn. destruct (q x); [apply Sub_keep|apply Sub_skip]; assumption. Qed.
Lemma Sub_map : forall {A B} (f : A -> B) a b, Sub a b -> Sub (map f a) (map f b).
Proof. induction 1; cbn; [constructor|apply Sub_skip|apply Sub_keep]; assumption. Qed.
Lemma Sub_filter_both : forall {A} (q : A -> bool) a b, Sub a b -> Sub (filter q a) (filter q b).
Proof.
  induction 1 as [|x a b _ IH|x a b _ IH]; cbn; [constructor| |].
  - destruct (q x); [apply Sub_skip|]; assumption.
  - destruct (q x); [apply Sub_keep|]; assumption.
Qed.
Lemma Sub_app : forall {A} (a b c d : list A), Sub a b -> Sub c d -> Sub (a ++ c) (b ++ d).
Proof. induction 1; intros H2; cbn; [assumption|apply Sub_skip; auto|apply Sub_keep; auto]. Qed.
Lemma Sub_nil_l : forall {A} (l : list A), Sub [] l.
Proof. induction l; [constructor|apply Sub_skip; assumption]. Qed.
Lemma Sub_In : forall {A} (a b : list A) x, Sub a b -> In x a -> In x b.
Proof.
  induction 1 as [|y a b _ IH|y a b _ IH]; intros Hin; [assumption|right; auto|].
  destruct Hin as [->|Hin]; [now left|right; auto].
Qed.
Lemma Sub_NoDup : forall {A} (a b : list A), Sub a b -> NoDup b -> NoDup a.
Proof.
  induction 1 as [|y a b Hs IH|y a b Hs IH]; intros Hn; [constructor| |]; inversion Hn; subst; auto.
  constructor; [|auto]. intros Hin. apply H1. eapply Sub_In; eassumption.
Qed.

Lemma NoDup_map_finer : forall {A B C} (g : A -> B) (h : A -> C) l,
  (forall x y, h x = h y -> g x = g y) -> NoDup (map g l) -> NoDup (map h l).
Proof.
  intros A B C g h l Hf. induction l as [|x l IH]; intros H; [constructor|]. cbn in *. inversion H; subst.
  constructor; [|auto]. intros Hin. apply in_map_iff in Hin. destruct Hin as [y [Hy Hin]].
  apply H2. rewrite <- (Hf y x Hy). now apply in_map.
Qed.

(* ---- the scope of a message of user fields -------------------------------------------------------------- *)
Lemma of_ufield_facts : forall u,
  f_json (of_ufield u) = uf_name u /\ f_optional (of_ufield u) = sp_presence u
  /\ is_map_field (of_ufield u) = is_map_kind u.
Proof.
  intros [n k r o d kf c].
  unfold of_ufield, is_map_kind, is_map_field, sp_presence, is_repeated_kind, is_inline_kind, inline_type.
  cbn [uf_kind uf_optional uf_name uf_container uf_desc uf_keyfmt].
  destruct k as [pt j|m|m|m|p f t|tn j|i|i|sfs|sfs|os|tk tfs]; cbn [f_json f_optional f_type andb negb];
    repeat split; try reflexivity; try (now rewrite andb_true_r); try (now rewrite andb_false_r);
    try (destruct i; reflexivity);
    try (now rewrite negb_involutive);
    try (destruct (c =? 2); reflexivity).
Qed.

Lemma inline_of_none : forall f, f_inline f = None -> inline_of f = None.
Proof. intros f H. unfold inline_of. now rewrite H. Qed.
Lemma inline_of_inline_type : forall j c n k r q fl p te fi fo o il d kf,
  inline_of (mkF13 j (inline_type c n k) r q fl p te fi fo o (Some il) d kf) = Some (n, k, il).
Proof. intros. unfold inline_of, inline_type. cbn [f_inline f_type]. destruct (c =? 2); reflexivity. Qed.

Lemma no_inline_names : forall fs, Forall (fun f => f_inline f = None) fs -> inline_names fs = [] /\ inline_scopes fs = [].
Proof.
  induction 1 as [|f l H _ [IH1 IH2]]; [split; reflexivity|]. unfold inline_names, inline_scopes in *. cbn [flat_map].
  rewrite (inline_of_none f H), H, IH1, IH2. split; reflexivity.
Qed.

(* a message without nested messages and without inline types has one scope *)
Lemma msg_scopes_no_inline : forall name psm o fs, Forall (fun f => f_inline f = None) fs ->
  msg_scopes (mkMsg name psm o fs []) = [fields_scope o fs].
Proof.
  intros name psm o fs H. unfold msg_scopes. cbn [m_oneof m_fields m_nested map flat_map].
  destruct (no_inline_names fs H) as [-> ->]. cbn [app]. now rewrite !app_nil_r.
Qed.

Lemma filter_map_comm : forall {A B} (f : A -> B) (p : B -> bool) (q : A -> bool) l,
  (forall x, p (f x) = q x) -> filter p (map f l) = map f (filter q l).
Proof.
  intros A B f p q l H. induction l as [|x l IH]; [reflexivity|]. cbn. rewrite H. destruct (q x); cbn; now rewrite IH.
Qed.

Lemma user_scope : forall fs, fields_scope false (map of_ufield fs) = sp_field_scope fs.
Proof.
  intros fs. unfold fields_scope, sp_field_scope, entry_names, proto_name.
  rewrite (filter_map_comm of_ufield f_optional sp_presence) by (intros x; apply of_ufield_facts).
  rewrite (filter_map_comm of_ufield is_map_field is_map_kind) by (intros x; apply of_ufield_facts).
  rewrite !map_map. f_equal; [|f_equal]; apply map_ext; intros u; destruct (of_ufield_facts u) as [-> _]; reflexivity.
Qed.

Lemma sp_field_scope_sub : forall a b, Sub a b -> Sub (sp_field_scope a) (sp_field_scope b).
Proof.
  intros a b H. unfold sp_field_scope. apply Sub_app; [now apply Sub_map|].
  apply Sub_app; apply Sub_map; now apply Sub_filter_both.
Qed.

Lemma Sub_flat_map : forall {A B} (g : A -> list B) a b, Sub a b -> Sub (flat_map g a) (flat_map g b).
Proof.
  induction 1 as [|x a b _ IH|x a b _ IH]; cbn [flat_map]; [constructor| |].
  - rewrite <- (app_nil_l (flat_map g a)). apply Sub_app; [apply Sub_nil_l|exact IH].
  - apply Sub_app; [apply Sub_refl|exact IH].
Qed.

Lemma sp_inline_names_sub : forall a b, Sub a b -> Sub (sp_inline_names a) (sp_inline_names b).
Proof. intros a b H. unfold sp_inline_names. now apply Sub_flat_map. Qed.

Lemma fields_wf_nodup_all : forall fs, fields_wf fs = true -> NoDup (sp_field_scope fs ++ sp_inline_names fs).
Proof. intros fs H. unfold fields_wf in H. apply andb_true_iff in H. destruct H as [_ H]. now apply nodup_bytes_NoDup. Qed.
Lemma fields_wf_nodup : forall fs, fields_wf fs = true -> NoDup (sp_field_scope fs).
Proof. intros fs H. eapply NoDup_app_l. apply fields_wf_nodup_all. exact H. Qed.
Lemma fields_wf_each : forall fs, fields_wf fs = true -> forallb ufield_wf fs = true.
Proof. intros fs H. unfold fields_wf in H. apply andb_true_iff in H. tauto. Qed.

Definition all_nodup_l (l : list (list bytes)) : Prop := Forall (fun sc => NoDup sc) l.

(* the inline types of a message of user fields: names and scopes *)
Lemma inline_enum_values_eq : forall n os,
  map fst (status_values (to_screaming_snake n ++ [95]) os) = sp_inline_enum_values n os.
Proof.
  intros n os. rewrite status_values_names. unfold sp_inline_enum_values, sp_enum_values, sp_enum_values_n.
  destruct os as [|o r]; [reflexivity|]. rewrite andb_true_r. reflexivity.
Qed.

(* the spec's statement of "enum options are distinct names for protobuf" is the check the model of the converter
   runs on the enums it builds *)
Lemma forallb_ext_pt : forall {A} (f g : A -> bool) l, (forall x, f x = g x) -> forallb f l = forallb g l.
Proof. intros A f g l H. induction l as [|a l IH]; [reflexivity|]. cbn. now rewrite H, IH. Qed.
Lemma forallb_map_comp : forall {A B} (f : B -> bool) (g : A -> B) l, forallb f (map g l) = forallb (fun x => f (g x)) l.
Proof. induction l as [|a l IH]; [reflexivity|]. cbn. now rewrite IH. Qed.

Lemma enum_accepts_names : forall n vs, enum_accepts n vs = sp_canonical_distinct n (map fst vs).
Proof. intros n vs. unfold enum_accepts, sp_canonical_distinct. now rewrite map_map. Qed.

Lemma inline_enum_ok_eq : forall j c n k r q fl p te fi fo o fs os tr d kf,
  inline_enum_ok (mkF13 j (inline_type c (to_camel n) k) r q fl p te fi fo o (Some (mkInl4 k fs os tr)) d kf)
  = sp_inline_enum_ok n k os.
Proof.
  intros. unfold inline_enum_ok, sp_inline_enum_ok. rewrite inline_of_inline_type. cbn [il_kind il_options].
  destruct (k =? 2); [|reflexivity]. now rewrite enum_accepts_names, inline_enum_values_eq.
Qed.

Lemma tfield_enums_ok_eq : forall t, tfield_enums_ok t = sp_tfield_enums_ok t.
Proof.
  fix IH 1. intros [n k r o d]. destruct k as [i|i|i|ik c fs os]; try reflexivity.
  cbn [tfield_enums_ok sp_tfield_enums_ok of_tfield]. rewrite inline_enum_ok_eq. f_equal.
  induction fs as [|t fs IHfs]; [reflexivity|]. cbn [forallb]. now rewrite IH, IHfs.
Qed.

Lemma ufield_enums_ok_eq : forall u, ufield_enums_ok u = sp_ufield_enums_ok u.
Proof.
  intros [n k r o d kf c]. unfold ufield_enums_ok, sp_ufield_enums_ok, of_ufield, tree_of. cbn [uf_kind uf_name uf_container uf_desc uf_required uf_optional uf_keyfmt].
  destruct k as [pt j|m|m|m|p f t|tn j|i|i|sfs|sfs|os|tk tfs]; cbn [f_inline il_tree forallb andb];
    try (unfold inline_enum_ok; rewrite inline_of_none by reflexivity; reflexivity).
  - rewrite inline_enum_ok_eq. reflexivity.
  - rewrite inline_enum_ok_eq. reflexivity.
  - rewrite inline_enum_ok_eq, andb_true_r. reflexivity.
  - rewrite inline_enum_ok_eq. f_equal.
    induction tfs as [|t tfs IH]; [reflexivity|]. cbn [forallb]. now rewrite tfield_enums_ok_eq, IH.
Qed.

Theorem enums_ok_eq : forall e, sp_enums_ok e = decl_enums_ok e.
Proof.
  intros e. unfold sp_enums_ok, decl_enums_ok, client_accepts. cbn [forallb status_enum].
  rewrite enum_accepts_names. unfold entity_status_values. rewrite status_values_names_n, cn_status.
  change (first_status_number e) with (sp_first_number e). change (status_prefix e) with (sp_status_prefix e).
  f_equal; [f_equal|].
  - rewrite forallb_map_comp. apply forallb_ext_pt. intros [n fs|n fs|n os]; try reflexivity.
    cbn [schema_component]. now rewrite enum_accepts_names, status_values_names.
  - apply forallb_ext_pt. intros u. symmetry. apply ufield_enums_ok_eq.
Qed.

Lemma user_inline_names : forall fs, inline_names (map of_ufield fs) = sp_inline_names fs.
Proof.
  induction fs as [|[n k r o d kf c] fs IH]; [reflexivity|]. unfold inline_names, sp_inline_names in *. cbn [map flat_map].
  rewrite IH. f_equal. unfold of_ufield. cbn [uf_kind uf_name uf_container].
  destruct k as [pt j|m|m|m|p f t|tn j|i|i|sfs|sfs|os|tk tfs]; rewrite ?inline_of_inline_type;
    try (rewrite inline_of_none by reflexivity); cbn [il_kind il_options N.eqb Pos.eqb]; try reflexivity.
  now rewrite inline_enum_values_eq.
Qed.

(* names that start with a lower-case letter are neither presence oneofs nor map entries *)
Definition lower_start (s : bytes) : bool := match s with c :: _ => is_low c | [] => false end.

Lemma to_snake_lower_start : forall n, name_ok n = true -> lower_start (to_snake n) = true.
Proof.
  intros n H. unfold name_ok in H. apply andb_true_iff in H. destruct H as [Hi Hs].
  unfold to_snake, to_delimited, to_screaming_delimited. rewrite (trim_space_ident n Hi).
  destruct n as [|c r]; [discriminate|]. cbn [starts_letter] in Hs.
  pose proof (hd_delimited false c r) as Hh. rewrite andb_false_r in Hh. cbn [andb orb] in Hh.
  assert (Es : is_sep c = false).
  { unfold is_letter in Hs. apply orb_true_iff in Hs. destruct Hs as [Hc|Hl]; [now apply cap_not_sep|now apply low_not_sep]. }
  rewrite Es in Hh. destruct (delimited_go 95 false false (c :: r)) as [|o t]; [discriminate|].
  cbn in Hh. inversion Hh. cbn [lower_start]. rewrite conv_low. unfold is_letter in Hs. now rewrite orb_comm.
Qed.

Lemma map_name_cap_start : forall s, lower_start s = true -> exists c t, map_name s = c :: t /\ is_cap c = true.
Proof.
  intros [|c r] H; [discriminate|]. cbn [lower_start] in H. unfold map_name. cbn [map_name_go].
  assert (E : (c =? 95) = false) by (unfold is_low in H; apply N.eqb_neq; intros ->; discriminate).
  rewrite E. eexists. eexists. split; [reflexivity|]. unfold to_upper. rewrite H. now apply low_upper_is_cap.
Qed.

Lemma camel_cap_start : forall n, name_ok n = true -> exists c t, to_camel n = c :: t /\ is_cap c = true.
Proof.
  intros [|c r] H; [discriminate|]. unfold name_ok in H. apply andb_true_iff in H. destruct H as [Hi Hs].
  cbn [starts_letter] in Hs. exact (to_camel_starts_cap c r Hs Hi).
Qed.

Lemma camel_name_ok : forall n, name_ok n = true -> name_ok (to_camel n) = true.
Proof.
  intros n H. destruct (camel_cap_start n H) as [c [t [E Hc]]]. unfold name_ok. apply andb_true_iff. split.
  - pose proof (to_camel_alnum n) as Ha. unfold ident. rewrite forallb_forall in *. intros x Hx. specialize (Ha x Hx).
    unfold alnum in Ha. unfold plain. now rewrite Ha.
  - rewrite E. cbn [starts_letter]. unfold is_letter. now rewrite Hc.
Qed.

(* the inline type names and inline enum values never start with a lower-case letter *)
Lemma inline_names_not_lower : forall fs x, forallb ufield_wf fs = true -> In x (sp_inline_names fs) -> lower_start x = false.
Proof.
  intros fs x Hw Hx. unfold sp_inline_names in Hx. apply in_flat_map in Hx. destruct Hx as [u [Hu Hx]].
  rewrite forallb_forall in Hw. destruct (ufield_wf_parts u (Hw u Hu)) as [Hn [Wi _]]. unfold inline_wf in Wi.
  destruct (camel_cap_start _ Hn) as [c [t [E Hc]]].
  assert (Hcamel : lower_start (to_camel (uf_name u)) = false) by (rewrite E; cbn; now apply cap_not_low).
  destruct (uf_kind u) as [pt j|m|m|m|p f te|tn j|i|i|sfs|sfs|os|tk tfs]; try contradiction; try discriminate.
  - destruct Hx as [<-|[]]. exact Hcamel.
  - destruct Hx as [<-|[]]. exact Hcamel.
  - destruct Hx as [<-|Hx]; [exact Hcamel|].
    (* an inline enum value: the prefix SCREAMING(<Camel>)_ starts with a capital *)
    set (P := to_screaming_snake (to_camel (uf_name u)) ++ [95]) in *.
    assert (HP : exists c' t', P = c' :: t' /\ is_cap c' = true).
    { unfold P. rewrite to_screaming_snake_upper.
      pose proof (to_snake_lower_start _ (camel_name_ok _ Hn)) as Hl.
      destruct (to_snake (to_camel (uf_name u))) as [|c0 r0]; [discriminate|]. cbn [lower_start] in Hl.
      cbn [map app]. eexists. eexists. split; [reflexivity|]. unfold to_upper. rewrite Hl. now apply low_upper_is_cap. }
    destruct HP as [c' [t' [EP Hc']]].
    assert (Hval : forall o, lower_start (sp_enum_value_name P o) = false).
    { intros o. unfold sp_enum_value_name. destruct (has_prefix P o) eqn:Ep.
      - rewrite EP in Ep. destruct o as [|y o']; [discriminate|]. cbn in Ep. apply andb_true_iff in Ep. destruct Ep as [Ey _].
        apply N.eqb_eq in Ey. subst y. cbn. now apply cap_not_low.
      - rewrite EP. cbn. now apply cap_not_low. }
    unfold sp_inline_enum_values in Hx. fold P in Hx. destruct os as [|o0 r0].
    + destruct Hx as [<-|[]]. rewrite EP. cbn. now apply cap_not_low.
    + destruct (sp_explicit_zero P o0).
      * apply in_map_iff in Hx. destruct Hx as [o [<- _]]. apply Hval.
      * destruct Hx as [<-|Hx]; [rewrite EP; cbn; now apply cap_not_low|].
        apply in_map_iff in Hx. destruct Hx as [o [<- _]]. apply Hval.
  - (* a tree-form inline object / oneof: only the type name *)
    destruct (tree_wf_parts tk tfs Wi) as [Hlt _].
    destruct (tk =? 2) eqn:E2; [apply N.eqb_eq in E2; subst tk; discriminate|].
    destruct Hx as [<-|[]]. exact Hcamel.
Qed.

Lemma lower_not_in_extras : forall fs x, forallb ufield_wf fs = true -> lower_start x = true ->
  ~ In x ((map (fun u => 95 :: to_snake (uf_name u)) (filter sp_presence fs)
           ++ map (fun u => map_name (to_snake (uf_name u))) (filter is_map_kind fs))
          ++ sp_inline_names fs).
Proof.
  intros fs x Hw Hx Hin. apply in_app_or in Hin. destruct Hin as [Hin|Hin].
  - apply in_app_or in Hin. destruct Hin as [Hin|Hin]; apply in_map_iff in Hin;
      destruct Hin as [u [<- Hu]]; apply filter_In in Hu; destruct Hu as [Hu _].
    + discriminate.
    + rewrite forallb_forall in Hw. destruct (ufield_wf_parts u (Hw u Hu)) as [Hn _].
      destruct (map_name_cap_start _ (to_snake_lower_start _ Hn)) as [c [t [E Hc]]].
      rewrite E in Hx. cbn in Hx. rewrite (cap_not_low c Hc) in Hx. discriminate.
  - rewrite (inline_names_not_lower fs x Hw Hin) in Hx. discriminate.
Qed.

(* ---- the scopes of tree-form inline schemas -------------------------------------------------------------- *)
Lemma of_tfield_facts : forall t,
  f_json (of_tfield t) = tf_name t
  /\ f_optional (of_tfield t) = (tf_optional t && negb (tk_repeated (tf_kind t)))
  /\ is_map_field (of_tfield t) = tk_map (tf_kind t).
Proof.
  intros [n [i|i|i|k c fs os] r o d]; unfold is_map_field;
    cbn [of_tfield f_json f_optional f_type tf_name tf_optional tf_kind tk_repeated tk_map negb];
    repeat split; try reflexivity; try (now rewrite andb_true_r); try (now rewrite andb_false_r);
    try (destruct i; reflexivity); try (now rewrite negb_involutive).
  unfold inline_type. destruct (c =? 2); reflexivity.
Qed.

Lemma tnames_eq : forall fs, inline_names (map of_tfield fs) = sp_tnames fs.
Proof.
  induction fs as [|[n k r o d] fs IH]; [reflexivity|]. unfold inline_names, sp_tnames in *. cbn [map flat_map].
  rewrite IH. f_equal. destruct k as [i|i|i|k c tfs os]; cbn [of_tfield];
    rewrite ?inline_of_inline_type; try (rewrite inline_of_none by reflexivity); try reflexivity.
  cbn [il_kind il_options]. destruct (k =? 2); [now rewrite inline_enum_values_eq|reflexivity].
Qed.

Lemma is_nil_map : forall {A B} (f : A -> B) l, is_nil (map f l) = is_nil l.
Proof. intros A B f [|x l]; reflexivity. Qed.

(* the model's scope of one nested message, spelled out over the declaration *)
Lemma tscope_eq : forall k fs,
  fields_scope (k =? 1) (map of_tfield fs) ++ inline_names (map of_tfield fs)
  = map (fun t => to_snake (tf_name t)) fs
    ++ (if k =? 1 then (if is_nil fs then [] else [bs "type"])
        else map (fun t => 95 :: to_snake (tf_name t)) (filter (fun t => tf_optional t && negb (tk_repeated (tf_kind t))) fs))
    ++ map (fun t => map_name (to_snake (tf_name t))) (filter (fun t => tk_map (tf_kind t)) fs)
    ++ sp_tnames fs.
Proof.
  intros k fs. unfold fields_scope, entry_names, proto_name. rewrite tnames_eq, is_nil_map.
  rewrite (filter_map_comm of_tfield f_optional (fun t => tf_optional t && negb (tk_repeated (tf_kind t))))
    by (intros x; apply of_tfield_facts).
  rewrite (filter_map_comm of_tfield is_map_field (fun t => tk_map (tf_kind t))) by (intros x; apply of_tfield_facts).
  rewrite !map_map. rewrite <- !app_assoc. f_equal; [|f_equal; [|f_equal]].
  - apply map_ext. intros t. now destruct (of_tfield_facts t) as [-> _].
  - destruct (k =? 1); [reflexivity|]. apply map_ext. intros t. now destruct (of_tfield_facts t) as [-> _].
  - apply map_ext. intros t. now destruct (of_tfield_facts t) as [-> _].
Qed.

Lemma NoDup_insert : forall {A} (a b : list A) x, NoDup (a ++ b) -> ~ In x (a ++ b) -> NoDup (a ++ x :: b).
Proof.
  induction a as [|y a IH]; cbn [app]; intros b x Hn Hx; [now constructor|].
  inversion Hn as [|? ? Hy Hn']; subst. constructor.
  - intros Hin. apply in_app_or in Hin. destruct Hin as [Hin|[->|Hin]].
    + apply Hy, in_or_app. now left.
    + apply Hx. now left.
    + apply Hy, in_or_app. now right.
  - apply IH; [exact Hn'|]. intros Hin. apply Hx. now right.
Qed.

(* the values of an inline enum never start with a lower-case letter *)
Lemma inline_enum_values_not_lower : forall n os x, name_ok n = true ->
  In x (sp_inline_enum_values (to_camel n) os) -> lower_start x = false.
Proof.
  intros n os x Hn Hx.
  set (P := to_screaming_snake (to_camel n) ++ [95]) in *.
  assert (HP : exists c' t', P = c' :: t' /\ is_cap c' = true).
  { unfold P. rewrite to_screaming_snake_upper.
    pose proof (to_snake_lower_start _ (camel_name_ok _ Hn)) as Hl.
    destruct (to_snake (to_camel n)) as [|c0 r0]; [discriminate|]. cbn [lower_start] in Hl.
    cbn [map app]. eexists. eexists. split; [reflexivity|]. unfold to_upper. rewrite Hl. now apply low_upper_is_cap. }
  destruct HP as [c' [t' [EP Hc']]].
  assert (Hval : forall o, lower_start (sp_enum_value_name P o) = false).
  { intros o. unfold sp_enum_value_name. destruct (has_prefix P o) eqn:Ep.
    - rewrite EP in Ep. destruct o as [|y o']; [discriminate|]. cbn in Ep. apply andb_true_iff in Ep. destruct Ep as [Ey _].
      apply N.eqb_eq in Ey. subst y. cbn. now apply cap_not_low.
    - rewrite EP. cbn. now apply cap_not_low. }
  unfold sp_inline_enum_values in Hx. fold P in Hx. destruct os as [|o0 r0].
  - destruct Hx as [<-|[]]. rewrite EP. cbn. now apply cap_not_low.
  - destruct (sp_explicit_zero P o0).
    + apply in_map_iff in Hx. destruct Hx as [o [<- _]]. apply Hval.
    + destruct Hx as [<-|Hx]; [rewrite EP; cbn; now apply cap_not_low|].
      apply in_map_iff in Hx. destruct Hx as [o [<- _]]. apply Hval.
Qed.

Lemma tfield_name_ok : forall t, tfield_wf t = true -> name_ok (tf_name t) = true.
Proof. intros [n k r o d] H. now destruct (tfield_wf_parts n k r o d H) as [Hn _]. Qed.

(* entry messages and nested type names / enum values do not start with a lower-case letter *)
Lemma textras_not_lower : forall fs x, forallb tfield_wf fs = true ->
  In x (map (fun t => map_name (to_snake (tf_name t))) (filter (fun t => tk_map (tf_kind t)) fs) ++ sp_tnames fs) ->
  lower_start x = false.
Proof.
  intros fs x Hw Hin. rewrite forallb_forall in Hw. apply in_app_or in Hin. destruct Hin as [Hin|Hin].
  - apply in_map_iff in Hin. destruct Hin as [t [<- Ht]]. apply filter_In in Ht. destruct Ht as [Ht _].
    destruct (map_name_cap_start _ (to_snake_lower_start _ (tfield_name_ok t (Hw t Ht)))) as [c [r [E Hc]]].
    rewrite E. cbn. now apply cap_not_low.
  - unfold sp_tnames in Hin. apply in_flat_map in Hin. destruct Hin as [t [Ht Hin]].
    pose proof (tfield_name_ok t (Hw t Ht)) as Hn. destruct t as [n k r o d]. cbn [tf_name] in Hn.
    destruct k as [i|i|i|k c tfs os]; try contradiction.
    destruct Hin as [<-|Hin].
    + destruct (camel_cap_start _ Hn) as [c0 [r0 [E Hc]]]. rewrite E. cbn. now apply cap_not_low.
    + destruct (k =? 2); [|contradiction]. now apply (inline_enum_values_not_lower n os).
Qed.

(* the scope of one nested message has no repeated symbol *)
Lemma tscope_nodup : forall k fs, forallb tfield_wf fs = true -> nodup_bytes (sp_tscope k fs) = true ->
  options_type_free k fs = true ->
  NoDup (fields_scope (k =? 1) (map of_tfield fs) ++ inline_names (map of_tfield fs)).
Proof.
  intros k fs Hw Hn Ht. rewrite tscope_eq. apply nodup_bytes_NoDup in Hn. unfold sp_tscope in Hn.
  unfold options_type_free in Ht. destruct (k =? 1); [|exact Hn].
  destruct fs as [|t0 tl]; [exact Hn|]. cbn [is_nil app] in *.
  set (N := map (fun t => to_snake (tf_name t)) (t0 :: tl)) in *.
  set (X := map (fun t => map_name (to_snake (tf_name t))) (filter (fun t => tk_map (tf_kind t)) (t0 :: tl)) ++ sp_tnames (t0 :: tl)) in *.
  change (NoDup (N ++ bs "type" :: X)). apply NoDup_insert; [exact Hn|].
  intros Hin. apply in_app_or in Hin. destruct Hin as [Hin|Hin].
  - unfold N in Hin. apply in_map_iff in Hin. destruct Hin as [t [E Hin]].
    rewrite forallb_forall in Ht. specialize (Ht t Hin). rewrite E, bytes_eqb_refl in Ht. discriminate.
  - pose proof (textras_not_lower (t0 :: tl) (bs "type") Hw Hin) as Hl. discriminate.
Qed.

(* ... and so have, recursively, the scopes of everything nested in it *)
Lemma tfield_scopes_nodup : forall t, tfield_wf t = true -> tfield_type_free t = true ->
  Forall (fun sc => NoDup sc) (tfield_scopes t).
Proof.
  fix IH 1. intros [n k r o d] Hw Ht. destruct (tfield_wf_parts n k r o d Hw) as [_ [_ Hk]].
  destruct k as [i|i|i|k c fs os]; try constructor.
  cbn [tfield_scopes]. cbn [tfield_type_free] in Ht. apply andb_true_iff in Ht. destruct Ht as [Ht1 Ht2].
  destruct (k =? 2); [constructor|]. destruct Hk as [_ [Hf [Hn _]]]. constructor.
  - now apply tscope_nodup.
  - clear Hw Hn Ht1. revert fs Hf Ht2. fix IHl 1. intros [|x rest] Hf Ht2; [constructor|].
    cbn [forallb flat_map] in *. apply andb_true_iff in Hf. destruct Hf as [Hx Hr].
    apply andb_true_iff in Ht2. destruct Ht2 as [Tx Tr]. apply Forall_app. split; [exact (IH x Hx Tx)|exact (IHl rest Hr Tr)].
Qed.

(* no inline oneof of these fields - at any depth - has an option named type (reserved_free) *)
Definition type_free (fs : list ufield) : Prop :=
  forall u, In u fs -> match uf_kind u with
                       | KInlineOneof opts => forallb (fun o => negb (bytes_eqb (to_snake (sf_name o)) (bs "type"))) opts = true
                       | KInlineTree k tfs => tree_type_free k tfs = true
                       | _ => True end.

Lemma type_free_of : forall e fs, reserved_free e = true -> (forall u, In u fs -> In u (all_ufields e)) -> type_free fs.
Proof.
  intros e fs Hr Hin u Hu. destruct (reserved_free_parts e Hr) as [_ [_ [_ [_ [_ [_ R]]]]]].
  rewrite forallb_forall in R. specialize (R u (Hin u Hu)). destruct (uf_kind u); try exact I; exact R.
Qed.

Lemma type_free_sub : forall a b, (forall u, In u a -> In u b) -> type_free b -> type_free a.
Proof. intros a b H Hb u Hu. apply Hb. now apply H. Qed.

Lemma user_inline_scopes : forall fs, forallb ufield_wf fs = true -> type_free fs ->
  all_nodup_l (inline_scopes (map of_ufield fs)).
Proof.
  intros fs Hw Ht. unfold inline_scopes. rewrite flat_map_concat_map, map_map, <- flat_map_concat_map.
  apply Forall_forall. intros sc Hsc. apply in_flat_map in Hsc. destruct Hsc as [u [Hu Hsc]].
  rewrite forallb_forall in Hw. destruct (ufield_wf_parts u (Hw u Hu)) as [_ [Wi _]]. specialize (Ht u Hu).
  destruct u as [n k r o]. unfold of_ufield in Hsc. unfold inline_wf in Wi. cbn [uf_kind] in *.
  destruct k as [pt j|m|m|m|p f t|tn j|i|i|sfs|sfs|os|tk tfs]; cbn [f_inline il_kind il_fields il_tree N.eqb Pos.eqb] in Hsc; try contradiction; try discriminate.
  - (* inline object *)
    destruct Hsc as [<-|[]]. apply andb_true_iff in Wi. destruct Wi as [_ Wn]. apply nodup_bytes_NoDup in Wn.
    unfold sp_inline_scope in Wn. rewrite map_map. exact Wn.
  - (* inline oneof *)
    destruct Hsc as [<-|[]]. apply andb_true_iff in Wi. destruct Wi as [_ Wn]. apply nodup_bytes_NoDup in Wn.
    unfold sp_inline_scope in Wn. rewrite app_nil_r in Wn. rewrite map_map.
    destruct sfs as [|s0 sr]; [constructor|]. cbn [is_nil].
    apply NoDup_app_intro; [exact Wn|repeat constructor; intros []|].
    intros x Hx [<-|[]]. apply in_map_iff in Hx. destruct Hx as [s1 [E Hs1]].
    rewrite forallb_forall in Ht. specialize (Ht s1 Hs1). unfold proto_name, of_sfield in E. cbn [f_json] in E.
    rewrite E, bytes_eqb_refl in Ht. discriminate.
  - (* tree form *)
    destruct (tree_wf_parts tk tfs Wi) as [_ [Hf [Hn _]]]. unfold tree_type_free in Ht.
    apply andb_true_iff in Ht. destruct Ht as [Ht1 Ht2].
    destruct tfs as [|t0 tl].
    + destruct (tk =? 2); [contradiction|]. destruct Hsc as [<-|[]]. cbn [map app is_nil filter]. destruct (tk =? 1); constructor.
    + unfold tree_scopes in Hsc. destruct Hsc as [<-|Hsc]; [now apply tscope_nodup|].
      apply in_flat_map in Hsc. destruct Hsc as [x [Hx Hsc]].
      rewrite forallb_forall in Hf, Ht2.
      pose proof (tfield_scopes_nodup x (Hf x Hx) (Ht2 x Hx)) as A. rewrite Forall_forall in A. now apply A.
Qed.

(* user fields plus fields the expansion appends: distinct when the appended names are lower-case
   words none of the user's proto names repeats *)
Lemma scope_with_added : forall fs added,
  fields_wf fs = true -> NoDup added ->
  Forall (fun x => lower_start x = true /\ ~ In x (map (fun u => to_snake (uf_name u)) fs)) added ->
  NoDup (map (fun u => to_snake (uf_name u)) fs ++ added
         ++ (map (fun u => 95 :: to_snake (uf_name u)) (filter sp_presence fs)
             ++ map (fun u => map_name (to_snake (uf_name u))) (filter is_map_kind fs))
         ++ sp_inline_names fs).
Proof.
  intros fs added Hw Ha Hadd. pose proof (fields_wf_nodup_all fs Hw) as Hn. unfold sp_field_scope in Hn.
  pose proof (fields_wf_each fs Hw) as Hw'.
  set (P := map (fun u => to_snake (uf_name u)) fs) in *.
  set (X := (map (fun u => 95 :: to_snake (uf_name u)) (filter sp_presence fs)
             ++ map (fun u => map_name (to_snake (uf_name u))) (filter is_map_kind fs)) ++ sp_inline_names fs) in *.
  assert (Hn' : NoDup (P ++ X)).
  { unfold X. rewrite app_assoc. exact Hn. }
  assert (HP : NoDup P) by (eapply NoDup_app_l; exact Hn').
  assert (HX : NoDup X) by (eapply NoDup_app_r; exact Hn').
  assert (HPX : forall x, In x P -> ~ In x X).
  { intros x Hx Hx'. clear -Hn' Hx Hx'. induction P as [|p P IH]; [destruct Hx|]. cbn in Hn'. inversion Hn'; subst.
    destruct Hx as [->|Hx]; [apply H1; apply in_or_app; now right|now apply IH]. }
  change (NoDup (P ++ added ++ X)).
  apply NoDup_app_intro; [exact HP| |].
  - apply NoDup_app_intro; [exact Ha|exact HX|]. intros x Hx. rewrite Forall_forall in Hadd.
    destruct (Hadd x Hx) as [Hl _]. now apply lower_not_in_extras.
  - intros x Hx Hin. apply in_app_or in Hin. destruct Hin as [Hin|Hin]; [|exact (HPX x Hx Hin)].
    rewrite Forall_forall in Hadd. destruct (Hadd x Hin) as [_ Hnot]. exact (Hnot Hx).
Qed.

(* ---- the three package scopes are the documented ones ---------------------------------------------------- *)
Lemma file_scope_app : forall f a b, file_scope f (a ++ b) = file_scope f a ++ file_scope f b.
Proof. intros. unfold file_scope. apply flat_map_app. Qed.
Lemma file_scope_flat_map : forall {A} f (g : A -> list component) l,
  file_scope f (flat_map g l) = flat_map (fun x => file_scope f (g x)) l.
Proof. induction l as [|x l IH]; [reflexivity|]. cbn [flat_map]. now rewrite file_scope_app, IH. Qed.

Lemma file_scope_methods : forall f base name verb rel req resp sq,
  file_scope f (fst (method_components base name verb rel req resp sq)) =
    if 1 =? f then (name ++ bs "Request") :: match resp with Some _ => [name ++ bs "Response"] | None => [] end
    else [].
Proof.
  intros. unfold file_scope, method_components. destruct resp; cbn [fst flat_map m_name app];
    destruct (1 =? f); reflexivity.
Qed.

Lemma file_scope_service : forall f name ann ms,
  file_scope f (service_components name ann ms) =
    flat_map (fun m => file_scope f (fst m)) ms ++ (if 1 =? f then [name ++ bs "Service"] else []).
Proof.
  intros. unfold service_components. rewrite file_scope_app, file_scope_flat_map. f_equal.
  unfold file_scope. cbn [flat_map sv_name app]. destruct (1 =? f); reflexivity.
Qed.

Lemma file_scope_query : forall e f,
  file_scope f (query_components e) =
    if 1 =? f then
      let q := sp_query_prefix e in
      [q ++ bs "GetRequest"; q ++ bs "GetResponse"; q ++ bs "ListRequest"; q ++ bs "ListResponse";
       q ++ bs "EventsRequest"; q ++ bs "EventsResponse"; q ++ bs "QueryService"]
    else [].
Proof.
  intros e f. unfold query_components. rewrite file_scope_service. cbn [flat_map].
  rewrite !file_scope_methods. destruct (1 =? f); [|reflexivity].
  cbv zeta. unfold sp_query_prefix, query_prefix, snake_name. cbn [app]. rewrite <- !app_assoc. reflexivity.
Qed.

Lemma file_scope_command : forall e c f,
  file_scope f (command_components e c) =
    if 1 =? f then
      flat_map (fun m => (md_name m ++ bs "Request")
                         :: match md_response m with Some _ => [md_name m ++ bs "Response"] | None => [] end)
               (c_methods c) ++ [command_service e c]
    else [].
Proof.
  intros e c f. unfold command_components. rewrite file_scope_service.
  rewrite flat_map_concat_map, map_map, <- flat_map_concat_map.
  rewrite (flat_map_ext _ (fun m => if 1 =? f then (md_name m ++ bs "Request")
               :: match md_response m with Some _ => [md_name m ++ bs "Response"] | None => [] end else [])).
  2:{ intros m. cbn [fst]. rewrite file_scope_methods. destruct (md_response m); reflexivity. }
  destruct (1 =? f).
  - f_equal. unfold command_service_name, command_service, camel_name, sp_camel.
    destruct (c_name c) as [n|]; [destruct (has_suffix (bs "Command") n)|]; rewrite <- ?app_assoc; reflexivity.
  - rewrite app_nil_r. apply flat_map_nil.
Qed.

Lemma file_scope_topic : forall f tn mn role en fields,
  file_scope f (topic_components tn mn role en fields) =
    if 2 =? f then [mn ++ bs "Message"; to_camel tn ++ bs "Topic"] else [].
Proof.
  intros. unfold file_scope, topic_components. cbn [flat_map m_name sv_name app]. destruct (2 =? f); reflexivity.
Qed.

Lemma file_scope_schema : forall f s,
  file_scope f [schema_component s] = if f =? 0 then sp_schema_names s else [].
Proof.
  intros f [n fs|n fs|n os]; cbn [schema_component file_scope flat_map sp_schema_names app].
  - rewrite N.eqb_sym. destruct (f =? 0); reflexivity.
  - rewrite N.eqb_sym. destruct (f =? 0); reflexivity.
  - rewrite app_nil_r, status_values_names. destruct (f =? 0); reflexivity.
Qed.

Lemma file_scope_schemas : forall f l,
  file_scope f (map schema_component l) = if f =? 0 then flat_map sp_schema_names l else [].
Proof.
  induction l as [|s l IH]; [destruct (f =? 0); reflexivity|]. cbn [map flat_map].
  change (schema_component s :: map schema_component l) with ([schema_component s] ++ map schema_component l).
  rewrite file_scope_app, file_scope_schema, IH. destruct (f =? 0); reflexivity.
Qed.

Lemma summary_name_sp : forall e s, summary_topic_name e s = sp_summary_name e s.
Proof. intros e s. unfold summary_topic_name, sp_summary_name, camel_name, sp_camel. destruct (s_name s); reflexivity. Qed.

Theorem main_scope_eq : forall e fl, file_scope 0 (expand_with e fl) = sp_main_scope e.
Proof.
  intros e fl. unfold expand_with. rewrite !file_scope_app, file_scope_query, !file_scope_flat_map, file_scope_schemas.
  unfold publish_components. rewrite file_scope_topic.
  rewrite (flat_map_ext _ (fun _ => [])) by (intros c; apply file_scope_command).
  rewrite (flat_map_ext (fun x => file_scope 0 (summary_components e x)) (fun _ => [])).
  2:{ intros s. unfold summary_components. now rewrite file_scope_topic. }
  rewrite !flat_map_nil. cbn [N.eqb Pos.eqb app].
  unfold sp_main_scope. cbn [file_scope flat_map keys_msg data_msg status_enum state_msg event_type_msg event_msg m_name N.eqb app].
  unfold event_type_name, entity_status_values. rewrite status_values_names_n, cn_keys, cn_data, cn_status, cn_state, cn_event_type, cn_event.
  rewrite ?app_nil_r. unfold status_prefix, sp_status_prefix, sp_first_number, first_status_number. rewrite <- ?app_assoc. reflexivity.
Qed.

Theorem service_scope_eq : forall e fl, file_scope 1 (expand_with e fl) = sp_service_scope e.
Proof.
  intros e fl. unfold expand_with. rewrite !file_scope_app, file_scope_query, !file_scope_flat_map, file_scope_schemas.
  unfold publish_components. rewrite file_scope_topic.
  rewrite (flat_map_ext (fun x => file_scope 1 (command_components e x)) _) by (intros c; apply file_scope_command).
  rewrite (flat_map_ext (fun x => file_scope 1 (summary_components e x)) (fun _ => [])).
  2:{ intros s. unfold summary_components. now rewrite file_scope_topic. }
  rewrite flat_map_nil. cbn [N.eqb Pos.eqb app file_scope flat_map]. rewrite ?app_nil_r.
  unfold sp_service_scope. reflexivity.
Qed.

Theorem topic_scope_eq : forall e fl, file_scope 2 (expand_with e fl) = sp_topic_scope e.
Proof.
  intros e fl. unfold expand_with. rewrite !file_scope_app, file_scope_query, !file_scope_flat_map, file_scope_schemas.
  unfold publish_components. rewrite file_scope_topic.
  rewrite (flat_map_ext (fun x => file_scope 2 (command_components e x)) (fun _ => [])) by (intros c; apply file_scope_command).
  rewrite (flat_map_ext (fun x => file_scope 2 (summary_components e x))
                        (fun s => [sp_summary_name e s ++ bs "Message"; to_camel (sp_summary_name e s) ++ bs "Topic"])).
  2:{ intros s. unfold summary_components. now rewrite file_scope_topic, summary_name_sp. }
  rewrite flat_map_nil. cbn [N.eqb Pos.eqb app file_scope flat_map]. rewrite ?app_nil_r.
  unfold sp_topic_scope, camel_name, sp_camel. rewrite <- ?app_assoc. reflexivity.
Qed.

(* ---- the scopes inside messages and services -------------------------------------------------------------- *)
Lemma inner_scopes_app : forall a b, inner_scopes (a ++ b) = inner_scopes a ++ inner_scopes b.
Proof. intros. unfold inner_scopes. apply flat_map_app. Qed.
Lemma inner_scopes_flat_map : forall {A} (g : A -> list component) l,
  inner_scopes (flat_map g l) = flat_map (fun x => inner_scopes (g x)) l.
Proof. induction l as [|x l IH]; [reflexivity|]. cbn [flat_map]. now rewrite inner_scopes_app, IH. Qed.

Definition all_nodup (l : list (list bytes)) : Prop := Forall (fun s => NoDup s) l.

Lemma all_nodup_app : forall a b, all_nodup a -> all_nodup b -> all_nodup (a ++ b).
Proof. intros a b Ha Hb. apply Forall_app. split; assumption. Qed.
Lemma all_nodup_flat_map : forall {A} (g : A -> list (list bytes)) l,
  (forall x, In x l -> all_nodup (g x)) -> all_nodup (flat_map g l).
Proof.
  induction l as [|x l IH]; intros H; [constructor|]. cbn [flat_map]. apply all_nodup_app.
  - apply H. now left.
  - apply IH. intros y Hy. apply H. now right.
Qed.

Lemma sub_wf : forall a b, Sub a b -> fields_wf b = true -> fields_wf a = true.
Proof.
  intros a b Hs Hb. pose proof (fields_wf_nodup_all b Hb) as Hn. pose proof (fields_wf_each b Hb) as Hw. unfold fields_wf.
  apply andb_true_iff. split.
  - apply forallb_forall. intros u Hu. rewrite forallb_forall in Hw. apply Hw. eapply Sub_In; eassumption.
  - apply nodup_bytes_NoDup. eapply Sub_NoDup; [|exact Hn].
    apply Sub_app; [now apply sp_field_scope_sub|now apply sp_inline_names_sub].
Qed.

(* a message of user fields (no nested messages): its own scope and the scopes of its inline types *)
Lemma user_msg_scopes : forall name psm fs, fields_wf fs = true -> type_free fs ->
  all_nodup (msg_scopes (mkMsg name psm false (map of_ufield fs) [])).
Proof.
  intros name psm fs H Ht. unfold msg_scopes. cbn [m_oneof m_fields m_nested map flat_map]. rewrite !app_nil_r.
  constructor.
  - rewrite user_scope, user_inline_names. now apply fields_wf_nodup_all.
  - apply user_inline_scopes; [now apply fields_wf_each|exact Ht].
Qed.

Lemma filter_none : forall {A} (p : A -> bool) l, Forall (fun x => p x = false) l -> filter p l = [].
Proof. induction 1 as [|x l H _ IH]; [reflexivity|]. cbn [filter]. now rewrite H. Qed.

(* user fields followed by fields of the expansion *)
Lemma added_scope : forall fs (added : list ofield),
  Forall (fun f => f_optional f = false /\ is_map_field f = false /\ f_inline f = None) added ->
  fields_scope false (map of_ufield fs ++ added) ++ inline_names (map of_ufield fs ++ added) =
    map (fun u => to_snake (uf_name u)) fs ++ map proto_name added
    ++ (map (fun u => 95 :: to_snake (uf_name u)) (filter sp_presence fs)
        ++ map (fun u => map_name (to_snake (uf_name u))) (filter is_map_kind fs))
    ++ sp_inline_names fs
  /\ inline_scopes (map of_ufield fs ++ added) = inline_scopes (map of_ufield fs).
Proof.
  intros fs added Ha.
  assert (E1 : filter f_optional added = []).
  { apply filter_none. eapply Forall_impl; [|exact Ha]. intros f [H _]. exact H. }
  assert (E2 : filter is_map_field added = []).
  { apply filter_none. eapply Forall_impl; [|exact Ha]. intros f [_ [H _]]. exact H. }
  assert (E3 : inline_names added = [] /\ inline_scopes added = []).
  { apply no_inline_names. eapply Forall_impl; [|exact Ha]. intros f [_ [_ H]]. exact H. }
  destruct E3 as [E3 E4]. split.
  - assert (In_app : inline_names (map of_ufield fs ++ added) = inline_names (map of_ufield fs) ++ inline_names added)
      by (unfold inline_names; apply flat_map_app).
    rewrite In_app, E3, app_nil_r, user_inline_names.
    unfold fields_scope, entry_names. rewrite !filter_app, !map_app, E1, E2. cbn [map]. rewrite !app_nil_r.
    rewrite (filter_map_comm of_ufield f_optional sp_presence) by (intros x; apply of_ufield_facts).
    rewrite (filter_map_comm of_ufield is_map_field is_map_kind) by (intros x; apply of_ufield_facts).
    rewrite !map_map. rewrite <- !app_assoc. f_equal; [|f_equal; f_equal; [|f_equal]];
      apply map_ext; intros u; unfold proto_name; destruct (of_ufield_facts u) as [-> _]; reflexivity.
  - unfold inline_scopes. rewrite flat_map_app. fold (inline_scopes added). rewrite E4. apply app_nil_r.
Qed.

Lemma path_keys_not_reserved : forall e ks, reserved_free e = true ->
  (forall u, In u ks -> exists k, In k (e_keys e) /\ key_in_path k = true /\ u = k_def k) ->
  Forall (fun x => lower_start x = true /\ ~ In x (map (fun u => to_snake (uf_name u)) ks)) [bs "page"; bs "query"].
Proof.
  intros e ks Hr Hks. destruct (reserved_free_parts e Hr) as [R1 _]. rewrite forallb_forall in R1.
  assert (G : forall x, In x [bs "page"; bs "query"] -> ~ In x (map (fun u => to_snake (uf_name u)) ks)).
  { intros x Hx Hin. apply in_map_iff in Hin. destruct Hin as [u [Eu Hu]].
    destruct (Hks u Hu) as [k [Hk [Hp ->]]]. specialize (R1 k Hk). rewrite Hp in R1. cbn [andb] in R1.
    apply negb_true_iff in R1. unfold key_name in R1. rewrite Eu in R1.
    apply existsb_bytes_In in Hx. congruence. }
  constructor; [split; [reflexivity|apply G; cbn; auto]|].
  constructor; [split; [reflexivity|apply G; cbn; auto]|constructor].
Qed.

Lemma get_keys_path : forall e u, In u (get_keys e) -> exists k, In k (e_keys e) /\ key_in_path k = true /\ u = k_def k.
Proof.
  intros e u H. unfold get_keys in H. apply in_map_iff in H. destruct H as [k [<- Hk]].
  apply filter_In in Hk. destruct Hk as [Hk Hp]. exists k. repeat split; assumption.
Qed.
Lemma list_keys_path : forall e u, In u (list_keys e) -> exists k, In k (e_keys e) /\ key_in_path k = true /\ u = k_def k.
Proof.
  intros e u H. unfold list_keys in H. apply in_map_iff in H. destruct H as [k [<- Hk]].
  apply filter_In in Hk. destruct Hk as [Hk Hp]. exists k. split; [assumption|]. split; [|reflexivity].
  apply andb_true_iff in Hp. destruct Hp as [H1 H2]. unfold key_in_path.
  change (key_typed k) with (is_key_field (k_def k)). rewrite H1, H2. now rewrite orb_true_r.
Qed.

Lemma get_keys_sub : forall e, Sub (get_keys e) (map k_def (e_keys e)).
Proof. intros e. unfold get_keys. apply Sub_map, Sub_filter. Qed.
Lemma list_keys_sub : forall e, Sub (list_keys e) (map k_def (e_keys e)).
Proof. intros e. unfold list_keys. apply Sub_map, Sub_filter. Qed.

Lemma paged_request_scopes : forall e name ks, quantified e -> reserved_free e = true ->
  Sub ks (map k_def (e_keys e)) ->
  (forall u, In u ks -> exists k, In k (e_keys e) /\ key_in_path k = true /\ u = k_def k) ->
  all_nodup (msg_scopes (mkMsg name None false (map of_ufield ks ++ [page_request; query_request]) [])).
Proof.
  intros e name ks Q Hr Hs Hk. pose proof (sub_wf _ _ Hs (q_keys_wf e Q)) as Wk.
  assert (Tf : type_free ks).
  { apply (type_free_of e _ Hr). intros u Hu. apply in_all_keys. eapply Sub_In; eassumption. }
  unfold msg_scopes. cbn [m_oneof m_fields m_nested map flat_map]. rewrite !app_nil_r.
  destruct (added_scope ks [page_request; query_request]) as [E1 E2]; [repeat constructor|].
  rewrite E1, E2. constructor.
  - apply (scope_with_added ks [bs "page"; bs "query"] Wk).
    + repeat constructor; cbn; intuition discriminate.
    + now apply (path_keys_not_reserved e).
  - apply user_inline_scopes; [now apply fields_wf_each|exact Tf].
Qed.

Lemma literal_scopes : forall name psm (fs : list ofield) names,
  forallb (fun f => match f_inline f with None => true | Some _ => false end) fs = true ->
  fields_scope false fs = names -> nodup_bytes names = true ->
  all_nodup (msg_scopes (mkMsg name psm false fs [])).
Proof.
  intros name psm fs names Hi E H. rewrite msg_scopes_no_inline.
  - constructor; [|constructor]. rewrite E. now apply nodup_bytes_NoDup.
  - apply Forall_forall. intros f Hf. rewrite forallb_forall in Hi. specialize (Hi f Hf). destruct (f_inline f); [discriminate|reflexivity].
Qed.

(* ---- part by part ---------------------------------------------------------------------------------------------- *)
Lemma inner_head : forall e fl, quantified e -> reserved_free e = true ->
  all_nodup (inner_scopes [CMsg 0 (keys_msg e); CMsg 0 (data_msg e); status_enum e;
                           CMsg 0 (state_msg e fl); CMsg 0 (event_type_msg e); CMsg 0 (event_msg e)]).
Proof.
  intros e fl Q Hr. unfold inner_scopes. cbn [flat_map status_enum app]. rewrite app_nil_r.
  repeat apply all_nodup_app.
  - unfold keys_msg. rewrite <- (map_map k_def of_ufield). apply user_msg_scopes; [exact (q_keys_wf e Q)|].
    apply (type_free_of e _ Hr). intros u Hu. now apply in_all_keys.
  - unfold data_msg. apply user_msg_scopes; [exact (q_data_wf e Q)|].
    apply (type_free_of e _ Hr). intros u Hu. now apply in_all_data.
  - unfold state_msg. eapply literal_scopes; [reflexivity|vm_compute; reflexivity|reflexivity].
  - (* the event oneof: options, the proto oneof "type", the nested event messages *)
    unfold msg_scopes, event_type_msg. cbn [m_oneof m_fields m_nested]. constructor.
    + set (opts := map (fun ev => to_snake (to_lower_camel (ev_name ev))) (e_events e)).
      assert (E : fields_scope true (map (fun ev => mkF (to_lower_camel (ev_name ev))
                     (TObject [] (event_type_name e ++ [46] ++ ev_name ev)) false false false false None None) (e_events e))
                  = opts ++ (if is_nil (e_events e) then [] else [bs "type"])).
      { unfold fields_scope, entry_names, proto_name. rewrite map_map. cbn [f_json mkF].
        assert (En : filter is_map_field (map (fun ev => mkF (to_lower_camel (ev_name ev))
                     (TObject [] (event_type_name e ++ [46] ++ ev_name ev)) false false false false None None) (e_events e)) = []).
        { apply filter_none. apply Forall_map. apply Forall_forall. intros ev _. reflexivity. }
        rewrite En. cbn [map]. rewrite app_nil_r. f_equal. destruct (e_events e); reflexivity. }
      assert (Ein : inline_names (map (fun ev => mkF (to_lower_camel (ev_name ev))
                     (TObject [] (event_type_name e ++ [46] ++ ev_name ev)) false false false false None None) (e_events e)) = []).
      { apply no_inline_names. apply Forall_map. apply Forall_forall. intros ev _. reflexivity. }
      rewrite E, Ein, map_map. cbn [fst app].
      pose proof (q_event_opts e Q) as Ho. apply nodup_bytes_NoDup in Ho. fold opts in Ho.
      destruct (reserved_free_parts e Hr) as [_ [_ [R4 _]]].
      assert (Hcap : forall ev, In ev (e_events e) -> starts_cap (ev_name ev) = true).
      { intros ev Hev. pose proof (q_events e Q) as H. rewrite forallb_forall in H. specialize (H ev Hev).
        apply andb_true_iff in H. destruct H as [H _]. apply andb_true_iff in H. destruct H as [H _].
        unfold type_name_ok in H. apply andb_true_iff in H. tauto. }
      assert (Hlow : forall x, In x opts \/ x = bs "type" -> forall ev, In ev (e_events e) -> x <> ev_name ev).
      { intros x Hx ev Hev E2. specialize (Hcap ev Hev). rewrite <- E2 in Hcap. destruct Hx as [Hx| ->]; [|discriminate].
        unfold opts in Hx. apply in_map_iff in Hx. destruct Hx as [ev' [<- _]].
        pose proof (snake_nf_delimited (trim_space (to_lower_camel (ev_name ev'))) false) as Hnf.
        change (delimited_go 95 false false (trim_space (to_lower_camel (ev_name ev')))) with (to_snake (to_lower_camel (ev_name ev'))) in Hnf.
        destruct (to_snake (to_lower_camel (ev_name ev'))) as [|c r]; [discriminate|].
        cbn [starts_cap] in Hcap. cbn [snake_nf] in Hnf. apply andb_true_iff in Hnf. destruct Hnf as [Hnf _].
        apply andb_true_iff in Hnf. destruct Hnf as [Hnf _]. unfold okc in Hnf. rewrite Hcap in Hnf. discriminate. }
      rewrite <- app_assoc. apply NoDup_app_intro; [exact Ho| |].
      * apply NoDup_app_intro.
        -- destruct (is_nil (e_events e)); repeat constructor. intros [].
        -- eapply (NoDup_map_finer (fun ev => to_snake (to_lower_camel (ev_name ev))) ev_name); [|exact Ho].
           intros x y Hxy. now rewrite Hxy.
        -- intros x Hx Hin. destruct (is_nil (e_events e)); [destruct Hx|]. destruct Hx as [<-|[]].
           apply in_map_iff in Hin. destruct Hin as [ev [E2 Hev]]. exact (Hlow (bs "type") (or_intror eq_refl) ev Hev (eq_sym E2)).
      * intros x Hx Hin. apply in_app_or in Hin. destruct Hin as [Hin|Hin].
        -- destruct (is_nil (e_events e)); [destruct Hin|]. destruct Hin as [<-|[]].
           unfold opts in Hx. apply in_map_iff in Hx. destruct Hx as [ev [E2 Hev]].
           rewrite forallb_forall in R4. specialize (R4 ev Hev). rewrite E2 in R4. discriminate.
        -- apply in_map_iff in Hin. destruct Hin as [ev [E2 Hev]]. exact (Hlow x (or_introl Hx) ev Hev (eq_sym E2)).
    + assert (Eis : inline_scopes (map (fun ev => mkF (to_lower_camel (ev_name ev))
                     (TObject [] (event_type_name e ++ [46] ++ ev_name ev)) false false false false None None) (e_events e)) = []).
      { apply no_inline_names. apply Forall_map. apply Forall_forall. intros ev _. reflexivity. }
      rewrite Eis. cbn [app]. apply all_nodup_flat_map. intros n Hn. apply in_map_iff in Hn. destruct Hn as [ev [<- Hev]].
      cbn [snd].
      pose proof (q_events e Q) as H. rewrite forallb_forall in H. specialize (H ev Hev).
      apply andb_true_iff in H. destruct H as [H _]. apply andb_true_iff in H. destruct H as [_ W].
      assert (Tf : type_free (ev_fields ev)).
      { apply (type_free_of e _ Hr). intros u Hu. eapply in_all_event; eassumption. }
      constructor.
      * rewrite user_scope, user_inline_names. now apply fields_wf_nodup_all.
      * apply user_inline_scopes; [now apply fields_wf_each|exact Tf].
  - unfold event_msg. eapply literal_scopes; [reflexivity|vm_compute; reflexivity|reflexivity].
Qed.

Lemma inner_service : forall name ann ms,
  inner_scopes (service_components name ann ms) = inner_scopes (flat_map fst ms) ++ [map mt_name (map snd ms)].
Proof. intros. unfold service_components. rewrite inner_scopes_app. reflexivity. Qed.

Lemma inner_method : forall base name verb rel req resp sq,
  inner_scopes (fst (method_components base name verb rel req resp sq)) =
    msg_scopes (mkMsg (name ++ bs "Request") None false req [])
    ++ match resp with Some r => msg_scopes (mkMsg (name ++ bs "Response") None false r []) | None => [] end.
Proof. intros. destruct resp; cbn [fst method_components inner_scopes flat_map]; rewrite ?app_nil_r; reflexivity. Qed.

Lemma app_inj_neq : forall (q a b : bytes), a <> b -> q ++ a <> q ++ b.
Proof. intros q a b H E. apply app_inv_head in E. contradiction. Qed.

Lemma inner_query : forall e, quantified e -> reserved_free e = true -> all_nodup (inner_scopes (query_components e)).
Proof.
  intros e Q Hr. unfold query_components. rewrite inner_service. cbn [flat_map map snd method_components mt_name].
  rewrite !inner_scopes_app, !inner_method. cbn [inner_scopes flat_map]. rewrite ?app_nil_r.
  destruct (reserved_free_parts e Hr) as [_ [_ [_ [_ [R5 [R6 _]]]]]].
  repeat apply all_nodup_app.
  - apply user_msg_scopes; [exact (sub_wf _ _ (get_keys_sub e) (q_keys_wf e Q))|].
    apply (type_free_of e _ Hr). intros u Hu. apply in_all_keys. now apply get_keys_incl.
  - (* Get response: the entity's own property, and events when eventsInGet *)
    rewrite msg_scopes_no_inline.
    2:{ constructor; [reflexivity|]. destruct (match e_query e with Some q => q_events_in_get q | None => false end); repeat constructor. }
    constructor; [|constructor].
    destruct (match e_query e with Some q => q_events_in_get q | None => false end) eqn:Eg.
    + unfold fields_scope, entry_names, proto_name. cbn [map filter f_json f_optional mkF array_field is_map_field f_type local_obj app].
      cbn [andb] in R6. constructor; [|repeat constructor; intros []]. intros [Hin|[]].
      change (to_snake (bs "events")) with (bs "events") in Hin. unfold response_name in R6. unfold snake_name in Hin.
      rewrite <- Hin, bytes_eqb_refl in R6. discriminate.
    + unfold fields_scope, entry_names, proto_name. cbn [map filter f_json f_optional mkF is_map_field f_type local_obj app].
      repeat constructor. intros [].
  - now apply (paged_request_scopes e _ (list_keys e) Q Hr (list_keys_sub e) (list_keys_path e)).
  - (* List response: the entity's own property and page *)
    rewrite msg_scopes_no_inline by (repeat constructor). constructor; [|constructor].
    unfold fields_scope, entry_names, proto_name, page_response, plain_field. cbn [map filter f_json f_optional mkF array_field is_map_field f_type local_obj app].
    constructor; [|repeat constructor; intros []]. intros [Hin|[]].
    change (to_snake (bs "page")) with (bs "page") in Hin. unfold response_name in R5. unfold snake_name in Hin.
    rewrite <- Hin, bytes_eqb_refl in R5. discriminate.
  - now apply (paged_request_scopes e _ (get_keys e) Q Hr (get_keys_sub e) (get_keys_path e)).
  - eapply literal_scopes; [reflexivity|vm_compute; reflexivity|reflexivity].
  - constructor; [|constructor]. repeat constructor; cbn; intros H;
      repeat (destruct H as [H|H]; [apply app_inv_head in H; discriminate|]); exact H.
Qed.

Lemma inner_command : forall e c, quantified e -> reserved_free e = true -> In c (e_commands e) ->
  all_nodup (inner_scopes (command_components e c)).
Proof.
  intros e c Q Hr Hc. unfold command_components. rewrite inner_service.
  pose proof (q_commands e Q) as H. rewrite forallb_forall in H. specialize (H c Hc).
  apply andb_true_iff in H. destruct H as [H Hn]. apply andb_true_iff in H. destruct H as [_ Hm].
  rewrite forallb_forall in Hm. apply all_nodup_app.
  - rewrite flat_map_concat_map, map_map, <- flat_map_concat_map, inner_scopes_flat_map.
    apply all_nodup_flat_map. intros m Hin. cbn [fst]. rewrite inner_method.
    specialize (Hm m Hin). unfold method_wf in Hm.
    repeat match type of Hm with
           | (_ && _) = true => apply andb_true_iff in Hm; let H' := fresh "M" in destruct Hm as [Hm H']
           end.
    apply all_nodup_app.
    { apply user_msg_scopes; [assumption|]. apply (type_free_of e _ Hr). intros u Hu.
      eapply in_all_request; eassumption. }
    destruct (md_response m) as [r|] eqn:Er; [|constructor]. cbn [option_map].
    apply andb_true_iff in M0. destruct M0 as [W _]. apply user_msg_scopes; [assumption|].
    apply (type_free_of e _ Hr). intros u Hu. eapply in_all_response; eassumption.
  - constructor; [|constructor]. rewrite !map_map. cbn [snd method_components mt_name].
    apply nodup_bytes_NoDup in Hn. exact Hn.
Qed.

Lemma inner_topic : forall tn mn role en fields,
  inner_scopes (topic_components tn mn role en fields) =
    msg_scopes (mkMsg (mn ++ bs "Message") None false fields []) ++ [[mn]].
Proof. reflexivity. Qed.

Lemma inner_publish : forall e, all_nodup (inner_scopes (publish_components e)).
Proof.
  intros e. unfold publish_components. rewrite inner_topic. apply all_nodup_app.
  - eapply literal_scopes; [reflexivity|vm_compute; reflexivity|reflexivity].
  - repeat constructor. intros [].
Qed.

Lemma inner_summary : forall e s, quantified e -> reserved_free e = true -> In s (e_summaries e) ->
  all_nodup (inner_scopes (summary_components e s)).
Proof.
  intros e s Q Hr Hs. unfold summary_components. rewrite inner_topic. apply all_nodup_app.
  - pose proof (q_summaries e Q) as H. rewrite forallb_forall in H. specialize (H s Hs).
    apply andb_true_iff in H. destruct H as [H _]. apply andb_true_iff in H. destruct H as [_ W].
    destruct (reserved_free_parts e Hr) as [_ [R3 _]]. rewrite forallb_forall in R3. specialize (R3 s Hs).
    rewrite forallb_forall in R3.
    assert (Tf : type_free (s_fields s)).
    { apply (type_free_of e _ Hr). intros u Hu. eapply in_all_summary; eassumption. }
    (* upsert first, then the user's fields: a rearrangement of (user protos) ++ [upsert] ++ the rest *)
    set (up := plain_field "upsert" (TObject (bs "j5.messaging.v1") (bs "UpsertMetadata")) true).
    unfold msg_scopes. cbn [m_oneof m_fields m_nested map flat_map]. rewrite !app_nil_r.
    assert (Hadd : Forall (fun x => lower_start x = true /\ ~ In x (map (fun u => to_snake (uf_name u)) (s_fields s))) [bs "upsert"]).
    { constructor; [|constructor]. split; [reflexivity|]. intros Hin. apply in_map_iff in Hin. destruct Hin as [u [Eu Hu]].
      specialize (R3 u Hu). rewrite Eu, bytes_eqb_refl in R3. discriminate. }
    pose proof (scope_with_added (s_fields s) [bs "upsert"] W ltac:(repeat constructor; intros []) Hadd) as N.
    set (F := map of_ufield (s_fields s)) in *.
    assert (Es : fields_scope false (up :: F) ++ inline_names (up :: F)
                 = bs "upsert" :: sp_field_scope (s_fields s) ++ sp_inline_names (s_fields s)).
    { unfold inline_names. cbn [flat_map up plain_field mkF f_inline app]. fold (inline_names F).
      unfold F. rewrite user_inline_names. unfold fields_scope, entry_names.
      cbn [map filter up plain_field mkF f_optional is_map_field f_type app].
      pose proof (user_scope (s_fields s)) as U. unfold fields_scope, entry_names in U. fold F in U.
      change (proto_name (mkF (bs "upsert") (TObject (bs "j5.messaging.v1") (bs "UpsertMetadata")) false true false false None None)) with (bs "upsert").
      cbn [app]. f_equal. fold F. rewrite <- U. now rewrite <- !app_assoc. }
    assert (Ei : inline_scopes (up :: F) = inline_scopes F).
    { unfold inline_scopes. cbn [flat_map up plain_field mkF f_inline app]. reflexivity. }
    rewrite Es, Ei. constructor.
    + constructor.
      * intros Hin. unfold sp_field_scope in Hin. rewrite <- !app_assoc in Hin. apply in_app_or in Hin. destruct Hin as [Hin|Hin].
        -- rewrite Forall_forall in Hadd. destruct (Hadd (bs "upsert") (or_introl eq_refl)) as [_ Hn]. exact (Hn Hin).
        -- rewrite app_assoc in Hin. exact (lower_not_in_extras (s_fields s) (bs "upsert") (fields_wf_each _ W) eq_refl Hin).
      * now apply fields_wf_nodup_all.
    + apply user_inline_scopes; [now apply fields_wf_each|exact Tf].
  - repeat constructor. intros [].
Qed.

Lemma inner_schema : forall e s, quantified e -> reserved_free e = true -> In s (e_schemas e) ->
  all_nodup (inner_scopes [schema_component s]).
Proof.
  intros e s Q Hr Hs. pose proof (q_schemas e Q) as H. rewrite forallb_forall in H. specialize (H s Hs).
  apply andb_true_iff in H. destruct H as [H _]. apply andb_true_iff in H. destruct H as [_ W].
  assert (Tf : type_free (schema_fields s)).
  { apply (type_free_of e _ Hr). intros u Hu. eapply in_all_schema; eassumption. }
  destruct s as [n fs|n fs|n os]; cbn [schema_component inner_scopes flat_map schema_fields] in *; rewrite ?app_nil_r.
  - now apply user_msg_scopes.
  - (* a oneof of the block: options, the proto oneof "type", map entries, inline types *)
    destruct (reserved_free_parts e Hr) as [_ [_ [_ [R4 _]]]]. rewrite forallb_forall in R4. specialize (R4 _ Hs).
    cbn in R4. rewrite forallb_forall in R4.
    assert (Hadd : Forall (fun x => lower_start x = true /\ ~ In x (map (fun u => to_snake (uf_name u)) fs)) [bs "type"]).
    { constructor; [|constructor]. split; [reflexivity|]. intros Hin. apply in_map_iff in Hin. destruct Hin as [u [Eu Hu]].
      specialize (R4 u Hu). rewrite Eu, bytes_eqb_refl in R4. discriminate. }
    pose proof (scope_with_added fs [bs "type"] W ltac:(repeat constructor; intros []) Hadd) as N.
    unfold msg_scopes. cbn [m_oneof m_fields m_nested map flat_map]. rewrite !app_nil_r. constructor.
    + rewrite user_inline_names. unfold fields_scope, entry_names.
      assert (Eq : map proto_name (map of_ufield fs) = map (fun u => to_snake (uf_name u)) fs).
      { rewrite map_map. apply map_ext. intros u. unfold proto_name. destruct (of_ufield_facts u) as [-> _]. reflexivity. }
      assert (EC : map (fun f => map_name (proto_name f)) (filter is_map_field (map of_ufield fs))
                   = map (fun u => map_name (to_snake (uf_name u))) (filter is_map_kind fs)).
      { rewrite (filter_map_comm of_ufield is_map_field is_map_kind) by (intros x; apply of_ufield_facts).
        rewrite map_map. apply map_ext. intros u. unfold proto_name. destruct (of_ufield_facts u) as [-> _]. reflexivity. }
      rewrite Eq, EC. eapply Sub_NoDup; [|exact N]. rewrite <- !app_assoc.
      apply Sub_app; [apply Sub_refl|].
      destruct (is_nil (map of_ufield fs)).
      * cbn [app]. apply Sub_skip. rewrite <- (app_nil_l (map _ (filter is_map_kind fs) ++ _)) at 1.
        apply Sub_app; [apply Sub_nil_l|]. apply Sub_app; [apply Sub_refl|apply Sub_refl].
      * cbn [app]. apply Sub_keep. rewrite <- (app_nil_l (map _ (filter is_map_kind fs) ++ _)) at 1.
        apply Sub_app; [apply Sub_nil_l|]. apply Sub_app; [apply Sub_refl|apply Sub_refl].
    + apply user_inline_scopes; [now apply fields_wf_each|exact Tf].
  - constructor.
Qed.

Lemma inner_schemas : forall e l, quantified e -> reserved_free e = true -> (forall s, In s l -> In s (e_schemas e)) ->
  all_nodup (inner_scopes (map schema_component l)).
Proof.
  intros e l Q Hr. induction l as [|s l IH]; intros Hl; [constructor|]. cbn [map].
  change (schema_component s :: map schema_component l) with ([schema_component s] ++ map schema_component l).
  rewrite inner_scopes_app. apply all_nodup_app.
  - apply (inner_schema e s Q Hr). apply Hl. now left.
  - apply IH. intros x Hx. apply Hl. now right.
Qed.

(* ---- the link step succeeds ---------------------------------------------------------------------------------------- *)
Theorem link_accepts : forall e fl, quantified e -> reserved_free e = true -> link_ok (expand_with e fl) = true.
Proof.
  intros e fl Q Hr. unfold link_ok, scopes. apply forallb_forall. intros sc Hin.
  apply nodup_bytes_NoDup. apply in_app_or in Hin. destruct Hin as [Hin|Hin].
  - destruct Hin as [<-|[<-|[<-|[]]]].
    + rewrite main_scope_eq. apply nodup_bytes_NoDup. exact (q_main e Q).
    + rewrite service_scope_eq. apply nodup_bytes_NoDup. exact (q_service e Q).
    + rewrite topic_scope_eq. apply nodup_bytes_NoDup. exact (q_topic e Q).
  - assert (A : all_nodup (inner_scopes (expand_with e fl))).
    { unfold expand_with. rewrite !inner_scopes_app, !inner_scopes_flat_map.
      apply all_nodup_app; [now apply inner_head|].
      apply all_nodup_app; [now apply inner_query|].
      apply all_nodup_app; [apply all_nodup_flat_map; intros c Hc; now apply inner_command|].
      apply all_nodup_app; [apply inner_publish|].
      apply all_nodup_app; [apply all_nodup_flat_map; intros s Hs; now apply inner_summary|].
      apply (inner_schemas e _ Q Hr). auto. }
    unfold all_nodup in A. rewrite Forall_forall in A. now apply A.
Qed.

(* ---- reserved names: the spec's list (EntitySpec.reserved_free, written from the declaration) is what
   the model of the compiler checks in two places: the walker's checkReservedNames and visitOneofNode *)
Lemma forallb_negb_existsb : forall {A} (f : A -> bool) l, forallb (fun x => negb (f x)) l = negb (existsb f l).
Proof. induction l as [|a l IH]; [reflexivity|]. cbn. rewrite IH. now destruct (f a), (existsb f l). Qed.

Lemma options_type_free_eq : forall k fs,
  options_type_free k fs = negb ((k =? 1) && existsb (fun x => named_type (tf_name x)) fs).
Proof.
  intros k fs. unfold options_type_free. destruct (k =? 1); [|reflexivity]. cbn [andb].
  unfold named_type. apply forallb_negb_existsb.
Qed.

Lemma tfield_type_free_eq : forall t, tfield_type_free t = negb (tfield_type_option t).
Proof.
  fix IH 1. intros [n k r o d]. destruct k as [i|i|i|ik c fs os]; try reflexivity.
  cbn [tfield_type_free tfield_type_option]. rewrite options_type_free_eq.
  assert (E : forallb tfield_type_free fs = negb (existsb tfield_type_option fs)).
  { induction fs as [|t fs IHfs]; [reflexivity|]. cbn [forallb existsb]. rewrite IH, IHfs.
    now destruct (tfield_type_option t), (existsb tfield_type_option fs). }
  rewrite E. now destruct ((ik =? 1) && existsb (fun x => named_type (tf_name x)) fs), (existsb tfield_type_option fs).
Qed.

Lemma tree_type_free_eq : forall k fs,
  tree_type_free k fs = negb (((k =? 1) && existsb (fun x => named_type (tf_name x)) fs) || existsb tfield_type_option fs).
Proof.
  intros k fs. unfold tree_type_free. rewrite options_type_free_eq.
  assert (E : forallb tfield_type_free fs = negb (existsb tfield_type_option fs)).
  { induction fs as [|t fs IHfs]; [reflexivity|]. cbn [forallb existsb]. rewrite tfield_type_free_eq, IHfs.
    now destruct (tfield_type_option t), (existsb tfield_type_option fs). }
  rewrite E. now destruct ((k =? 1) && existsb (fun x => named_type (tf_name x)) fs), (existsb tfield_type_option fs).
Qed.

Lemma forallb_ext_in : forall {A} (f g : A -> bool) l, (forall x, f x = g x) -> forallb f l = forallb g l.
Proof. intros A f g l H. induction l as [|a l IH]; [reflexivity|]. cbn. now rewrite H, IH. Qed.

Theorem reserved_free_split : forall e, reserved_free e = walker_reserved_free e && oneof_type_free e.
Proof.
  intros e. unfold reserved_free, walker_reserved_free, oneof_type_free.
  assert (K : forallb (fun k => negb (key_in_path k && existsb (bytes_eqb (to_snake (key_name k))) [bs "page"; bs "query"])) (e_keys e)
              = forallb (fun k => negb (path_key_reserved k)) (e_keys e)).
  { apply forallb_ext_in. intros k. unfold key_in_path, key_typed, key_primary, key_name, path_key_reserved, is_key_field, is_primary.
    cbn [existsb]. rewrite orb_false_r. reflexivity. }
  assert (B : forallb (fun s => match s with
                       | SOneof _ opts => forallb (fun u => negb (bytes_eqb (to_snake (uf_name u)) (bs "type"))) opts
                       | _ => true end) (e_schemas e)
              = forallb (fun s => match s with
                    | SOneof _ opts => negb (existsb (fun u => named_type (uf_name u)) opts)
                    | _ => true end) (e_schemas e)).
  { apply forallb_ext_in. intros [n fs|n opts|n os]; try reflexivity. unfold named_type. apply forallb_negb_existsb. }
  assert (I : forallb (fun u => match uf_kind u with
                        | KInlineOneof opts => forallb (fun o => negb (bytes_eqb (to_snake (sf_name o)) (bs "type"))) opts
                        | KInlineTree k fs => tree_type_free k fs
                        | _ => true end) (all_ufields e)
              = negb (existsb ufield_type_option (all_ufields e))).
  { rewrite <- forallb_negb_existsb. apply forallb_ext_in. intros u. unfold ufield_type_option.
    destruct (uf_kind u); try reflexivity.
    - unfold named_type. apply forallb_negb_existsb.
    - apply tree_type_free_eq. }
  rewrite K, B, I. unfold response_name, own_response_name, events_in_get.
  repeat match goal with |- context [forallb ?f ?l] => let b := fresh "b" in generalize (forallb f l); intro b end.
  repeat match goal with |- context [negb ?x] => let b := fresh "b" in generalize (negb x); intro b end.
  intros. repeat match goal with b : bool |- _ => destruct b end; reflexivity.
Qed.

Lemma convert_expand : forall e cs, convert e = Ok cs -> expand e = Ok cs.
Proof. intros e cs H. exact (proj1 (compile_ok_inv e cs H)). Qed.

(* ACCEPTANCE: a declaration in the quantifier that uses no name the expansion reserves compiles *)
Theorem acceptance : forall e, in_quantifier e = true -> reserved_free e = true -> exists cs, compile e = Ok cs.
Proof.
  intros e Hq Hr. pose proof (quantified_of e Hq) as Q. destruct (convert_accepts e Q) as [fl Hc].
  exists (expand_with e fl). unfold compile, compile_file. cbn [existsb].
  destruct (e_status e) as [|s0 sr] eqn:Es; [exfalso; exact (q_status_ne e Q Es)|]. cbn [is_nil orb].
  pose proof Hr as Hr'. rewrite reserved_free_split in Hr'. apply andb_true_iff in Hr'. destruct Hr' as [Hw Ho].
  rewrite walk_all_single. unfold walk. rewrite Hw, (convert_expand _ _ Hc). cbn [forallb]. rewrite Ho, <- enums_ok_eq, (q_enums e Q). cbn [andb].
  rewrite convert_all_single, Hc, app_nil_r, (link_accepts e fl Q Hr). reflexivity.
Qed.

(* THE CONVERSE: a declaration in the quantifier that uses a reserved name is rejected, by the reserved-name
   diagnostic (not by a link error) *)
Theorem reserved_rejected : forall e, in_quantifier e = true -> reserved_free e = false ->
  compile e = Err "reserved name".
Proof.
  intros e Hq Hr. pose proof (quantified_of e Hq) as Q. destruct (convert_accepts e Q) as [fl Hc].
  unfold compile, compile_file. cbn [existsb].
  destruct (e_status e) as [|s0 sr] eqn:Es; [exfalso; exact (q_status_ne e Q Es)|]. cbn [is_nil orb].
  rewrite reserved_free_split in Hr. rewrite walk_all_single. unfold walk.
  destruct (walker_reserved_free e); [|reflexivity]. cbn [andb] in Hr.
  rewrite (convert_expand _ _ Hc). cbn [forallb]. rewrite Hr. reflexivity.
Qed.

(* whatever the declaration: the model of the compiler never accepts a reserved name *)
Theorem accepted_reserved_free : forall e cs, compile e = Ok cs -> reserved_free e = true.
Proof.
  intros e cs H. destruct (compile_inv_reserved e cs H) as [Hw Ho]. rewrite reserved_free_split, Hw, Ho. reflexivity.
Qed.

(* the compiler fails on a declaration of the quantifier IF AND ONLY IF it uses a reserved name *)
Theorem fails_exactly_on_reserved : forall e, in_quantifier e = true ->
  ((exists s, compile e = Err s) <-> reserved_free e = false)
  /\ (compile e = Err "reserved name" <-> reserved_free e = false)
  /\ ((exists cs, compile e = Ok cs) <-> reserved_free e = true).
Proof.
  intros e Hq. destruct (reserved_free e) eqn:Hr.
  - destruct (acceptance e Hq Hr) as [cs Hc]. repeat split; try discriminate; try (intros _; now exists cs).
    + intros [s Hs]. rewrite Hc in Hs. discriminate.
    + intros Hs. rewrite Hc in Hs. discriminate.
  - pose proof (reserved_rejected e Hq Hr) as Hc. repeat split; try (intros _; assumption); try discriminate.
    + intros _. now exists "reserved name"%string.
    + intros [cs Hs]. rewrite Hc in Hs. discriminate.
Qed.

(* the FULL statement of C17 for every declaration without reserved names *)
Theorem full_modulo_reserved : forall e, in_quantifier e = true -> reserved_free e = true ->
  exists cs, compile e = Ok cs /\ C17_spec e cs.
Proof.
  intros e Hq Hr. destruct (acceptance e Hq Hr) as [cs Hc]. exists cs. split; [exact Hc|].
  destruct (full_partial e cs Hc) as [H1 H2]. split; [exact H1|exact (H2 Hq)].
Qed.

(* the remaining clauses - exact names, query settings - hold for everything the model of the compiler accepts *)
Theorem accepted_names_settings : forall e cs, compile e = Ok cs -> spec_names e cs /\ spec_query_settings e cs.
Proof.
  intros e cs H. destruct (compile_inv e cs H) as [_ [_ [_ [fl [Hf [-> _]]]]]].
  split; [apply spec_names_holds|now apply spec_query_settings_holds].
Qed.

(* THE FULL STATEMENT WITH EVERY CLAUSE of the specification *)
Theorem full_all_clauses : forall e, in_quantifier e = true -> reserved_free e = true ->
  exists cs, compile e = Ok cs /\ C17_spec_all e cs.
Proof.
  intros e Hq Hr. destruct (full_modulo_reserved e Hq Hr) as [cs [Hc Hs]]. exists cs. split; [exact Hc|].
  destruct (accepted_names_settings e cs Hc) as [Hn Hg]. split; [exact Hs|]. split; [exact Hn|]. split; [exact Hg|].
  destruct (list_scoped_by_shard_keys e cs Hc Hq) as [Hlp _].
  split; [exact Hlp|]. split; [exact (list_request_scoped_by_shard_keys e cs Hc)|]. split; [exact (field_types_as_declared e cs Hc)|exact (member_field_types_as_declared e cs Hc)].
Qed.

(* an entity named Page: its own property in the List response is "page", next to the page field *)
Definition page_entity : entity :=
  mkE (bs "foo.v1") (bs "Page") [] [mkK (mkU (bs "fooId") (KKey true None None) false false) false]
      [] [bs "ACTIVE"] [] [] [] None [].
Theorem entity_named_page_rejected :
  in_quantifier page_entity = true /\ compile page_entity = Err "reserved name".
Proof. split; vm_compute; reflexivity. Qed.

(* ---- the literal default paths, with the clean-path fact derived from the quantifier ---------------- *)
Lemma filter_all : forall {A} (p : A -> bool) l, Forall (fun x => p x = true) l -> filter p l = l.
Proof. induction 1 as [|x l H _ IH]; [reflexivity|]. cbn. now rewrite H, IH. Qed.

Lemma clean_of_nonempty : forall rest,
  Forall (fun p => negb (is_nil p) = true) (split_slash [] rest) -> clean_path ([47] ++ rest) = [47] ++ rest.
Proof.
  intros rest H. unfold clean_path, segments. change ([47] ++ rest) with ([] ++ 47 :: rest) at 1.
  rewrite split_slash_app_slash. cbn [split_slash rev filter is_nil negb app].
  rewrite (filter_all _ _ H), join_split. reflexivity.
Qed.

Lemma starts_letter_nonempty : forall l, forallb starts_letter l = true ->
  Forall (fun p => negb (is_nil p) = true) l.
Proof.
  intros l H. apply Forall_forall. intros p Hp. rewrite forallb_forall in H. specialize (H p Hp).
  destruct p; [discriminate|reflexivity].
Qed.

Lemma default_base_clean : forall e, e_base_url e = [] -> name_ok (e_name e) = true -> pkg_ok (e_pkg e) = true ->
  clean_path (query_base e) = query_base e.
Proof.
  intros e Hb Hn Hp. unfold query_base, base_url. rewrite Hb. apply clean_of_nonempty.
  change (bs "/q") with ([47] ++ bs "q"). rewrite <- !app_assoc. cbn [app]. rewrite !split_slash_app_slash.
  unfold pkg_ok in Hp. apply andb_true_iff in Hp. destruct Hp as [_ Hp].
  apply Forall_app. split; [now apply starts_letter_nonempty|].
  pose proof (to_snake_lower_start _ Hn) as Hs. unfold name_ok in Hn. apply andb_true_iff in Hn. destruct Hn as [Hi _].
  destruct (ident_no_colon_slash _ (to_snake_ident _ Hi)) as [_ Hns].
  unfold snake_name. rewrite (split_slash_single _ Hns). apply Forall_app. split.
  - constructor; [|constructor]. destruct (to_snake (e_name e)); [discriminate|reflexivity].
  - repeat constructor.
Qed.

Theorem default_paths_quantified : forall e, e_base_url e = [] -> in_quantifier e = true ->
  nth 0 (query_paths e) [] = query_base e ++ flat_map (fun u => 47 :: brace u) (get_keys e)
  /\ nth 2 (query_paths e) [] =
       query_base e ++ flat_map (fun u => 47 :: brace u) (get_keys e) ++ bs "/events"
  /\ query_base e = [47] ++ map (fun c => if c =? 46 then 47 else c) (e_pkg e) ++ [47] ++ to_snake (e_name e) ++ bs "/q".
Proof.
  intros e Hb Hq. pose proof (quantified_of e Hq) as Q.
  pose proof (q_name e Q) as Hn. pose proof Hn as Hn'. unfold name_ok in Hn'. apply andb_true_iff in Hn'. destruct Hn' as [Hi _].
  assert (Hp : no_colon (e_pkg e) = true).
  { pose proof (q_pkg e Q) as H. unfold pkg_ok in H. apply andb_true_iff in H. destruct H as [H _].
    unfold no_colon. rewrite forallb_forall in *. intros c Hc. specialize (H c Hc).
    unfold pkg_char, is_low, is_num in H. apply negb_true_iff. apply N.eqb_neq. intros ->. cbn in H. discriminate. }
  assert (Hk : Forall (fun k => ident (uf_name (k_def k)) = true) (e_keys e)).
  { apply Forall_forall. intros k Hk. pose proof (fields_wf_all _ _ (q_keys_wf e Q) (in_map k_def _ _ Hk)) as W.
    destruct (ufield_wf_parts _ W) as [W' _].
    unfold name_ok in W'. apply andb_true_iff in W'. tauto. }
  destruct (default_paths e Hb Hi Hp (default_base_clean e Hb Hn (q_pkg e Q)) Hk) as [H0 [H2 _]].
  split; [exact H0|]. split; [exact H2|]. unfold query_base, base_url, snake_name. rewrite Hb.
  rewrite <- !app_assoc. reflexivity.
Qed.

(* ======================= several entities in one file ===================================================== *)
Lemma convert_all_accepts : forall es, Forall quantified es ->
  exists l, Forall2 (fun e cs => exists fl, cs = expand_with e fl) es l /\ convert_all es = Ok (concat l).
Proof.
  induction 1 as [|e es Q _ [l [HF Hc]]].
  - exists []. split; [constructor|reflexivity].
  - destruct (convert_accepts e Q) as [fl He]. exists (expand_with e fl :: l). split.
    + constructor; [now exists fl|exact HF].
    + cbn [convert_all concat]. now rewrite He, Hc.
Qed.

Lemma file_scopes_concat : forall es l f (sp : entity -> list bytes),
  Forall2 (fun e cs => exists fl, cs = expand_with e fl) es l ->
  (forall e fl, file_scope f (expand_with e fl) = sp e) ->
  file_scope f (concat l) = flat_map sp es.
Proof.
  intros es l f sp HF Hsp. induction HF as [|e cs es l [fl ->] _ IH]; [reflexivity|].
  cbn [concat flat_map]. now rewrite file_scope_app, Hsp, IH.
Qed.

Lemma inner_scopes_concat : forall es l,
  Forall2 (fun e cs => exists fl, cs = expand_with e fl) es l ->
  Forall (fun e => quantified e /\ reserved_free e = true) es ->
  all_nodup (inner_scopes (concat l)).
Proof.
  intros es l HF. induction HF as [|e cs es l [fl ->] _ IH]; intros Hall; [constructor|].
  inversion Hall as [|? ? [Q Hr] Hrest]; subst. cbn [concat]. rewrite inner_scopes_app. apply all_nodup_app; [|now apply IH].
  unfold expand_with. rewrite !inner_scopes_app, !inner_scopes_flat_map.
  apply all_nodup_app; [now apply inner_head|].
  apply all_nodup_app; [now apply inner_query|].
  apply all_nodup_app; [apply all_nodup_flat_map; intros c Hc; now apply inner_command|].
  apply all_nodup_app; [apply inner_publish|].
  apply all_nodup_app; [apply all_nodup_flat_map; intros s Hs; now apply inner_summary|].
  apply (inner_schemas e _ Q Hr). auto.
Qed.

Lemma convert_all_accepts_parts : forall es, Forall quantified es ->
  exists l, Forall2 (fun e cs => (exists fl, cs = expand_with e fl) /\ convert e = Ok cs) es l
            /\ convert_all es = Ok (concat l).
Proof.
  induction 1 as [|e es Q _ [l [HF Hc]]].
  - exists []. split; [constructor|reflexivity].
  - destruct (convert_accepts e Q) as [fl He]. exists (expand_with e fl :: l). split.
    + constructor; [split; [now exists fl|exact He]|exact HF].
    + cbn [convert_all concat]. now rewrite He, Hc.
Qed.

Lemma Forall2_weaken : forall {A B} (P Q : A -> B -> Prop) l1 l2,
  (forall a b, P a b -> Q a b) -> Forall2 P l1 l2 -> Forall2 Q l1 l2.
Proof. intros A B P Q l1 l2 H HF. induction HF; constructor; auto. Qed.

(* a file of several declarations compiles to the concatenation of what each declaration converts to *)
Theorem file_acceptance_parts : forall es, file_quantifier es = true ->
  exists l, Forall2 (fun e cs => convert e = Ok cs) es l /\ compile_file es = Ok (concat l).
Proof.
  intros es H. unfold file_quantifier in H.
  repeat match type of H with
         | (_ && _) = true => apply andb_true_iff in H; let H' := fresh "F" in destruct H as [H H']
         end.
  assert (Hall : Forall (fun e => quantified e /\ reserved_free e = true) es).
  { apply Forall_forall. intros e He. rewrite forallb_forall in H. specialize (H e He).
    apply andb_true_iff in H. destruct H as [H1 H2]. split; [now apply quantified_of|exact H2]. }
  assert (HQ : Forall quantified es) by (eapply Forall_impl; [|exact Hall]; intros e [Q _]; exact Q).
  destruct (convert_all_accepts_parts es HQ) as [l [HF2 Hc]]. exists l.
  split; [eapply Forall2_weaken; [|exact HF2]; intros a b [_ Hab]; exact Hab|].
  assert (HF : Forall2 (fun e cs => exists fl, cs = expand_with e fl) es l)
    by (eapply Forall2_weaken; [|exact HF2]; intros a b [Hab _]; exact Hab).
  unfold compile_file.
  assert (Hst : existsb (fun e => is_nil (e_status e)) es = false).
  { destruct (existsb (fun e => is_nil (e_status e)) es) eqn:E; [|reflexivity]. apply existsb_exists in E.
    destruct E as [e [He Hn]]. rewrite Forall_forall in HQ. pose proof (q_status_ne e (HQ e He)) as Hne.
    destruct (e_status e); [congruence|discriminate]. }
  rewrite Hst.
  assert (Hl : link_ok (concat l) = true).
  { unfold link_ok, scopes. apply forallb_forall. intros sc Hin. apply nodup_bytes_NoDup.
    apply in_app_or in Hin. destruct Hin as [Hin|Hin].
    - destruct Hin as [<-|[<-|[<-|[]]]].
      + rewrite (file_scopes_concat es l 0 sp_main_scope HF main_scope_eq). now apply nodup_bytes_NoDup.
      + rewrite (file_scopes_concat es l 1 sp_service_scope HF service_scope_eq). now apply nodup_bytes_NoDup.
      + rewrite (file_scopes_concat es l 2 sp_topic_scope HF topic_scope_eq). now apply nodup_bytes_NoDup.
    - pose proof (inner_scopes_concat es l HF Hall) as A. unfold all_nodup in A. rewrite Forall_forall in A. now apply A. }
  assert (Hw : exists w, walk_all es = Ok w).
  { clear Hc Hl HF Hst H F F0 F1. induction HF2 as [|e cs es l [_ Hcv] _ IH]; [now exists []|].
    inversion Hall as [|? ? [_ Hr] Hall']; subst. inversion HQ as [|? ? _ HQ']; subst.
    destruct (IH Hall' HQ') as [w Hw]. exists (cs ++ w). cbn [walk_all]. unfold walk.
    rewrite reserved_free_split in Hr. apply andb_true_iff in Hr. destruct Hr as [Hr _].
    now rewrite Hr, (convert_expand _ _ Hcv), Hw. }
  destruct Hw as [w Hw]. rewrite Hw.
  assert (Ho : forallb oneof_type_free es = true).
  { apply forallb_forall. intros e He. rewrite Forall_forall in Hall. destruct (Hall e He) as [_ Hr].
    rewrite reserved_free_split in Hr. apply andb_true_iff in Hr. exact (proj2 Hr). }
  assert (He : forallb decl_enums_ok es = true).
  { apply forallb_forall. intros e He. rewrite Forall_forall in HQ. rewrite <- enums_ok_eq. exact (q_enums e (HQ e He)). }
  rewrite Ho, He, Hc, Hl. reflexivity.
Qed.

Theorem file_acceptance : forall es, file_quantifier es = true -> exists cs, compile_file es = Ok cs.
Proof. intros es H. destruct (file_acceptance_parts es H) as [l [_ Hc]]. now exists (concat l). Qed.

(* THE FULL STATEMENT FOR FILES: every declaration of an admissible file yields its own components - the
   file compiles to their concatenation, in declaration order - and each part satisfies every clause of
   the specification for its declaration *)
Theorem file_full_modulo_reserved : forall es, file_quantifier es = true ->
  exists l, compile_file es = Ok (concat l)
            /\ Forall2 (fun e cs => compile e = Ok cs /\ C17_spec_all e cs) es l.
Proof.
  intros es H. destruct (file_acceptance_parts es H) as [l [HF Hc]]. exists l. split; [exact Hc|].
  assert (Hall : forall e, In e es -> in_quantifier e = true /\ reserved_free e = true).
  { intros e He. unfold file_quantifier in H. apply andb_true_iff in H. destruct H as [H _].
    apply andb_true_iff in H. destruct H as [H _]. apply andb_true_iff in H. destruct H as [H _].
    rewrite forallb_forall in H. specialize (H e He). now apply andb_true_iff in H. }
  clear H Hc. induction HF as [|e cs es l Hcv _ IH]; [constructor|]. constructor.
  - destruct (Hall e (or_introl eq_refl)) as [Hq Hr].
    destruct (full_all_clauses e Hq Hr) as [cs' [Hc' Hs']].
    destruct (compile_inv e cs' Hc') as [_ [Hcv' _]]. rewrite Hcv in Hcv'. inversion Hcv'; subst cs'. split; assumption.
  - apply IH. intros e' He'. apply Hall. now right.
Qed.


(* EntityAcceptProofs.v — ACCEPTANCE for property C17: every declaration in the quantifier
   (EntitySpec.in_quantifier) that does not use a field name the expansion adds itself
   (EntitySpec.reserved_free) is accepted by the model of the compiler:
     the parser's validation, the walker, the conversion (references, optional/required, path
     parameters) and the link step (no symbol defined twice in any scope).
   Together with EntitySpecProofs.full_partial this gives the full statement of C17 for all
   declarations without reserved names. *)
From Coq Require Import String Ascii List NArith Bool Lia ZifyN ZifyNat ZifyBool.
From J5V.lib Require Import Outcome Strcase.
From J5V.model Require Import Entity.
From J5V.proofs Require Import StrcaseProofs EntityProofs EntitySpec EntitySpecProofs.
Import ListNotations.
Local Open Scope bool_scope.
Local Open Scope N_scope.

(* ---- all conjuncts of the quantifier ---------------------------------------------------------- *)
Record quantified (e : entity) : Prop := mkQd {
  q_name : name_ok (e_name e) = true;
  q_pkg : pkg_ok (e_pkg e) = true;
  q_base : (is_nil (e_base_url e) || (rel_path_ok (e_base_url e) && is_nil (colon_params (e_base_url e)))) = true;
  q_keys_wf : fields_wf (map k_def (e_keys e)) = true;
  q_keys_ref : forallb (ref_ok e) (map k_def (e_keys e)) = true;
  q_data_wf : fields_wf (e_data e) = true;
  q_data_ref : forallb (ref_ok e) (e_data e) = true;
  q_status_ne : e_status e <> [];
  q_events : forallb (fun ev => type_name_ok (ev_name ev) && fields_wf (ev_fields ev) && forallb (ref_ok e) (ev_fields ev))
                     (e_events e) = true;
  q_event_opts : nodup_bytes (map (fun ev => to_snake (to_lower_camel (ev_name ev))) (e_events e)) = true;
  q_commands : forallb (fun c => match c_name c with Some n => type_name_ok n | None => true end
                       && match c_base c with Some b => rel_path_ok b && is_nil (colon_params b) | None => true end
                       && forallb (method_wf e) (c_methods c)
                       && nodup_bytes (map md_name (c_methods c))) (e_commands e) = true;
  q_summaries : forallb (fun s => (is_nil (s_name s) || name_ok (s_name s)) && fields_wf (s_fields s)
                       && forallb (ref_ok e) (s_fields s)) (e_summaries e) = true;
  q_summary_names : nodup_bytes (map s_name (e_summaries e)) = true;
  q_schemas : forallb (fun s => type_name_ok (schema_name s) && fields_wf (schema_fields s) && forallb (ref_ok e) (schema_fields s))
                      (e_schemas e) = true;
  q_main : nodup_bytes (sp_main_scope e) = true;
  q_service : nodup_bytes (sp_service_scope e) = true;
  q_topic : nodup_bytes (sp_topic_scope e) = true;
  q_filters : match e_query e with
              | Some q => forallb (fun f => existsb (bytes_eqb f) (e_status e)) (q_default_status q)
              | None => true
              end = true }.

Lemma quantified_of : forall e, in_quantifier e = true -> quantified e.
Proof.
  intros e H. unfold in_quantifier in H.
  repeat match type of H with
         | (_ && _) = true => apply andb_true_iff in H; let H' := fresh "Q" in destruct H as [H H']
         end.
  constructor; try assumption.
  intros E. rewrite E in *. discriminate.
Qed.

(* ---- the walker accepts ----------------------------------------------------------------------- *)
Lemma default_filters_total : forall e l,
  forallb (fun f => existsb (bytes_eqb f) (e_status e)) l = true -> exists fl, default_filters e l = Some fl.
Proof.
  intros e l. induction l as [|f l IH]; intros H; [exists []; reflexivity|].
  cbn [forallb] in H. apply andb_true_iff in H. destruct H as [Hf Hl].
  destruct (IH Hl) as [t Ht]. cbn [default_filters]. unfold find_status. rewrite Hf, Ht. eexists. reflexivity.
Qed.

Lemma expand_accepts : forall e, quantified e -> exists fl, expand e = Ok (expand_with e fl).
Proof.
  intros e Q. unfold expand.
  assert (H : exists fl, default_filters e (match e_query e with Some q => q_default_status q | None => [] end) = Some fl).
  { pose proof (q_filters e Q) as Hf. destruct (e_query e) as [q|]; [now apply default_filters_total|exists []; reflexivity]. }
  destruct H as [fl ->]. rewrite (q_summary_names e Q). exists fl. reflexivity.
Qed.

(* ---- every user field is well formed and its references resolve --------------------------------- *)
Lemma fields_wf_all : forall fs u, fields_wf fs = true -> In u fs -> ufield_wf u = true.
Proof.
  intros fs u H Hin. unfold fields_wf in H. apply andb_true_iff in H. destruct H as [H _].
  rewrite forallb_forall in H. now apply H.
Qed.

Lemma method_fields : forall e m u, method_wf e m = true ->
  In u (md_request m ++ match md_response m with Some r => r | None => [] end) ->
  ufield_wf u = true /\ ref_ok e u = true.
Proof.
  intros e m u H Hin. unfold method_wf in H.
  repeat match type of H with
         | (_ && _) = true => apply andb_true_iff in H; let H' := fresh "M" in destruct H as [H H']
         end.
  apply in_app_or in Hin. destruct Hin as [Hin|Hin].
  - split; [exact (fields_wf_all _ _ M2 Hin)|]. rewrite forallb_forall in M1. now apply M1.
  - destruct (md_response m) as [r|]; [|destruct Hin]. apply andb_true_iff in M0. destruct M0 as [W R].
    split; [exact (fields_wf_all _ _ W Hin)|]. rewrite forallb_forall in R. now apply R.
Qed.

Lemma all_ufields_ok : forall e u, quantified e -> In u (all_ufields e) ->
  ufield_wf u = true /\ ref_ok e u = true.
Proof.
  intros e u Q Hin. unfold all_ufields in Hin.
  repeat (apply in_app_or in Hin; destruct Hin as [Hin|Hin]).
  - split; [exact (fields_wf_all _ _ (q_keys_wf e Q) Hin)|].
    pose proof (q_keys_ref e Q) as H. rewrite forallb_forall in H. now apply H.
  - split; [exact (fields_wf_all _ _ (q_data_wf e Q) Hin)|].
    pose proof (q_data_ref e Q) as H. rewrite forallb_forall in H. now apply H.
  - apply in_flat_map in Hin. destruct Hin as [ev [Hev Hu]].
    pose proof (q_events e Q) as H. rewrite forallb_forall in H. specialize (H ev Hev).
    apply andb_true_iff in H. destruct H as [H R]. apply andb_true_iff in H. destruct H as [_ W].
    split; [exact (fields_wf_all _ _ W Hu)|]. rewrite forallb_forall in R. now apply R.
  - apply in_flat_map in Hin. destruct Hin as [c [Hc Hu]]. apply in_flat_map in Hu. destruct Hu as [m [Hm Hu]].
    pose proof (q_commands e Q) as H. rewrite forallb_forall in H. specialize (H c Hc).
    apply andb_true_iff in H. destruct H as [H _]. apply andb_true_iff in H. destruct H as [_ H].
    rewrite forallb_forall in H. exact (method_fields e m u (H m Hm) Hu).
  - apply in_flat_map in Hin. destruct Hin as [s [Hs Hu]].
    pose proof (q_summaries e Q) as H. rewrite forallb_forall in H. specialize (H s Hs).
    apply andb_true_iff in H. destruct H as [H R]. apply andb_true_iff in H. destruct H as [_ W].
    split; [exact (fields_wf_all _ _ W Hu)|]. rewrite forallb_forall in R. now apply R.
  - apply in_flat_map in Hin. destruct Hin as [s [Hs Hu]].
    pose proof (q_schemas e Q) as H. rewrite forallb_forall in H. specialize (H s Hs).
    apply andb_true_iff in H. destruct H as [H R]. apply andb_true_iff in H. destruct H as [_ W].
    split; [exact (fields_wf_all _ _ W Hu)|]. rewrite forallb_forall in R. now apply R.
Qed.

Lemma fields_ok_holds : forall e, quantified e -> fields_ok e = true.
Proof.
  intros e Q. unfold fields_ok. apply forallb_forall. intros u Hu.
  destruct (all_ufields_ok e u Q Hu) as [W _]. unfold ufield_wf in W. apply andb_true_iff in W.
  destruct W as [_ W]. exact W.
Qed.

(* what a schema of the block defines *)
Lemma defined_schema : forall e fl s, In s (e_schemas e) ->
  In (match s with SEnum _ _ => true | _ => false end, schema_name s) (defined (expand_with e fl)).
Proof.
  intros e fl s Hs. unfold expand_with. rewrite !defined_app. repeat (apply in_or_app; right).
  unfold defined. apply in_flat_map. exists (schema_component s). split; [now apply in_map|].
  destruct s; cbn; auto.
Qed.

Lemma existsb_schema : forall (p : eschema -> bool) l, existsb p l = true -> exists s, In s l /\ p s = true.
Proof. intros p l H. apply existsb_exists in H. exact H. Qed.

Lemma names_object_defined : forall e fl n, names_object e n = true -> In (false, n) (defined (expand_with e fl)).
Proof.
  intros e fl n H. unfold names_object in H. apply orb_true_iff in H. destruct H as [H|H].
  - apply orb_true_iff in H. destruct H as [H|H].
    + apply existsb_schema in H. destruct H as [s [Hs Hp]]. destruct s as [m fs|m fs|m os]; try discriminate.
      apply bytes_eqb_eq in Hp. subst m. exact (defined_schema e fl _ Hs).
    + apply bytes_eqb_eq in H. subst n. apply in_defined_head. rewrite <- cn_keys. cbn. auto.
  - apply bytes_eqb_eq in H. subst n. apply in_defined_head. rewrite <- cn_data. cbn. auto.
Qed.
Lemma names_oneof_defined : forall e fl n, names_oneof e n = true -> In (false, n) (defined (expand_with e fl)).
Proof.
  intros e fl n H. unfold names_oneof in H. apply existsb_schema in H. destruct H as [s [Hs Hp]].
  destruct s as [m fs|m fs|m os]; try discriminate. apply bytes_eqb_eq in Hp. subst m. exact (defined_schema e fl _ Hs).
Qed.
Lemma names_enum_defined : forall e fl n, names_enum e n = true -> In (true, n) (defined (expand_with e fl)).
Proof.
  intros e fl n H. unfold names_enum in H. apply existsb_schema in H. destruct H as [s [Hs Hp]].
  destruct s as [m fs|m fs|m os]; try discriminate. apply bytes_eqb_eq in Hp. subst m. exact (defined_schema e fl _ Hs).
Qed.

Lemma item_resolves : forall e fl i, item_ref_ok e i = true ->
  ref_resolves (defined (expand_with e fl)) (otype_of_item i) = true.
Proof.
  intros e fl [pt k|tn k|n|n|n] H; try reflexivity; cbn [otype_of_item ref_resolves]; apply resolves_local.
  - now apply names_object_defined.
  - now apply names_oneof_defined.
  - now apply names_enum_defined.
Qed.

Lemma ref_ok_resolves : forall e fl u, ref_ok e u = true ->
  resolves (defined (expand_with e fl)) (of_ufield u) = true.
Proof.
  intros e fl [n k r o] H. unfold ref_ok in H. cbn [uf_kind] in H. unfold resolves, of_ufield. cbn [uf_kind].
  destruct k as [pt j|m|m|m|p f t|tn j|i|i]; cbn [f_type ref_resolves]; try reflexivity.
  - apply resolves_local. now apply names_object_defined.
  - apply resolves_local. now apply names_oneof_defined.
  - apply resolves_local. now apply names_enum_defined.
  - now apply item_resolves.
  - now apply item_resolves.
Qed.

Lemma closed_holds : forall e fl, quantified e -> closed (expand_with e fl) = true.
Proof.
  intros e fl Q. apply expand_closed. unfold user_refs_ok. apply forallb_forall. intros u Hu.
  destruct (all_ufields_ok e u Q Hu) as [_ R]. now apply ref_ok_resolves.
Qed.

(* ---- path parameters are request fields ------------------------------------------------------------ *)
(* the ":name" parts of path.Join(base, rel) are those of the non-empty segments of base and rel *)
Lemma path_params_clean : forall s, path_params (clean_path s) = flat_map param_of (segments s).
Proof.
  intros s. unfold clean_path, path_params. destruct (segments s) as [|p l] eqn:E; [reflexivity|].
  change ([47] ++ join [47] (p :: l)) with ([] ++ 47 :: join [47] (p :: l)).
  rewrite split_slash_app_slash. cbn [split_slash rev flat_map param_of app].
  rewrite split_join; [reflexivity|discriminate|].
  pose proof (segments_seg_ok s) as H. rewrite E in H. eapply Forall_impl; [|exact H].
  intros q Hq. unfold seg_ok in Hq. apply andb_true_iff in Hq. tauto.
Qed.

Lemma path_params_join : forall base rel,
  path_params (path_join base rel) = flat_map param_of (segments base) ++ flat_map param_of (segments rel).
Proof.
  intros base rel. unfold path_join. destruct rel as [|c r].
  - rewrite path_params_clean. cbn. now rewrite app_nil_r.
  - rewrite path_params_clean, segments_app_slash. apply flat_map_app.
Qed.

Lemma plain_param_of : forall l, Forall (fun p => plain_seg p = true) l -> flat_map param_of l = [].
Proof.
  induction 1 as [|p l H _ IH]; [reflexivity|]. cbn [flat_map]. rewrite IH, app_nil_r.
  destruct p as [|c n]; [reflexivity|]. cbn in H. apply andb_true_iff in H. destruct H as [H _].
  apply negb_true_iff in H. cbn [param_of]. now rewrite H.
Qed.

Lemma colon_params_segments : forall p, flat_map param_of (segments p) = colon_params p.
Proof.
  intros p. unfold segments, colon_params. induction (split_slash [] p) as [|s l IH]; [reflexivity|].
  cbn [filter flat_map]. destruct s as [|c n].
  - cbn. exact IH.
  - cbn [is_nil negb flat_map]. rewrite IH. f_equal. cbn [param_of].
    destruct (N.eqb_spec c 58) as [->|Hne]; [reflexivity|].
    destruct c as [|q]; [reflexivity|]. destruct q as [q|q|]; try reflexivity;
      repeat (destruct q as [q|q|]; try reflexivity); congruence.
Qed.

(* the base URL of the entity: plain segments only *)
Lemma base_url_plain : forall e, quantified e ->
  Forall (fun p => plain_seg p = true) (split_slash [] (base_url e)).
Proof.
  intros e Q. unfold base_url. destruct (e_base_url e) as [|c r] eqn:E.
  - apply default_base_segments; [exact (q_name e Q)|exact (q_pkg e Q)].
  - pose proof (q_base e Q) as Hb. rewrite E in Hb. cbn [is_nil orb] in Hb.
    apply andb_true_iff in Hb. destruct Hb as [H1 H2].
    apply override_base_segments; [exact H1|]. destruct (colon_params (c :: r)); [reflexivity|discriminate].
Qed.

Lemma segments_plain : forall s, Forall (fun p => plain_seg p = true) (split_slash [] s) ->
  Forall (fun p => plain_seg p = true) (segments s).
Proof. intros s H. unfold segments. now apply Forall_filter. Qed.

Lemma command_base_plain : forall e c, quantified e -> In c (e_commands e) ->
  Forall (fun p => plain_seg p = true) (segments (command_base e c)).
Proof.
  intros e c Q Hc. apply segments_plain. unfold command_base.
  pose proof (q_commands e Q) as H. rewrite forallb_forall in H. specialize (H c Hc).
  apply andb_true_iff in H. destruct H as [H _]. apply andb_true_iff in H. destruct H as [H _].
  apply andb_true_iff in H. destruct H as [_ Hb].
  destruct (c_base c) as [b|].
  - change ([47] ++ base_url e ++ [47] ++ b) with ([] ++ 47 :: (base_url e ++ 47 :: b)).
    rewrite !split_slash_app_slash. apply Forall_app. split; [repeat constructor|].
    apply Forall_app. split; [now apply base_url_plain|].
    apply andb_true_iff in Hb. destruct Hb as [H1 H2]. apply override_base_segments; [exact H1|].
    destruct (colon_params b); [reflexivity|discriminate].
  - change ([47] ++ base_url e ++ bs "/c") with ([] ++ 47 :: (base_url e ++ 47 :: bs "c")).
    rewrite !split_slash_app_slash. apply Forall_app. split; [repeat constructor|].
    apply Forall_app. split; [now apply base_url_plain|repeat constructor].
Qed.

Lemma command_params_holds : forall e, quantified e -> command_params_ok e = true.
Proof.
  intros e Q. unfold command_params_ok. apply forallb_forall. intros c Hc. apply forallb_forall. intros m Hm.
  unfold params_ok. rewrite path_params_join, (plain_param_of _ (command_base_plain e c Q Hc)). cbn [app].
  rewrite colon_params_segments.
  pose proof (q_commands e Q) as H. rewrite forallb_forall in H. specialize (H c Hc).
  apply andb_true_iff in H. destruct H as [H _]. apply andb_true_iff in H. destruct H as [_ H].
  rewrite forallb_forall in H. specialize (H m Hm). unfold method_wf in H.
  apply andb_true_iff in H. destruct H as [_ H]. exact H.
Qed.

Lemma key_seg_ok_all : forall e, quantified e -> forall u, In u (map k_def (e_keys e)) -> key_seg_ok u = true.
Proof.
  intros e Q u Hu. pose proof (fields_wf_all _ _ (q_keys_wf e Q) Hu) as W.
  unfold ufield_wf in W. apply andb_true_iff in W. destruct W as [W _].
  unfold name_ok in W. apply andb_true_iff in W. destruct W as [Hi _].
  unfold key_seg_ok. destruct (ident_no_colon_slash _ Hi) as [_ ->].
  destruct (ident_no_colon_slash _ (to_snake_ident _ Hi)) as [_ ->]. reflexivity.
Qed.

Lemma keys_params_ok : forall e ks tail extra, quantified e ->
  (forall u, In u ks -> In u (map k_def (e_keys e))) ->
  tail = [] \/ tail = [bs "events"] ->
  params_ok (map uf_name ks ++ extra) (path_join (query_base e) (join [47] (key_path ks ++ tail))) = true.
Proof.
  intros e ks tail extra Q Hks Ht. unfold params_ok. rewrite path_params_join.
  assert (Hb : Forall (fun p => plain_seg p = true) (segments (query_base e))).
  { apply segments_plain. unfold query_base.
    change ([47] ++ base_url e ++ bs "/q") with ([] ++ 47 :: (base_url e ++ 47 :: bs "q")).
    rewrite !split_slash_app_slash. apply Forall_app. split; [repeat constructor|].
    apply Forall_app. split; [now apply base_url_plain|repeat constructor]. }
  rewrite (plain_param_of _ Hb). cbn [app].
  assert (Hparts : Forall (fun p => seg_ok p = true) (key_path ks ++ tail)).
  { apply Forall_app. split; [|destruct Ht as [->| ->]; repeat constructor].
    apply key_path_seg_ok. apply Forall_forall. intros u Hu.
    pose proof (key_seg_ok_all e Q u (Hks u Hu)) as H. unfold key_seg_ok in H. apply andb_true_iff in H. tauto. }
  assert (Eseg : segments (join [47] (key_path ks ++ tail)) = key_path ks ++ tail).
  { destruct (key_path ks ++ tail) as [|p l] eqn:E; [reflexivity|]. apply segments_join; [discriminate|exact Hparts]. }
  rewrite Eseg, flat_map_app, params_key_path.
  assert (Et : flat_map param_of tail = []) by (destruct Ht as [->| ->]; reflexivity).
  rewrite Et, app_nil_r. apply forallb_forall. intros p Hp.
  apply existsb_exists. exists p. split; [apply in_or_app; now left|apply bytes_eqb_refl].
Qed.

Lemma query_params_holds : forall e, quantified e -> query_params_ok e = true.
Proof.
  intros e Q. unfold query_params_ok. fold (query_base e).
  pose proof (keys_params_ok e (get_keys e) [] [] Q (get_keys_incl e) (or_introl eq_refl)) as H1.
  pose proof (keys_params_ok e (list_keys e) [] [bs "page"; bs "query"] Q (list_keys_incl e) (or_introl eq_refl)) as H2.
  pose proof (keys_params_ok e (get_keys e) [bs "events"] [bs "page"; bs "query"] Q (get_keys_incl e) (or_intror eq_refl)) as H3.
  repeat rewrite app_nil_r in H1. repeat rewrite app_nil_r in H2.
  apply andb_true_iff. split; [apply andb_true_iff; split|]; [exact H1|exact H2|exact H3].
Qed.

(* ---- conversion succeeds ------------------------------------------------------------------------------ *)
Theorem convert_accepts : forall e, quantified e -> exists fl, convert e = Ok (expand_with e fl).
Proof.
  intros e Q. destruct (expand_accepts e Q) as [fl Hx]. exists fl. unfold convert. rewrite Hx.
  rewrite (closed_holds e fl Q), (fields_ok_holds e Q), (query_params_holds e Q), (command_params_holds e Q).
  reflexivity.
Qed.

(* ReflectOrderProofs.v — SchemaSetFromFiles does not depend on the order in which the files (and
   their messages and enums) are visited (hypothesis wf_keys): protoregistry.RangeFiles ranges over a Go
   map, so the order is random on the real code. The loop over the messages is a history of
   SchemaCache-like calls on one set; by cache transparency each call answers exactly when a fresh set
   would, so the reflection succeeds iff every selected message can be built on its own and every
   selected enum is well-formed: a condition on the SET of selected names. The entries themselves are
   the declared schemas (ReflectDeclProofs), whatever the order. *)
From Coq Require Import String List Arith NArith ZArith Bool Lia Permutation.
From J5V.lib Require Import Outcome.
From J5V.model Require Import ReflectDesc ReflectSchema Reflect ReflectSpec Export ReflectDecl.
From J5V.proofs Require Import ReflectProofs ExportProofs ReflectInvProofs ReflectPathProofs ReflectFuelProofs ReflectFlattenProofs ReflectDeclProofs ReflectClassProofs.
Import ListNotations.
Local Open Scope bool_scope.

Section Order.
Variable D : desc.
Hypothesis Hwf : wf_keys D.

(* the message can be built on its own (by a fresh set / cache) *)
Definition fresh_ok (full : str) : Prop :=
  exists m r, find_msg D full = Some m /\ snd (cache_schema D (size D) [] m) = Ok r.
(* the enum is well-formed for J5 (first value *_UNSPECIFIED) *)
Definition enum_ok (full : str) : Prop :=
  exists e r, find_enum D full = Some e /\ build_enum e = Ok r.

Lemma Hne : enums_nonempty D.
Proof. exact (proj1 Hwf). Qed.

Lemma messages_loop_reach : forall ms st, cache_reach D st ->
  match messages_loop D (size D) st ms with
  | Ok st' => cache_reach D st' /\ forall full, In full ms -> fresh_ok full
  | Err _ => exists full, In full ms /\ ~ fresh_ok full
  | _ => False
  end.
Proof.
  induction ms as [|full rest IH]; intros st Hr; cbn [messages_loop].
  - split; [exact Hr|intros full []].
  - destruct (find_msg D full) as [m|] eqn:Ef.
    2:{ exists full. split; [left; reflexivity|]. intros (m & r & E & _). congruence. }
    assert (Hm : In m (d_msgs D)) by (eapply find_msg_In; eauto).
    pose proof (cache_schema_total_any_state D Hne st m Hm) as (_ & Hnp & Hnf).
    pose proof (cache_transparent D Hwf st m) as Htr.
    pose proof (reach_call D st m Hr Hm) as Hr1.
    unfold cache_schema in *.
    destruct (message_schema D (size D) st m) as [[st1 r]| | |] eqn:Em; cbn [obind fst snd] in *.
    + assert (Hfresh : fresh_ok full) by (exists m, r; split; [exact Ef|apply (Htr r Hr Hm); reflexivity]).
      specialize (IH st1 Hr1). destruct (messages_loop D (size D) st1 rest) as [st'| | |]; try exact IH.
      * destruct IH as [I1 I2]. split; [exact I1|]. intros f [<-|Hf]; [exact Hfresh|apply I2; exact Hf].
      * destruct IH as (f & Hf & Hn). exists f. split; [right; exact Hf|exact Hn].
    + exists full. split; [left; reflexivity|]. intros (m' & r & E & Hok). rewrite Ef in E. inversion E; subst m'.
      apply (Htr r Hr Hm) in Hok. discriminate.
    + exfalso. eapply Hnp. reflexivity.
    + exfalso. apply Hnf. reflexivity.
Qed.

Lemma enums_loop_class : forall es st,
  Canon D st -> (forall k, lookup st k <> Some Placeholder) ->
  match enums_loop D st es with
  | Ok st' => Canon D st' /\ forall full, In full es -> enum_ok full
  | Err _ => exists full, In full es /\ ~ enum_ok full
  | _ => False
  end.
Proof.
  induction es as [|full rest IH]; intros st HC HP; cbn [enums_loop].
  - split; [exact HC|intros full []].
  - destruct (find_enum D full) as [e|] eqn:Ef.
    2:{ exists full. split; [left; reflexivity|]. intros (e & r & E & _). congruence. }
    assert (He : In e (d_enums D)) by (eapply find_enum_In; eauto).
    destruct (lookup st (enum_key e)) as [[|r0]|] eqn:El.
    + exfalso. exact (HP _ El).
    + assert (Hok : enum_ok full) by (exists e, r0; split; [exact Ef|exact (proj1 HC e r0 He El)]).
      specialize (IH st HC HP). destruct (enums_loop D st rest) as [st'| | |]; try exact IH.
      * destruct IH as [I1 I2]. split; [exact I1|]. intros f [<-|Hf]; [exact Hok|apply I2; exact Hf].
      * destruct IH as (f & Hf & Hn). exists f. split; [right; exact Hf|exact Hn].
    + pose proof (build_enum_shape e (Hne e He)) as Hs.
      destruct (build_enum e) as [root| | |] eqn:Eb; cbn [obind]; try contradiction.
      * assert (Hok : enum_ok full) by (exists e, root; split; assumption).
        assert (HC1 : Canon D ((enum_key e, Linked root) :: st)) by (apply Canon_cons_enum; assumption).
        assert (HP1 : forall k, lookup ((enum_key e, Linked root) :: st) k <> Some Placeholder).
        { intros k. rewrite lookup_cons. destruct (ref_eqb (enum_key e) k); [discriminate|apply HP]. }
        specialize (IH _ HC1 HP1). destruct (enums_loop D _ rest) as [st'| | |]; try exact IH.
        -- destruct IH as [I1 I2]. split; [exact I1|]. intros f [<-|Hf]; [exact Hok|apply I2; exact Hf].
        -- destruct IH as (f & Hf & Hn). exists f. split; [right; exact Hf|exact Hn].
      * exists full. split; [left; reflexivity|]. intros (e' & r & E & Hb). rewrite Ef in E. inversion E; subst e'. congruence.
Qed.

(* the reflection succeeds exactly when every selected message can be built on its own and every
   selected enum is well-formed *)
Theorem reflect_ok_iff fs :
  (exists S, reflect D fs = Ok S) <->
  (forall full, In full (fst (collect fs)) -> fresh_ok full) /\ (forall full, In full (snd (collect fs)) -> enum_ok full).
Proof.
  unfold reflect, reflect_files. destruct (collect fs) as [ms es]. cbn [fst snd].
  pose proof (messages_loop_reach ms [] (reach_new D)) as Hm.
  destruct (messages_loop D (size D) [] ms) as [st| | |] eqn:Em; cbn [obind]; try contradiction.
  - destruct Hm as [Hr Hall]. destruct (cache_reach_good D Hwf st Hr) as (HC & _ & _ & _ & HP).
    pose proof (enums_loop_class es st HC HP) as He.
    destruct (enums_loop D st es) as [st'| | |]; try contradiction.
    + destruct He as [_ Hae]. split; [intros _; split; assumption|intros _; eauto].
    + destruct He as (f & Hf & Hn). split; [intros (S & HS); discriminate|intros [_ H2]; exfalso; apply Hn; apply H2; exact Hf].
  - destruct Hm as (f & Hf & Hn). split; [intros (S & HS); discriminate|intros [H1 _]; exfalso; apply Hn; apply H1; exact Hf].
Qed.

(* hence: two selections of files with the same messages and enums (in particular two orders of the
   same files) both reflect or both fail, and where both reflect the sets agree on every message and
   enum they both hold *)
Theorem reflect_order_independent fs fs' :
  (forall x, In x (fst (collect fs)) <-> In x (fst (collect fs'))) ->
  (forall x, In x (snd (collect fs)) <-> In x (snd (collect fs'))) ->
  ((exists S, reflect D fs = Ok S) <-> (exists S', reflect D fs' = Ok S')) /\
  (forall S S', reflect D fs = Ok S -> reflect D fs' = Ok S' ->
     (forall m r r', In m (d_msgs D) -> lookup S (msg_key m) = Some (Linked r) -> lookup S' (msg_key m) = Some (Linked r') -> r = r') /\
     (forall e r r', In e (d_enums D) -> lookup S (enum_key e) = Some (Linked r) -> lookup S' (enum_key e) = Some (Linked r') -> r = r')).
Proof.
  intros Hm He. split.
  - rewrite !reflect_ok_iff. split; intros [H1 H2]; split; intros x Hx.
    + apply H1. apply Hm. exact Hx.
    + apply H2. apply He. exact Hx.
    + apply H1. apply Hm. exact Hx.
    + apply H2. apply He. exact Hx.
  - intros S S' HS HS'. pose proof (reflect_declared D Hwf fs S HS) as [C1 C2]. pose proof (reflect_declared D Hwf fs' S' HS') as [C1' C2'].
    split.
    + intros m r r' Hmm H H'. destruct (C2 m r Hmm H) as [E _]. destruct (C2' m r' Hmm H') as [E' _]. rewrite E in E'. inversion E'. reflexivity.
    + intros e r r' Hee H H'. pose proof (C1 e r Hee H) as E. pose proof (C1' e r' Hee H') as E'. rewrite E in E'. inversion E'. reflexivity.
Qed.

(* a permutation of the files selects the same messages and enums *)
Lemma collect_perm fs fs' : Permutation fs fs' ->
  (forall x, In x (fst (collect fs)) <-> In x (fst (collect fs'))) /\ (forall x, In x (snd (collect fs)) <-> In x (snd (collect fs'))).
Proof.
  assert (Hin : forall l x, (In x (fst (collect l)) <-> exists p k ms es, In (File p k ms es) l /\ In x ms) /\
                            (In x (snd (collect l)) <-> exists p k ms es, In (File p k ms es) l /\ In x es)).
  { induction l as [|[p k ms es] r IH]; intros x; cbn [collect].
    - split; split; [intros []|intros (? & ? & ? & ? & [] & _)|intros []|intros (? & ? & ? & ? & [] & _)].
    - destruct (collect r) as [m2 e2] eqn:Ec. cbn [fst snd] in *. destruct (IH x) as [I1 I2]. split; split.
      + intros H. apply in_app_or in H as [H|H]; [exists p, k, ms, es; split; [left; reflexivity|exact H]|].
        apply I1 in H as (p' & k' & ms' & es' & Hf & Hx). exists p', k', ms', es'. split; [right; exact Hf|exact Hx].
      + intros (p' & k' & ms' & es' & [Hf|Hf] & Hx); apply in_or_app; [inversion Hf; subst; left; exact Hx|right; apply I1; eauto 10].
      + intros H. apply in_app_or in H as [H|H]; [exists p, k, ms, es; split; [left; reflexivity|exact H]|].
        apply I2 in H as (p' & k' & ms' & es' & Hf & Hx). exists p', k', ms', es'. split; [right; exact Hf|exact Hx].
      + intros (p' & k' & ms' & es' & [Hf|Hf] & Hx); apply in_or_app; [inversion Hf; subst; left; exact Hx|right; apply I2; eauto 10]. }
  intros Hp. split; intros x.
  - rewrite (proj1 (Hin fs x)), (proj1 (Hin fs' x)). split; intros (p & k & ms & es & Hf & Hx); exists p, k, ms, es; (split; [|exact Hx]).
    + eapply Permutation_in; eauto.
    + eapply Permutation_in; [apply Permutation_sym; exact Hp|exact Hf].
  - rewrite (proj2 (Hin fs x)), (proj2 (Hin fs' x)). split; intros (p & k & ms & es & Hf & Hx); exists p, k, ms, es; (split; [|exact Hx]).
    + eapply Permutation_in; eauto.
    + eapply Permutation_in; [apply Permutation_sym; exact Hp|exact Hf].
Qed.

Corollary reflect_file_order_independent fs fs' :
  Permutation fs fs' -> ((exists S, reflect D fs = Ok S) <-> (exists S', reflect D fs' = Ok S')).
Proof.
  intros Hp. destruct (collect_perm fs fs' Hp) as [H1 H2]. exact (proj1 (reflect_order_independent fs fs' H1 H2)).
Qed.
End Order.

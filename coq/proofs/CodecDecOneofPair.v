(* CodecDecOneofPair.v — two members of one proto oneof never both succeed: once the first is stored
   its field is set (oneof members have explicit presence), and the second fails the oneof check.
   So for such a pair of properties the order is irrelevant to accepted documents. *)
From Coq Require Import String List NArith ZArith Bool Lia.
From J5V.lib Require Import Outcome Json.
From J5V.model Require Import CodecTypes CodecDecScalar CodecDec CodecDecTree CodecDecCommute.
From J5V.proofs Require Import CodecDecStored CodecDecSupport CodecDecTreeUnfold.
Import ListNotations.
Local Open Scope N_scope.

Lemma scalar_not_list orc k v x : scalar_from_go orc k v = Ok (Some x) ->
  match x with VList _ | VMap _ => False | _ => True end.
Proof.
  intros H. destruct k; unfold scalar_from_go in H;
    try unfold int_from_go in H; try (unfold float_from_go in H; destruct v; cbn [obind] in H);
    repeat match type of H with
           | match ?t with _ => _ end = _ => destruct t eqn:?; try discriminate
           | (if ?b then _ else _) = _ => destruct b eqn:?; try discriminate
           end;
    try discriminate; injection H as <-; try exact I;
    unfold mk_timestamp, mk_date, mk_decimal, wkt_fields; exact I.
Qed.

Lemma scalar_none_null orc k j : is_container j = false ->
  scalar_from_go orc k (goval_of_json j) = Ok None -> j = JNull.
Proof.
  intros Hc H. destruct j; try reflexivity; try discriminate; cbn [goval_of_json] in H;
    destruct k; unfold scalar_from_go in H;
    try unfold int_from_go in H; try (unfold float_from_go in H; cbn [obind] in H);
    repeat match type of H with
           | match ?t with _ => _ end = _ => destruct t eqn:?; try discriminate
           | (if ?b then _ else _) = _ => destruct b eqn:?; try discriminate
           end; discriminate.
Qed.

Lemma stored_form_explicit x : match x with VList _ | VMap _ => False | _ => True end -> stored_form true x = Some x.
Proof. destruct x; intros H; try contradiction; reflexivity. Qed.

Section Pair.
  Variable orc : oracles.
  Variable e : env.

  (* storing a non-null value in an explicit, non-repeated property leaves its field set *)
  Lemma present_sets_own f d p v m m' :
    p_path p <> [] -> p_explicit p = true -> is_list_ty (p_ty p) = false -> v <> JNull ->
    tr_present orc e f d p v m = Ok m' -> exists x, get_path (p_path p) m' = Some x.
  Proof.
    intros Hq Hex Hl Hv H. destruct f as [|f]; [discriminate|]. rewrite tr_present_S in H.
    assert (Own : forall K : N -> msg -> outcome (msg * unit),
              omap fst (with_holder (p_path p) m K) = Ok m' ->
              (forall n h h', K n h = Ok (h', tt) -> exists x, msg_get n h' = Some x) ->
              exists x, get_path (p_path p) m' = Some x).
    { intros K HK Hset. apply omap_fst_ok in HK. destruct HK as [[] HK].
      destruct (with_holder_own (p_path p) K Hq m m' tt HK) as (n & h & h' & _ & Hk & Hg).
      rewrite Hg. exact (Hset n h h' Hk). }
    destruct (p_ty p) as [k|ref|ref|ref|item|item|pb]; try discriminate.
    - destruct (is_container v) eqn:Ec; [discriminate|].
      destruct (scalar_from_go orc k (goval_of_json v)) as [[x|]| | |] eqn:Es; cbn [obind] in H; try discriminate.
      + eapply Own; [exact H|]. intros n h h' Hk. cbv beta iota in Hk. match type of Hk with Ok (?t, tt) = Ok _ => assert (E : h' = t) by congruence; rewrite E end. exists x.
        rewrite msg_get_set_same, Hex. apply stored_form_explicit. exact (scalar_not_list orc k _ x Es).
      + exfalso. apply Hv. exact (scalar_none_null orc k v Ec Es).
    - destruct v; try discriminate. destruct (lookup e ref) as [[| |prefix opts]|]; try discriminate.
      destruct (option_by_name prefix opts s) as [z|]; [|discriminate].
      eapply Own; [exact H|]. intros n h h' Hk. cbv beta iota in Hk. match type of Hk with Ok (?t, tt) = Ok _ => assert (E : h' = t) by congruence; rewrite E end. exists (VEnum z).
      rewrite msg_get_set_same, Hex. reflexivity.
    - destruct v; try discriminate. destruct (lookup e ref) as [[props| |]|]; try discriminate.
      eapply Own; [exact H|]. intros n h h' Hk. cbv beta iota in Hk. destruct (msg_mutable (p_siblings p) n h) as [sub h1].
      destruct (tr_object orc e f d props members sub []) as [sub'| | |]; cbn [obind] in Hk; try discriminate.
      match type of Hk with Ok (?t, tt) = Ok _ => assert (E : h' = t) by congruence; rewrite E end. eexists. apply msg_get_put_same.
    - destruct v; try discriminate. destruct (lookup e ref) as [[|props|]|]; try discriminate.
      destruct (p_path p) as [|a r] eqn:Ep; [congruence|]. rewrite <- Ep in *.
      eapply Own; [exact H|]. intros n h h' Hk. cbv beta iota in Hk. destruct (msg_mutable (p_siblings p) n h) as [sub h1].
      destruct (tr_oneof orc e f d props members sub [] [] None) as [sub'| | |]; cbn [obind] in Hk; try discriminate.
      match type of Hk with Ok (?t, tt) = Ok _ => assert (E : h' = t) by congruence; rewrite E end. eexists. apply msg_get_put_same.
    - destruct v; try discriminate.
      eapply Own; [exact H|]. intros n h h' Hk. cbv beta iota in Hk. destruct (msg_mutable (p_siblings p) n h) as [sub h1].
      destruct (tr_any_body members None None) as [[vv ty]| | |]; cbn [obind fst snd] in Hk; try discriminate.
      destruct ty; [|discriminate]. destruct vv; [|discriminate]. destruct pb; [discriminate|].
      match type of Hk with Ok (?t, tt) = Ok _ => assert (E : h' = t) by congruence; rewrite E end. eexists. apply msg_get_put_same.
  Qed.

  (* the field at the end of pre ++ [na] is set: a property at pre ++ [nb] with na among its
     siblings fails the oneof check *)
  Lemma conflict_after_set pre : forall na nb sibs m x,
    get_path (pre ++ [na]) m = Some x -> In na sibs -> conflict_at (pre ++ [nb]) sibs m = true.
  Proof.
    induction pre as [|a r IH]; intros na nb sibs m x Hg Hin.
    - cbn [app] in *. unfold conflict_at. cbn [holder_lookup get_path] in *.
      apply existsb_exists. exists na. split; [exact Hin|]. unfold msg_has. rewrite Hg. reflexivity.
    - cbn [app] in *. specialize (IH na nb sibs).
      destruct (r ++ [na]) as [|ya ta] eqn:Ea; [destruct r; discriminate|].
      destruct (r ++ [nb]) as [|yb tb] eqn:Eb; [destruct r; discriminate|].
      rewrite conflict_at_cons. cbn [get_path] in Hg. unfold sub_of.
      destruct (msg_get a m) as [[]|]; try discriminate.
      exact (IH _ x Hg Hin).
  Qed.

  (* p then q never both succeed *)
  Definition oneof_after (p q : property) : Prop :=
    exists pre na nb, p_path p = pre ++ [na] /\ p_path q = pre ++ [nb] /\ In na (p_siblings q) /\
                      p_explicit p = true /\ is_list_ty (p_ty p) = false.

  Theorem oneof_after_conflict p q f d v m m' : oneof_after p q -> v <> JNull ->
    tr_present orc e f d p v m = Ok m' -> oneof_conflict q m' = true.
  Proof.
    intros (pre & na & nb & Ep & Eq & Hin & Hex & Hl) Hv H.
    assert (Hq : p_path p <> []) by (rewrite Ep; destruct pre; discriminate).
    destruct (present_sets_own f d p v m m' Hq Hex Hl Hv H) as [x Hx].
    rewrite oneof_conflict_at, Eq. rewrite Ep in Hx. exact (conflict_after_set pre na nb _ m' x Hx Hin).
  Qed.
End Pair.

(* computable form (model/CodecDecCommute.v) *)
Lemma list_N_eqb_eq a : forall b, list_N_eqb a b = true -> a = b.
Proof.
  induction a as [|x a IH]; intros [|y b] H; try discriminate; [reflexivity|].
  cbn in H. apply andb_prop in H. destruct H as [H1 H2]. apply N.eqb_eq in H1. subst. f_equal. apply IH. exact H2.
Qed.

Lemma oneof_after_b_sound p q : oneof_after_b p q = true -> oneof_after p q.
Proof.
  unfold oneof_after_b. destruct (rev (p_path p)) as [|na rp] eqn:Ep; [discriminate|].
  destruct (rev (p_path q)) as [|nb rq] eqn:Eq; [discriminate|]. intros H.
  apply andb_prop in H. destruct H as [H Hl]. apply andb_prop in H. destruct H as [H Hex].
  apply andb_prop in H. destruct H as [Hr Hin]. apply list_N_eqb_eq in Hr. subst rq.
  exists (rev rp), na, nb. repeat split.
  - rewrite <- (rev_involutive (p_path p)), Ep. reflexivity.
  - rewrite <- (rev_involutive (p_path q)), Eq. reflexivity.
  - apply existsb_exists in Hin. destruct Hin as (x & Hx & E). apply N.eqb_eq in E. subst. exact Hx.
  - exact Hex.
  - apply negb_true_iff. exact Hl.
Qed.

(* BclFragWfProofs.v — the shape of what the walker builds from lexer tokens:
   every token kept inside a fragment has a literal of its kind (so it can be
   rendered and read back), references are non-empty lists of identifiers,
   tag values are strings, a line comment or description used as a value is the
   last thing of its statement.  This is what the formatter's text is made of. *)
From Coq Require Import String List NArith ZArith Bool Lia ZifyN ZifyNat ZifyBool.
From J5V.lib Require Import Text Outcome.
From J5V.model Require Import BclLexer BclParser BclFmt.
From J5V.proofs Require Import BclPosProofs BclLexerProofs BclLexerCoverProofs BclParserProofs BclWalkCoverProofs
                               BclFmtLitProofs BclLexLitProofs.
Import ListNotations.
Local Open Scope N_scope.
Arguments Nat.sub : simpl never.

Definition is_tf (l : list N) : bool := list_N_eqb l lit_true || list_N_eqb l lit_false.
(* the type a token is read back with: an identifier spelled true / false is read as BOOL *)
Definition ctyp (t : token) : ttype :=
  match ty t with IDENT => if is_tf (lit t) then BOOL else IDENT | x => x end.
Definition tok_lx (t : token) : Prop := lit_ok (ctyp t) (lit t).

Definition id_ok (i : token) : Prop := ty i = IDENT /\ tok_lx i.
Definition ref_ok (r : reference) : Prop := r <> [] /\ Forall id_ok r.

Definition is_vlit (t : ttype) : bool :=
  match t with STRING | REGEX | INT | DECIMAL | BOOL | COMMENT | BLOCK_COMMENT | DESCRIPTION => true | _ => false end.
Definition ends_line_ty (t : ttype) : bool := match t with COMMENT | DESCRIPTION => true | _ => false end.
Definition v_ends_line (v : value) : bool := match v with VTok t _ _ => ends_line_ty (ty t) | VArr _ _ _ => false end.

(* nesting of arrays *)
Fixpoint vdepth (v : value) : N :=
  match v with
  | VTok _ _ _ => 0
  | VArr vs _ _ => N.succ (fold_right (fun x m => N.max (vdepth x) m) 0 vs)
  end.

Inductive vlx : value -> Prop :=
| vlx_tok t s e : tok_lx t -> is_vlit (ty t) = true -> vlx (VTok t s e)
| vlx_arr vs s e : Forall (fun v => vlx v /\ v_ends_line v = false) vs -> vlx (VArr vs s e).

Definition mark_ok (m : mark) (mt : option token) : Prop :=
  match m, mt with
  | MarkNone, None => True
  | MarkBang, Some t => ty t = BANG /\ lit t = [33]
  | MarkQuestion, Some t => ty t = QUESTION /\ lit t = [63]
  | _, _ => False
  end.
Definition tlx (t : tag) : Prop :=
  mark_ok (tmark t) (tmark_tok t) /\
  match tbody t with
  | TagRef r => ref_ok r
  | TagVal (VTok tk _ _) => ty tk = STRING
  | TagVal (VArr _ _ _) => False
  end.

Definition comment_lx (c : option comment) : Prop := match c with Some c => no_nl (cvalue c) | None => True end.

Definition hlx (h : header) : Prop :=
  ref_ok (htype h) /\ Forall tlx (htags h) /\ Forall tlx (hquals h) /\ comment_lx (hcomment h) /\
  match hdesc h with
  | Some d => (exists t, dtoks d = [t] /\ ty t = DESCRIPTION /\ tok_lx t) /\ hopen h = false /\ hcomment h = None /\
              dvalue d = join_with 10 (map lit (dtoks d))
  | None => True
  end.
Definition alx (a : assign) : Prop :=
  ref_ok (akey a) /\ vlx (avalue a) /\ comment_lx (acomment a) /\
  (v_ends_line (avalue a) = true -> acomment a = None) /\
  vdepth (avalue a) <= max_value_depth.
Definition dlx (d : descr) : Prop :=
  dtoks d <> [] /\ Forall (fun t => ty t = DESCRIPTION /\ tok_lx t) (dtoks d) /\
  dvalue d = join_with 10 (map lit (dtoks d)).
Definition frag_lx (f : fragment) : Prop :=
  match f with
  | FHeader h => hlx h
  | FAssign a => alx a
  | FDesc d => dlx d
  | FComment t => (ty t = COMMENT \/ ty t = BLOCK_COMMENT) /\ tok_lx t
  | FClose t => ty t = RBRACE /\ lit t = [125]
  end.

(* ---- lexer tokens are lexable -------------------------------------------------------------- *)
Lemma lexer_tok_lx t : lit_ok (ty t) (lit t) -> tok_lx t.
Proof.
  unfold tok_lx, ctyp. destruct (ty t) eqn:E; auto.
  cbn [lit_ok]. intros [H Hb]. unfold is_tf. rewrite Hb. cbn. split; assumption.
Qed.

Lemma all_tokens_loop_lx ff : forall fuel s,
  let '(ts, ds, b) := all_tokens_loop fuel ff s in Forall tok_lx ts.
Proof.
  induction fuel as [|f IH]; intros s; cbn [all_tokens_loop]; [constructor|].
  destruct (next_token s) as [[t|d| |] s'] eqn:E; try constructor.
  - specialize (IH s'). destruct (all_tokens_loop f ff s') as [[ts ds] b].
    constructor; [|exact IH]. apply lexer_tok_lx. unfold next_token in E. eapply next_token_lit_ok; eauto.
  - destruct ff; [constructor|]. specialize (IH s'). destruct (all_tokens_loop f false s') as [[ts ds] b]. exact IH.
Qed.

Theorem all_tokens_lx ff data ts : all_tokens ff data = LexOk ts -> Forall tok_lx ts.
Proof.
  unfold all_tokens. pose proof (all_tokens_loop_lx ff (S (S (length data))) (new_lexer data)) as H.
  destruct (all_tokens_loop (S (S (length data))) ff (new_lexer data)) as [[ts' ds] b].
  destruct b; [discriminate|]. destruct ds; [|discriminate]. intros [= <-]. exact H.
Qed.

Lemma as_ident_lx t i : tok_lx t -> as_ident t = Some i -> id_ok i.
Proof.
  unfold as_ident. intros Hlx. destruct (ty t) eqn:E; try discriminate; intros [= <-].
  - split; [exact E|exact Hlx].
  - split; [reflexivity|]. unfold tok_lx, ctyp in *. rewrite E in Hlx. cbn [ty lit]. cbn [lit_ok] in Hlx.
    destruct Hlx as [H Hb]. unfold is_tf. rewrite Hb. cbn. split; assumption.
Qed.

(* ---- the walker keeps only lexable tokens ---------------------------------------------------- *)
Section FragWf.
Variable inp : list N.

(* state: remaining tokens lexable; a line-ending token is followed by EOL / nothing *)
Definition ender_next (s : wstate) : Prop :=
  match wprev s with
  | Some p => ends_line_ty (ty p) = true -> next_type s = EOL \/ next_type s = EOF
  | None => True
  end.
Definition tinv (s : wstate) : Prop :=
  Forall tok_lx (wrest s) /\ line_enders (wrest s) /\ ender_next s.

Lemma line_enders_app : forall a b, line_enders (a ++ b) ->
  line_enders b /\ forall p, last (map Some a) None = Some p ->
                   (ty p = COMMENT \/ ty p = DESCRIPTION -> match b with [] => True | u :: _ => ty u = EOL end).
Proof.
  induction a as [|x r IH]; intros b H; [split; [exact H|intros p Hp; discriminate]|].
  cbn [app line_enders] in H. destruct H as [H1 H2]. destruct (IH b H2) as [A B]. split; [exact A|].
  intros p Hp. cbn [map] in Hp. rewrite last_cons_dflt in Hp. destruct r as [|y r'].
  - cbn in Hp. injection Hp as <-. exact H1.
  - apply B. cbn [map] in *. rewrite last_cons_dflt in *.
    clear - Hp. revert y Hp. induction r' as [|z r'' IHr]; intros y Hp; [exact Hp|].
    cbn [map] in *. rewrite last_cons_dflt in *. apply IHr. exact Hp.
Qed.

Lemma ends_line_ty_spec t : ends_line_ty t = true <-> t = COMMENT \/ t = DESCRIPTION.
Proof. destruct t; cbn; split; intros H; try discriminate; auto; destruct H; discriminate. Qed.

Lemma wstep_tinv s s' : wstep inp s s' -> tinv s -> tinv s'.
Proof.
  intros H (A & B & C). destruct (ws_cons _ _ _ H) as (c & Hc & Hp).
  rewrite Hc in A, B. apply Forall_app in A. destruct A as [_ A].
  destruct (line_enders_app c (wrest s') B) as [B1 B2].
  split; [exact A|]. split; [exact B1|].
  unfold ender_next. rewrite Hp. destruct c as [|x c'].
  - cbn. cbn in Hc. unfold ender_next in C. destruct (wprev s) as [p|]; [|exact I].
    intros Hp'. specialize (C Hp'). unfold next_type in *. rewrite Hc in C. exact C.
  - destruct (last (map Some (x :: c')) (wprev s)) as [p|] eqn:El; [|exact I].
    intros He. apply ends_line_ty_spec in He.
    assert (El' : last (map Some (x :: c')) None = Some p).
    { clear - El. cbn [map] in *. rewrite last_cons_dflt in *. exact El. }
    specialize (B2 p El' He). unfold next_type. destruct (wrest s') as [|u r]; [right; reflexivity|left; exact B2].
Qed.

Lemma pop_lx s t s' : tinv s -> pop_token s = WOk t s' -> next_type s <> EOF -> tok_lx t.
Proof.
  intros (A & _) E Hn. unfold pop_token, next_type in *. destruct (wrest s) as [|t0 r]; [congruence|].
  inversion E; subst. inversion A; assumption.
Qed.

Lemma pop_ident_lx s i s' : wst_ok inp s -> wlive s -> tinv s -> pop_ident s = WOk i s' -> id_ok i.
Proof.
  intros Hok Hl Ht. unfold pop_ident.
  destruct (pop_token_spec inp s Hok Hl) as (t & s1 & E & _ & _ & Hty & _).
  rewrite E. cbn [wbind]. destruct (as_ident t) as [i0|] eqn:Ei; [|discriminate]. intros [= <- _].
  apply (as_ident_lx t); [|exact Ei]. apply (pop_lx s t s1 Ht E). rewrite <- Hty.
  unfold as_ident in Ei. destruct (ty t); discriminate.
Qed.

Lemma pop_reference_loop_lx : forall fuel acc s r s', wst_ok inp s -> wlive s -> tinv s -> Forall id_ok acc ->
  pop_reference_loop fuel acc s = WOk r s' -> Forall id_ok r.
Proof.
  induction fuel as [|f IH]; intros acc s r s' Hok Hl Ht Ha; cbn [pop_reference_loop]; [discriminate|].
  destruct (pop_ident s) as [i s1|t wet s1|p|] eqn:E; try discriminate.
  - pose proof (pop_ident_lx s i s1 Hok Hl Ht E) as Hi.
    destruct (pop_ident_pne inp s i s1 Hok Hl E) as [_ Hst].
    assert (Ha' : Forall id_ok (acc ++ [i])) by (apply Forall_app; split; [exact Ha|constructor; [exact Hi|constructor]]).
    destruct (tt_eqb (next_type s1) DOT).
    + destruct (pop_token_spec inp s1 (ws_ok _ _ _ Hst) (wstep_live _ _ _ Hst)) as (t2 & s2 & E2 & Hst2 & _).
      rewrite E2. cbn [wbind]. apply IH; [apply Hst2|eapply wstep_live; eauto| |exact Ha'].
      eapply wstep_tinv; [exact Hst2|]. eapply wstep_tinv; eauto.
    + intros [= <- _]. exact Ha'.
  - destruct acc; discriminate.
Qed.

Lemma pop_reference_lx s r s' : wst_ok inp s -> wlive s -> tinv s ->
  next_type s = IDENT \/ next_type s = BOOL -> pop_reference s = WOk r s' -> ref_ok r.
Proof.
  intros Hok Hl Ht Hn E. split.
  - pose proof (pop_reference_spec inp s Hok Hl Hn) as H. rewrite E in H. cbn in H. apply H.
  - eapply pop_reference_loop_lx; eauto.
Qed.

(* values *)
Definition value_lx_out (depth : N) (v : value) (s' : wstate) : Prop :=
  vlx v /\ (v_ends_line v = true -> next_type s' = EOL \/ next_type s' = EOF) /\
  depth + vdepth v <= max_value_depth.

Definition elems_depth (vs : list value) : N := fold_right (fun x m => N.max (vdepth x) m) 0 vs.
Lemma elems_depth_app a b : elems_depth (a ++ b) = N.max (elems_depth a) (elems_depth b).
Proof.
  induction a as [|x r IH]; cbn [app].
  - unfold elems_depth at 2. cbn. rewrite N.max_0_l. reflexivity.
  - unfold elems_depth in *. cbn [fold_right]. rewrite IH. rewrite N.max_assoc. reflexivity.
Qed.

Lemma pop_elems_lx pv (bound : nat) (d1 : N) op :
  (forall s2 v s3, wst_ok inp s2 -> wlive s2 -> tinv s2 -> (length (wrest s2) < bound)%nat -> pv s2 = WOk v s3 ->
                   value_lx_out d1 v s3 /\ wstep inp s2 s3) ->
  forall fuel2 acc s2 v s', wst_ok inp s2 -> wlive s2 -> tinv s2 -> (length (wrest s2) < bound)%nat ->
  Forall (fun v => vlx v /\ v_ends_line v = false) acc -> d1 + elems_depth acc <= max_value_depth ->
  pop_elems pv fuel2 op acc s2 = WOk v s' ->
  vlx v /\ v_ends_line v = false /\ exists vs, v = VArr vs (tstart op) (current_pos s') /\ d1 + elems_depth vs <= max_value_depth.
Proof.
  intros Hpv. induction fuel2 as [|f2 IH]; intros acc s2 v s' Hok Hl Ht Hb Hacc Hda; cbn [pop_elems]; [discriminate|].
  destruct (pv s2) as [v0 s3|t wet s3|p|] eqn:Ev; try discriminate. cbn [wbind].
  destruct (Hpv s2 v0 s3 Hok Hl Ht Hb Ev) as [(Hv0 & He0 & Hd0) H23].
  pose proof (wstep_tinv _ _ H23 Ht) as Ht3.
  destruct (pop_token_spec inp s3 (ws_ok _ _ _ H23) (wstep_live _ _ _ H23)) as (t4 & s4 & E4 & H34 & _).
  assert (Hne : tt_eqb (next_type s3) COMMA = true \/ tt_eqb (next_type s3) RBRACK = true -> v_ends_line v0 = false).
  { intros Hc. destruct (v_ends_line v0) eqn:Ee; [|reflexivity]. exfalso.
    destruct (He0 eq_refl) as [H|H]; rewrite H in Hc; destruct Hc as [Hc|Hc]; discriminate. }
  assert (Hda' : d1 + elems_depth (acc ++ [v0]) <= max_value_depth).
  { rewrite elems_depth_app. unfold elems_depth at 2. cbn. lia. }
  destruct (tt_eqb (next_type s3) COMMA) eqn:Ec.
  - rewrite E4. cbn [wbind]. apply IH; [apply H34|eapply wstep_live; eauto|eapply wstep_tinv; eauto| | |exact Hda'].
    + pose proof (ws_len _ _ _ H23). pose proof (ws_len _ _ _ H34). lia.
    + apply Forall_app. split; [exact Hacc|]. constructor; [|constructor]. split; [exact Hv0|]. apply Hne. auto.
  - destruct (tt_eqb (next_type s3) RBRACK) eqn:Eb; rewrite E4; cbn [wbind]; [|discriminate].
    intros [= <- <-]. split; [|split; [reflexivity|eexists; split; [reflexivity|exact Hda']]]. constructor.
    apply Forall_app. split; [exact Hacc|]. constructor; [|constructor]. split; [exact Hv0|]. apply Hne. auto.
Qed.

Lemma ender_after_pop s t s' : wst_ok inp s -> wlive s -> tinv s -> pop_token s = WOk t s' ->
  next_type s <> EOF -> ends_line_ty (ty t) = true -> next_type s' = EOL \/ next_type s' = EOF.
Proof.
  intros Hok Hl Ht E Hn He.
  destruct (pop_token_spec inp s Hok Hl) as (t0 & s0 & E0 & Hst & _). rewrite E in E0. injection E0 as <- <-.
  destruct (wstep_tinv _ _ Hst Ht) as (_ & _ & C). unfold ender_next in C.
  unfold pop_token, next_type in E, Hn. destruct (wrest s) as [|x r]; [congruence|]. inversion E; subst.
  cbn [wprev] in C. apply C. exact He.
Qed.

Lemma pop_value_lx : forall fuel depth s v s', wst_ok inp s -> wlive s -> tinv s -> (length (wrest s) < fuel)%nat ->
  depth <= max_value_depth ->
  pop_value fuel depth s = WOk v s' -> value_lx_out depth v s' /\ wstep inp s s'.
Proof.
  induction fuel as [|f IH]; intros depth s v s' Hok Hl Ht Hf Hdep; [lia|].
  intros E. split; [|apply (pop_value_out inp (S f) depth s v s' Hok Hl Hf E)].
  revert E. cbn [pop_value].
  destruct (tt_eqb (next_type s) IDENT) eqn:E1.
  { apply tt_eqb_true in E1.
    destruct (pop_reference s) as [r s1|t wet s1|p|] eqn:Er; try discriminate. cbn [wbind]. intros [= <- <-].
    split; [|split; [discriminate|cbn; lia]]. constructor; [|reflexivity]. unfold tok_lx, ctyp. cbn. exact I. }
  destruct (is_literal (next_type s)) eqn:E2.
  { destruct (pop_token s) as [t s1|t wet s1|p|] eqn:Et; try discriminate. cbn [wbind]. intros [= <- <-].
    assert (Hn : next_type s <> EOF) by (intros H; rewrite H in E2; discriminate).
    assert (Hty : ty t = next_type s).
    { destruct (pop_token_spec inp s Hok Hl) as (t0 & s0 & E0 & _ & _ & Hty & _). rewrite Et in E0. injection E0 as <- <-. exact Hty. }
    split; [|split; [|cbn; lia]].
    - constructor; [eapply pop_lx; eauto|]. rewrite Hty. apply tt_eqb_false in E1.
      destruct (next_type s); try discriminate; try reflexivity. congruence.
    - cbn [v_ends_line]. intros He. eapply ender_after_pop; eauto. }
  destruct (tt_eqb (next_type s) LBRACK) eqn:E3; cycle 1.
  { destruct (pop_token s); discriminate. }
  apply tt_eqb_true in E3.
  destruct (pop_token_spec inp s Hok Hl) as (op & s1 & E & Hst & Hin & Hty & Hlen & Hte).
  rewrite E. cbn [wbind].
  assert (Hr : wrest s <> []). { apply (next_type_not_eof inp); auto. rewrite E3. discriminate. }
  specialize (Hlen Hr).
  destruct (N.leb max_value_depth depth) eqn:Edep; [discriminate|]. apply N.leb_gt in Edep.
  destruct (tt_eqb (next_type s1) RBRACK) eqn:E4.
  { destruct (pop_token s1) as [t2 s2|t2 wet2 s2|p|] eqn:E2'; try discriminate. cbn [wbind]. intros [= <- <-].
    split; [constructor; constructor|split; [discriminate|cbn; lia]]. }
  intros E5.
  destruct (pop_elems_lx (pop_value f (N.succ depth)) f (N.succ depth) op) with (fuel2 := S (length (wrest s1))) (acc := @nil value)
    (s2 := s1) (v := v) (s' := s') as (Hv & Hel & vs & Hvs & Hdv); auto.
  - intros s2 v0 s3 Hok2 Hl2 Ht2 Hb Ev. eapply IH; eauto. lia.
  - apply Hst.
  - eapply wstep_live; eauto.
  - eapply wstep_tinv; eauto.
  - lia.
  - cbn. lia.
  - split; [exact Hv|]. split; [rewrite Hel; discriminate|]. subst v. cbn [vdepth]. fold (elems_depth vs). lia.
Qed.

Lemma pop_value_top_lx s v s' : wst_ok inp s -> wlive s -> tinv s -> pop_value_top s = WOk v s' ->
  value_lx_out 0 v s' /\ wstep inp s s'.
Proof. intros. apply (pop_value_lx (S (length (wrest s))) 0); auto. apply N.le_0_l. Qed.

(* a popped operator token has its one-rune literal *)
Lemma op_tok_lit t typ c : tok_lx t -> ty t = typ -> op_of c = Some typ ->
  (forall d, op_of d = Some typ -> d = c) -> typ = BANG \/ typ = QUESTION \/ typ = RBRACE -> lit t = [c].
Proof.
  unfold tok_lx, ctyp. intros H Ht Ho Huniq Hk. rewrite Ht in H.
  destruct Hk as [-> | [-> | ->]]; cbn [lit_ok] in H;
    destruct (lit t) as [|d [|d2 r]]; try contradiction; f_equal; apply Huniq; exact H.
Qed.

Lemma op_of_unique typ c : op_of c = Some typ -> forall d, op_of d = Some typ -> d = c.
Proof.
  unfold op_of, model_operators. cbn [assoc_N]. intros Hc d Hd.
  repeat (match type of Hc with context [N.eqb ?k c] => destruct (N.eqb k c) eqn:? end;
          [injection Hc as <-; 
           repeat (match type of Hd with context [N.eqb ?k d] => destruct (N.eqb k d) eqn:? end; [try discriminate; lia|]);
           discriminate|]).
  discriminate.
Qed.

Lemma pop_tag_lx s t s' : wst_ok inp s -> wlive s -> tinv s -> pop_tag s = WOk t s' -> tlx t.
Proof.
  intros Hok Hl Ht. unfold pop_tag.
  assert (Hafter : forall mk mt s0, wst_ok inp s0 -> wlive s0 -> tinv s0 -> mark_ok mk mt ->
    match next_type s0 with
    | IDENT | BOOL =>
      wbind (pop_reference s0) (fun r s1 => WOk (mkTag mk mt (TagRef r) (ref_start r) (ref_end r)) s1)
    | STRING =>
      wbind (pop_value_top s0) (fun v s1 => WOk (mkTag mk mt (TagVal v) (value_start v) (value_end v)) s1)
    | _ => wbind (pop_token s0) (fun t s1 => WErr t (Expected exp_tag) s1)
    end = WOk t s' -> tlx t).
  { intros mk mt s0 Hok0 Hl0 Ht0 Hm.
    assert (Hr : next_type s0 = IDENT \/ next_type s0 = BOOL ->
              wbind (pop_reference s0) (fun r s1 => WOk (mkTag mk mt (TagRef r) (ref_start r) (ref_end r)) s1) = WOk t s' -> tlx t).
    { intros Hn. destruct (pop_reference s0) as [r s1|t1 wet1 s1|p|] eqn:Er; try discriminate. cbn [wbind]. intros [= <- _].
      split; [exact Hm|]. cbn. eapply pop_reference_lx; eauto. }
    assert (Hd : wbind (pop_token s0) (fun t s1 => WErr (A:=tag) t (Expected exp_tag) s1) = WOk t s' -> tlx t).
    { destruct (pop_token s0); discriminate. }
    destruct (next_type s0) eqn:En; auto.
    unfold pop_value_top. cbn [pop_value]. rewrite En. cbn.
    destruct (pop_token s0) as [tk s1|tk wetk s1|p|] eqn:Et; try discriminate. cbn [wbind]. intros [= <- _].
    split; [exact Hm|]. cbn.
    destruct (pop_token_spec inp s0 Hok0 Hl0) as (t0 & s00 & E0 & _ & _ & Hty & _). rewrite Et in E0. injection E0 as <- <-.
    rewrite Hty. exact En. }
  pose proof (Hafter MarkNone None s Hok Hl Ht I) as Hnone.
  destruct (pop_token_spec inp s Hok Hl) as (t0 & s1 & E & Hst & _ & Hty0 & _).
  assert (Hmark : forall mk c, op_of c = Some (next_type s) -> next_type s <> EOF -> next_type s <> IDENT ->
      (mk = MarkBang /\ next_type s = BANG /\ c = 33 \/ mk = MarkQuestion /\ next_type s = QUESTION /\ c = 63) ->
      wbind (pop_token s) (fun t0 s1 =>
      match next_type s1 with
      | IDENT | BOOL =>
        wbind (pop_reference s1) (fun r s2 => WOk (mkTag mk (Some t0) (TagRef r) (ref_start r) (ref_end r)) s2)
      | STRING =>
        wbind (pop_value_top s1) (fun v s2 => WOk (mkTag mk (Some t0) (TagVal v) (value_start v) (value_end v)) s2)
      | _ => wbind (pop_token s1) (fun t s2 => WErr t (Expected exp_tag) s2)
      end) = WOk t s' -> tlx t).
  { intros mk c Hop Hne Hni Hmk. rewrite E. cbn [wbind].
    apply Hafter; [apply Hst|eapply wstep_live; eauto|eapply wstep_tinv; eauto|].
    assert (Hl0 : lit t0 = [c]).
    { apply (op_tok_lit t0 (next_type s) c); auto; [eapply pop_lx; eauto|apply op_of_unique; exact Hop|].
      destruct Hmk as [(_ & Hb & _)|(_ & Hq & _)]; auto. }
    destruct Hmk as [(-> & Hb & ->)|(-> & Hq & ->)]; cbn; rewrite Hty0; auto. }
  cbv zeta. destruct (next_type s) eqn:En; try exact Hnone.
  - apply (Hmark MarkBang 33); auto; discriminate.
  - apply (Hmark MarkQuestion 63); auto; discriminate.
Qed.

Lemma tags_loop_lx : forall fuel acc s ts s', wst_ok inp s -> wlive s -> tinv s -> Forall tlx acc ->
  tags_loop fuel acc s = WOk ts s' -> Forall tlx ts.
Proof.
  induction fuel as [|f IH]; intros acc s ts s' Hok Hl Ht Ha; cbn [tags_loop]; [discriminate|].
  destruct (can_start_tag (next_type s)); [|intros [= <- _]; exact Ha].
  pose proof (pop_tag_spec inp s Hok Hl) as Hs. unfold tag_res in Hs.
  destruct (pop_tag s) as [t s1|t wet s1|p|] eqn:Et; try discriminate. cbn [wbind]. cbn in Hs. destruct Hs as (Hst & _).
  apply IH; [apply Hst|eapply wstep_live; eauto|eapply wstep_tinv; eauto|].
  apply Forall_app. split; [exact Ha|constructor; [eapply pop_tag_lx; eauto|constructor]].
Qed.

Lemma quals_loop_lx : forall fuel acc s ts s', wst_ok inp s -> wlive s -> tinv s -> Forall tlx acc ->
  quals_loop fuel acc s = WOk ts s' -> Forall tlx ts.
Proof.
  induction fuel as [|f IH]; intros acc s ts s' Hok Hl Ht Ha; cbn [quals_loop]; [discriminate|].
  destruct (tt_eqb (next_type s) COLON); [|intros [= <- _]; exact Ha].
  destruct (pop_token_spec inp s Hok Hl) as (t0 & s0 & E & Hst & _).
  rewrite E. cbn [wbind].
  pose proof (pop_tag_spec inp s0 (ws_ok _ _ _ Hst) (wstep_live _ _ _ Hst)) as Hs. unfold tag_res in Hs.
  destruct (pop_tag s0) as [t s1|t wet s1|p|] eqn:Et; try discriminate. cbn [wbind]. cbn in Hs. destruct Hs as (Hst1 & _).
  pose proof (wstep_tinv _ _ Hst Ht) as Ht0.
  apply IH; [apply Hst1|eapply wstep_live; eauto|eapply wstep_tinv; eauto|].
  apply Forall_app. split; [exact Ha|constructor; [|constructor]].
  eapply pop_tag_lx; [apply Hst|eapply wstep_live; eauto|exact Ht0|exact Et].
Qed.

Lemma end_statement_lx s c s' : wst_ok inp s -> wlive s -> tinv s -> end_statement s = WOk c s' ->
  comment_lx c /\ (next_type s = EOL \/ next_type s = EOF -> c = None).
Proof.
  intros Hok Hl Ht. unfold end_statement.
  destruct (pop_token_spec inp s Hok Hl) as (t & s1 & E & Hst & _ & Hty & _).
  rewrite E. cbn [wbind].
  destruct (ty t) eqn:Et; try discriminate.
  - intros [= <- _]. split; [exact I|reflexivity].
  - intros [= <- _]. split; [exact I|reflexivity].
  - destruct (pop_token s1) as [t2 s2|t2 wet2 s2|p|]; try discriminate. cbn [wbind].
    destruct (ty t2); try discriminate; intros [= <- _]; (split; [|intros [H|H]; rewrite <- Hty in H; discriminate]);
      cbn; (assert (Hlx : tok_lx t) by (eapply pop_lx; eauto; rewrite <- Hty; discriminate));
      unfold tok_lx, ctyp in Hlx; rewrite Et in Hlx; exact Hlx.
Qed.

Lemma walk_value_assign_lx r app s f s' : wst_ok inp s -> wlive s -> tinv s -> ref_ok r ->
  walk_value_assign r app s = WOk f s' -> frag_lx f.
Proof.
  intros Hok Hl Ht Hr. unfold walk_value_assign.
  destruct (pop_token_spec inp s Hok Hl) as (t & s1 & E & Hst & _).
  rewrite E. cbn [wbind]. destruct (negb (tt_eqb (ty t) ASSIGN)); [discriminate|].
  pose proof (wstep_tinv _ _ Hst Ht) as Ht1.
  destruct (pop_value_top s1) as [v s2|t2 wet2 s2|p|] eqn:Ev; try discriminate. cbn [wbind].
  destruct (pop_value_top_lx s1 v s2 (ws_ok _ _ _ Hst) (wstep_live _ _ _ Hst) Ht1 Ev) as [(Hv & He & Hdp) H12].
  destruct (end_statement s2) as [c s3|t3 wet3 s3|p|] eqn:Ee; try discriminate. cbn [wbind].
  destruct (end_statement_lx s2 c s3 (ws_ok _ _ _ H12) (wstep_live _ _ _ H12) (wstep_tinv _ _ H12 Ht1) Ee) as [Hc Hn].
  intros [= <- _]. cbn [frag_lx alx akey avalue acomment]. split; [exact Hr|]. split; [exact Hv|]. split; [exact Hc|]. split; [|rewrite N.add_0_l in Hdp; exact Hdp].
  intros Hel. apply Hn. apply He. exact Hel.
Qed.

Lemma walk_statement_lx s f s' : wst_ok inp s -> wlive s -> tinv s ->
  next_type s = IDENT \/ next_type s = BOOL -> walk_statement s = WOk f s' -> frag_lx f.
Proof.
  intros Hok Hl Ht Hn. unfold walk_statement.
  pose proof (pop_reference_spec inp s Hok Hl Hn) as Href.
  destruct (pop_reference s) as [r s1|t wet s1|p|] eqn:Er; try discriminate. cbn [wbind]. cbn in Href.
  destruct Href as (H01 & _ & _).
  pose proof (pop_reference_lx s r s1 Hok Hl Ht Hn Er) as Hr.
  assert (Hok1 := ws_ok _ _ _ H01). assert (Hl1 := wstep_live _ _ _ H01). assert (Ht1 := wstep_tinv _ _ H01 Ht).
  destruct (tt_eqb (next_type s1) ASSIGN).
  { apply walk_value_assign_lx; assumption. }
  destruct (tt_eqb (next_type s1) PLUS).
  { destruct (pop_token_spec inp s1 Hok1 Hl1) as (t & s2 & E & H12 & _). rewrite E. cbn [wbind].
    destruct (negb (tt_eqb (next_type s2) ASSIGN)); [destruct (pop_token s2); discriminate|].
    apply walk_value_assign_lx; [apply H12|eapply wstep_live; eauto|eapply wstep_tinv; eauto|exact Hr]. }
  pose proof (tags_loop_spec inp (S (length (wrest s1))) [] s1 (hw s) Hok1 Hl1) as Hts.
  destruct (tags_loop (S (length (wrest s1))) [] s1) as [tags s2|t wet s2|p|] eqn:Et; try discriminate. cbn [wbind].
  destruct Hts as (A2 & Hok2 & Hl2 & _); [apply H01|constructor|lia|].
  pose proof (tags_loop_lx _ _ _ _ _ Hok1 Hl1 Ht1 (Forall_nil _) Et) as Htags.
  assert (Ht2 : tinv s2) by (destruct A2 as [->|A2]; [exact Ht1|eapply wstep_tinv; eauto]).
  pose proof (quals_loop_spec inp (S (length (wrest s2))) [] s2 (hw s2) Hok2 Hl2) as Hqs.
  destruct (quals_loop (S (length (wrest s2))) [] s2) as [quals s3|t wet s3|p|] eqn:Eq; try discriminate. cbn [wbind].
  destruct Hqs as (A3 & Hok3 & Hl3 & _); [apply pos_le_refl|constructor|lia|].
  pose proof (quals_loop_lx _ _ _ _ _ Hok2 Hl2 Ht2 (Forall_nil _) Eq) as Hquals.
  assert (Ht3 : tinv s3) by (destruct A3 as [->|A3]; [exact Ht2|eapply wstep_tinv; eauto]).
  destruct (pop_token_spec inp s3 Hok3 Hl3) as (t4 & s4 & E4 & H34 & _ & Hty4 & _).
  destruct (next_type s3) eqn:En3; try (rewrite E4; discriminate).
  - intros [= <- _]. cbn. split; [exact Hr|]. split; [exact Htags|]. split; [exact Hquals|]. split; exact I.
  - intros [= <- _]. cbn. split; [exact Hr|]. split; [exact Htags|]. split; [exact Hquals|]. split; exact I.
  - destruct (end_statement s3) as [c s5|t5 wet5 s5|p|] eqn:Ee; try discriminate. cbn [wbind].
    destruct (end_statement_lx s3 c s5 Hok3 Hl3 Ht3 Ee) as [Hc _].
    intros [= <- _]. cbn. split; [exact Hr|]. split; [exact Htags|]. split; [exact Hquals|]. split; [exact Hc|exact I].
  - rewrite E4. cbn [wbind]. intros [= <- _]. cbn. split; [exact Hr|]. split; [exact Htags|]. split; [exact Hquals|]. split; [exact I|].
    split; [|split; [reflexivity|split; reflexivity]].
    exists t4. split; [reflexivity|]. split; [exact Hty4|].
    eapply pop_lx; eauto. rewrite En3. discriminate.
  - rewrite E4. cbn [wbind].
    destruct (end_statement s4) as [c s5|t5 wet5 s5|p|] eqn:Ee; try discriminate. cbn [wbind].
    destruct (end_statement_lx s4 c s5 (ws_ok _ _ _ H34) (wstep_live _ _ _ H34) (wstep_tinv _ _ H34 Ht3) Ee) as [Hc _].
    intros [= <- _]. cbn. split; [exact Hr|]. split; [exact Htags|]. split; [exact Hquals|]. split; [exact Hc|exact I].
Qed.

Lemma pop_description_loop_lx : forall fuel acc s d s', wst_ok inp s -> wlive s -> tinv s ->
  next_type s = DESCRIPTION ->
  Forall (fun t => ty t = DESCRIPTION /\ tok_lx t) acc ->
  pop_description_loop fuel acc s = WOk d s' -> dlx d.
Proof.
  induction fuel as [|f IH]; intros acc s d s' Hok Hl Ht Hn Ha; cbn [pop_description_loop]; [discriminate|].
  destruct (pop_token_spec inp s Hok Hl) as (t & s1 & E & Hst & _ & Hty & _).
  rewrite E. cbn [wbind].
  assert (Hlx : tok_lx t) by (eapply pop_lx; eauto; rewrite Hn; discriminate).
  assert (Ha' : Forall (fun t => ty t = DESCRIPTION /\ tok_lx t) (acc ++ [t])).
  { apply Forall_app. split; [exact Ha|]. constructor; [|constructor]. split; [congruence|exact Hlx]. }
  destruct (tt_eqb (peek_type 0 s1) EOL && tt_eqb (peek_type 1 s1) DESCRIPTION)%bool eqn:Ep.
  - apply andb_true_iff in Ep. destruct Ep as [Ep0 Ep1]. apply tt_eqb_true in Ep1.
    destruct (pop_token_spec inp s1 (ws_ok _ _ _ Hst) (wstep_live _ _ _ Hst)) as (t2 & s2 & E2 & Hst2 & _).
    rewrite E2. cbn [wbind].
    apply IH; [apply Hst2|eapply wstep_live; eauto| | |exact Ha'].
    + eapply wstep_tinv; [exact Hst2|]. eapply wstep_tinv; eauto.
    + (* after popping the EOL the next token is the DESCRIPTION seen by peekType(1) *)
      rewrite peek_type_0 in Ep0. apply tt_eqb_true in Ep0.
      unfold pop_token in E2. unfold peek_type in Ep1. unfold next_type in *.
      destruct (wrest s1) as [|x r]; [discriminate|]. inversion E2; subst. cbn in *. destruct r; exact Ep1.
  - intros [= <- _]. split; [destruct acc; discriminate|]. split; [exact Ha'|reflexivity].
Qed.

Lemma next_fragment_lx s f s' : wst_ok inp s -> wlive s -> tinv s ->
  next_fragment s = WOk (Some f) s' -> frag_lx f.
Proof.
  intros Hok Hl Ht. unfold next_fragment.
  destruct (pop_token_spec inp s Hok Hl) as (t & s1 & E & Hst & _ & Hty & _).
  destruct (next_type s) eqn:En; try (rewrite E; discriminate).
  - destruct (walk_statement s) as [f0 s0|t0 wet0 s0|p|] eqn:Ew; try discriminate. cbn [wbind].
    intros [= <- _]. eapply walk_statement_lx; eauto.
  - destruct (walk_statement s) as [f0 s0|t0 wet0 s0|p|] eqn:Ew; try discriminate. cbn [wbind].
    intros [= <- _]. eapply walk_statement_lx; eauto.
  - rewrite E. cbn [wbind]. intros [= <- _]. cbn. split; [left; congruence|]. eapply pop_lx; eauto. rewrite En. discriminate.
  - rewrite E. cbn [wbind]. intros [= <- _]. cbn. split; [right; congruence|]. eapply pop_lx; eauto. rewrite En. discriminate.
  - unfold pop_description. destruct (pop_description_loop (S (length (wrest s))) [] s) as [d s0|t0 wet0 s0|p|] eqn:Ed; try discriminate.
    cbn [wbind]. intros [= <- _]. cbn. eapply pop_description_loop_lx; eauto.
  - rewrite E. cbn [wbind]. intros [= <- _]. cbn. split; [congruence|].
    assert (Hlx : tok_lx t) by (eapply pop_lx; eauto; rewrite En; discriminate).
    exact (op_tok_lit t RBRACE 125 Hlx Hty eq_refl (op_of_unique RBRACE 125 eq_refl) (or_intror (or_intror eq_refl))).
Qed.

Lemma walk_loop_lx : forall fuel s fs ds, wst_ok inp s -> tinv s -> (length (wrest s) < fuel)%nat ->
  walk_fragments_loop fuel true s = WalkOk fs ds -> Forall frag_lx fs.
Proof.
  induction fuel as [|f IH]; intros s fs ds Hok Ht Hf; [lia|].
  cbn [walk_fragments_loop].
  destruct (tt_eqb (next_type s) EOF) eqn:Ee; [intros [= <- _]; constructor|].
  apply tt_eqb_false in Ee.
  assert (Hr : wrest s <> []) by (apply (next_type_not_eof inp); auto).
  assert (Hl : wlive s) by (left; exact Hr).
  pose proof (next_fragment_spec inp s Hok Hl) as Hn.
  destruct (next_fragment s) as [fo s1|t wet s1|p|] eqn:En; cbn in Hn; try contradiction.
  - destruct Hn as (H01 & _ & Hlen). specialize (Hlen Hr).
    specialize (IH s1). destruct (walk_fragments_loop f true s1) as [fs1 ds1|p|] eqn:Ew; try discriminate.
    specialize (IH fs1 ds1 (ws_ok _ _ _ H01) (wstep_tinv _ _ H01 Ht) ltac:(lia) eq_refl).
    destruct fo as [fr|]; intros [= <- _]; [|exact IH].
    constructor; [eapply next_fragment_lx; eauto|exact IH].
  - intros [= <- _]. constructor.
Qed.
End FragWf.

(* what the formatter works on *)
Theorem collect_fragments_lx data fs : collect_fragments data = Ok fs -> Forall frag_lx fs.
Proof.
  unfold collect_fragments. pose proof (all_tokens_ok true data) as Hl.
  destruct (all_tokens true data) as [toks|ds|] eqn:El; try discriminate.
  pose proof (walk_fragments_spec data true toks (schain_chain _ _ _ Hl)) as Hw. unfold walk_fragments in *.
  destruct (walk_fragments_loop (S (length toks)) true (mkW toks None)) as [fs' ds|p|] eqn:Ew; try contradiction.
  destruct ds; [|discriminate]. intros [= <-].
  assert (Hok : wst_ok data (mkW toks None)).
  { split; [apply valid_pos0|]. split; [apply schain_chain, Hl|]. intros p Hp. discriminate. }
  assert (Hti : tinv (mkW toks None)).
  { split; [eapply all_tokens_lx; eauto|]. split; [eapply all_tokens_enders; eauto|exact I]. }
  apply (walk_loop_lx data (S (length toks)) (mkW toks None) fs' [] Hok Hti); [cbn; lia|exact Ew].
Qed.
